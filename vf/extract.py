"""Template processor: builds one Verus file per unit from /repo's *current* sources.

A unit template (vf/units/<unit>.rs) is ordinary Verus text plus directive lines starting with
`//@`.  Directives:

  //@INCLUDE <path relative to vf/>                         splice a shim / spec file
  //@EXTRACT <file> :: [<container> ::]* <kind> <name>      copy an item verbatim from /repo
  //@ OPTIONAL                       item may be missing (=> nothing emitted)  [rare]
  //@ RET <ident>                    name the return value      (R8)
  //@ SAFETY <label>                 label for implicit obligations of this function
  //@ SPEC / //@ ENDSPEC             text inserted between signature and body (R8)
  //@ LOOP <k> / //@ ENDLOOP         text inserted before the body of the k-th loop (R8)
  //@ BEFORE[#n] / //@ AT / //@ ENDBEFORE   text inserted before the n-th occurrence of the
  //@ AFTER[#n] / //@ AT / //@ ENDAFTER     token sequence given between the marker and AT
  //@ SUBST <rule>[#n|*] / //@ WITH / //@ ENDSUBST  token-sequence replacement (R3..R7,R9)
  //@ R10ENTRYPUSH <helper>          every `X.entry(K).and_modify(|v| v.push(E1)).or_insert_with(|| vec![E2]);` -> `helper(&mut X, K, E1, E2);`
  //@ BYTESTR                        R2: every byte-string literal b".." becomes `&[b0, b1, ..]` (same bytes, readable by Verus)
  //@ BODYONLY                       emit only the statements of the body (for R7 block lifts,
  //@                                together with FROM/TO anchors)
  //@ FROM / //@ ENDFROM, //@ TO / //@ ENDTO    first / last statement anchors of a block lift
  //@ CLOSUREBODY .method            R7: emit only the body of the one closure passed to `.method(|..| BODY)` in this function
  //@ SIGONLY                        emit the function's signature from the source + the SPEC, with an external_body (a neighbour by contract)
  //@ TOSTMT                         instead of TO: the block is the single statement that begins with the FROM tokens
  //@ STRIPATTRS                     (default for all items) remove #[..] attributes and docs (R1)
  //@END

Everything emitted from /repo is bracketed by markers so that the inverse transformation can be
checked: after generation, `verify_verbatim` strips the inserted pieces, undoes the
substitutions and compares the token stream with /repo's.  Any mismatch is an error (exit 2).
"""

import hashlib
import os
import re

from rsscan import LostAnchor, Source, lex, match_table, token_texts, OPEN

INS_O, INS_C = "/*@<*/", "/*@>*/"


class UnitError(Exception):
    pass


DEFAULT_FEATURES = {"embedded-domain-resolver", "full-regex-handling", "unsync-regex-caching"}


def eval_cfg(toks):
    """toks: token texts inside cfg( ... ). returns bool or None (unknown)."""
    pos = [0]

    def parse():
        t = toks[pos[0]]
        pos[0] += 1
        if t in ("not", "any", "all"):
            assert toks[pos[0]] == "("
            pos[0] += 1
            args = []
            while toks[pos[0]] != ")":
                args.append(parse())
                if toks[pos[0]] == ",":
                    pos[0] += 1
            pos[0] += 1
            if any(a is None for a in args):
                return None
            if t == "not":
                return not args[0]
            return any(args) if t == "any" else all(args)
        if t == "feature":
            assert toks[pos[0]] == "="
            v = toks[pos[0] + 1].strip('"')
            pos[0] += 2
            return v in DEFAULT_FEATURES
        if t == "target_pointer_width":
            v = toks[pos[0] + 1].strip('"')
            pos[0] += 2
            return v == "64"
        if t in ("test", "kani", "fuzzing"):
            return False
        if pos[0] < len(toks) and toks[pos[0]] == "=":
            pos[0] += 2
        return None

    return parse()


class Piece:
    """an edit on the original item text: insert at offset / replace range."""

    def __init__(self, off, end, text, kind, old=None, rule=None):
        self.off, self.end, self.text, self.kind, self.old, self.rule = off, end, text, kind, old, rule


def find_seq(toks, want, lo, hi):
    """all token indices k in [lo,hi) where toks[k:k+len(want)] texts equal want."""
    out = []
    n = len(want)
    for k in range(lo, hi - n + 1):
        if toks[k].text == want[0] and all(toks[k + d].text == want[d] for d in range(n)):
            out.append(k)
    return out


class Extractor:
    def __init__(self, repo, vfdir):
        self.repo, self.vfdir = repo, vfdir
        self.sources = {}
        self.stats = dict(R1=0, R2=0, R3=0, R4=0, R5=0, R6=0, R7=0, R8=0, R9=0)
        self.items = []  # evidence: dict(file,item,sha256,lines,rules)
        self.lifts = []
        self.missing_lifts = []
        self.stub = set()          # item names whose bodies are replaced by `unimplemented!()` (retry mode)
        self.all_ranges = []       # (first_line, last_line, kind, name, bodyonly)

    def source(self, rel):
        if rel not in self.sources:
            p = os.path.join(self.repo, rel)
            if not os.path.exists(p):
                raise LostAnchor("file %s missing" % rel)
            self.sources[rel] = Source(rel, open(p, encoding="utf-8").read())
        return self.sources[rel]

    # ------------------------------------------------------------------------------------
    def process(self, template_path):
        out, fn_ranges = [], []
        self._process_into(template_path, out, fn_ranges)
        return "\n".join(out) + "\n", fn_ranges

    def _process_into(self, template_path, out, fn_ranges):
        lines = open(template_path, encoding="utf-8").read().split("\n")
        i = 0
        while i < len(lines):
            ln = lines[i]
            s = ln.strip()
            if s.startswith("//@INCLUDE"):
                p = os.path.join(self.vfdir, s.split(None, 1)[1].strip())
                self._process_into(p, out, fn_ranges)
                i += 1
                continue
            if s.startswith("//@FIELDS"):
                out.extend(self.do_fields(s[len("//@FIELDS"):].strip()).split("\n"))
                i += 1
                continue
            if s.startswith("//@EXTRACT"):
                j = i + 1
                block = []
                while j < len(lines) and lines[j].strip() != "//@END":
                    block.append(lines[j])
                    j += 1
                if j >= len(lines):
                    raise UnitError("unterminated EXTRACT at line %d of %s" % (i + 1, template_path))
                text, safety, name = self.do_extract(s[len("//@EXTRACT"):].strip(), block)
                first = len(out) + 1
                out.extend(text.split("\n"))
                last = len(out)
                self.all_ranges.append((first, last, name, getattr(self, "_last_bodyonly", False), safety))
                if safety:
                    fn_ranges.append((first, last, safety, name))
                i = j + 1
                continue
            out.append(ln)
            i += 1

    # ------------------------------------------------------------------------------------
    def parse_block(self, block):
        """parse the directive block of an EXTRACT."""
        d = dict(ret=None, safety=None, spec=None, loops={}, loopstart={}, loopend={}, inserts=[], substs=[], bodyonly=False,
                 frm=None, to=None, optional=False, rename=None, pub=False, r4=False, replaces=[], pubfields=False, fnend=None, fnstart=None, attr=None, r4tail=False, frm_after=False, to_close=False, expand=[], maptail=False, closures=[], foreach=[], loophead=[], maporelse=False)
        i = 0

        def grab(endmarks):
            nonlocal i
            buf = []
            i += 1
            while i < len(block) and block[i].strip().split(" ")[0:2] != ["//@", endmarks[0]] and not any(
                    block[i].strip() == "//@ " + e for e in endmarks):
                buf.append(block[i])
                i += 1
            if i >= len(block):
                raise UnitError("unterminated block, wanted %s" % (endmarks,))
            mark = block[i].strip()[4:]
            return "\n".join(buf), mark

        while i < len(block):
            s = block[i].strip()
            if not s:
                i += 1
                continue
            if not s.startswith("//@ "):
                raise UnitError("stray text in EXTRACT block: %r" % s)
            w = s[4:].split()
            k = w[0]
            if k == "RET":
                d["ret"] = w[1]
            elif k == "SAFETY":
                d["safety"] = w[1]
            elif k == "OPTIONAL":
                d["optional"] = True
            elif k == "PUB":
                d["pub"] = True
            elif k == "ATTR":
                d["attr"] = block[i].strip()[len("//@ ATTR"):].strip()
            elif k == "R4":
                d["r4"] = True
            elif k == "PUBFIELDS":
                d["pubfields"] = True
            elif k == "R4TAIL":
                d["r4tail"] = True
            elif k == "EXPANDMACRO":
                d["expand"].append(w[1])
            elif k == "R10MAPTAIL":
                d["maptail"] = True
            elif k == "R10ENTRYPUSH":
                d["entrypush"] = w[1]
            elif k == "FOREACH":
                # //@ FOREACH <n> <iter-name> | //@ FOREACH @<iter-name> <key tokens of the closure body>
                txt, _ = grab(["ENDFOREACH"])
                if w[1].startswith("@"):
                    d["foreach"].append((" ".join(w[2:]), w[1][1:], txt))
                else:
                    d["foreach"].append((int(w[1]), w[2] if len(w) > 2 else "it", txt))
            elif k == "LOOPHEAD":
                # //@ LOOPHEAD @<iter-name> <key tokens>: name the ghost iterator of the `for` loop holding the key
                d["loophead"].append((" ".join(w[2:]), w[1][1:]))
            elif k in ("CLOSURE", "CLOSURE?"):
                # //@ CLOSURE <recv>.<method> | .<method>#n | @<key tokens>  /  head text  /  //@ ENDCLOSURE
                # `CLOSURE?`: the closure may be gone from the code (then nothing is annotated; see the unannotated-closure guard)
                txt, _ = grab(["ENDCLOSURE"])
                d["closures"].append((" ".join(w[1:]), txt.strip(), k.endswith("?")))
            elif k == "R10MAPORELSE":
                d["maporelse"] = True
            elif k == "BODYONLY":
                d["bodyonly"] = True
            elif k == "BYTESTR":
                d["bytestr"] = True
            elif k == "RENAME":
                d["rename"] = w[1]
            elif k == "SPEC":
                txt, _ = grab(["ENDSPEC"])
                d["spec"] = txt
            elif k == "LOOP":
                n = s.split("@", 2)[2].strip() if w[1].startswith("@") else int(w[1])
                txt, _ = grab(["ENDLOOP"])
                d["loops"][n] = txt
            elif k == "FNEND":
                txt, _ = grab(["ENDFNEND"])
                d["fnend"] = txt
            elif k == "FNSTART":
                txt, _ = grab(["ENDFNSTART"])
                d["fnstart"] = txt
            elif k == "LOOPSTART":
                n = s.split("@", 2)[2].strip() if w[1].startswith("@") else int(w[1])
                txt, _ = grab(["ENDLOOPSTART"])
                d["loopstart"][n] = txt
            elif k == "LOOPEND":
                n = s.split("@", 2)[2].strip() if w[1].startswith("@") else int(w[1])
                txt, _ = grab(["ENDLOOPEND"])
                d["loopend"][n] = txt
            elif k.startswith("BEFORE") or k.startswith("AFTER"):
                where = "before" if k.startswith("BEFORE") else "after"
                m = re.search(r"#(\d+)", k)
                occ = int(m.group(1)) if m else None
                anchor, _ = grab(["AT"])
                txt, _ = grab(["END" + ("BEFORE" if where == "before" else "AFTER")])
                d["inserts"].append((where, occ, anchor, txt))
            elif k == "SUBST":
                rule = w[1]
                m = re.match(r"(R\d)(?:#(\d+)|(\*))?$", rule)
                if not m:
                    raise UnitError("bad SUBST rule %r" % rule)
                old, _ = grab(["WITH"])
                new, _ = grab(["ENDSUBST"])
                d["substs"].append((m.group(1), int(m.group(2)) if m.group(2) else None, bool(m.group(3)), old, new))
            elif k == "REPLACE":
                rule = w[1]
                frm, _ = grab(["UPTO"])
                to, _ = grab(["WITH"])
                new, _ = grab(["ENDREPLACE"])
                d["replaces"].append((rule, frm, to, new))
            elif k == "FROM":
                d["frm"], _ = grab(["ENDFROM"])
            elif k == "FROMAFTER":
                d["frm"], _ = grab(["ENDFROMAFTER"])
                d["frm_after"] = True
            elif k == "TO":
                d["to"], _ = grab(["ENDTO"])
            elif k == "TOCLOSE":
                d["to"], _ = grab(["ENDTOCLOSE"])
                d["to_close"] = True
            elif k == "TOSTMT":
                d["to_stmt"] = True
            elif k == "SIGONLY":
                d["sigonly"] = True
            elif k == "CLOSUREBODY":
                d["closurebody"] = " ".join(w[1:])
            else:
                raise UnitError("unknown directive %r" % s)
            i += 1
        return d

    # ------------------------------------------------------------------------------------
    def do_extract(self, spec, block):
        parts = [p.strip() for p in spec.split("::")]
        # re-join rust paths inside containers: containers are separated by ' :: ' with spaces
        parts = [p.strip() for p in re.split(r"\s::\s", spec)]
        rel = parts[0]
        src = self.source(rel)
        d = self.parse_block(block)
        lo, hi = 0, len(src.toks)
        for cont in parts[1:-1]:
            if cont.startswith("fn "):
                itc = src.find_item("fn", cont[3:].strip(), lo, hi, cfg_eval=eval_cfg)
                lo, hi = itc["body_open"] + 1, itc["body_close"]
            else:
                o, c = src.find_container(cont, lo, hi)
                lo, hi = o + 1, c
        kind, name = parts[-1].split(None, 1)
        if kind == "bitflags":
            return self.do_bitflags(src, name, lo, hi), None, name
        try:
            if kind in ("impl", "trait"):
                o, c = src.find_container(parts[-1], lo, hi)
                # keyword token: walk back to the `impl`/`trait` keyword at depth 0
                k = o
                want0 = kind
                while not (src.toks[k].kind == "id" and src.toks[k].text == want0 and self._depth0(src, k, o)):
                    k -= 1
                s_, a_ = src.item_start(k, lo)
                it = dict(kw=k, start=s_, attr_start=a_, end=c, body_open=o, body_close=c)
            else:
                it = src.find_item(kind, name, lo, hi, cfg_eval=eval_cfg)
        except LostAnchor:
            if d["optional"]:
                return "", None, name
            raise
        toks = src.toks
        a, b = it["start"], it["end"]
        # cfg attributes on the item itself
        for k in range(it["attr_start"], it["start"]):
            if toks[k].text == "cfg" and toks[k - 1].text == "[":
                e = src.tbl[k + 1]
                val = eval_cfg([t.text for t in toks[k + 2:e]])
                if val is not True:
                    raise LostAnchor("%s %s is under cfg that is not active in the default feature set" % (kind, name))
        base = toks[a].start
        orig = src.text[base:toks[b].end]
        pieces = []
        rules = {}

        def bump(r, n=1):
            rules[r] = rules.get(r, 0) + n
            self.stats[r] += n

        # R1: strip attributes / docs inside the item
        k = a
        while k <= b:
            t = toks[k]
            if t.kind == "doc":
                pieces.append(Piece(t.start - base, t.end - base, "", "strip", old=t.text, rule="R1"))
                bump("R1")
            elif t.kind == "punct" and t.text == "#" and k + 1 <= b and toks[k + 1].text == "[":
                e = src.tbl[k + 1]
                inner = [x.text for x in toks[k + 2:e]]
                if inner and inner[0] == "cfg":
                    val = eval_cfg(inner[2:-1])
                    if val is None:
                        raise UnitError("%s: cfg attribute inside %s %s unknown: %s" % (rel, kind, name, " ".join(inner)))
                    if val is False:
                        # R1: drop the attribute together with the field / statement / block it guards
                        q = e + 1
                        # skip further attributes / docs
                        while toks[q].kind == "doc" or (toks[q].text == "#" and toks[q + 1].text == "["):
                            q = q + 1 if toks[q].kind == "doc" else src.tbl[q + 1] + 1
                        endq = q
                        while endq <= b:
                            tt = toks[endq]
                            if tt.kind == "punct" and tt.text in "([{":
                                endq = src.tbl[endq]
                                if tt.text == "{" :
                                    # a block item/statement ends at its closing brace unless followed by ',' / ';'
                                    if toks[endq + 1].text in (",", ";"):
                                        endq += 1
                                    break
                            elif tt.kind == "punct" and tt.text in ",;":
                                break
                            elif tt.kind == "punct" and tt.text in ")]}":
                                endq -= 1
                                break
                            endq += 1
                        pieces.append(Piece(t.start - base, toks[endq].end - base, "", "strip", old=src.text[t.start:toks[endq].end], rule="R1"))
                        bump("R1")
                        k = endq + 1
                        continue
                pieces.append(Piece(t.start - base, toks[e].end - base, "", "strip", old=src.text[t.start:toks[e].end], rule="R1"))
                bump("R1")
                k = e
            k += 1

        # R1 (visibility): pub(crate)/pub(super) -> pub  (single-file crate; visibility is not behaviour)
        for k in range(a, b - 2):
            if toks[k].text == "pub" and toks[k + 1].text == "(" and toks[k + 2].text in ("crate", "super") and toks[k + 3].text == ")":
                s0, s1 = toks[k].start - base, toks[k + 3].end - base
                pieces.append(Piece(s0, s1, "pub", "subst", old=orig[s0:s1], rule="R1"))
                bump("R1")

        if d["attr"]:
            pieces.append(Piece(0, 0, d["attr"] + "\n", "ins"))
            bump("R8")
        if d["pub"] and toks[a].text != "pub":
            pieces.append(Piece(0, 0, "pub ", "ins"))
            bump("R1")

        body_lo = it["body_open"]
        body_hi = it["body_close"]

        # tuple struct: `struct X(T, U);`
        if d["pubfields"] and kind == "struct" and body_lo is None:
            q = it["kw"] + 2
            if toks[q].text == "<":
                while toks[q].text != "(":
                    q += 1
            if toks[q].text == "(":
                pc = src.tbl[q]
                k2 = q + 1
                start_field = True
                while k2 < pc:
                    t = toks[k2]
                    if start_field:
                        if t.text != "pub":
                            o = t.start - base
                            pieces.append(Piece(o, o, "pub ", "ins"))
                            bump("R1")
                        start_field = False
                    if t.kind == "punct" and t.text in "([{" and k2 in src.tbl:
                        k2 = src.tbl[k2]
                    elif t.kind == "punct" and t.text == ",":
                        start_field = True
                    k2 += 1

        # R1 (visibility): make every field of a struct `pub` (single-file crate)
        if d["pubfields"] and kind == "struct" and body_lo is not None:
            q = body_lo + 1
            at_field_start = True
            while q < body_hi:
                t = toks[q]
                if at_field_start:
                    if t.kind == "doc":
                        q += 1
                        continue
                    if t.text == "#" and toks[q + 1].text == "[":
                        q = src.tbl[q + 1] + 1
                        continue
                    if t.text != "pub":
                        o = t.start - base
                        pieces.append(Piece(o, o, "pub ", "ins"))
                        bump("R1")
                    at_field_start = False
                if t.kind == "punct" and t.text in "([{<" and q in src.tbl:
                    q = src.tbl[q]
                elif t.kind == "punct" and t.text == ",":
                    # generic commas inside <..> are not tracked by the table: only split at depth of the body
                    at_field_start = self._angle_depth0(toks, body_lo + 1, q)
                q += 1

        # R2: byte-string literals spelled as the reference to the array of their bytes (Verus keeps the contents of b".." opaque)
        if d.get("bytestr"):
            import ast
            for q in range(a, b + 1):
                t = toks[q]
                if t.text.startswith('b"') and t.text.endswith('"'):
                    try:
                        val = ast.literal_eval(t.text)
                    except Exception:
                        raise UnitError("BYTESTR: cannot decode %s" % t.text)
                    s0, s1 = t.start - base, t.end - base
                    pieces.append(Piece(s0, s1, "&[" + ", ".join("%du8" % c for c in val) + "]", "subst", old=orig[s0:s1], rule="R2"))
                    bump("R2")

        # substitutions
        for (rule, occ, allocc, old, new) in d["substs"]:
            want = token_texts(old)
            if not want:
                raise UnitError("empty SUBST pattern")
            hits = find_seq(toks, want, a, b + 1)
            if not hits and rule in ("R5", "R6", "R9") and allocc:
                continue  # "replace every occurrence": none present is fine
            if not hits and rule in ("R5", "R6", "R9") and not allocc:
                # the lifted expression is gone from the code: verify what is there instead (a removed
                # or rewritten expression must still meet the function's contract; an unsupported
                # construct is rejected by Verus => undecided)
                self.missing_lifts.append("%s: %s lift anchor not found in %s %s: `%s`" % (rel, rule, kind, name, " ".join(want)[:100]))
                continue
            if not hits:
                raise LostAnchor("%s: SUBST pattern not found in %s %s: %s" % (rel, kind, name, " ".join(want)[:120]))
            if allocc:
                sel = hits
            elif occ is not None:
                if occ > len(hits):
                    raise LostAnchor("SUBST occurrence #%d missing: %s" % (occ, " ".join(want)[:80]))
                sel = [hits[occ - 1]]
            else:
                if len(hits) != 1:
                    raise LostAnchor("%s: SUBST pattern matches %d times in %s %s: %s" % (rel, len(hits), kind, name, " ".join(want)[:120]))
                sel = hits
            for h in sel:
                s0, s1 = toks[h].start - base, toks[h + len(want) - 1].end - base
                pieces.append(Piece(s0, s1, new.strip("\n"), "subst", old=orig[s0:s1], rule=rule))
                bump(rule)
                if rule in ("R5", "R6", "R7", "R9"):
                    line = src.text.count("\n", 0, toks[h].start) + 1
                    self.lifts.append("%s:%d %s `%s` -> `%s`" % (rel, line, rule, " ".join(want)[:100], " ".join(new.split())[:80]))

        # R10 (for_each): the n-th statement  `RECV.for_each(|PAT| { BODY });`  of the item becomes
        #   `for PAT in <it>: RECV invariant .. { BODY }`   (BODY has no return / break / continue / `?`, so running it as a
        # loop body is the same as running it as a closure per element)
        if d["foreach"]:
            fe = [k for k in range(a, b - 4) if toks[k].text == "." and toks[k + 1].text == "for_each" and toks[k + 2].text == "(" and toks[k + 3].text == "|"]
            def recv_start(kk):
                r0 = kk
                while True:
                    pt = toks[r0 - 1]
                    if pt.kind == "punct" and pt.text in (")", "]") and (r0 - 1) in src.tbl:
                        r0 = src.tbl[r0 - 1]
                        continue
                    if pt.kind == "punct" and pt.text in ("{", ";", "}"):
                        break
                    r0 -= 1
                return r0
            for (n, itname, inv) in d["foreach"]:
                if isinstance(n, str):
                    # the key may name the receiver as well as anything in the closure
                    want = token_texts(n)
                    cands = [kk for kk in fe if find_seq(toks, want, recv_start(kk), src.tbl[kk + 2] + 1)]
                    if len(cands) != 1:
                        raise LostAnchor("%s: FOREACH key `%s` matches %d for_each calls in %s %s" % (rel, " ".join(want)[:80], len(cands), kind, name))
                    k = cands[0]
                    n = fe.index(k) + 1
                else:
                    if n > len(fe):
                        raise LostAnchor("%s: FOREACH #%d: only %d `.for_each(|..|` calls in %s %s" % (rel, n, len(fe), kind, name))
                    k = fe[n - 1]
                q = k + 4
                while toks[q].text != "|":
                    q += 1
                pat = src.text[toks[k + 3].end:toks[q].start].strip()
                pc = src.tbl[k + 2]
                if toks[q + 1].text != "{" or src.tbl[q + 1] != pc - 1:
                    # expression closure `|PAT| EXPR)`: the loop body is `{ EXPR; }`
                    if toks[pc + 1].text != ";":
                        raise UnitError("FOREACH: expected `);` after the closure in %s %s" % (kind, name))
                    if any(toks[x].text in ("return", "break", "continue", "?") for x in range(q + 1, pc)):
                        raise UnitError("FOREACH: closure body of a for_each in %s %s has control flow that a loop body would change" % (kind, name))
                    r0 = k
                    while True:
                        pt = toks[r0 - 1]
                        if pt.kind == "punct" and pt.text in (")", "]") and (r0 - 1) in src.tbl:
                            r0 = src.tbl[r0 - 1]
                            continue
                        if pt.kind == "punct" and pt.text in ("{", ";", "}"):
                            break
                        r0 -= 1
                    o = toks[r0].start - base
                    pieces.append(Piece(o, o, "for %s in %s: " % (pat, itname), "ins"))
                    sect = dict(inv=[], start=[], end=[])
                    cur_s = "inv"
                    for ln in inv.split("\n"):
                        if ln.strip() == "//@ BODYSTART":
                            cur_s = "start"
                        elif ln.strip() == "//@ BODYEND":
                            cur_s = "end"
                        else:
                            sect[cur_s].append(ln)
                    s0, s1 = toks[k].start - base, toks[q].end - base
                    pieces.append(Piece(s0, s1, "\n" + "\n".join(sect["inv"]).rstrip("\n") + "\n{\n" + "\n".join(sect["start"]), "subst", old=orig[s0:s1], rule="R6"))
                    s0, s1 = toks[pc].start - base, toks[pc + 1].end - base
                    pieces.append(Piece(s0, s1, ";\n" + "\n".join(sect["end"]) + "\n}", "subst", old=orig[s0:s1], rule="R6"))
                    bump("R6")
                    line = src.text.count("\n", 0, toks[k].start) + 1
                    self.lifts.append("%s:%d R10 `X.for_each(|%s| e);` -> `for %s in X { e; }`" % (rel, line, pat, pat))
                    continue
                bo = q + 1
                bc = src.tbl[bo]
                if pc != bc + 1 or toks[pc + 1].text != ";":
                    raise UnitError("FOREACH: expected `});` after the closure body in %s %s" % (kind, name))
                if any(toks[x].text in ("return", "break", "continue", "?") for x in range(bo, bc)):
                    raise UnitError("FOREACH: closure body of for_each #%d in %s %s has control flow that a loop body would change" % (n, kind, name))
                # receiver start: walk back to the start of the statement
                r0 = k
                while True:
                    pt = toks[r0 - 1]
                    if pt.kind == "punct" and pt.text in (")", "]") and (r0 - 1) in src.tbl:
                        r0 = src.tbl[r0 - 1]
                        continue
                    if pt.kind == "punct" and pt.text in ("{", ";", "}"):
                        break
                    if pt.kind in ("comment", "doc"):
                        break
                    r0 -= 1
                o = toks[r0].start - base
                pieces.append(Piece(o, o, "for %s in %s: " % (pat, itname), "ins"))
                s0, s1 = toks[k].start - base, toks[bo].end - base
                # optional proof-only text at the start / end of the loop body (R8): sections after `//@ BODYSTART` / `//@ BODYEND`
                sect = dict(inv=[], start=[], end=[])
                cur_s = "inv"
                for ln in inv.split("\n"):
                    if ln.strip() == "//@ BODYSTART":
                        cur_s = "start"
                    elif ln.strip() == "//@ BODYEND":
                        cur_s = "end"
                    else:
                        sect[cur_s].append(ln)
                pieces.append(Piece(s0, s1, "\n" + "\n".join(sect["inv"]).rstrip("\n") + "\n{\n" + "\n".join(sect["start"]), "subst", old=orig[s0:s1], rule="R6"))
                s0, s1 = toks[bc].start - base, toks[pc + 1].end - base
                # a block body that ends in a tail expression (of type ()) needs its `;` once something follows it
                lastt = bc - 1
                while toks[lastt].kind in ("comment", "doc"):
                    lastt -= 1
                semi = "" if toks[lastt].text in (";", "}", "{") else ";"
                pieces.append(Piece(s0, s1, semi + "\n" + "\n".join(sect["end"]) + "\n}", "subst", old=orig[s0:s1], rule="R6"))
                bump("R6")
                line = src.text.count("\n", 0, toks[k].start) + 1
                self.lifts.append("%s:%d R10 `X.for_each(|%s| {..});` -> `for %s in X {..}`" % (rel, line, pat, pat))

        # R10 (map/or_else statement): the statement  `X.map(|v| { A }).or_else(|| { B None });`  (value discarded, closures mutate
        # captured locals) becomes  `match X { Some(v) => { A } None => { B } }`.  Side conditions checked: X is a plain identifier that
        # starts a statement, the whole expression is the statement, A and B contain no return / break / continue / `?`, and the
        # or_else closure ends with the tail expression `None`.
        if d["maporelse"]:
            hits = [k for k in range(a, b - 8) if toks[k].kind == "id" and toks[k + 1].text == "." and toks[k + 2].text == "map" and toks[k + 3].text == "("
                    and toks[k + 4].text == "|" and toks[k + 5].kind == "id" and toks[k + 6].text == "|" and toks[k + 7].text == "{"
                    and toks[k - 1].text in ("{", ";", "}")]
            hits = [k for k in hits if toks[src.tbl[k + 3] + 1].text == "." and toks[src.tbl[k + 3] + 2].text == "or_else"]
            if len(hits) != 1:
                raise LostAnchor("%s: R10MAPORELSE: `X.map(|v| {..}).or_else(|| {..})` statement found %d times in %s %s" % (rel, len(hits), kind, name))
            k = hits[0]
            x, v = toks[k].text, toks[k + 5].text
            ao, ac = k + 7, src.tbl[k + 7]
            mc = src.tbl[k + 3]
            if mc != ac + 1:
                raise UnitError("R10MAPORELSE: unexpected tokens after the map closure")
            oo = mc + 3
            if toks[oo].text != "(":
                raise UnitError("R10MAPORELSE: malformed or_else")
            oc = src.tbl[oo]
            q = oo + 1
            if toks[q].text == "||":
                q += 1
            elif toks[q].text == "|" and toks[q + 1].text == "|":
                q += 2
            else:
                raise UnitError("R10MAPORELSE: or_else closure must take no parameters")
            if toks[q].text != "{" or src.tbl[q] != oc - 1:
                raise UnitError("R10MAPORELSE: or_else closure body must be a block")
            bo, bc = q, src.tbl[q]
            if toks[bc - 1].text != "None" or toks[bc - 2].text not in (";", "}", "{"):
                raise UnitError("R10MAPORELSE: the or_else closure must end with the tail expression `None`")
            if toks[oc + 1].text != ";":
                raise UnitError("R10MAPORELSE: the expression is not a statement of its own")
            if any(toks[t].text in ("return", "break", "continue", "?") for t in list(range(ao, ac)) + list(range(bo, bc))):
                raise UnitError("R10MAPORELSE: closure bodies with control flow")
            s0, s1 = toks[k].start - base, toks[ao].end - base
            pieces.append(Piece(s0, s1, "match %s { Some(%s) => {" % (x, v), "subst", old=orig[s0:s1], rule="R6"))
            s0, s1 = toks[ac].start - base, toks[bo].end - base
            pieces.append(Piece(s0, s1, "} None => {", "subst", old=orig[s0:s1], rule="R6"))
            s0, s1 = toks[bc - 1].start - base, toks[oc + 1].end - base
            pieces.append(Piece(s0, s1, "} }", "subst", old=orig[s0:s1], rule="R6"))
            bump("R6")
            self.lifts.append("%s: fn %s: statement `%s.map(|%s| {..}).or_else(|| {.. None});` rewritten to a match (R10)" % (rel, name, x, v))

        # R8c: annotate the closure passed as the only argument of the unique call `recv.method(|x| ..)` in this item with a
        # typed parameter list and an `ensures` clause (proof-only text); an expression closure additionally gets braces.
        # The anchor is the call and the parameter name only, so an edit of the closure body keeps the anchor and is
        # checked against the clause.
        skipped_annotations = 0
        for (target, head, optional) in d["closures"]:
            if target.startswith("@"):
                # `@key tokens`: the call `<anything>.method(|x| ..)` whose closure holds the key token sequence (whatever the method)
                want = token_texts(target[1:])
                hits = [k - 1 for k in range(a + 1, b - 5) if toks[k].text == "." and toks[k + 1].kind == "id"
                        and toks[k + 2].text == "(" and toks[k + 3].text == "|" and toks[k + 4].kind == "id" and toks[k + 5].text == "|"
                        and find_seq(toks, want, k + 3, src.tbl[k + 2])]
            elif target.startswith("."):
                # `.method#n`: the n-th call `<anything>.method(|x| ..)` of the item, whatever the receiver expression
                meth, _, occn = target[1:].partition("#")
                hits = [k - 1 for k in range(a + 1, b - 5) if toks[k].text == "." and toks[k + 1].text == meth
                        and toks[k + 2].text == "(" and toks[k + 3].text == "|" and toks[k + 4].kind == "id" and toks[k + 5].text == "|"]
                n_occ = int(occn or 1)
                if n_occ > len(hits) or (not occn and len(hits) != 1):
                    raise LostAnchor("%s: CLOSURE anchor `%s` found %d times in %s %s" % (rel, target, len(hits), kind, name))
                hits = [hits[n_occ - 1]]
            else:
                recv, meth = target.split(".")
                hits = [k for k in range(a, b - 5) if toks[k].text == recv and toks[k + 1].text == "." and toks[k + 2].text == meth
                        and toks[k + 3].text == "(" and toks[k + 4].text == "|" and toks[k + 5].kind == "id" and toks[k + 6].text == "|"]
            if not hits and optional:
                skipped_annotations += 1
                self.missing_lifts.append("%s: optional closure annotation `%s` not applied in %s %s: no such closure in the code" % (rel, target, kind, name))
                continue
            if len(hits) != 1:
                raise LostAnchor("%s: CLOSURE anchor `%s(|x| ..)` found %d times in %s %s" % (rel, target, len(hits), kind, name))
            k = hits[0]
            pc = src.tbl[k + 3]
            s0, s1 = toks[k + 4].start - base, toks[k + 6].end - base
            pieces.append(Piece(s0, s1, head.replace("$x", toks[k + 5].text), "subst", old=orig[s0:s1], rule="R8"))
            bump("R8")
            if not (toks[k + 7].text == "{" and src.tbl[k + 7] == pc - 1):
                o = toks[k + 7].start - base
                pieces.append(Piece(o, o, "{ ", "ins"))
                o = toks[pc].start - base
                pieces.append(Piece(o, o, " }", "ins"))

        # R10 (entry push): every statement  X.entry(K).and_modify(|v| v.push(E1)).or_insert_with(|| vec![E2]);  (closure bodies with or
        # without braces) becomes  HELPER(&mut X, K, E1, E2);  - the two element expressions are kept as written, so a slip in either
        # is seen by the proof (the helper's contract: push E1 under a present key, else insert vec![E2]).  E1/E2 are evaluated
        # eagerly instead of inside the closures: the directive is only for pure element expressions (checked: no `?`, return, `=`).
        if d.get("entrypush"):
            helper = d["entrypush"]
            nfound = 0
            q = body_lo
            while q < body_hi - 12:
                if not (toks[q].kind == "id" and toks[q + 1].text == "." and toks[q + 2].text == "entry" and toks[q + 3].text == "(" and (q + 3) in src.tbl):
                    q += 1
                    continue
                kc = src.tbl[q + 3]
                t = kc + 1
                if not (toks[t].text == "." and toks[t + 1].text == "and_modify" and toks[t + 2].text == "(" and (t + 2) in src.tbl
                        and toks[t + 3].text == "|" and toks[t + 4].kind == "id" and toks[t + 5].text == "|"):
                    q += 1
                    continue
                amc = src.tbl[t + 2]
                vname = toks[t + 4].text
                b0, b1 = t + 6, amc - 1
                if toks[b0].text == "{" and src.tbl.get(b0) == b1:
                    b0, b1 = b0 + 1, b1 - 1
                    while toks[b1].text == ";":
                        b1 -= 1
                if not (toks[b0].text == vname and toks[b0 + 1].text == "." and toks[b0 + 2].text == "push" and toks[b0 + 3].text == "(" and src.tbl.get(b0 + 3) == b1):
                    q += 1
                    continue
                e1 = orig[toks[b0 + 4].start - base:toks[b1 - 1].end - base]
                t2 = amc + 1
                if not (toks[t2].text == "." and toks[t2 + 1].text == "or_insert_with" and toks[t2 + 2].text == "(" and (t2 + 2) in src.tbl
                        and toks[t2 + 3].text == "||" or (toks[t2 + 3].text == "|" and toks[t2 + 4].text == "|")):
                    q += 1
                    continue
                oic = src.tbl[t2 + 2]
                c0 = t2 + 4 if toks[t2 + 3].text == "||" else t2 + 5
                c1 = oic - 1
                if toks[c0].text == "{" and src.tbl.get(c0) == c1:
                    c0, c1 = c0 + 1, c1 - 1
                if not (toks[c0].text == "vec" and toks[c0 + 1].text == "!" and toks[c0 + 2].text == "[" and src.tbl.get(c0 + 2) == c1):
                    q += 1
                    continue
                e2 = orig[toks[c0 + 3].start - base:toks[c1 - 1].end - base]
                if toks[oic + 1].text != ";":
                    q += 1
                    continue
                if any(toks[x].text in ("?", "return", "=", "break", "continue") for x in list(range(b0, b1)) + list(range(c0, c1))):
                    raise UnitError("R10ENTRYPUSH: element expression is not pure in %s %s" % (kind, name))
                xname = toks[q].text
                kexpr = orig[toks[q + 4].start - base:toks[kc - 1].end - base]
                s0, s1 = toks[q].start - base, toks[oic + 1].end - base
                pieces.append(Piece(s0, s1, "%s(&mut %s, %s, %s, %s);" % (helper, xname, kexpr, e1, e2), "subst", old=orig[s0:s1], rule="R6"))
                bump("R6")
                line = src.text.count("\n", 0, toks[q].start) + 1
                self.lifts.append("%s:%d R10 `%s.entry(..).and_modify(|v| v.push(E1)).or_insert_with(|| vec![E2]);` -> `%s(&mut %s, .., E1, E2);`" % (rel, line, xname, helper, xname))
                nfound += 1
                q = oic + 1
            if nfound == 0:
                raise LostAnchor("%s: R10ENTRYPUSH: no entry/and_modify(push)/or_insert_with(vec!) statement in %s %s" % (rel, kind, name))

        # R10 (tail map): when the function's tail expression is  X.as_ref().map(|v| { BODY }).unwrap_or(D)  it is rewritten to
        #   match X.as_ref() { Some(v) => { BODY } None => D }
        # A `return e` inside BODY returns from the closure, whose value is the function's value: same result.
        if d["maptail"]:
            if kind != "fn":
                raise UnitError("R10MAPTAIL on a non-fn item")
            hits = [k for k in range(body_lo, body_hi - 8) if toks[k + 1].text == "." and toks[k + 2].text == "as_ref" and toks[k + 3].text == "(" and toks[k + 4].text == ")"
                    and toks[k + 5].text == "." and toks[k + 6].text == "map" and toks[k + 7].text == "(" and toks[k + 8].text == "|"]
            if len(hits) != 1:
                raise LostAnchor("%s: R10MAPTAIL: `X.as_ref().map(|v| {..})` found %d times in fn %s" % (rel, len(hits), name))
            k = hits[0]
            x = toks[k].text
            v = toks[k + 9].text
            if not (toks[k + 10].text == "|" and toks[k + 11].text == "{"):
                raise UnitError("R10MAPTAIL: closure must be `|v| { .. }`")
            bo = k + 11
            bc = src.tbl[bo]
            mp_close = src.tbl[k + 7]
            if mp_close != bc + 1:
                raise UnitError("R10MAPTAIL: unexpected tokens after the closure body")
            if not (toks[mp_close + 1].text == "." and toks[mp_close + 2].text == "unwrap_or" and toks[mp_close + 3].text == "("):
                raise LostAnchor("R10MAPTAIL: `.unwrap_or(..)` not found after map(..) in fn %s" % name)
            uo = mp_close + 3
            uc = src.tbl[uo]
            dflt = src.text[toks[uo].end:toks[uc].start]
            # side condition: tail expression of the function (next token closes the fn body; start of statement)
            if uc + 1 != body_hi:
                raise UnitError("R10MAPTAIL: the expression is not the tail expression of fn %s" % name)
            if toks[k - 1].text not in ("{", ";", "}"):
                raise UnitError("R10MAPTAIL: the expression does not start a statement in fn %s" % name)
            # `return e` inside the closure becomes a return from the function: the same value, because the closure result
            # is the function result (Some(e).unwrap_or(d) == e); `?` would not be, so it must not occur
            if any(toks[q].text == "?" for q in range(bo, bc)):
                raise UnitError("R10MAPTAIL: `?` inside the closure of fn %s" % name)
            s0, s1 = toks[k].start - base, toks[bo].end - base
            pieces.append(Piece(s0, s1, "match %s.as_ref() { Some(%s) => {" % (x, v), "subst", old=orig[s0:s1], rule="R6"))
            s0, s1 = toks[bc].start - base, toks[uc].end - base
            pieces.append(Piece(s0, s1, "} None => %s }" % dflt.strip(), "subst", old=orig[s0:s1], rule="R6"))
            self.lifts.append("%s: fn %s: tail `%s.as_ref().map(|%s| {..}).unwrap_or(%s)` rewritten to a match (R10)" % (rel, name, x, v, dflt.strip()))

        # R10: expansion of a function-local single-arm macro_rules! with ident parameters (the macro is defined in
        # the item itself; the expansion is computed from that definition on every run)
        for mname in d["expand"]:
            defs = [k for k in range(a, b) if toks[k].text == "macro_rules" and toks[k + 1].text == "!" and toks[k + 2].text == mname and toks[k + 3].text == "{"]
            if len(defs) != 1:
                raise LostAnchor("%s: macro_rules! %s defined %d times in %s %s" % (rel, mname, len(defs), kind, name))
            k0 = defs[0]
            mo, mc = k0 + 3, src.tbl[k0 + 3]
            # ( $a : ident , $b : ident ) => { body } [;]
            po = mo + 1
            if toks[po].text != "(":
                raise UnitError("EXPANDMACRO: unsupported macro shape")
            pc = src.tbl[po]
            params = [toks[q + 1].text for q in range(po + 1, pc) if toks[q].text == "$"]
            q = pc + 1
            if not (toks[q].text == "=" and toks[q + 1].text == ">" and toks[q + 2].text == "{"):
                raise UnitError("EXPANDMACRO: unsupported macro arm")
            bo, bc = q + 2, src.tbl[q + 2]
            if toks[bc + 1].text == ";":
                nxt = bc + 2
            else:
                nxt = bc + 1
            if nxt != mc:
                raise UnitError("EXPANDMACRO: macro %s has more than one arm" % mname)
            body_toks = toks[bo + 1:bc]
            s0, s1 = toks[k0].start - base, toks[mc].end - base
            pieces.append(Piece(s0, s1, "", "subst", old=orig[s0:s1], rule="R6"))
            stats_n = 0
            for k in range(a, b):
                if toks[k].text == mname and toks[k + 1].text == "!" and toks[k + 2].text == "(" and k != k0 + 2:
                    ao, ac = k + 2, src.tbl[k + 2]
                    args, curarg = [], []
                    for t in toks[ao + 1:ac]:
                        if t.text == ",":
                            args.append(" ".join(curarg)); curarg = []
                        else:
                            curarg.append(t.text)
                    if curarg:
                        args.append(" ".join(curarg))
                    if len(args) != len(params):
                        raise UnitError("EXPANDMACRO: arity mismatch for %s" % mname)
                    body_src = src.text[toks[bo].end:toks[bc].start]
                    exp_body = body_src
                    for pn, av in zip(params, args):
                        exp_body = re.sub(r"\$" + re.escape(pn) + r"\b", av, exp_body)
                    exp = "{ " + " ".join(exp_body.split()) + " }"
                    s0, s1 = toks[k].start - base, toks[ac].end - base
                    pieces.append(Piece(s0, s1, exp, "subst", old=orig[s0:s1], rule="R6"))
                    stats_n += 1
            self.lifts.append("%s: macro_rules! %s expanded in place at %d call sites (definition read from the source)" % (rel, mname, stats_n))
            bump("R6", 0)

        # range replacement (R7 block lift out of a function: the block becomes a call)
        for (rule, frm, to, newtxt) in d["replaces"]:
            wf, wt = token_texts(frm), token_texts(to)
            hf = find_seq(toks, wf, a, b + 1)
            if "#" in rule:
                rule, occn = rule.split("#")
                if int(occn) > len(hf):
                    raise LostAnchor("%s: REPLACE start anchor occurrence #%s missing in %s %s" % (rel, occn, kind, name))
                hf = [hf[int(occn) - 1]]
            if len(hf) != 1:
                raise LostAnchor("%s: REPLACE start anchor matches %d times in %s %s" % (rel, len(hf), kind, name))
            ht = [h for h in find_seq(toks, wt, hf[0], b + 1)]
            if not ht:
                raise LostAnchor("%s: REPLACE end anchor not found in %s %s" % (rel, kind, name))
            s0, s1 = toks[hf[0]].start - base, toks[ht[0] + len(wt) - 1].end - base
            pieces.append(Piece(s0, s1, newtxt.strip("\n"), "subst", old=orig[s0:s1], rule=rule))
            bump(rule)
            l1 = src.text.count("\n", 0, toks[hf[0]].start) + 1
            l2 = src.text.count("\n", 0, toks[ht[0]].start) + 1
            self.lifts.append("%s:%d-%d %s block replaced by `%s`" % (rel, l1, l2, rule, " ".join(newtxt.split())[:80]))

        self._last_bodyonly = bool(d["bodyonly"] or d["frm"] is not None or d.get("closurebody"))
        if kind == "fn" and d.get("sigonly") and body_lo is not None:
            # a neighbour that enters by its contract: the signature (parameter names and ORDER, types) is read from the source on
            # every run, so call sites bind their arguments the way the real function takes them; the body is not verified here
            s0, s1 = toks[body_lo].start - base, toks[body_hi].end - base
            pieces = [p_ for p_ in pieces if not (p_.off >= s0 and p_.end <= s1)]
            pieces.append(Piece(s0, s1, "{ unimplemented!() }", "subst", old=orig[s0:s1], rule="R6"))
            pieces.append(Piece(0, 0, "#[verifier::external_body]\n", "ins"))
            self.lifts.append("%s: fn %s enters by its stated contract (SIGONLY: signature from the source, body not verified in this unit)" % (rel, name))
        if kind == "fn" and name in self.stub and not self._last_bodyonly and body_lo is not None:
            # retry mode: this function could not be translated; keep its signature and contract, drop its body
            s0, s1 = toks[body_lo].start - base, toks[body_hi].end - base
            pieces = [p_ for p_ in pieces if not (p_.off >= s0 and p_.end <= s1)]
            pieces.append(Piece(s0, s1, "{ unimplemented!() }", "subst", old=orig[s0:s1], rule="R6"))
            pieces.append(Piece(0, 0, "#[verifier::external_body]\n", "ins"))
            d = dict(d, loops={}, loopstart={}, loopend={}, inserts=[], substs=[], replaces=[], fnend=None, fnstart=None, r4=False, r4tail=False)
            self.lifts.append("%s: fn %s STUBBED in retry mode (Verus rejected its body): its obligations are undecided" % (rel, name))
        if kind == "fn":
            if body_lo is None:
                raise UnitError("fn %s has no body" % name)
            # return naming
            sig_end = body_lo  # token index of '{'
            # where clause?
            where_k = None
            for k in range(it["kw"], body_lo):
                if toks[k].kind == "id" and toks[k].text == "where":
                    where_k = k
                    break
            if d["ret"]:
                # find '->' at depth 0 in signature
                arrow = None
                k = it["kw"]
                while k < body_lo:
                    if toks[k].kind == "punct" and toks[k].text in "([":
                        k = src.tbl[k] + 1
                        continue
                    if toks[k].text == "-" and toks[k + 1].text == ">" and toks[k + 1].start == toks[k].end:
                        arrow = k
                        break
                    k += 1
                if arrow is None:
                    raise UnitError("RET given but fn %s has no return type" % name)
                ty_lo = arrow + 2
                ty_hi = (where_k if where_k else body_lo) - 1
                pieces.append(Piece(toks[ty_lo].start - base, toks[ty_lo].start - base, "(%s: " % d["ret"], "ins"))
                pieces.append(Piece(toks[ty_hi].end - base, toks[ty_hi].end - base, ")", "ins"))
                bump("R8")
            if d["spec"] is not None:
                pieces.append(Piece(toks[body_lo].start - base, toks[body_lo].start - base, "\n" + d["spec"] + "\n", "ins"))
                bump("R8")
            # loops
            if d["loops"] or d["loopstart"] or d["loopend"] or d["loophead"]:
                loop_idx = []
                loop_kw = []
                k = body_lo + 1
                while k < body_hi:
                    t = toks[k]
                    if t.kind == "id" and t.text in ("for", "while", "loop"):
                        # skip `for<'a>` HRTB
                        if t.text == "for" and toks[k + 1].text == "<":
                            k += 1
                            continue
                        j = k + 1
                        while not (toks[j].kind == "punct" and toks[j].text == "{"):
                            if toks[j].kind == "punct" and toks[j].text in "([":
                                j = src.tbl[j]
                            j += 1
                        loop_idx.append(j)
                        loop_kw.append(k)
                    k += 1

                def resolve_loop(n):
                    """ordinal, or key: the innermost loop whose text contains the key token sequence"""
                    if isinstance(n, int):
                        if n > len(loop_idx):
                            raise LostAnchor("%s: fn %s has only %d loops, contract wants loop %d" % (rel, name, len(loop_idx), n))
                        return n - 1
                    outer = n.startswith("^")   # `@^key`: the OUTERMOST loop holding the key (default: the innermost)
                    want = token_texts(n[1:] if outer else n)
                    best = None
                    for li, (kw, op) in enumerate(zip(loop_kw, loop_idx)):
                        if find_seq(toks, want, kw, src.tbl[op] + 1):
                            size, bsize = (src.tbl[op] - kw), (None if best is None else src.tbl[loop_idx[best]] - loop_kw[best])
                            if best is None or (size > bsize if outer else size < bsize):
                                best = li
                    if best is None:
                        raise LostAnchor("%s: no loop of fn %s contains `%s`" % (rel, name, " ".join(want)[:80]))
                    return best
                for fld in ("loops", "loopstart", "loopend"):
                    d[fld] = dict((resolve_loop(n) + 1, txt) for n, txt in d[fld].items())
                for key, itname in d["loophead"]:
                    li = resolve_loop(key)
                    q = loop_kw[li] + 1
                    while q < loop_idx[li] and not (toks[q].kind == "id" and toks[q].text == "in"):
                        if toks[q].kind == "punct" and toks[q].text in "([":
                            q = src.tbl[q]
                        q += 1
                    if toks[loop_kw[li]].text != "for" or q >= loop_idx[li]:
                        raise UnitError("LOOPHEAD: loop holding `%s` is not a for loop" % key)
                    o = toks[q].end - base
                    pieces.append(Piece(o, o, " %s:" % itname, "ins"))
                    bump("R8")
                for n, txt in d["loops"].items():
                    o = toks[loop_idx[n - 1]].start - base
                    pieces.append(Piece(o, o, "\n" + txt + "\n", "ins"))
                    bump("R8")
                for n, txt in d["loopstart"].items():
                    o = toks[loop_idx[n - 1]].end - base
                    pieces.append(Piece(o, o, "\n" + txt + "\n", "ins"))
                    bump("R8")
                self._loop_idx = loop_idx
            for (where, occ, anchor, txt) in d["inserts"]:
                want = token_texts(anchor)
                hits = find_seq(toks, want, body_lo, body_hi + 1)
                if not hits or (occ is None and len(hits) != 1) or (occ is not None and occ > len(hits)):
                    raise LostAnchor("%s: insert anchor matches %d times in fn %s: %s" % (rel, len(hits), name, " ".join(want)[:120]))
                h = hits[(occ or 1) - 1]
                if where == "before":
                    o = toks[h].start - base
                else:
                    o = toks[h + len(want) - 1].end - base
                pieces.append(Piece(o, o, "\n" + txt + "\n", "ins"))
                bump("R8")

        # R4: guard-`continue` elimination:  if c { continue; } rest  ->  if c {} else { rest }
        if d["r4"]:
            n4 = 0
            for k in range(body_lo, body_hi):
                if toks[k].kind == "id" and toks[k].text == "continue":
                    if not (toks[k - 1].text in ("{", ";", "}") and toks[k + 1].text == ";" and toks[k + 2].text == "}" and toks[k + 3].text != "else"):
                        raise UnitError("R4: `continue` at %s is not the end of a guard of the form `if c { ..; continue; }`" % name)
                    # the guard must be a plain `if` directly in the loop body (its block is not itself an else-branch)
                    go = src.tbl[k + 2]
                    hq = go - 1
                    while hq > body_lo and not (toks[hq].kind == "punct" and toks[hq].text in "{};"):
                        if toks[hq].kind == "punct" and toks[hq].text in ")]":
                            hq = src.tbl[hq]
                        hq -= 1
                    if toks[hq + 1].text != "if":
                        raise UnitError("R4: the block ending in `continue` in %s is not a plain `if` guard" % name)
                    # enclosing block of the if statement (walk back from the guard's own opening brace)
                    depth, q = 0, src.tbl[k + 2] - 1
                    while q > body_lo:
                        if toks[q].kind == "punct" and toks[q].text in ")]}":
                            q = src.tbl[q]
                        elif toks[q].kind == "punct" and toks[q].text == "{":
                            break
                        q -= 1
                    encl_close = src.tbl[q]
                    s0, s1 = toks[k].start - base, toks[k + 1].end - base
                    pieces.append(Piece(s0, s1, "", "subst", old=orig[s0:s1], rule="R4"))
                    o = toks[k + 2].end - base
                    pieces.append(Piece(o, o, " else {", "ins"))
                    o2 = toks[encl_close].start - base
                    pieces.append(Piece(o2, o2, "}", "ins"))
                    bump("R4")
                    n4 += 1
            if n4 == 0:
                raise LostAnchor("R4 requested but fn %s has no `continue`" % name)

        if kind == "fn" and d["fnstart"] is not None:
            o = toks[body_lo].end - base
            pieces.append(Piece(o, o, "\n" + d["fnstart"] + "\n", "ins"))
            bump("R8")

        if kind == "fn" and d["fnend"] is not None:
            o = toks[body_hi].start - base
            pieces.append(Piece(o, o, "\n" + d["fnend"] + "\n", "ins"))
            bump("R8")

        if kind == "fn" and d["loopend"]:
            for n, txt in d["loopend"].items():
                o = toks[src.tbl[self._loop_idx[n - 1]]].start - base
                pieces.append(Piece(o, o, "\n" + txt + "\n", "ins"))
                bump("R8")

        # R4 (tail form): `continue;` that is the last statement of a branch of an if/else chain which is
        # itself the last statement of the loop body is a no-op and is removed
        if d["r4tail"]:
            n4 = 0
            for k in range(body_lo, body_hi):
                if toks[k].kind == "id" and toks[k].text == "continue":
                    if not (toks[k - 1].text in ("{", ";", "}") and toks[k + 1].text == ";" and toks[k + 2].text == "}"):
                        raise UnitError("R4TAIL: `continue` in %s is not the last statement of its block" % name)
                    pos = k + 2
                    depth_ok = False
                    while True:
                        # skip the rest of an if/else chain this block belongs to
                        while toks[pos + 1].text == "else":
                            q = pos + 2
                            while toks[q].text != "{":
                                if toks[q].kind == "punct" and toks[q].text in "([":
                                    q = src.tbl[q]
                                q += 1
                            pos = src.tbl[q]
                        # the chain must end its enclosing block
                        nxt = pos + 1
                        if toks[nxt].text != "}":
                            raise UnitError("R4TAIL: statements follow the if/else chain holding `continue` in %s" % name)
                        # is that enclosing block a loop body?  find its opener and the keyword that starts its header
                        o = src.tbl[nxt]
                        hdr = o - 1
                        is_loop = False
                        while hdr > body_lo:
                            if toks[hdr].kind == "punct" and toks[hdr].text in ")]":
                                hdr = src.tbl[hdr] - 1
                                continue
                            if toks[hdr].kind == "id" and toks[hdr].text in ("for", "while", "loop"):
                                is_loop = True
                                break
                            if toks[hdr].kind == "punct" and toks[hdr].text in "{};":
                                break
                            hdr -= 1
                        if is_loop:
                            depth_ok = True
                            break
                        # an if / if-let / else block: it must again be in tail position one level up
                        pos = nxt
                        if pos >= body_hi:
                            break
                    if not depth_ok:
                        raise UnitError("R4TAIL: `continue` in %s is not in tail position of a loop body" % name)
                    s0, s1 = toks[k].start - base, toks[k + 1].end - base
                    pieces.append(Piece(s0, s1, "", "subst", old=orig[s0:s1], rule="R4"))
                    bump("R4")
                    n4 += 1
            if n4 == 0:
                raise LostAnchor("R4TAIL requested but fn %s has no `continue`" % name)

        # block lifting: keep only [FROM .. TO] statements of the body
        cut_lo = cut_hi = None
        if d.get("closurebody"):
            # R7 (closure lift): the body of the one closure passed to `.METHOD(|..| BODY)` in this function becomes the body of a
            # wrapper function written in the template (its parameters are the closure's parameter and the captured variables)
            meth = d["closurebody"].lstrip(".")
            hits = [q for q in range(body_lo, body_hi - 3) if toks[q].text == "." and toks[q + 1].text == meth and toks[q + 2].text == "(" and toks[q + 3].text in ("|", "move")]
            if len(hits) != 1:
                raise LostAnchor("%s: CLOSUREBODY: `.%s(|..| ..)` found %d times in %s" % (rel, meth, len(hits), name))
            op = hits[0] + 2
            cl = src.tbl[op]
            q = op + 1
            if toks[q].text == "move":
                q += 1
            q += 1
            while toks[q].text != "|":
                q += 1
            b0, b1 = q + 1, cl - 1
            if toks[b0].text == "{" and src.tbl.get(b0) == b1:
                b0, b1 = b0 + 1, b1 - 1
            cut_lo = toks[b0].start - base
            cut_hi = toks[b1].end - base
            bump("R7")
            l1 = src.text.count("\n", 0, toks[b0].start) + 1
            self.lifts.append("%s:%d R7 body of the closure passed to `.%s(..)` in fn %s lifted into its own function" % (rel, l1, meth, name))
        elif d["frm"] is not None or d["bodyonly"]:
            if d["frm"] is not None:
                wf = token_texts(d["frm"])
                hf = find_seq(toks, wf, body_lo, body_hi)
                if d.get("to_stmt"):
                    # the block is the one statement that starts with the FROM tokens: up to its `;` (nesting skipped)
                    if len(hf) != 1:
                        raise LostAnchor("%s: statement anchor matches %d times in %s" % (rel, len(hf), name))
                    q = hf[0]
                    while q < body_hi and toks[q].text != ";":
                        if toks[q].kind == "punct" and toks[q].text in "([{" and q in src.tbl:
                            q = src.tbl[q]
                        q += 1
                    if q >= body_hi:
                        raise LostAnchor("%s: statement anchor in %s has no terminating `;`" % (rel, name))
                    ht, wt = [q], [";"]
                else:
                    wt = token_texts(d["to"])
                    ht = find_seq(toks, wt, body_lo, body_hi)
                if len(hf) != 1 or len(ht) != 1:
                    raise LostAnchor("%s: block anchors match %d/%d times in %s" % (rel, len(hf), len(ht), name))
                cut_lo = (toks[hf[0] + len(wf) - 1].end - base) if d["frm_after"] else (toks[hf[0]].start - base)
                if d["to_close"]:
                    last = ht[0] + len(wt) - 1
                    if toks[last].text != "{":
                        raise UnitError("TOCLOSE anchor must end with `{`")
                    cut_hi = toks[src.tbl[last]].end - base
                else:
                    cut_hi = toks[ht[0] + len(wt) - 1].end - base
                bump("R7")
                l1 = src.text.count("\n", 0, toks[hf[0]].start) + 1
                l2 = src.text.count("\n", 0, toks[ht[0]].start) + 1
                self.lifts.append("%s:%d-%d R7 block of fn %s lifted into its own function" % (rel, l1, l2, name))
            else:
                cut_lo = toks[body_lo].end - base
                cut_hi = toks[body_hi].start - base

        # unannotated-closure guard: when an optional closure annotation was not applied, every closure that is still in the item must
        # be covered by some rewrite (annotation, lift, for_each conversion); a bare closure would make proofs fail for lack of a
        # contract, not because the code is wrong => undecided, not a violation
        if skipped_annotations and body_lo is not None:
            covered = [(p_.off, p_.end) for p_ in pieces if p_.kind != "ins"]
            for q in range(body_lo, body_hi - 2):
                if toks[q].text == "|" and toks[q + 1].kind == "id" and toks[q + 2].text == "|" and toks[q - 1].text in ("(", ","):
                    o = toks[q].start - base
                    if not any(lo_ <= o < hi_ for (lo_, hi_) in covered):
                        raise LostAnchor("%s: an optional closure annotation was skipped and %s %s still holds an unannotated closure" % (rel, kind, name))

        # apply pieces (check no overlap between subst ranges; inserts inside subst are errors)
        pieces.sort(key=lambda p: (p.off, 0 if p.kind == "ins" else 1, -p.end))
        res = []
        cur = 0 if cut_lo is None else cut_lo
        limit = len(orig) if cut_hi is None else cut_hi
        last_end = cur
        for p in pieces:
            if p.off < cur:
                if p.off < last_end and p.kind != "ins" and p.end <= last_end:
                    continue  # strip nested in a subst
                if cut_lo is not None and p.off < cut_lo:
                    continue
                if p.kind == "strip":
                    continue
                raise UnitError("overlapping edits in %s %s at %d" % (kind, name, p.off))
            if p.off > limit:
                continue
            res.append(orig[cur:p.off])
            if p.kind == "ins":
                res.append(INS_O + p.text + INS_C)
            elif p.kind == "strip":
                res.append("/*@S R1*//*@E %s*/" % _enc(p.old))
            else:
                res.append("/*@S %s*/" % p.rule + p.text + "/*@E %s*/" % _enc(p.old))
            cur = max(cur, p.end)
            last_end = cur
        res.append(orig[cur:limit])
        text = "".join(res)

        if d["rename"]:
            # only used for block lifts: the wrapper is written in the template
            pass

        # verbatim check
        back = undo(text)
        want_text = orig if cut_lo is None else orig[cut_lo:cut_hi]
        if token_texts(back) != token_texts(want_text):
            raise UnitError("verbatim check failed for %s %s" % (kind, name))

        l1 = src.text.count("\n", 0, toks[a].start) + 1
        l2 = src.text.count("\n", 0, toks[b].end) + 1
        self.items.append(dict(file=rel, item="%s %s" % (kind, name), lines="%d-%d" % (l1, l2),
                               sha256=hashlib.sha256(want_text.encode()).hexdigest()[:16],
                               rules=rules, under_contract=bool(d["spec"] or d["safety"])))
        return text, d["safety"], name

    def do_fields(self, spec):
        """//@FIELDS <file> :: [<container> ::]* struct NAME AS ident
        Emits, computed from the struct TEXT of /repo: a spec fn `ident()` giving, per field in declaration
        order, (name with leading underscores removed, holds a HashMap/HashSet, carries a
        `serialize_with = ...stabilize_*` attribute)."""
        m = re.match(r"(.*)\sAS\s+(\w+)$", spec)
        path, ident = m.group(1).strip(), m.group(2)
        parts = [p.strip() for p in re.split(r"\s::\s", path)]
        src = self.source(parts[0])
        lo, hi = 0, len(src.toks)
        for cont in parts[1:-1]:
            if cont.startswith("fn "):
                itc = src.find_item("fn", cont[3:].strip(), lo, hi, cfg_eval=eval_cfg)
                lo, hi = itc["body_open"] + 1, itc["body_close"]
            else:
                o, c = src.find_container(cont, lo, hi)
                lo, hi = o + 1, c
        kind, name = parts[-1].split(None, 1)
        it = src.find_item(kind, name, lo, hi, cfg_eval=eval_cfg)
        toks = src.toks
        bo, bc = it["body_open"], it["body_close"]
        fields = []
        q = bo + 1
        attrs = []
        while q < bc:
            t = toks[q]
            if t.kind == "doc":
                q += 1
                continue
            if t.text == "#" and toks[q + 1].text == "[":
                e = src.tbl[q + 1]
                attrs.append(" ".join(x.text for x in toks[q + 2:e]))
                q = e + 1
                continue
            # field: [pub[(..)]] name : type ,
            if t.text == "pub":
                q += 1
                if toks[q].text == "(":
                    q = src.tbl[q] + 1
                continue
            fname = t.text
            assert toks[q + 1].text == ":", "field syntax at %s" % fname
            k = q + 2
            ty = []
            depth = 0
            while k < bc:
                tt = toks[k]
                if tt.text == "<":
                    depth += 1
                elif tt.text == ">" and toks[k - 1].text != "-":
                    depth -= 1
                elif tt.text in "([{" and k in src.tbl:
                    for z in range(k, src.tbl[k] + 1):
                        ty.append(toks[z].text)
                    k = src.tbl[k] + 1
                    continue
                elif tt.text == "," and depth == 0:
                    break
                ty.append(tt.text)
                k += 1
            is_hash = ("HashMap" in ty) or ("HashSet" in ty)
            stab = any("serialize_with" in a and "stabilize_" in a for a in attrs)
            skips = any(a.startswith("serde") and "skip" in a for a in attrs)
            fields.append((fname.lstrip("_"), is_hash, stab, skips))
            attrs = []
            q = k + 1
        self.items.append(dict(file=parts[0], item="fields of %s %s" % (kind, name), lines="%d" % (src.text.count("\n", 0, toks[it["kw"]].start) + 1),
                               sha256=hashlib.sha256(src.text[toks[it["start"]].start:toks[it["end"]].end].encode()).hexdigest()[:16], rules={}, under_contract=False))
        rows = ", ".join('("%s"@, %s, %s)' % (n, "true" if h else "false", "true" if st else "false") for (n, h, st, sk) in fields)
        skips = ", ".join("true" if sk else "false" for (n, h, st, sk) in fields)
        return ("// field list of `%s %s` computed from %s (leading underscores removed)\n"
                "pub open spec fn %s() -> Seq<(Seq<char>, bool, bool)> { seq![%s] }\n"
                "// per field: does a serde attribute let the field be skipped (skip, skip_serializing[_if], skip_deserializing)?\n"
                "pub open spec fn %s_skips() -> Seq<bool> { seq![%s] }") % (kind, name, parts[0], ident, rows, ident, skips)

    def _angle_depth0(self, toks, lo, q):
        """is the comma at q outside any <...> generic argument list (scanning from the field start)?"""
        # find start of the current field: previous ',' at angle depth 0 or lo
        d = 0
        k = q - 1
        while k >= lo:
            t = toks[k]
            if t.kind == "punct" and t.text == ">" and toks[k - 1].text != "-":
                d += 1
            elif t.kind == "punct" and t.text == "<":
                d -= 1
                if d < 0:
                    return False
            elif t.kind == "punct" and t.text == "," and d == 0:
                break
            k -= 1
        return d == 0

    def _depth0(self, src, k, o):
        """is token k at the same nesting depth as token o (k<o), with no group closing between"""
        d = 0
        for q in range(k, o):
            t = src.toks[q]
            if t.kind == "punct" and t.text in "([{":
                d += 1
            elif t.kind == "punct" and t.text in ")]}":
                d -= 1
                if d < 0:
                    return False
        return d == 0

    # ------------------------------------------------------------------------------------
    def do_bitflags(self, src, name, lo, hi):
        """R2: bitflags! { pub struct NAME: u32 { const A = expr; ... } }  ->  plain consts whose
        numeric values are computed from the block."""
        toks = src.toks
        for k in src.find_macro_block("bitflags", lo, hi):
            o = k + 2
            c = src.tbl[o]
            inner = [t for t in toks[o + 1:c] if t.kind != "doc"]
            texts = [t.text for t in inner]
            if "struct" in texts and texts[texts.index("struct") + 1] == name:
                break
        else:
            raise LostAnchor("bitflags %s not found in %s" % (name, src.path))
        si = texts.index("struct")
        ty = texts[si + 3]
        # body of struct
        bo = None
        for q in range(o + 1, c):
            if toks[q].text == "{" and toks[q - 1].text == ty:
                bo = q
                break
        bc = src.tbl[bo]
        vals = {}
        order = []
        q = bo + 1
        while q < bc:
            t = toks[q]
            if t.kind == "doc":
                q += 1
                continue
            if t.text == "#":
                q = src.tbl[q + 1] + 1
                continue
            if t.text == "const":
                cname = toks[q + 1].text
                assert toks[q + 2].text == "="
                e = q + 3
                expr = []
                while toks[e].text != ";":
                    expr.append(toks[e].text)
                    e += 1
                vals[cname] = self._eval_flag(expr, vals, name)
                order.append(cname)
                q = e + 1
                continue
            raise UnitError("unexpected token in bitflags body: %r" % t)
        self.stats["R2"] += 1
        l1 = src.text.count("\n", 0, toks[k].start) + 1
        self.items.append(dict(file=src.path, item="bitflags %s" % name, lines="%d" % l1,
                               sha256=hashlib.sha256(src.text[toks[k].start:toks[c].end].encode()).hexdigest()[:16],
                               rules={"R2": 1}, under_contract=False))
        out = ["// R2: flags of `%s` computed from %s (bitflags! block at line %d)" % (name, src.path, l1),
               "impl %s {" % name]
        for cn in order:
            out.append("    pub const %s: %s = %s { bits: 0x%x };" % (cn, name, name, vals[cn]))
        out.append("}")
        out.append("pub open spec fn vf_all_flag_bits_%s() -> %s { 0x%x }" % (name, ty, _or(vals.values())))
        self.flag_values = getattr(self, "flag_values", {})
        self.flag_values[name] = vals
        return "\n".join(out)

    def _eval_flag(self, expr, vals, name):
        s = " ".join(expr)
        s = re.sub(r"Self : : (\w+) \. bits \( \)", lambda m: str(vals[m.group(1)]), s)
        s = re.sub(r"(\d[\d_]*)(u32|u8|u16|u64|usize)?", lambda m: m.group(1).replace("_", ""), s)
        s = s.replace("< <", "<<")
        if not re.fullmatch(r"[0-9x\s|<()&~+a-fA-F]+", s):
            raise UnitError("cannot evaluate flag expr %r" % s)
        return int(eval(s))


def _or(vs):
    r = 0
    for v in vs:
        r |= v
    return r


def _enc(s):
    return s.encode("utf-8").hex()


def _dec(s):
    return bytes.fromhex(s).decode("utf-8")


_ins_re = re.compile(re.escape(INS_O) + r".*?" + re.escape(INS_C), re.S)
_sub_re = re.compile(r"/\*@S R\d\*/.*?/\*@E ([0-9a-f]*)\*/", re.S)


def undo(text):
    # inserted text never contains marker comments itself
    t = _sub_re.sub(lambda m: _dec(m.group(1)), text)
    t = _ins_re.sub("", t)
    return t


def clean_markers(text):
    """the text handed to Verus: drop marker comments (keeps everything else)."""
    t = re.sub(r"/\*@S (R\d)\*/", "", text)
    t = re.sub(r"/\*@E [0-9a-f]*\*/", "", t)
    return t.replace(INS_O, "").replace(INS_C, "")
