// Model witness for C16's scoping clause over the SPELLINGS of a location (run on the real crate; a BOUNDED stand-in): "rules whose domain
// list covers the page's hostname (the hostname or a parent domain ..., or an entity form) ... minus everything excepted for that host".
// A hostname is case-insensitive and an IDN is the same name in Unicode and in punycode; the reference normalises a listed location with
// the `idna` crate and compares it, label-aligned, with the page's hostname (an entity `name.*` against the hostname without its public
// suffix).  (No page of the grid sits under a public suffix that is also the name of a listed entity: whether `example.*` covers
// `shop.example` is not something the statement settles.)
use adblock::{lists::ParseOptions, Engine};

fn norm(d: &str) -> String { idna::domain_to_ascii(d).unwrap() }
fn covers(listed: &str, host: &str, host_without_suffix: &str) -> bool {
    if let Some(e) = listed.strip_suffix(".*") { let n = norm(e); host_without_suffix == n || host_without_suffix.ends_with(&format!(".{n}")) }
    else { let n = norm(listed); host == n || host.ends_with(&format!(".{n}")) }
}

/// OBL C16.witness.model_location_spellings
#[test]
fn c16_locations_cover_in_any_spelling() {
    let names = ["example.com", "Example.COM", "EXAMPLE.COM", "sub.Example.com", "bücher.de", "BÜCHER.de", "xn--bcher-kva.de", "XN--BCHER-KVA.de", "Example.*", "example.*", "Bücher.*", "other.org"];
    // (page, hostname, hostname without its public suffix)
    let pages = [("https://example.com/", "example.com", "example"), ("https://sub.example.com/p", "sub.example.com", "sub.example"), ("https://xn--bcher-kva.de/", "xn--bcher-kva.de", "xn--bcher-kva"),
                 ("https://bücher.de/", "xn--bcher-kva.de", "xn--bcher-kva"), ("https://example.org/", "example.org", "example"), ("https://other.org/", "other.org", "other"), ("https://notexample.com/", "notexample.com", "notexample")];
    let mut bad = vec![];
    let mut n = 0;
    for (page, host, short) in pages {
        let hidden = |rules: &[String]| { let r = Engine::from_rules(rules, ParseOptions::default()).url_cosmetic_resources(page); (r.hide_selectors.contains(".ad"), r.exceptions.contains(".ad")) };
        for a in names {
            n += 1;
            let want = covers(a, host, short);
            let (h, _) = hidden(&[format!("{a}##.ad")]);
            if h != want { bad.push(format!("`{a}##.ad` on {page}: hidden must be {want}")); }
            let (h, x) = hidden(&["other.org,example.com,sub.example.com,xn--bcher-kva.de,example.org,notexample.com##.ad".to_string(), format!("{a}#@#.ad")]);
            if (h, x) != (!want, want) { bad.push(format!("`{a}#@#.ad` on {page}: unhidden must be {want} (hidden {h}, listed as exception {x})")); }
            for b in names {
                n += 1;
                let want = covers(a, host, short) && !covers(b, host, short);
                let (h, _) = hidden(&[format!("{a},~{b}##.ad")]);
                if h != want { bad.push(format!("`{a},~{b}##.ad` on {page}: hidden must be {want}")); }
            }
        }
    }
    assert!(n > 1000);
    assert!(bad.is_empty(), "{} of {n} cases: {:#?}", bad.len(), &bad[..bad.len().min(12)]);
}
