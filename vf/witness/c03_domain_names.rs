// Model witness for C03's initiator-domain clause (run on the real crate; a BOUNDED stand-in): "the initiator-domain list (a listed domain
// covers its subdomains, '~' entries exclude, exclusions win)" over the SPELLINGS a list author may use for a domain: any letter case,
// Unicode or punycode for an IDN.  A domain name is case-insensitive and an IDN is the same name in either form; the reference
// normalises a listed name with the `idna` crate (a dependency of the crate) and compares labels with the request's source hostname.
use adblock::{lists::ParseOptions, request::Request, Engine};

fn norm(d: &str) -> String { idna::domain_to_ascii(d).unwrap() }
fn covers(listed: &str, host: &str) -> bool { let n = norm(listed); host == n || host.ends_with(&format!(".{n}")) }

/// OBL C03.witness.model_domain_spellings
#[test]
fn c03_listed_domains_cover_in_any_spelling() {
    let names = ["example.com", "Example.COM", "EXAMPLE.COM", "sub.Example.com", "bücher.example", "BÜCHER.example", "Bücher.Example", "xn--bcher-kva.example", "XN--BCHER-KVA.example", "a.bücher.example", "other.org"];
    let sources = ["https://example.com/", "https://sub.example.com/p", "https://x.sub.example.com/", "https://xn--bcher-kva.example/", "https://bücher.example/", "https://a.xn--bcher-kva.example/", "https://other.org/", "https://notexample.com/"];
    let mut bad = vec![];
    let mut n = 0;
    for src in sources {
        let req = Request::new("https://cdn.test/ads.js", src, "script").unwrap();
        // the source's host in its normal form (lower case, punycode)
        let host = url::Url::parse(src).unwrap().host_str().unwrap().to_string();
        let verdict = |rule: &str| Engine::from_rules([rule], ParseOptions::default()).check_network_request(&req).matched;
        for a in names {
            n += 1;
            let want = covers(a, &host);
            if verdict(&format!("ads$domain={a}")) != want { bad.push(format!("`ads$domain={a}` from {src}: applies must be {want}")); }
            if verdict(&format!("ads$domain=~{a}")) != !want { bad.push(format!("`ads$domain=~{a}` from {src}: applies must be {}", !want)); }
            for b in names {
                n += 1;
                // a listed and an excluded name: included by `a`, and not excluded by `b` (exclusions win)
                let want = covers(a, &host) && !covers(b, &host);
                if verdict(&format!("ads$domain={a}|~{b}")) != want { bad.push(format!("`ads$domain={a}|~{b}` from {src}: applies must be {want}")); }
            }
        }
    }
    assert!(n > 1000);
    assert!(bad.is_empty(), "{} of {n} cases: {:#?}", bad.len(), &bad[..bad.len().min(12)]);
}

/// OBL C03.witness.unknown_source
#[test]
fn c03_a_request_without_a_known_source_comes_from_no_listed_domain() {
    // "A rule applies to a request only if every option on it is satisfied": with no (or an unparseable) source URL a positive
    // `$domain=` list is not satisfied, a purely negative one is - whatever bucket of the index the rule happens to live in (one
    // domain: indexed by the domain; several: by a pattern token; `||host` rules: by the host).  Regression inputs of the fix that made
    // check_options refuse a positive list for an unknown source (found by the rule-by-rule differential fuzz run).
    let cases = [("ads$domain=a.com", false), ("ads$domain=a.com|b.com", false), ("ads$domain=~a.com", true), ("ads$domain=a.com|~x.a.com", false), ("ads$domain=a.com,script", false),
                 ("||x.test^$domain=a.com", false), ("||x.test^$domain=a.com|b.com", false), ("||x.test^$domain=~a.com|~b.com", true), ("/ads$domain=a.com|b.com|c.com", false)];
    for (rule, applies) in cases {
        for src in ["", "not a url"] {
            for optimize in [false, true] {
                let e = Engine::from_rules_parametrised([rule, "zzz$domain=a.com|b.com"], ParseOptions::default(), true, optimize);
                let req = Request::new("https://x.test/ads", src, "script").unwrap();
                assert_eq!(e.check_network_request(&req).matched, applies, "`{rule}` for a request with source {src:?} (optimize={optimize})");
            }
        }
        // control: with a source in a.com the positive lists are satisfied
        if !applies {
            let req = Request::new("https://x.test/ads", "https://a.com/", "script").unwrap();
            assert!(Engine::from_rules([rule], ParseOptions::default()).check_network_request(&req).matched, "control `{rule}` from a.com");
        }
    }
}
