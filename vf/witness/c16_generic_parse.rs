// Witness inputs for C16/C17: cosmetic rules whose location list has no entry.  Fixed by e421879 (before it, `,#@#.ad` became a
// generic HIDE rule for `.ad`, `,##+js(foo)` a generic hide selector `foo`, `,##.a:style(..)` a generic hide of `.a`).
// Runs on the real crate, public API only.
use adblock::{lists::ParseOptions, Engine};
use std::collections::HashSet;

fn hides_nothing(rule: &str) {
    let e = Engine::from_rules([rule], ParseOptions::default());
    let r = e.url_cosmetic_resources("https://example.com/");
    assert!(r.hide_selectors.is_empty(), "{rule:?}: per-site hide selectors {:?}", r.hide_selectors);
    assert!(r.procedural_actions.is_empty(), "{rule:?}: procedural/actions {:?}", r.procedural_actions);
    let by_name = e.hidden_class_id_selectors(["ad", "a"], ["ad", "a"], &HashSet::new());
    assert!(by_name.is_empty(), "{rule:?}: class/id lookup returns {:?}", by_name);
}

/// OBL C17.cosmetic.parse.generic_is_hide
#[test]
fn c17_generic_rule_is_a_hide_rule() {
    // an exception / a scriptlet rule never turns into a generic hide selector
    for rule in [",#@#.ad", ",,#@##ad", ",##+js(foo)", ",#@#+js(foo)"] {
        hides_nothing(rule);
    }
}

/// OBL C17.cosmetic.parse.generic_is_plain
#[test]
fn c17_generic_rule_has_no_action() {
    // a styled / removing rule never turns into a generic hide selector
    for rule in [",##.a:style(color: red)", ",##.a:remove()", ",###a:remove-attr(x)"] {
        hides_nothing(rule);
    }
}

/// OBL C16.cosmetic.parse.no_double_negation
#[test]
fn c16_no_double_negation() {
    // `~host#@#sel` (an exception for everything but host) is refused for selectors and scriptlets alike
    for rule in ["~example.com#@#.ad", "~example.com#@#+js(foo)", "~example.*#@#+js(foo, bar)"] {
        let e = Engine::from_rules([rule], ParseOptions::default());
        for u in ["https://example.com/", "https://other.net/"] {
            let r = e.url_cosmetic_resources(u);
            assert!(r.hide_selectors.is_empty() && r.exceptions.is_empty() && r.injected_script.is_empty(), "{rule:?} at {u}: {:?}", r);
        }
    }
}
