// Witness histories for C13 "provided the resource is loaded" (the contracts of unit c13_store, run as concrete histories on the
// real crate through the public API): a refused resource leaves nothing behind; use_resources replaces the store.
use adblock::lists::ParseOptions;
use adblock::request::Request;
use adblock::resources::{MimeType, Resource, ResourceType};
use adblock::Engine;
use base64::{engine::Engine as _, prelude::BASE64_STANDARD};

fn res(name: &str, aliases: &[&str], body: &str) -> Resource {
    Resource {
        name: name.to_string(),
        aliases: aliases.iter().map(|a| a.to_string()).collect(),
        kind: ResourceType::Mime(MimeType::TextPlain),
        content: BASE64_STANDARD.encode(body),
        dependencies: vec![],
        permission: Default::default(),
    }
}
fn redirect(e: &Engine, url: &str) -> Option<String> {
    e.check_network_request(&Request::new(url, "https://example.com/", "script").unwrap()).redirect
}
fn data_url(body: &str) -> String { format!("data:text/plain;base64,{}", BASE64_STANDARD.encode(body)) }

/// OBL C13.store.failed_add_changes_nothing
#[test]
fn c13_refused_resource_leaves_nothing_behind() {
    let mut e = Engine::from_rules(["||a.test^$redirect=x-alias", "||b.test^$redirect=y-alias", "||c.test^$redirect=second"], ParseOptions::default());
    assert!(e.add_resource(res("first", &["y-alias"], "first")).is_ok());
    // refused: its second alias is taken; its first alias must not stay registered
    assert!(e.add_resource(res("second", &["x-alias", "y-alias"], "rejected")).is_err());
    assert_eq!(redirect(&e, "https://a.test/s.js"), None);
    assert_eq!(redirect(&e, "https://c.test/s.js"), None);
    // the same name loaded later without aliases: `x-alias` still names nothing
    assert!(e.add_resource(res("second", &[], "second")).is_ok());
    assert_eq!(redirect(&e, "https://a.test/s.js"), None);
    assert_eq!(redirect(&e, "https://c.test/s.js"), Some(data_url("second")));
    assert_eq!(redirect(&e, "https://b.test/s.js"), Some(data_url("first")));
    // refused because its NAME is an existing alias: nothing changes either
    assert!(e.add_resource(res("y-alias", &["z"], "no")).is_err());
    assert_eq!(redirect(&e, "https://b.test/s.js"), Some(data_url("first")));
}

/// OBL C13.engine.use_resources.replaces
#[test]
fn c13_use_resources_replaces_the_store() {
    let mut e = Engine::from_rules(["||a.test^$redirect=one", "||b.test^$redirect=two", "||c.test^$redirect=uno"], ParseOptions::default());
    e.use_resources([res("one", &["uno"], "v1"), res("two", &[], "two")]);
    assert_eq!(redirect(&e, "https://a.test/s.js"), Some(data_url("v1")));
    assert_eq!(redirect(&e, "https://c.test/s.js"), Some(data_url("v1")));
    e.use_resources([res("one", &[], "v2")]);
    assert_eq!(redirect(&e, "https://a.test/s.js"), Some(data_url("v2")));   // updated, not the old body
    assert_eq!(redirect(&e, "https://b.test/s.js"), None);                   // removed resources are gone
    assert_eq!(redirect(&e, "https://c.test/s.js"), None);                   // ... and so are their aliases
}

/// OBL C13.store.lookup
#[test]
fn c13_lookup_is_by_name_or_alias_only() {
    // "provided the resource is loaded": named by its name or one of its aliases - nothing else resolves
    let mut e = Engine::from_rules(["||a.test^$redirect=noop", "||b.test^$redirect=noop.js", "||c.test^$redirect=nooop.js", "||d.test^$redirect=NOOP.JS",
                                    "||e.test^$redirect-rule=tracker", "||e.test^", "||f.test^$redirect=alias1"], ParseOptions::default());
    e.use_resources([res("noop.js", &["alias1"], "noop"), res("tracker.js", &[], "tracker")]);
    assert_eq!(redirect(&e, "https://a.test/s.js"), None);
    assert_eq!(redirect(&e, "https://b.test/s.js"), Some(data_url("noop")));
    assert_eq!(redirect(&e, "https://c.test/s.js"), None);
    assert_eq!(redirect(&e, "https://d.test/s.js"), None);
    assert_eq!(redirect(&e, "https://e.test/s.js"), None);
    assert_eq!(redirect(&e, "https://f.test/s.js"), Some(data_url("noop")));
}

/// OBL C13.witness.redirect_value_text
#[test]
fn c13_redirect_value_is_the_whole_option_text() {
    // "the resource named by the ... redirect option": the name is the option's whole value up to the optional `:priority` suffix,
    // also when it contains '=' or ','-free punctuation
    let mut e = Engine::from_rules(["||a.test^$redirect=shim=v2.js:10", "||a.test^$redirect-rule=other.js:5", "||b.test^$redirect=shim", "||c.test^$redirect-rule=shim=v2.js",
                                    "||c.test^", "@@||c.test/x^$redirect-rule=shim"], ParseOptions::default());
    e.use_resources([res("shim=v2.js", &[], "v2"), res("other.js", &[], "other"), res("shim", &[], "plain")]);
    assert_eq!(redirect(&e, "https://a.test/s.js"), Some(data_url("v2")));
    assert_eq!(redirect(&e, "https://b.test/s.js"), Some(data_url("plain")));
    assert_eq!(redirect(&e, "https://c.test/x/s.js"), Some(data_url("v2")), "an exception for `shim` must not cancel `shim=v2.js`");
}

/// OBL C13.select.exception_names_the_resource
#[test]
fn c13_exception_cancels_the_resource_whatever_the_priority() {
    // "not cancelled by a matching redirect exception for the same resource" (fixed by d03f383: the exception list held whole option
    // values, so an exception without / with another priority suffix did not cancel)
    for (rules, want) in [
        (vec!["||x.test^$redirect=noop.js:10", "@@||x.test^$redirect-rule=noop.js"], None),
        (vec!["||x.test^$redirect=noop.js", "@@||x.test^$redirect-rule=noop.js:5"], None),
        (vec!["||x.test^$redirect=noop.js:10", "@@||x.test^$redirect-rule=noop.js:10"], None),
        (vec!["||x.test^$redirect=noop.js:10", "||x.test^$redirect=other.js:5", "@@||x.test^$redirect-rule=noop.js"], Some("other")),
        (vec!["||x.test^$redirect=noop.js:1", "||x.test^$redirect=other.js:5", "@@||x.test^$redirect-rule=other.js:9"], Some("noop")),
        (vec!["||x.test^$redirect=noop.js:10", "@@||x.test^$redirect-rule=other.js"], Some("noop")),
        (vec!["||x.test^$redirect=noop.js:-3", "||x.test^$redirect-rule=other.js:-7"], Some("noop")),
    ] {
        let mut e = Engine::from_rules(&rules, ParseOptions::default());
        e.use_resources([res("noop.js", &[], "noop"), res("other.js", &[], "other")]);
        assert_eq!(redirect(&e, "https://x.test/a.js"), want.map(data_url), "{rules:?}");
    }
}
