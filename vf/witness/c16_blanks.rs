// Witness inputs for C16 / C18 / C11 (run on the real crate): a rule line is the rule whatever blanks surround it - lists come with CRLF line
// ends, trailing spaces and indented lines.  For each kind of cosmetic rule (hide, unhide, action, scriptlet, blanket scriptlet exception)
// and for a network rule, the line with surrounding blanks must give what the bare line gives: through parse_filter-fed `add_filters`
// and through `add_filter_list` on a CRLF text.
use adblock::lists::{FilterSet, ParseOptions};
use adblock::request::Request;
use adblock::resources::{MimeType, Resource, ResourceType};
use adblock::Engine;

fn observe(lines: &[String], as_text: Option<&str>) -> (Vec<String>, Vec<String>, String, Vec<String>, bool) {
    let mut fs = FilterSet::new(true);
    match as_text { Some(sep) => { fs.add_filter_list(&lines.join(sep), ParseOptions::default()); } None => { fs.add_filters(lines.iter().map(|s| s.as_str()), ParseOptions::default()); } }
    let mut e = Engine::from_filter_set(fs, true);
    e.use_resources([Resource { name: "sc.js".into(), aliases: vec![], kind: ResourceType::Template, content: "c2Moe3sxfX0p".into(), dependencies: vec![], permission: Default::default() }]);
    let r = e.url_cosmetic_resources("https://example.com/");
    let mut hide: Vec<String> = r.hide_selectors.into_iter().collect(); hide.sort();
    let mut exc: Vec<String> = r.exceptions.into_iter().collect(); exc.sort();
    let mut acts: Vec<String> = r.procedural_actions.into_iter().collect(); acts.sort();
    let blocked = e.check_network_request(&Request::new("https://ads.example.net/x.js", "https://example.com/", "script").unwrap()).matched;
    (hide, exc, r.injected_script, acts, blocked)
}

/// OBL C16.witness.surrounding_blanks
#[test]
fn c16_a_rule_line_is_the_rule_whatever_blanks_surround_it() {
    let bare = ["example.com##.ad", "example.com##.b", "example.com#@#.b", "example.com##.c:style(color: red)", "example.com##+js(sc, one)", "example.com##+js(sc, two)", "example.com#@#+js(sc, two)",
                "||ads.example.net^$script", "##.generic-x > div", "example.com#@#.generic-x > div"];
    let want = observe(&bare.iter().map(|s| s.to_string()).collect::<Vec<_>>(), None);
    // controls: every kind of rule is live in the bare list
    assert!(want.0.contains(&".ad".to_string()) && want.1.contains(&".b".to_string()) && want.2.contains("one") && !want.2.contains("two") && !want.3.is_empty() && want.4, "{:?}", want);
    for (pre, post) in [(" ", ""), ("", " "), ("\t", "\t"), ("  ", "  "), ("", "\r"), (" ", " \r")] {
        let padded: Vec<String> = bare.iter().map(|s| format!("{pre}{s}{post}")).collect();
        assert_eq!(observe(&padded, None), want, "lines wrapped in {:?} .. {:?}, one by one", pre, post);
        assert_eq!(observe(&padded, Some("\n")), want, "lines wrapped in {:?} .. {:?}, as one text", pre, post);
    }
    let plain: Vec<String> = bare.iter().map(|s| s.to_string()).collect();
    assert_eq!(observe(&plain, Some("\r\n")), want, "a CRLF list");
    // and with the blanket scriptlet exception, with and without blanks: no injection at all
    for blanket in ["example.com#@#+js()", " example.com#@#+js() ", "example.com#@#+js()\r"] {
        let mut l = plain.clone(); l.push(blanket.to_string());
        assert_eq!(observe(&l, None).2, "", "{:?}", blanket);
    }
}
