// Witness inputs for C05 (run on the real crate): verdicts of an optimised and an unoptimised engine over one rule set and a grid of
// URLs, for rule groups that fuse (same options, shared bucket): plain patterns of very different lengths, anchored shapes, `^`
// separators, csp rules with different directives, tagged exceptions.  The fusion itself and the matchers' any-of reading are
// under contract (units c05_optimizer, c02_matchers); these inputs decide the property when a matcher is rewritten into a shape
// its contract is no longer anchored to.
use adblock::lists::{FilterSet, ParseOptions};
use adblock::request::Request;
use adblock::Engine;

fn engine(rules: &[&str], optimize: bool) -> Engine {
    let mut set = FilterSet::new(true);
    set.add_filters(rules, ParseOptions::default());
    Engine::from_filter_set(set, optimize)
}

/// OBL C05.witness.same_verdicts
#[test]
fn c05_optimised_and_plain_engines_agree() {
    let rules = [
        "/banners/leaderboardspringcollection728x90creativevariantb", "/banners/top", "/banners/x",
        "|https://a.io/start-of-a-very-long-left-anchored-pattern-that-exceeds-short-urls", "|https://a.io/s",
        "/long-right-anchored-pattern-that-exceeds-the-short-urls-by-far.gif|", "/t.gif|",
        "||a.io/hostname-anchored-pattern-that-is-rather-long/and-longer", "||a.io/h",
        "/sep^longer-than-the-url-longer-than-the-url-longer-than-the-url^", "/sep^s^",
        "/wild/*/longer-than-the-url-longer-than-the-url-longer-than-the-url", "/wild/*/w",
        "@@/banners/ok-but-this-exception-pattern-is-much-longer-than-the-urls", "@@/banners/ok",
        "/csp1$csp=script-src 'none'", "/csp1$csp=worker-src 'none'",
    ];
    let plain = engine(&rules, false);
    let optimised = engine(&rules, true);
    for url in [
        "https://a.io/banners/top", "https://a.io/banners/top.gif", "https://a.io/banners/x", "https://a.io/banners/ok", "https://a.io/banners/other.gif",
        "https://a.io/banners/leaderboardspringcollection728x90creativevariantb.gif",
        "https://a.io/s", "https://a.io/sx", "https://b.io/t.gif", "https://b.io/t.gifx", "https://a.io/h", "https://a.io/hx", "https://b.io/h",
        "https://b.io/sep/s/", "https://b.io/sep/s", "https://b.io/wild/1/w", "https://b.io/wild/w", "https://b.io/csp1",
    ] {
        for t in ["image", "script", "document"] {
            let req = Request::new(url, "https://news.example/", t).unwrap();
            let p = plain.check_network_request(&req);
            let o = optimised.check_network_request(&req);
            assert_eq!((p.matched, p.important, p.exception.is_some(), p.redirect, p.rewritten_url), (o.matched, o.important, o.exception.is_some(), o.redirect, o.rewritten_url),
                "verdict differs between the optimised and the unoptimised engine for {} ({})", url, t);
            let mut pc: Vec<String> = plain.get_csp_directives(&req).map(|s| s.split(',').map(String::from).collect()).unwrap_or_default();
            let mut oc: Vec<String> = optimised.get_csp_directives(&req).map(|s| s.split(',').map(String::from).collect()).unwrap_or_default();
            pc.sort(); oc.sort();
            assert_eq!(pc, oc, "csp directives differ for {} ({})", url, t);
        }
    }
    // controls: the short rules are live
    assert!(plain.check_network_request(&Request::new("https://a.io/banners/top", "https://news.example/", "image").unwrap()).matched);
    assert!(plain.check_network_request(&Request::new("https://b.io/t.gif", "https://news.example/", "image").unwrap()).matched);
}
