// Witness inputs for C05 (run on the real crate): verdicts of an optimised and an unoptimised engine over one rule set and a grid of
// URLs, for rule groups that fuse (same options, shared bucket): plain patterns of very different lengths, anchored shapes, `^`
// separators, csp rules with different directives, tagged exceptions.  The fusion itself and the matchers' any-of reading are
// under contract (units c05_optimizer, c02_matchers); these inputs decide the property when a matcher is rewritten into a shape
// its contract is no longer anchored to.
use adblock::lists::{FilterSet, ParseOptions};
use adblock::request::Request;
use adblock::Engine;

fn engine(rules: &[&str], optimize: bool) -> Engine {
    let mut set = FilterSet::new(true);
    set.add_filters(rules, ParseOptions::default());
    Engine::from_filter_set(set, optimize)
}

/// OBL C05.witness.same_verdicts
#[test]
fn c05_optimised_and_plain_engines_agree() {
    let rules = [
        "/banners/leaderboardspringcollection728x90creativevariantb", "/banners/top", "/banners/x",
        "|https://a.io/start-of-a-very-long-left-anchored-pattern-that-exceeds-short-urls", "|https://a.io/s",
        "/long-right-anchored-pattern-that-exceeds-the-short-urls-by-far.gif|", "/t.gif|",
        "||a.io/hostname-anchored-pattern-that-is-rather-long/and-longer", "||a.io/h",
        "/sep^longer-than-the-url-longer-than-the-url-longer-than-the-url^", "/sep^s^",
        "/wild/*/longer-than-the-url-longer-than-the-url-longer-than-the-url", "/wild/*/w",
        "@@/banners/ok-but-this-exception-pattern-is-much-longer-than-the-urls", "@@/banners/ok",
        "/csp1$csp=script-src 'none'", "/csp1$csp=worker-src 'none'",
        "|https://a.io/xa|", "|https://a.io/xb|", "|https://a.io/xc|",
        // right-anchored rules that share their index token; a pattern-less multi-domain rule in a bucket that has rules of its own
        "/ads/a.gif|", "/ads/b.gif|", "/ads/c.gif|", "*$image,domain=foo.com|bar.com", "banner1$domain=foo.com", "banner2$domain=foo.com", "banner3$domain=bar.com",
        // left-anchored rules that share all their tokens, the longer ones first in the fused rule
        "|https://ab.cd/", "|https://ab.cd/ab/cd/ab", "|https://ab.cd/ab/cd/ab/cd/ab", "|https://ab.cd/ab/cd/ab/cd/ab/cd/ab",
        // exact-URL rules of equal length that differ in a one-letter token only (they share their bucket)
        "|https://example.com/ads/a.js|", "|https://example.com/ads/b.js|", "|https://example.com/ads/c.js|",
        // full-regex rules fuse into one regex set per option group: written in mixed case, with negated classes, with and without match-case
        r"/adv[0-9]+\.js/", r"/BANNER\D\d/", r"/track(er|ing)\.gif/", r"/CaseSens[A-Z]/$match-case", r"/Other[a-z]X/$match-case",
    ];
    let plain = engine(&rules, false);
    let optimised = engine(&rules, true);
    for url in [
        "https://a.io/banners/top", "https://a.io/banners/top.gif", "https://a.io/banners/x", "https://a.io/banners/ok", "https://a.io/banners/other.gif",
        "https://a.io/banners/leaderboardspringcollection728x90creativevariantb.gif",
        "https://a.io/s", "https://a.io/sx", "https://b.io/t.gif", "https://b.io/t.gifx", "https://a.io/h", "https://a.io/hx", "https://b.io/h",
        "https://b.io/sep/s/", "https://b.io/sep/s", "https://b.io/wild/1/w", "https://b.io/wild/w", "https://b.io/csp1",
        "https://a.io/xa", "https://a.io/xb", "https://a.io/xc", "https://a.io/xd",
        "https://x.io/ads/a.gif", "https://x.io/ads/b.gif", "https://x.io/ads/c.gif", "https://x.io/ads/d.gif", "https://x.io/pic.png", "https://x.io/banner1", "https://x.io/banner3",
        "https://ab.cd/", "https://ab.cd/x", "https://ab.cd/ab/cd/ab", "https://ab.cd/ab/cd/abx", "https://ab.cd/ab/cd/ab/cd/ab/", "https://ab.ce/",
        "https://example.com/ads/a.js", "https://example.com/ads/b.js", "https://example.com/ads/c.js", "https://example.com/ads/d.js", "https://example.com/ads/a.js?x",
        "https://r.io/adv12.js", "https://r.io/ADV12.JS", "https://r.io/banner-7", "https://r.io/Banner77", "https://r.io/tracking.gif", "https://r.io/CaseSensQ", "https://r.io/casesensq", "https://r.io/OtheraX", "https://r.io/otherax",
    ] {
        for (t, src) in [("image", "https://news.example/"), ("script", "https://news.example/"), ("document", "https://news.example/"), ("image", "https://foo.com/"), ("image", "https://bar.com/"), ("script", "https://foo.com/")] {
            let req = Request::new(url, src, t).unwrap();
            let p = plain.check_network_request(&req);
            let o = optimised.check_network_request(&req);
            assert_eq!((p.matched, p.important, p.exception.is_some(), p.redirect, p.rewritten_url), (o.matched, o.important, o.exception.is_some(), o.redirect, o.rewritten_url),
                "verdict differs between the optimised and the unoptimised engine for {} ({})", url, t);
            let mut pc: Vec<String> = plain.get_csp_directives(&req).map(|s| s.split(',').map(String::from).collect()).unwrap_or_default();
            let mut oc: Vec<String> = optimised.get_csp_directives(&req).map(|s| s.split(',').map(String::from).collect()).unwrap_or_default();
            pc.sort(); oc.sort();
            assert_eq!(pc, oc, "csp directives differ for {} ({})", url, t);
        }
    }
    // controls: the regex rules are live, in the case they were written for
    for (u, want) in [("https://r.io/adv12.js", true), ("https://r.io/banner-7", true), ("https://r.io/Banner77", false), ("https://r.io/CaseSensQ", true), ("https://r.io/casesensq", false)] {
        assert_eq!(optimised.check_network_request(&Request::new(u, "https://news.example/", "image").unwrap()).matched, want, "{}", u);
    }
    // controls: the short rules are live
    assert!(plain.check_network_request(&Request::new("https://a.io/banners/top", "https://news.example/", "image").unwrap()).matched);
    assert!(plain.check_network_request(&Request::new("https://b.io/t.gif", "https://news.example/", "image").unwrap()).matched);
}

/// OBL C05.witness.explicit_optimize
#[test]
fn c05_explicit_optimize_keeps_verdicts() {
    use adblock::blocker::{Blocker, BlockerOptions};
    use adblock::resources::ResourceStorage;
    let rules = ["/banners/a", "/banners/b", "@@/banners/ok1", "@@/banners/ok2", "||x.test^$removeparam=utm_a", "||x.test^$removeparam=utm_b", "||x.test^$removeparam=utm_c",
                 "/campaign/click?$removeparam=cid", "/campaign/click?$removeparam=sid", "$removeparam=example1_", "$removeparam=example1-",
                 "/csp2$csp=script-src 'none'", "/csp2$csp=worker-src 'none'", "||r.test^$redirect-rule=a.js", "||r.test^$redirect-rule=b.js:5"];
    let (filters, _) = adblock::lists::parse_filters(&rules, true, ParseOptions::default());
    let mut blocker = Blocker::new(filters, &BlockerOptions { enable_optimizations: false });
    let resources = ResourceStorage::default();
    let reqs: Vec<Request> = ["https://a.io/banners/a", "https://a.io/banners/b", "https://a.io/banners/ok1", "https://a.io/banners/ok2/banners/a",
                              "https://x.test/p?utm_a=1&utm_b=2&utm_c=3&keep=4", "https://x.test/p?utm_c=3", "https://b.io/csp2", "https://r.test/a",
                              "https://shop.example/campaign/click?cid=1&sid=2&keep=3", "https://example.com?example1_=1&example1-=2"]
        .iter().flat_map(|u| ["script", "document"].into_iter().map(move |t| Request::new(u, "https://news.example/", t).unwrap())).collect();
    let obs = |b: &Blocker| -> Vec<String> {
        reqs.iter().map(|r| { let v = b.check(r, &resources);
            let mut csp: Vec<String> = b.get_csp_directives(r).map(|s| s.split(',').map(String::from).collect()).unwrap_or_default(); csp.sort();
            format!("{} {:?}: m={} e={} rw={:?} csp={:?}", r.url, r.request_type, v.matched, v.exception.is_some(), v.rewritten_url, csp) }).collect()
    };
    let before = obs(&blocker);
    blocker.optimize();
    let after = obs(&blocker);
    for (a, b) in before.iter().zip(after.iter()) { assert_eq!(a, b, "explicit optimize() changed an answer"); }
    assert!(before.iter().any(|x| x.contains("rw=Some")) && before.iter().any(|x| x.contains("m=true")));
}

/// OBL C05.witness.invalid_regex_in_fused_set
#[test]
fn c05_a_regex_that_does_not_compile_does_not_disable_the_rules_it_is_fused_with() {
    // regression input of fix 978b202 (found by a differential fuzz run of optimised vs unoptimised engines): full-regex rules with equal
    // options fuse into one regex set; an expression that does not compile matches nothing as a rule of its own and must not change what
    // the others match
    for rules in [vec!["/s/", "/)ds/"], vec!["/)ds/", "/s/"], vec!["/s/", "/)ds/", "/t(/"], vec!["/)ds/", "/t(/"], vec!["/s/$script", "/)ds/$script", "/q[/$script"], vec!["@@/s/", "@@/)ds/", "/x/"]] {
        let plain = engine(&rules, false);
        let optimised = engine(&rules, true);
        for url in ["https://x.test/s", "https://x.test/q", "https://x.test/ds", "https://x.test/"] {
            let req = Request::new(url, "https://news.example/", "script").unwrap();
            let (p, o) = (plain.check_network_request(&req), optimised.check_network_request(&req));
            assert_eq!((p.matched, p.exception.is_some()), (o.matched, o.exception.is_some()), "{:?} on {}", rules, url);
        }
    }
    let req = Request::new("https://x.test/s", "https://news.example/", "script").unwrap();
    assert!(engine(&["/s/", "/)ds/"], true).check_network_request(&req).matched);
}

/// OBL C05.witness.large_groups
#[test]
fn c05_large_fusion_groups_lose_no_rule() {
    // groups of 2, 3, 64, 65, 66, 129 and 200 rules that share their index token and their options (they fuse into one rule, or into
    // however many the optimiser chooses): every member still answers for its own URL, and a URL of no member is not matched
    for n in [2usize, 3, 64, 65, 66, 129, 200] {
        let rules: Vec<String> = (0..n).map(|i| format!("/shared/zz{}q", i)).collect();
        let refs: Vec<&str> = rules.iter().map(|s| s.as_str()).collect();
        let plain = engine(&refs, false);
        let optimised = engine(&refs, true);
        for i in (0..n).chain([n, n + 7]) {
            let url = format!("https://x.test/shared/zz{}q", i);
            let req = Request::new(&url, "https://news.example/", "image").unwrap();
            let (p, o) = (plain.check_network_request(&req).matched, optimised.check_network_request(&req).matched);
            assert_eq!(p, i < n, "control: the unoptimised engine on {}", url);
            assert_eq!(p, o, "a group of {} rules: {} is {} by the unoptimised engine and {} by the optimised one", n, url, if p { "blocked" } else { "allowed" }, if o { "blocked" } else { "allowed" });
        }
    }
}
