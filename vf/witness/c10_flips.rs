// Witness inputs for C10 (run on the real crate; a BOUNDED stand-in, not a proof): every single-bit flip and every single-byte
// replacement by nil (0xc0), by the empty array (0x90), the empty map (0x80) or the empty string (0xa0) - in the thorough tier every single-byte replacement - of one small serialized engine that holds every kind of rule.  deserialize must return Ok or Err without
// panicking; after Err the engine answers as before; after Ok it must answer queries and serialize again without panicking.
// msgpack decoding and the shape invariants of decoded data are outside every contract here (trusted base of C10).
use adblock::lists::ParseOptions;
use adblock::request::Request;
use adblock::Engine;
use std::panic::{catch_unwind, AssertUnwindSafe};

fn rules() -> Vec<&'static str> {
    vec!["/tagpat/$tag=alpha", "||r1.example^$redirect=a", "||c1.example^$csp=b", "||ads.example.com^", "/banner/*/img^", "@@||good.example.com^$script", "||t.example^$tag=alpha", "||r.example^$redirect=noop.js",
         "||c.example^$csp=script-src 'none'", "||i.example^$important", "*$image,domain=foo.com|bar.com", "/re[0-9]+x/",
         "##.generic", "###gid", "a.com##.site", "a.com#@#.generic", "b.com##+js(sc, a, 1)", "b.com#@#+js()", "a.com##.x:style(color: red)",
         "a.com##.y:has-text(ad)", "c.com#@#.y:has-text(ad)", "example.*##.ent",
         // a scriptlet injection that no blanket exception removes, with a quoted argument (one changed byte makes the argument list malformed)
         "d.com##+js(sc, 'q', 1)",
         // a one-character pattern: one flipped mask bit makes it a "full regex" whose slashes are not there
         "x$xmlhttprequest", "é$xmlhttprequest"]
}

fn exercise(e: &mut Engine) {
    e.enable_tags(&["alpha"]);
    for (u, s, t) in [("https://ads.example.com/a.js", "https://a.com/", "script"), ("https://t.example/x", "https://b.com/", "image"),
                      ("https://c.example/", "https://c.example/", "document"), ("https://x.test/re12x", "https://foo.com/", "image"),
                      ("https://r.example/x.js", "https://a.com/", "script"), ("https://r1.example/x.js", "https://a.com/", "script"),
                      ("https://c1.example/", "https://c1.example/", "document"), ("https://x.test/tagpat/", "https://a.com/", "image"),
                      ("https://q.test/é/x", "https://a.com/", "xmlhttprequest")] {
        if let Ok(r) = Request::new(u, s, t) {
            let _ = e.check_network_request(&r);
            let _ = e.get_csp_directives(&r);
        }
    }
    for u in ["https://a.com/", "https://b.com/p", "https://sub.c.com/", "https://example.org/", "https://d.com/"] {
        let _ = e.url_cosmetic_resources(u);
    }
    let _ = e.hidden_class_id_selectors(["generic", "site"], ["gid"], &Default::default());
    e.disable_tags(&["alpha"]);
    let _ = e.serialize_raw();
}

/// OBL C10.witness.single_byte_corruptions
#[test]
fn c10_single_byte_corruptions_fail_cleanly() {
    let good = Engine::from_rules_parametrised(rules(), ParseOptions::default(), true, true).serialize_raw().unwrap();
    let prev = std::panic::take_hook();
    std::panic::set_hook(Box::new(|_| {}));
    let mut failures = vec![];
    for pos in 0..good.len() {
        // quick tier: the 8 single-bit flips and nil; thorough tier (VF_TIER=thorough, release build): every other byte value
        let mut variants: Vec<u8> = if std::env::var("VF_TIER").as_deref() == Ok("thorough") { (0..=255u8).collect() } else { (0..8).map(|b| good[pos] ^ (1u8 << b)).collect() };
        variants.push(0xc0);
        // msgpack's empty array, empty map and empty string: an absent optional list becomes a present, empty one
        variants.extend([0x90u8, 0x80, 0xa0]);
        for v in variants {
            if v == good[pos] { continue; }
            let mut buf = good.clone();
            buf[pos] = v;
            let res = catch_unwind(AssertUnwindSafe(|| {
                let mut e = Engine::from_rules(["||before.example^", "before.example##.before", "##.generic-before"], ParseOptions::default());
                e.enable_tags(&["kept"]);
                match e.deserialize(&buf) {
                    Ok(()) => exercise(&mut e),
                    Err(_) => {
                        let r = Request::new("https://before.example/x", "https://a.com/", "script").unwrap();
                        assert!(e.check_network_request(&r).matched, "after a failed load the engine must answer as before");
                        assert!(e.url_cosmetic_resources("https://before.example/").hide_selectors.contains(".before"), "after a failed load the cosmetic rules must be as before");
                        assert_eq!(e.hidden_class_id_selectors(["generic-before"], Vec::<&str>::new(), &Default::default()), vec![".generic-before".to_string()]);
                        assert!(e.tag_exists("kept"));
                    }
                }
            }));
            if res.is_err() { failures.push((pos, v)); }
        }
    }
    std::panic::set_hook(prev);
    assert!(failures.is_empty(), "{} corruptions of a {}-byte buffer panic; first: byte {} := {:#04x} (was {:#04x})", failures.len(), good.len(), failures[0].0, failures[0].1, good[failures[0].0]);
}

/// OBL C10.witness.failed_loads_change_nothing
#[test]
fn c10_failed_loads_change_nothing() {
    // buffers that fail early: empty, magic only, wrong version, gzip header (legacy format), every proper prefix of a good buffer
    let good = Engine::from_rules_parametrised(rules(), ParseOptions::default(), true, true).serialize_raw().unwrap();
    let mut bufs: Vec<Vec<u8>> = vec![vec![], good[..4].to_vec(), vec![0x1f, 0x8b, 8, 0, 0, 0, 0, 0], { let mut b = good.clone(); b[4] = b[4].wrapping_add(1); b }];
    for n in (0..good.len()).step_by(7) { bufs.push(good[..n].to_vec()); }
    for buf in bufs {
        let mut e = Engine::from_rules(["||before.example^", "before.example##.before", "before.example##+js(x)", "##.generic-before"], ParseOptions::default());
        let before = (e.url_cosmetic_resources("https://before.example/").hide_selectors, e.serialize_raw().unwrap());
        if e.deserialize(&buf).is_err() {
            assert!(e.check_network_request(&Request::new("https://before.example/x", "https://a.com/", "script").unwrap()).matched);
            assert_eq!(e.url_cosmetic_resources("https://before.example/").hide_selectors, before.0, "a failed load of {} bytes changed the cosmetic rules", buf.len());
            assert!(e.serialize_raw().unwrap() == before.1, "a failed load of {} bytes changed the engine", buf.len());
        }
    }
}

/// OBL C10.witness.emptied_strings
#[test]
fn c10_emptied_strings_fail_cleanly() {
    // every short msgpack string (fixstr header 0xa1..=0xbf followed by its bytes) replaced by the empty string: decoded rules with an
    // empty pattern / hostname / tag / redirect name / csp directive / selector must not panic a query or a re-serialization
    let good = Engine::from_rules_parametrised(rules(), ParseOptions::default(), true, true).serialize_raw().unwrap();
    let prev = std::panic::take_hook();
    std::panic::set_hook(Box::new(|_| {}));
    let mut failures = vec![];
    for pos in 0..good.len() {
        let h = good[pos];
        if !(0xa1..=0xbf).contains(&h) { continue; }
        let n = (h - 0xa0) as usize;
        if pos + 1 + n > good.len() { continue; }
        let mut buf = good[..pos].to_vec();
        buf.push(0xa0);
        buf.extend_from_slice(&good[pos + 1 + n..]);
        let res = catch_unwind(AssertUnwindSafe(|| {
            let mut e = Engine::from_rules(["||before.example^"], ParseOptions::default());
            if e.deserialize(&buf).is_ok() { exercise(&mut e); }
        }));
        if res.is_err() { failures.push(pos); }
    }
    std::panic::set_hook(prev);
    assert!(failures.is_empty(), "{} emptied strings of a {}-byte buffer panic; first at byte {}", failures.len(), good.len(), failures[0]);
}
