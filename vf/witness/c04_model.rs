// Witness inputs for C04 (run on the real crate; a BOUNDED stand-in): metamorphic form of the badfilter and monotonicity clauses over
// generated lists.  (1) a list with `$badfilter` rules answers every request exactly like the list with the cancelled twins (same pattern,
// same matching options, written in any option order) and the badfilter rules themselves deleted; a badfilter whose options differ cancels
// nothing.  (2) adding an exception never turns an allowed request into a blocked one; adding a blocking rule never turns a blocked
// request into an allowed one.  Quick: 300 lists; thorough: 4000.
use adblock::lists::ParseOptions;
use adblock::request::Request;
use adblock::Engine;

/// OBL C04.witness.model
#[test]
fn c04_badfilter_and_monotonicity() {
    // (pattern, options in two spellings that mean the same)
    let pool: Vec<(&str, &str, &str)> = vec![("||ads.example.com^", "", ""), ("/banner/", "script,third-party", "third-party,script"), ("||ads.example.com^", "image", "image"),
        ("/banner/", "domain=a.test|b.test", "domain=b.test|a.test"), ("|https://x.test/", "script,~third-party", "1p,script"), ("/track.js", "xhr,script", "script,xmlhttprequest"),
        ("||x.test^", "important", "important"), ("/banner/", "", ""), ("||cdn.test/lib^", "script,domain=~a.test", "domain=~a.test,script")];
    let urls = ["https://ads.example.com/banner/1.js", "https://x.test/banner/track.js", "https://x.test/track.js", "https://cdn.test/lib/a.js", "https://ok.test/a.js"];
    let sources = ["https://a.test/", "https://b.test/", "https://x.test/", "https://other.test/"];
    let types = ["script", "image", "xmlhttprequest"];
    let mut seed = 31337u64;
    let mut next = move |n: usize| { seed = seed.wrapping_mul(6364136223846793005).wrapping_add(1442695040888963407); ((seed >> 33) as usize) % n };
    let lists = if std::env::var("VF_TIER").as_deref() == Ok("thorough") { 4000 } else { 120 };
    let text = |exc: bool, p: &str, o: &str, bad: bool| -> String {
        let mut opts: Vec<&str> = if o.is_empty() { vec![] } else { vec![o] };
        if bad { opts.push("badfilter"); }
        format!("{}{}{}{}", if exc { "@@" } else { "" }, p, if opts.is_empty() { "" } else { "$" }, opts.join(","))
    };
    let verdicts = |rules: &Vec<String>, optimize: bool| -> Vec<(bool, bool)> {
        let e = Engine::from_rules_parametrised(rules, ParseOptions::default(), true, optimize);
        let mut v = vec![];
        for u in urls { for s in sources { for t in types { let r = e.check_network_request(&Request::new(u, s, t).unwrap()); v.push((r.matched, r.important)); } } }
        v
    };
    let mut cases = 0;
    for _ in 0..lists {
        // the base list: (exception?, pool index)
        let base: Vec<(bool, usize)> = (0..(1 + next(6))).map(|_| (next(3) == 0, next(pool.len()))).collect();
        // badfilters: (exception?, pool index, second spelling?) - some hit a rule of the list, some hit nothing
        let bads: Vec<(bool, usize, bool)> = (0..next(4)).map(|_| (next(3) == 0, next(pool.len()), next(2) == 0)).collect();
        let optimize = next(2) == 0;
        let mut with_bad: Vec<String> = vec![];
        // interleave: badfilters before, between and after their twins
        for (i, (exc, k)) in base.iter().enumerate() {
            for (j, (bexc, bk, alt)) in bads.iter().enumerate() { if j % (base.len()) == i && next(2) == 0 { with_bad.push(text(*bexc, pool[*bk].0, if *alt { pool[*bk].2 } else { pool[*bk].1 }, true)); } }
            with_bad.push(text(*exc, pool[*k].0, pool[*k].1, false));
        }
        let placed: Vec<String> = with_bad.iter().filter(|r| r.contains("badfilter")).cloned().collect();
        for (bexc, bk, alt) in &bads {
            let t = text(*bexc, pool[*bk].0, if *alt { pool[*bk].2 } else { pool[*bk].1 }, true);
            if !placed.contains(&t) { with_bad.push(t); }
        }
        let cancelled = |exc: bool, k: usize| bads.iter().any(|(bexc, bk, _)| *bexc == exc && pool[*bk].0 == pool[k].0 && pool[*bk].1 == pool[k].1);
        let without: Vec<String> = base.iter().filter(|(exc, k)| !cancelled(*exc, *k)).map(|(exc, k)| text(*exc, pool[*k].0, pool[*k].1, false)).collect();
        cases += 1;
        assert_eq!(verdicts(&with_bad, optimize), verdicts(&without, optimize), "optimize={optimize}: {with_bad:?} must answer like {without:?}");
        // monotonicity on the reduced list
        let before = verdicts(&without, optimize);
        let k = next(pool.len());
        let mut plus_exc = without.clone(); plus_exc.push(text(true, pool[k].0, pool[k].1, false));
        let mut plus_blk = without.clone(); plus_blk.push(text(false, pool[k].0, pool[k].1, false));
        for ((b, _), (a, _)) in before.iter().zip(verdicts(&plus_exc, optimize).iter()) { assert!(!(*a && !*b), "adding the exception {:?} to {without:?} blocked a request that was allowed", plus_exc.last()); }
        for ((b, _), (a, _)) in before.iter().zip(verdicts(&plus_blk, optimize).iter()) { assert!(!(*b && !*a), "adding the blocking rule {:?} to {without:?} allowed a request that was blocked", plus_blk.last()); }
    }
    assert!(cases >= 100);
}
