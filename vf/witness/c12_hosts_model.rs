// Model witness for C12 (run on the real crate; a BOUNDED stand-in): "for URLs that parse, the reported hostname is the host component
// of the normalised URL (IDN hosts in punycode)".  The reference is the `url` crate (the WHATWG URL parser the engine's scanner was cut
// down from; a dependency of the crate, so it is at hand): for every URL of a grid of spellings that BOTH accept, the hostname reported
// by `Request::new` must be `Url::parse(..).host_str()`.  Grid: scheme x the separator after it (`://`, `:/`, `:`, `:\\`, `:///`, a tab
// after the slashes) x userinfo shapes x host spellings (case, IDN, full-width and ideographic-dot forms, punycode in upper case, tabs
// and newlines inside the host, odd labels) x port shapes x tails.
// Two classes of host spelling are kept out of the main grid and stated as recorded findings below: percent-encoded host text and
// IP-literal spellings that WHATWG rewrites (`0x7f.1`, `127.1`, `[0:0:0:0:0:0:0:1]`).
use adblock::request::Request;

fn engine_host(u: &str) -> Option<String> { Request::new(u, "", "image").ok().map(|r| r.hostname.to_string()) }
fn reference_host(u: &str) -> Option<String> { url::Url::parse(u).ok().and_then(|x| x.host_str().map(|h| h.to_string())) }

/// OBL C12.witness.model_hostname_is_url_host
#[test]
fn c12_hostname_equals_the_host_of_the_normalised_url() {
    let thorough = std::env::var("VF_TIER").as_deref() == Ok("thorough");
    let schemes: &[&str] = if thorough { &["http", "https", "ws", "wss", "HTTP"] } else { &["http", "wss", "HTTP"] };
    let seps = ["://", ":/", ":", ":\\\\", ":///", "://\t", ":/\n/"];
    let uis = ["", "u@", "u:p@", "@", ":@", "a@b@", "u%40:p@", "u:p:q@", "u/p@", "u\t:p@"];
    let hosts = [
        "example.com", "EXAMPLE.com", "example.com.", "127.0.0.1", "[::1]", "bücher.example", "BÜCHER.example", "xn--bcher-kva.example", "XN--BCHER-KVA.example", "a_b.example.com",
        "a\tb.com", "ex\nample.com", "exam\r\nple.com", "\texample.com", "example.com\t", "１.example.com", "ｅｘａｍｐｌｅ.com", "a..b.com", "-a.com", "a-.com", "faß.de", "☃.net", "example。com",
        "a.b.c.d.e.f.example.co.uk", "0.0.0.0", "www.example.com", "büc\ther.example", "[::\t1]",
    ];
    let ports = ["", ":80", ":443", ":8080", ":", ":0", ":8\t0"];
    let tails: &[&str] = if thorough { &["", "/", "/p?q#f", "?q", "#f", "\\p", "/@x", "/a:b@c", "/\tp"] } else { &["", "/p?q#f", "\\p", "/a:b@c"] };
    let (mut both, mut bad) = (0u64, vec![]);
    for s in schemes { for sep in seps { for ui in uis { for h in hosts { for p in ports { for t in tails {
        let u = format!("{s}{sep}{ui}{h}{p}{t}");
        if let (Some(a), Some(b)) = (engine_host(&u), reference_host(&u)) {
            both += 1;
            if a != b && bad.len() < 200 { bad.push(format!("{u:?}: reported hostname {a:?}, host of the normalised URL {b:?}")); }
        }
    }}}}}}
    assert!(both > 20_000, "only {both} URLs parsed by both");
    assert!(bad.is_empty(), "{} (capped) of {both} URLs: {:#?}", bad.len(), &bad[..bad.len().min(10)]);
}

/// OBL C12.host.percent_encoded_host_is_decoded
#[test]
fn c12_percent_encoded_host_text_is_decoded() {
    // KNOWN FINDING (known_findings.json): WHATWG percent-decodes the host before the IDNA step; the engine's scanner keeps the text
    for (u, want) in [("http://ex%61mple.com/", "example.com"), ("https://%E2%98%83.net/", "xn--n3h.net"), ("http://example.com%2e/", "example.com.")] {
        assert_eq!(reference_host(u).as_deref(), Some(want));
        assert_eq!(engine_host(u).as_deref(), Some(want), "{u}");
    }
}

/// OBL C12.host.ip_literal_is_normalised
#[test]
fn c12_ip_literal_spellings_are_normalised() {
    // KNOWN FINDING (known_findings.json): WHATWG rewrites IPv4 number forms and IPv6 literals to their canonical spelling
    for (u, want) in [("http://0x7f.1/", "127.0.0.1"), ("http://127.1/", "127.0.0.1"), ("http://2130706433/", "127.0.0.1"), ("http://01.02.03.04/", "1.2.3.4"), ("http://[0:0:0:0:0:0:0:1]/", "[::1]"), ("http://[::ffff:1.2.3.4]/", "[::ffff:102:304]")] {
        assert_eq!(reference_host(u).as_deref(), Some(want));
        assert_eq!(engine_host(u).as_deref(), Some(want), "{u}");
    }
}
