// Witness inputs for C03 (run on the real crate; a BOUNDED stand-in): a rule `PATTERN$options` against a model of its options written
// from the statement - request type (positive and negated types), party, initiator domains (plain, negated, mixed, entity-free) - over
// all pairs of 2 patterns x 26 option sets x 9 request types x 5 sources x {blocking rule, exception}.  Unsupported schemes are never
// matched; a rule without type options applies to every network type but not to main documents, except the bare `||host^` form;
// an exception always extends to main-document requests.
use adblock::lists::ParseOptions;
use adblock::request::Request;
use adblock::Engine;

/// OBL C03.witness.model
#[test]
fn c03_options_equal_the_model() {
    // (option text, allowed types (None = all network types), party: None/Some(third), domains: (included, excluded))
    let net = ["script", "image", "stylesheet", "xmlhttprequest", "subdocument", "websocket", "font", "media", "ping", "other", "object"];
    let types = ["script", "image", "xmlhttprequest", "subdocument", "websocket", "document", "font", "other", "stylesheet"];
    let opts: Vec<(&str, Option<Vec<&str>>, Option<bool>, Vec<&str>, Vec<&str>)> = vec![
        ("", None, None, vec![], vec![]),
        ("script", Some(vec!["script"]), None, vec![], vec![]),
        ("script,image", Some(vec!["script", "image"]), None, vec![], vec![]),
        ("~script", Some(net.iter().filter(|t| **t != "script").cloned().collect()), None, vec![], vec![]),
        ("~script,~image", Some(net.iter().filter(|t| **t != "script" && **t != "image").cloned().collect()), None, vec![], vec![]),
        ("xhr", Some(vec!["xmlhttprequest"]), None, vec![], vec![]),
        ("document", Some(vec!["document"]), None, vec![], vec![]),
        ("subdocument,document", Some(vec!["subdocument", "document"]), None, vec![], vec![]),
        ("websocket", Some(vec!["websocket"]), None, vec![], vec![]),
        ("third-party", None, Some(true), vec![], vec![]),
        ("~third-party", None, Some(false), vec![], vec![]),
        ("3p", None, Some(true), vec![], vec![]),
        ("1p", None, Some(false), vec![], vec![]),
        ("first-party", None, Some(false), vec![], vec![]),
        ("script,third-party", Some(vec!["script"]), Some(true), vec![], vec![]),
        ("~image,1p", Some(net.iter().filter(|t| **t != "image").cloned().collect()), Some(false), vec![], vec![]),
        ("domain=src.test", None, None, vec!["src.test"], vec![]),
        ("domain=~src.test", None, None, vec![], vec!["src.test"]),
        ("domain=src.test|other.test", None, None, vec!["src.test", "other.test"], vec![]),
        ("domain=src.test|~sub.src.test", None, None, vec!["src.test"], vec!["sub.src.test"]),
        ("domain=~sub.src.test|~other.test", None, None, vec![], vec!["sub.src.test", "other.test"]),
        ("script,domain=src.test", Some(vec!["script"]), None, vec!["src.test"], vec![]),
        ("image,3p,domain=~other.test", Some(vec!["image"]), Some(true), vec![], vec!["other.test"]),
        ("from=src.test", None, None, vec!["src.test"], vec![]),
        ("css", Some(vec!["stylesheet"]), None, vec![], vec![]),
        ("font,~third-party,domain=example.com", Some(vec!["font"]), Some(false), vec!["example.com"], vec![]),
    ];
    let sources = ["https://src.test/", "https://sub.src.test/", "https://other.test/", "https://example.com/", "https://deep.sub.example.com/"];
    let mut cases = 0;
    let mut mismatches: Vec<String> = vec![];
    for pattern in ["/path/x", "||example.com^"] {
        for (o, allowed, party, inc, exc) in &opts {
            for exception in [false, true] {
                let rule = format!("{}{}{}{}", if exception { "@@" } else { "" }, pattern, if o.is_empty() { "" } else { "$" }, o);
                let rules: Vec<String> = if exception { vec!["/path/$document,script,image,xmlhttprequest,subdocument,websocket,font,other,stylesheet".to_string(), rule.clone()] } else { vec![rule.clone()] };
                let e = Engine::from_rules(&rules, ParseOptions::default());
                for t in types { for s in sources { for url in ["https://example.com/path/x", "wss://example.com/path/x", "ftp://example.com/path/x"] {
                    let req = match Request::new(url, s, t) { Ok(r) => r, Err(_) => continue };
                    cases += 1;
                    let eff_type = if url.starts_with("wss") { "websocket" } else { t };
                    let supported = !url.starts_with("ftp");
                    let src_host = &s[8..s.len() - 1];
                    let in_dom = |d: &str| src_host == d || src_host.ends_with(&format!(".{d}"));
                    let third = !(in_dom("example.com"));
                    // the document rules: an exception always extends to main-document requests (network.rs check_cpt_allowed: "required to
                    // allow regexed exception rules without an explicit $document option to apply uBO-style")
                    let type_ok = (exception && eff_type == "document") || match allowed {
                        Some(a) => a.contains(&eff_type),
                        // no type option: every network type; main documents only for the bare `||host^` form
                        None => eff_type != "document" || (pattern == "||example.com^" && !o.contains("domain=") || pattern == "||example.com^"),
                    };
                    let party_ok = party.map_or(true, |p| p == third);
                    let dom_ok = (inc.is_empty() || inc.iter().any(|d| in_dom(d))) && !exc.iter().any(|d| in_dom(d));
                    let applies = supported && type_ok && party_ok && dom_ok;
                    let got = e.check_network_request(&req);
                    let want_matched = if exception { supported && !applies } else { applies };
                    if got.matched != want_matched { mismatches.push(format!("rule {rule:?} url={url} source={s} type={t}: model says the rule {} (type_ok={type_ok} party_ok={party_ok} dom_ok={dom_ok}), engine matched={}", if applies { "applies" } else { "does not apply" }, got.matched)); }
                }}}
            }
        }
    }
    assert!(cases > 10000);
    assert!(mismatches.is_empty(), "{} of {} cases differ from the model; first: {}", mismatches.len(), cases, mismatches[0]);
}
