// Witness inputs for C06 (answers do not depend on history) around the regex cache, whose entries are keyed by the ADDRESS of a
// filter: sequences that free filters and allocate new ones must not let a new filter inherit a freed filter's regex.
// (Regression inputs of fix f589147; the contract side is C06.cache.cleared_on_optimize / cleared_on_tag_switch.)
use adblock::blocker::{Blocker, BlockerOptions};
use adblock::filters::network::NetworkFilter;
use adblock::request::Request;
use adblock::resources::ResourceStorage;
fn req(u: &str) -> Request { Request::new(u, "https://src.example/", "image").unwrap() }
/// OBL C06.witness.optimize_rebuild
#[test]
fn c06_witness_optimize_rebuild() {
    let mut b = Blocker::new(vec![], &BlockerOptions { enable_optimizations: true });
    let res = ResourceStorage::default();
    for r in ["/sharedtoken/*alpha", "/sharedtoken/*beta"] {
        b.add_filter(NetworkFilter::parse(r, false, Default::default()).unwrap()).unwrap();
    }
    let a = "https://x.test/sharedtoken/1alpha"; let be = "https://x.test/sharedtoken/1beta";
    assert!(b.check(&req(a), &res).matched && b.check(&req(be), &res).matched);
    b.optimize();
    println!("after optimize: alpha={} beta={}", b.check(&req(a), &res).matched, b.check(&req(be), &res).matched);
    assert!(b.check(&req(a), &res).matched && b.check(&req(be), &res).matched);
}
/// OBL C06.witness.tag_switch_rebuild
#[test]
fn c06_witness_tag_switch_rebuild() {
    // many rounds of tag switching rebuild the tagged list: freed addresses get reused
    let rules: Vec<NetworkFilter> = ["/tagtok/*alpha$tag=a", "/tagtok/*beta$tag=b", "/tagtok/*gamma$tag=c"].iter().map(|r| NetworkFilter::parse(r, false, Default::default()).unwrap()).collect();
    let mut b = Blocker::new(rules, &BlockerOptions { enable_optimizations: false });
    let res = ResourceStorage::default();
    let urls = [("a", "https://x.test/tagtok/1alpha"), ("b", "https://x.test/tagtok/1beta"), ("c", "https://x.test/tagtok/1gamma")];
    let mut bad = 0;
    for round in 0..200 {
        let t = urls[round % 3];
        b.use_tags(&[t.0]);
        for u in urls.iter() {
            let want = u.0 == t.0;
            if b.check(&req(u.1), &res).matched != want { bad += 1; }
        }
    }
    println!("tag rounds with a wrong answer: {}", bad);
    assert_eq!(bad, 0);
}
