// Witness inputs for C12 (run on the real crate): eligibility and classification of requests by scheme and type, hostname of the
// normalised URL, Request::new against Request::preparsed.  (Units c12_request, c12_classify, c12_offsets, c12_userinfo, c12_domain
// carry the contracts; these inputs decide the property when the gate in the blocker is re-derived from other fields.)
use adblock::lists::ParseOptions;
use adblock::request::Request;
use adblock::Engine;

/// OBL C12.witness.eligible_schemes
#[test]
fn c12_only_http_https_ws_wss_are_matched() {
    let e = Engine::from_rules(["||example.com^", "||example.com^$important", "*$websocket"], ParseOptions::default());
    for t in ["script", "image", "websocket", "document", "other", "xmlhttprequest", ""] {
        for (scheme, eligible) in [("http", true), ("https", true), ("ws", true), ("wss", true), ("ftp", false), ("chrome-extension", false), ("wsx", false), ("ws+unix", false), ("file2", false), ("data", false)] {
            let url = format!("{scheme}://example.com/a.js");
            if let Ok(r) = Request::new(&url, "https://source.test/", t) {
                assert_eq!(e.check_network_request(&r).matched, eligible, "{url} as {t:?}");
            }
            let p = Request::preparsed(&url, "example.com", "source.test", t, true);
            assert_eq!(e.check_network_request(&p).matched, eligible, "preparsed {url} as {t:?}");
        }
    }
    // later colons (port, query, embedded URL) do not move the scheme
    for url in ["https://example.com:8080/a.js", "https://example.com/a.js?t=12:30", "https://example.com/r?u=http://other.test/", "wss://example.com:443/s"] {
        let p = Request::preparsed(url, "example.com", "source.test", "script", true);
        assert!(e.check_network_request(&p).matched, "preparsed {url}");
    }
    // URLs without `//` after the scheme: the scheme is still the text before the first ':'
    let e2 = Engine::from_rules(["*$image", "*$script", "*$document", "*$other"], ParseOptions::default());
    for (url, eligible) in [("data:text/plain,hello", false), ("about:blank", false), ("blob:https://example.com/uuid", false), ("javascript:void(0)", false),
                            ("https:example.com/a.js", true), ("http:/example.com/a.js", true), ("mailto:someone@example.com", false)] {
        for t in ["image", "script", "document", "other"] {
            let p = Request::preparsed(url, "example.com", "source.test", t, true);
            assert_eq!(e2.check_network_request(&p).matched, eligible, "preparsed {url} as {t:?}");
        }
    }
    // "websocket schemes force the websocket type"
    let e = Engine::from_rules(["||example.com^$websocket"], ParseOptions::default());
    for t in ["script", "image", "websocket"] {
        assert!(e.check_network_request(&Request::new("wss://example.com/s", "https://source.test/", t).unwrap()).matched);
        assert_eq!(e.check_network_request(&Request::new("https://example.com/s", "https://source.test/", t).unwrap()).matched, t == "websocket");
    }
}

/// OBL C12.witness.hostname_and_party
#[test]
fn c12_hostname_and_party() {
    for (url, host) in [("https://user:pw@Example.COM:8080/p?q#f", "example.com"), ("https://a@b@c.example.org/", "c.example.org"), ("http://[::1]:80/x", "[::1]"),
                        ("https://bücher.example/", "xn--bcher-kva.example"), ("https://example.com./x", "example.com."), ("https:\\\\example.net\\p", "example.net")] {
        let r = Request::new(url, "https://example.com/", "script").unwrap();
        assert_eq!(r.hostname, host, "{url}");
    }
    let tp = |u: &str, s: &str| Request::new(u, s, "script").unwrap().is_third_party;
    assert!(!tp("https://a.example.com/", "https://b.example.com/") && tp("https://example.com/", "https://notexample.com/") && tp("https://a.co.uk/", "https://b.co.uk/"));
    assert!(!tp("https://x.a.co.uk/", "https://a.co.uk/") && tp("https://example.com/", "") && tp("https://example.com/", "not a url"));
    // hosts that are not names on the public suffix list (IP literals, numeric labels): the whole host is its own "registrable domain"
    assert!(tp("https://10.0.0.1/a.js", "https://10.0.0.2/") && !tp("https://10.0.0.1/a.js", "https://10.0.0.1/x"));
    assert!(tp("https://[::1]/a.js", "https://[::2]/") && !tp("https://[::1]/a.js", "https://[::1]:8080/"));
    assert!(tp("https://10.0.0.1/a.js", "https://example.com/") && tp("https://example.com/a.js", "https://10.0.0.1/"));
    assert!(tp("https://host.123/", "https://other.123/"));
}
