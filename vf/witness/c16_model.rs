// Witness inputs for C16 / C17 (run on the real crate; a BOUNDED stand-in): `url_cosmetic_resources(u) == model(rules, host(u))` - the
// property's own formulation - over generated rule lists: hide rules and `#@#` exceptions with 0-2 positive and 0-2 negated locations
// (hostnames, subdomains, entities) and plain / class / id / compound selectors, against 9 page hosts incl. multi-label public suffixes
// and deep subdomains.  The model is written from the property statement (domain list covers the host; generic selectors that cannot be
// looked up by class or id ride with the per-site resources; exceptions remove; the class/id lookup returns the keyed generic ones).
// Quick tier: 400 lists; thorough tier: 6000.
use adblock::lists::ParseOptions;
use adblock::Engine;
use std::collections::HashSet;

#[derive(Clone, Debug)]
struct Rule { pos: Vec<String>, neg: Vec<String>, sel: String, unhide: bool }

fn covers(loc: &str, host: &str, suffix_labels: usize) -> bool {
    if let Some(ent) = loc.strip_suffix(".*") {
        let labels: Vec<&str> = host.split('.').collect();
        if labels.len() <= suffix_labels { return false; }
        let without = labels[..labels.len() - suffix_labels].join(".");
        return without == ent || without.ends_with(&format!(".{ent}"));
    }
    host == loc || host.ends_with(&format!(".{loc}"))
}

/// OBL C16.witness.model
#[test]
fn c16_resources_equal_the_model() {
    let hosts: Vec<(&str, usize)> = vec![("example.com", 1), ("sub.example.com", 1), ("a.b.example.com", 1), ("shop.co.uk", 2), ("beta.shop.co.uk", 2), ("shop.com", 1), ("news.org", 1), ("x.news.org", 1), ("other.net", 1)];
    let locs = ["example.com", "sub.example.com", "b.example.com", "shop.co.uk", "beta.shop.co.uk", "shop.*", "beta.shop.*", "news.*", "example.*", "other.net", "x.news.org"];
    let sels = ["div[a]", "a[b]", ".cls", "#idx", "span > i", ".cls > b"];
    let mut seed = 12345u64;
    let mut next = move |n: usize| { seed = seed.wrapping_mul(6364136223846793005).wrapping_add(1442695040888963407); ((seed >> 33) as usize) % n };
    let lists = if std::env::var("VF_TIER").as_deref() == Ok("thorough") { 6000 } else { 400 };
    let mut cases = 0;
    let mut mismatches: Vec<String> = vec![];
    for _ in 0..lists {
        let mut rules: Vec<Rule> = vec![];
        for _ in 0..(1 + next(8)) {
            let (np, nn) = (next(3), next(3));
            let pos: Vec<String> = (0..np).map(|_| locs[next(locs.len())].to_string()).collect();
            let neg: Vec<String> = (0..nn).map(|_| locs[next(locs.len())].to_string()).collect();
            let unhide = next(4) == 0;
            if unhide && (!neg.is_empty() || pos.is_empty()) { continue; }   // rejected by the parser: double negation / generic exception
            rules.push(Rule { pos, neg, sel: sels[next(sels.len())].to_string(), unhide });
        }
        let texts: Vec<String> = rules.iter().map(|r| {
            let mut l: Vec<String> = r.pos.clone();
            l.extend(r.neg.iter().map(|n| format!("~{n}")));
            format!("{}{}{}", l.join(","), if r.unhide { "#@#" } else { "##" }, r.sel)
        }).collect();
        let e = Engine::from_rules(&texts, ParseOptions::default());
        for (h, suffix_labels) in &hosts {
            cases += 1;
            let (mut unhidden, mut hidden, mut generic_misc, mut generic_keyed) = (HashSet::new(), HashSet::new(), HashSet::new(), HashSet::new());
            for r in &rules {
                let p = r.pos.iter().any(|l| covers(l, h, *suffix_labels));
                let n = r.neg.iter().any(|l| covers(l, h, *suffix_labels));
                if r.unhide { if p { unhidden.insert(r.sel.clone()); } continue; }
                if n { unhidden.insert(r.sel.clone()); }
                if p { hidden.insert(r.sel.clone()); }
                if r.pos.is_empty() {
                    if r.sel.starts_with('.') || r.sel.starts_with('#') { generic_keyed.insert(r.sel.clone()); } else { generic_misc.insert(r.sel.clone()); }
                }
            }
            let want_hide: HashSet<String> = hidden.union(&generic_misc).filter(|s| !unhidden.contains(*s)).cloned().collect();
            let want_keyed: HashSet<String> = generic_keyed.iter().filter(|s| !unhidden.contains(*s)).cloned().collect();
            let got = e.url_cosmetic_resources(&format!("https://{h}/"));
            let got_keyed: HashSet<String> = e.hidden_class_id_selectors(["cls"], ["idx"], &got.exceptions).into_iter().collect();
            if got.hide_selectors != want_hide || got.exceptions != unhidden || got_keyed != want_keyed {
                mismatches.push(format!("host={h} rules={texts:?}: hide want={want_hide:?} got={:?}; exceptions want={unhidden:?} got={:?}; class/id lookup want={want_keyed:?} got={got_keyed:?}", got.hide_selectors, got.exceptions));
            }
        }
    }
    assert!(cases >= 3000);
    assert!(mismatches.is_empty(), "{} of {} cases differ from the model; first: {}", mismatches.len(), cases, mismatches[0]);
}
