// Witness inputs for C16 / C17 (run on the real crate; a BOUNDED stand-in): `url_cosmetic_resources(u) == model(rules, host(u))` - the
// property's own formulation - over generated rule lists: hide rules and `#@#` exceptions with 0-2 positive and 0-2 negated locations
// (hostnames, subdomains, entities) and plain / class / id / compound selectors, against 9 page hosts incl. multi-label public suffixes
// and deep subdomains.  The model is written from the property statement (domain list covers the host; generic selectors that cannot be
// looked up by class or id ride with the per-site resources; exceptions remove; the class/id lookup returns the keyed generic ones).
// Quick tier: 400 lists; thorough tier: 6000.
use adblock::lists::ParseOptions;
use adblock::Engine;
use std::collections::HashSet;

#[derive(Clone, Debug)]
struct Rule { pos: Vec<String>, neg: Vec<String>, sel: String, unhide: bool }

fn covers(loc: &str, host: &str, suffix_labels: usize) -> bool {
    if let Some(ent) = loc.strip_suffix(".*") {
        let labels: Vec<&str> = host.split('.').collect();
        if labels.len() <= suffix_labels { return false; }
        let without = labels[..labels.len() - suffix_labels].join(".");
        return without == ent || without.ends_with(&format!(".{ent}"));
    }
    host == loc || host.ends_with(&format!(".{loc}"))
}

/// OBL C16.witness.model
#[test]
fn c16_resources_equal_the_model() {
    let hosts: Vec<(&str, usize)> = vec![("example.com", 1), ("sub.example.com", 1), ("a.b.example.com", 1), ("shop.co.uk", 2), ("beta.shop.co.uk", 2), ("shop.com", 1), ("news.org", 1), ("x.news.org", 1), ("other.net", 1)];
    let locs = ["example.com", "sub.example.com", "b.example.com", "shop.co.uk", "beta.shop.co.uk", "shop.*", "beta.shop.*", "news.*", "example.*", "other.net", "x.news.org"];
    let sels = ["div[a]", "a[b]", ".cls", "#idx", "span > i", ".cls > b"];
    let mut seed = 12345u64;
    let mut next = move |n: usize| { seed = seed.wrapping_mul(6364136223846793005).wrapping_add(1442695040888963407); ((seed >> 33) as usize) % n };
    let lists = if std::env::var("VF_TIER").as_deref() == Ok("thorough") { 6000 } else { 400 };
    let mut cases = 0;
    let mut mismatches: Vec<String> = vec![];
    for _ in 0..lists {
        let mut rules: Vec<Rule> = vec![];
        for _ in 0..(1 + next(8)) {
            let (np, nn) = (next(3), next(3));
            let pos: Vec<String> = (0..np).map(|_| locs[next(locs.len())].to_string()).collect();
            let neg: Vec<String> = (0..nn).map(|_| locs[next(locs.len())].to_string()).collect();
            let unhide = next(4) == 0;
            if unhide && (!neg.is_empty() || pos.is_empty()) { continue; }   // rejected by the parser: double negation / generic exception
            rules.push(Rule { pos, neg, sel: sels[next(sels.len())].to_string(), unhide });
        }
        let texts: Vec<String> = rules.iter().map(|r| {
            let mut l: Vec<String> = r.pos.clone();
            l.extend(r.neg.iter().map(|n| format!("~{n}")));
            format!("{}{}{}", l.join(","), if r.unhide { "#@#" } else { "##" }, r.sel)
        }).collect();
        let e = Engine::from_rules(&texts, ParseOptions::default());
        for (h, suffix_labels) in &hosts {
            cases += 1;
            let (mut unhidden, mut hidden, mut generic_misc, mut generic_keyed) = (HashSet::new(), HashSet::new(), HashSet::new(), HashSet::new());
            for r in &rules {
                let p = r.pos.iter().any(|l| covers(l, h, *suffix_labels));
                let n = r.neg.iter().any(|l| covers(l, h, *suffix_labels));
                if r.unhide { if p { unhidden.insert(r.sel.clone()); } continue; }
                if n { unhidden.insert(r.sel.clone()); }
                if p { hidden.insert(r.sel.clone()); }
                if r.pos.is_empty() {
                    if r.sel.starts_with('.') || r.sel.starts_with('#') { generic_keyed.insert(r.sel.clone()); } else { generic_misc.insert(r.sel.clone()); }
                }
            }
            let want_hide: HashSet<String> = hidden.union(&generic_misc).filter(|s| !unhidden.contains(*s)).cloned().collect();
            let want_keyed: HashSet<String> = generic_keyed.iter().filter(|s| !unhidden.contains(*s)).cloned().collect();
            let got = e.url_cosmetic_resources(&format!("https://{h}/"));
            let got_keyed: HashSet<String> = e.hidden_class_id_selectors(["cls"], ["idx"], &got.exceptions).into_iter().collect();
            if got.hide_selectors != want_hide || got.exceptions != unhidden || got_keyed != want_keyed {
                mismatches.push(format!("host={h} rules={texts:?}: hide want={want_hide:?} got={:?}; exceptions want={unhidden:?} got={:?}; class/id lookup want={want_keyed:?} got={got_keyed:?}", got.hide_selectors, got.exceptions));
            }
        }
    }
    assert!(cases >= 3000);
    assert!(mismatches.is_empty(), "{} of {} cases differ from the model; first: {}", mismatches.len(), cases, mismatches[0]);
}

/// OBL C16.witness.model_actions_and_scriptlets
#[test]
fn c16_actions_and_scriptlets_equal_the_model() {
    // the same for rules with an action (`:style`, `:remove()`), procedural operators and scriptlets: scoped by at least one positive
    // location (a rule with only negations is the recorded finding C16.rule.negation_only_action_rule_applies), optional negations,
    // exceptions spelled identically (without the css-validation feature a procedural selector is kept as plain selector text: it then
    // rides in hide_selectors, under the same scoping)
    use adblock::resources::{MimeType, Resource, ResourceType};
    use base64::{engine::Engine as _, prelude::BASE64_STANDARD};
    let hosts: Vec<(&str, usize)> = vec![("example.com", 1), ("sub.example.com", 1), ("shop.co.uk", 2), ("beta.shop.co.uk", 2), ("news.org", 1), ("other.net", 1)];
    let locs = ["example.com", "sub.example.com", "shop.*", "beta.shop.*", "news.org", "other.net"];
    let bodies = [".x:style(color: red)", ".y:remove()", ".z:has-text(ad)", "+js(sc, a)", "+js(sc, b)", ".x:style(color: blue)"];
    let mut seed = 777u64;
    let mut next = move |n: usize| { seed = seed.wrapping_mul(6364136223846793005).wrapping_add(1442695040888963407); ((seed >> 33) as usize) % n };
    let lists = if std::env::var("VF_TIER").as_deref() == Ok("thorough") { 5000 } else { 400 };
    let mut mismatches: Vec<String> = vec![];
    let mut cases = 0;
    for _ in 0..lists {
        let mut rules: Vec<(Vec<usize>, Vec<usize>, usize, bool)> = vec![];
        for _ in 0..(1 + next(7)) {
            let pos: Vec<usize> = (0..(1 + next(2))).map(|_| next(locs.len())).collect();
            let unhide = next(4) == 0;
            let neg: Vec<usize> = if unhide { vec![] } else { (0..next(2)).map(|_| next(locs.len())).collect() };
            rules.push((pos, neg, next(bodies.len()), unhide));
        }
        let texts: Vec<String> = rules.iter().map(|(p, n, b, u)| {
            let mut l: Vec<String> = p.iter().map(|i| locs[*i].to_string()).collect();
            l.extend(n.iter().map(|i| format!("~{}", locs[*i])));
            format!("{}{}{}", l.join(","), if *u { "#@#" } else { "##" }, bodies[*b])
        }).collect();
        let mut e = Engine::from_rules(&texts, ParseOptions::default());
        e.use_resources([Resource { name: "sc.js".into(), aliases: vec![], kind: ResourceType::Mime(MimeType::ApplicationJavascript), content: BASE64_STANDARD.encode("function sc(x = '') {}"), dependencies: vec![], permission: Default::default() }]);
        for (h, suffix_labels) in &hosts {
            cases += 1;
            let mut want: Vec<bool> = vec![false; bodies.len()];
            for (b, w) in want.iter_mut().enumerate() {
                let applies = rules.iter().any(|(p, n, rb, u)| !*u && *rb == b && p.iter().any(|i| covers(locs[*i], h, *suffix_labels)) && !n.iter().any(|i| covers(locs[*i], h, *suffix_labels)));
                let excepted = rules.iter().any(|(p, _, rb, u)| *u && *rb == b && p.iter().any(|i| covers(locs[*i], h, *suffix_labels)))
                    // a negation on ANY rule with this body is stored as an exception for that host
                    || rules.iter().any(|(_, n, rb, u)| !*u && *rb == b && n.iter().any(|i| covers(locs[*i], h, *suffix_labels)));
                *w = applies && !excepted;
            }
            let got = e.url_cosmetic_resources(&format!("https://{h}/"));
            let has_proc = |needle: &str, arg: &str| got.procedural_actions.iter().any(|p| p.contains(needle) && p.contains(arg));
            let got_v = vec![has_proc("\".x\"", "color: red"), has_proc("\".y\"", "remove"), has_proc("\".z\"", "has-text") || got.hide_selectors.contains(".z:has-text(ad)"), got.injected_script.contains("sc(\"a\")"), got.injected_script.contains("sc(\"b\")"), has_proc("\".x\"", "color: blue")];
            if got_v != want { mismatches.push(format!("host={h} rules={texts:?}: want {want:?} (per body {bodies:?}), got {got_v:?}; procedural={:?} script={:?}", got.procedural_actions, got.injected_script)); }
        }
    }
    assert!(cases >= 2400);
    assert!(mismatches.is_empty(), "{} of {} cases differ from the model; first: {}", mismatches.len(), cases, mismatches[0]);
}
