// Witness inputs for C11: "a hosts-format entry behaves exactly like the standard rule `||host^`", on host spellings with an
// upper-case `WWW.` prefix (regression inputs of fix 2d0f6a6; the contract side is C02.parse.hostname_form and
// C11.parse_hosts.same_as_double_pipe_rule, which share one normal form of the host).
use adblock::{Engine, lists::{FilterSet, ParseOptions, FilterFormat}, request::Request};
fn blocked(rule: &str, format: FilterFormat, url: &str) -> bool {
    let mut fs = FilterSet::new(false);
    fs.add_filters([rule], ParseOptions { format, ..Default::default() });
    let e = Engine::from_filter_set(fs, true);
    e.check_network_request(&Request::new(url, "https://src.example/", "image").unwrap()).matched
}
/// OBL C11.witness.hosts_entry_same_as_double_pipe_rule
#[test]
fn c11_witness_hosts_entry_same_as_double_pipe_rule() {
    let mut differ = 0;
    for host in ["WWW.example.com", "www.example.com", "Www.Example.com", "example.com", "wWw.www.example.com"] {
        for url in ["https://example.com/x", "https://www.example.com/x", "https://sub.example.com/x"] {
            let h = blocked(host, FilterFormat::Hosts, url);
            let s = blocked(&format!("||{}^", host), FilterFormat::Standard, url);
            if h != s { differ += 1; println!("{} {} hosts={} standard={}", host, url, h, s); }
        }
    }
    assert_eq!(differ, 0);
}
