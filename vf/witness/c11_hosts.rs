// Witness inputs for C11: "a hosts-format entry behaves exactly like the standard rule `||host^`", on host spellings with an
// upper-case `WWW.` prefix (regression inputs of fix 2d0f6a6; the contract side is C02.parse.hostname_form and
// C11.parse_hosts.same_as_double_pipe_rule, which share one normal form of the host).
use adblock::{Engine, lists::{FilterSet, ParseOptions, FilterFormat}, request::Request};
fn blocked(rule: &str, format: FilterFormat, url: &str) -> bool {
    let mut fs = FilterSet::new(false);
    fs.add_filters([rule], ParseOptions { format, ..Default::default() });
    let e = Engine::from_filter_set(fs, true);
    e.check_network_request(&Request::new(url, "https://src.example/", "image").unwrap()).matched
}
/// OBL C11.witness.hosts_entry_same_as_double_pipe_rule
#[test]
fn c11_witness_hosts_entry_same_as_double_pipe_rule() {
    let mut differ = 0;
    for host in ["WWW.example.com", "www.example.com", "Www.Example.com", "example.com", "wWw.www.example.com"] {
        for url in ["https://example.com/x", "https://www.example.com/x", "https://sub.example.com/x"] {
            let h = blocked(host, FilterFormat::Hosts, url);
            let s = blocked(&format!("||{}^", host), FilterFormat::Standard, url);
            if h != s { differ += 1; println!("{} {} hosts={} standard={}", host, url, h, s); }
        }
    }
    assert_eq!(differ, 0);
}

/// OBL C11.witness.hosts_grid
#[test]
fn c11_witness_hosts_grid() {
    // the same relation over a wider grid of host spellings (IDN, punycode, leading dot, underscores, IP literals, `www.` forms, mixed
    // case, non-ASCII upper case) x three line shapes (bare, `IP host`, `IP<TAB>host # comment`) x a URL universe; only lines the
    // hosts format accepts are entries
    use adblock::lists::parse_filter;
    let hosts = ["ads.example.com", "ADS.Example.COM", ".example.com", "bücher.example", "xn--bcher-kva.example", "a_b.example.com", "1.2.3.4", "www.example.com", "www.www.example.com",
        "wwwx.example.com", "example.co.uk", "ads-1.example.com", "ads..example.com", "-ads.example.com", "www.com", "WWW.COM", "www.a", "éxample.com", "EXAMPLE.com", "ÉXAMPLE.com", "ß.example.com"];
    let urls = ["https://ads.example.com/x", "https://example.com/x", "https://sub.ads.example.com/", "https://xn--bcher-kva.example/a", "https://a_b.example.com/", "https://1.2.3.4/x",
        "https://www.example.com/", "https://www.www.example.com/", "https://wwwx.example.com/", "https://example.co.uk/", "https://x.example.co.uk/", "https://ads-1.example.com/", "https://www.com/",
        "https://com/", "https://a/", "https://www.a/", "https://xn--xample-9ua.com/", "https://xn--zca.example.com/", "https://ss.example.com/", "https://xads.example.com/"];
    let mut entries = 0;
    for h in hosts {
        for line in [h.to_string(), format!("0.0.0.0 {h}"), format!("127.0.0.1\t{h}  # c")] {
            if parse_filter(&line, true, ParseOptions { format: FilterFormat::Hosts, ..Default::default() }).is_err() { continue; }
            entries += 1;
            for u in urls {
                let a = blocked(&line, FilterFormat::Hosts, u);
                let b = blocked(&format!("||{h}^"), FilterFormat::Standard, u);
                assert_eq!(a, b, "hosts line {line:?} vs `||{h}^` on {u}: hosts {a}, standard {b}");
            }
        }
    }
    assert!(entries >= 45, "{entries}");
}
