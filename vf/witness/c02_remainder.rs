// Witness inputs for obligations that cannot be part of a contract because the code refutes them: each test states what
// the property demands for one concrete input and runs it on the real crate (public API only).  A failing test is the
// replayed counterexample of the obligation named in its doc line.
use adblock::{lists::ParseOptions, request::Request, Engine};

fn matches(rule: &str, url: &str) -> bool {
    let e = Engine::from_rules([rule], ParseOptions::default());
    e.check_network_request(&Request::new(url, "https://src.example/", "image").unwrap()).matched
}

/// OBL C02.match.host_left.complete
#[test]
fn c02_match_host_left_complete() {
    // host text `ads.net` occurs first inside the label `xads`, then label-aligned: the remainder `/x` follows the aligned one
    assert!(matches("||ads.net/x", "https://xads.net.ads.net/x"));
}

/// OBL C02.match.host_left_right.complete
#[test]
fn c02_match_host_left_right_complete() {
    assert!(matches("||ads.net/x|", "https://xads.net.ads.net/x"));
}

/// OBL C02.match.host_regex.complete
#[test]
fn c02_match_host_regex_complete() {
    assert!(matches("||ads.net^x", "https://xads.net.ads.net/x"));
}

/// OBL C02.witness.controls
#[test]
fn c02_witness_controls() {
    // the same rules on a URL whose host text occurs once: these must pass, or the witnesses above say nothing
    assert!(matches("||ads.net/x", "https://ads.net/x"));
    assert!(matches("||ads.net/x|", "https://ads.net/x"));
    assert!(matches("||ads.net^x", "https://ads.net/x"));
    assert!(matches("||ads.net/x", "https://sub.ads.net/x"));
    assert!(!matches("||ads.net/x", "https://xads.net/x"));
    assert!(!matches("||ads.net/x", "https://ads.net/y/x"));
}
