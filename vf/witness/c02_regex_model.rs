// Model witness for C02's last sentence (a BOUNDED stand-in, run on the real crate): "Full-regex rules '/re/' match exactly when the
// regular expression finds a match in the URL."  The reference is the regex crate itself applied to the request URL - case-insensitively
// unless the rule says `match-case`, as every other pattern of the statement is - over a grid of expressions x URLs.  The expressions
// use what real lists use: classes and their negations (\d \D \w \W \s \S \b \B), hex escapes, ranges in either case, alternation,
// counted repetition, anchors.  (Expressions containing `$` or `,` cannot be written as a rule without escaping and are not in the grid.)
use adblock::filters::network::{NetworkFilter, NetworkMatchable};
use adblock::regex_manager::RegexManager;
use adblock::request::Request;

/// OBL C02.witness.model_full_regex
#[test]
fn c02_full_regex_rules_equal_the_regular_expression() {
    let res = [
        r"ads[0-9]+", r"^https?://[a-z.]+/ad", r"\.(gif|png)", r"a.d", r"AD", r"/banner/\d{3}x\d{2,}/", r"x|y", r"\bad\b", r"^wss?:", r"[A-Z]{2}",
        r"\/ad\/", r"a{2,3}", r"\?a=", r"\x41", r"[^a-z]ad", r"%41", r"banner\D", r"\Dad", r"org/\S+d", r"\W\w+\W\d", r"a\Bd", r"\Aht", r"[\D]x",
        r"\.org\/[A-Za-z0-9]{2,}\.GIF", r"[\S]{25}", r"(?:ad|AD)\W", r"ad\Ss", r"i\.\w{3}\b", r"\w\W\w\W\w\W", r"[^\W\d]\d",
    ];
    let urls = [
        "https://ads1.net/ad", "https://x.org/banner/300x25/", "https://x.org/banner/30x25/", "https://x.org/i.GIF", "https://x.org/i.gif", "http://a.d/aXd?a=1",
        "https://x.org/aad/ ad", "https://x.org/a%41d", "https://x.org/ad,s", "https://x.org/12", "https://x.org/?A=AD", "https://x.org/banner-x", "https://x.org/banner7",
        "https://x.org/a-d/7ad", "https://cdn.example.org/assets/Img/AdFrame.PNG",
    ];
    let mut bad = vec![];
    let mut n = 0;
    for re in res {
        for opt in ["", "$match-case", "$script", "$script,match-case"] {
            let rule = format!("/{re}/{opt}");
            let f = NetworkFilter::parse(&rule, true, Default::default()).unwrap_or_else(|e| panic!("{rule} rejected: {e:?}"));
            let cs = opt.contains("match-case");
            let r = regex::RegexBuilder::new(re).case_insensitive(!cs).build().unwrap();
            for url in urls {
                let req = Request::new(url, "https://src.test/", "script").unwrap();
                n += 1;
                let want = r.is_match(url);
                let got = f.matches(&req, &mut RegexManager::default());
                if want != got {
                    bad.push(format!("{rule} vs {url}: the regular expression {} a match, the rule {}", if want { "finds" } else { "finds no" }, if got { "matches" } else { "does not match" }));
                }
            }
        }
    }
    assert!(n >= 1800, "{n}");
    assert!(bad.is_empty(), "{} of {n} cases differ; first ones: {:#?}", bad.len(), &bad[..bad.len().min(12)]);
}
