// Witness inputs for C15: the spellings of "a csp rule / exception that carries no directive" (`$csp` and `$csp=`), run on the real
// crate.  The option text parser (unit c03_option_text) is under contract; these inputs decide the property when a rewrite of that
// parser leaves the Verus subset.
use adblock::lists::ParseOptions;
use adblock::request::Request;
use adblock::Engine;
use std::collections::HashSet;

fn dirs(p: Option<String>) -> HashSet<String> { p.map(|p| p.split(',').map(str::to_string).collect()).unwrap_or_default() }

/// OBL C15.witness.empty_directive
#[test]
fn c15_empty_directive_spellings() {
    let e = Engine::from_rules([
        "||example.com^$csp=script-src 'none'",
        "||example.com^$csp=worker-src 'none'",
        "@@||example.com/embed^$csp=",
        "@@||example.com/widget^$csp",
        "||example.org^$csp=",
        "||example.net^$csp=",
        "||example.net^$csp=frame-src 'self'",
    ], ParseOptions::default());
    for t in ["document", "subdocument"] {
        let req = |u: &str| Request::new(u, "https://example.com/", t).unwrap();
        assert_eq!(dirs(e.get_csp_directives(&req("https://example.com/index.html"))), ["script-src 'none'", "worker-src 'none'"].iter().map(|s| s.to_string()).collect());
        // "nothing at all if a matching csp exception carries no directive" - for both spellings
        assert_eq!(e.get_csp_directives(&req("https://example.com/widget/1")), None);
        assert_eq!(e.get_csp_directives(&req("https://example.com/embed/1")), None);
        // a rule without directive contributes no (empty) directive
        assert_eq!(e.get_csp_directives(&req("https://example.org/")), None);
        assert_eq!(dirs(e.get_csp_directives(&req("https://example.net/"))), ["frame-src 'self'".to_string()].into_iter().collect());
    }
    // "for every other request type there is never a policy"
    assert_eq!(e.get_csp_directives(&Request::new("https://example.com/a.js", "https://example.com/", "script").unwrap()), None);
}

/// OBL C15.witness.tagged_csp_rules
#[test]
fn c15_tagged_csp_rules_in_one_bucket() {
    // "all matching ACTIVE csp rules": an inactive (tag not enabled) rule neither contributes nor hides the others of its bucket
    let rules = ["||example.com^$csp=a-src 'none',tag=t1", "||example.com^$csp=b-src 'none',tag=t2", "||example.com^$csp=c-src 'none',tag=t3", "||example.com^$csp=d-src 'none'",
                 "@@||example.com/x^$csp=d-src 'none',tag=t4"];
    for optimize in [false, true] {
        let mut e = Engine::from_rules_parametrised(rules, ParseOptions::default(), true, optimize);
        let r = Request::new("https://example.com/", "https://example.com/", "document").unwrap();
        let rx = Request::new("https://example.com/x/", "https://example.com/", "document").unwrap();
        let set = |v: &[&str]| -> HashSet<String> { v.iter().map(|s| format!("{s}-src 'none'")).collect() };
        assert_eq!(dirs(e.get_csp_directives(&r)), set(&["d"]));
        for (tags, want) in [(vec!["t1"], vec!["a", "d"]), (vec!["t2"], vec!["b", "d"]), (vec!["t3"], vec!["c", "d"]), (vec!["t1", "t3"], vec!["a", "c", "d"]), (vec!["t1", "t2", "t3"], vec!["a", "b", "c", "d"])] {
            e.use_tags(&tags);
            assert_eq!(dirs(e.get_csp_directives(&r)), set(&want), "optimize={optimize} tags={tags:?}");
            assert_eq!(dirs(e.get_csp_directives(&rx)), set(&want), "optimize={optimize} tags={tags:?}: the exception's tag is not enabled");
        }
        e.use_tags(&["t1", "t4"]);
        assert_eq!(dirs(e.get_csp_directives(&rx)), set(&["a"]), "optimize={optimize}: enabled exception removes its directive");
    }
}
