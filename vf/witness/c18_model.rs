// Witness inputs for C18 (run on the real crate; a BOUNDED stand-in): the injected script of a page against a model written from the
// statement, over generated lists: `+js(name, arg)` rules and exceptions (identical / different args, blanket `+js()`), scoped to
// hosts, subdomains and entities, coming from two lists with different permission masks; resources with permissions, aliases and a
// dependency chain (incl. a cycle and a missing node).  Checked per page: exactly the calls of the rules that cover the host, are not
// excepted (identical text) and no blanket exception covers the host, and whose scriptlet AND every transitive dependency is granted
// by the permission of SOME list that requested that exact injection; each dependency body at most once, permissioned bodies only when granted.  Quick: 300 lists; thorough: 4000.
use adblock::lists::{FilterSet, ParseOptions};
use adblock::resources::{MimeType, PermissionMask, Resource, ResourceType};
use adblock::Engine;
use base64::{engine::Engine as _, prelude::BASE64_STANDARD};
use std::collections::{BTreeSet, HashMap};

fn res(name: &str, aliases: &[&str], kind: MimeType, body: &str, deps: &[&str], perm: u8) -> Resource {
    Resource { name: name.into(), aliases: aliases.iter().map(|s| s.to_string()).collect(), kind: ResourceType::Mime(kind), content: BASE64_STANDARD.encode(body),
               dependencies: deps.iter().map(|s| s.to_string()).collect(), permission: PermissionMask::from_bits(perm) }
}

/// OBL C18.witness.model
#[test]
fn c18_injected_script_equals_the_model() {
    // scriptlets: (name, alias, function name, deps, required permission)
    let scriptlets: Vec<(&str, &str, &str, Vec<&str>, u8)> = vec![("alpha.js", "a.js", "alpha", vec![], 0), ("beta.js", "b.js", "beta", vec!["dep1.fn"], 0), ("gamma.js", "g.js", "gamma", vec!["dep2.fn"], 0),
                                                                  ("trusted.js", "t.js", "trusted", vec![], 1), ("delta.js", "d.js", "delta", vec!["dep3.fn", "missing.fn"], 0)];
    let deps: Vec<(&str, &str, Vec<&str>, u8)> = vec![("dep1.fn", "function dep1() {}", vec![], 0), ("dep2.fn", "function dep2() {}", vec!["deptrusted.fn"], 0), ("deptrusted.fn", "function deptrusted() {}", vec![], 2),
                                                       ("dep3.fn", "function dep3() {}", vec!["dep4.fn"], 0), ("dep4.fn", "function dep4() {}", vec!["dep3.fn"], 0)];
    let mut store = vec![];
    for (n, a, f, d, p) in &scriptlets { store.push(res(n, &[a], MimeType::ApplicationJavascript, &format!("function {f}(x = '') {{}}"), d, *p)); }
    for (n, b, d, p) in &deps { store.push(res(n, &[], MimeType::FnJavascript, b, d, *p)); }
    let required: HashMap<&str, u8> = [("alpha", 0u8), ("beta", 0), ("gamma", 2), ("trusted", 1), ("delta", 0)].into_iter().collect();   // scriptlet + transitive deps
    let locs = ["example.com", "sub.example.com", "shop.*", "other.net"];
    let hosts: Vec<(&str, Vec<&str>)> = vec![("example.com", vec!["example.com"]), ("sub.example.com", vec!["example.com", "sub.example.com"]), ("shop.co.uk", vec!["shop.*"]), ("other.net", vec!["other.net"]), ("none.org", vec![])];
    let names = ["alpha", "a", "beta", "gamma", "trusted", "t", "delta", "nosuch"];
    let args = ["", "x", "y, z"];
    let perms = [0u8, 1, 3];
    let mut seed = 4242u64;
    let mut next = move |n: usize| { seed = seed.wrapping_mul(6364136223846793005).wrapping_add(1442695040888963407); ((seed >> 33) as usize) % n };
    let lists = if std::env::var("VF_TIER").as_deref() == Ok("thorough") { 4000 } else { 300 };
    let canon = |n: &str| match n { "a" => "alpha", "b" => "beta", "g" => "gamma", "t" => "trusted", "d" => "delta", x => x }.to_string();
    let mut cases = 0;
    let mut mismatches: Vec<String> = vec![];
    for _ in 0..lists {
        // (list 0/1, exception?, blanket?, location, name, arg)
        let rules: Vec<(usize, bool, bool, usize, usize, usize)> = (0..(1 + next(7))).map(|_| (next(2), next(4) == 0, next(6) == 0, next(locs.len()), next(names.len()), next(args.len()))).collect();
        let list_perm = [perms[next(perms.len())], perms[next(perms.len())]];
        let text = |r: &(usize, bool, bool, usize, usize, usize)| -> String {
            let inner = if r.1 && r.2 { String::new() } else if args[r.5].is_empty() { names[r.4].to_string() } else { format!("{}, {}", names[r.4], args[r.5]) };
            format!("{}{}+js({})", locs[r.3], if r.1 { "#@#" } else { "##" }, inner)
        };
        let mut fs = FilterSet::new(true);
        for l in 0..2 { fs.add_filters(rules.iter().filter(|r| r.0 == l).map(|r| text(r)), ParseOptions { permissions: PermissionMask::from_bits(list_perm[l]), ..Default::default() }); }
        let mut e = Engine::from_filter_set(fs, true);
        e.use_resources(store.clone());
        for (h, covering) in &hosts {
            cases += 1;
            let covers = |r: &(usize, bool, bool, usize, usize, usize)| covering.contains(&locs[r.3]);
            let blanket = rules.iter().any(|r| r.1 && r.2 && covers(r));
            // injection texts (name as written + args) -> OR of the permissions of the lists that requested them
            let mut wanted: HashMap<String, u8> = HashMap::new();
            for r in rules.iter().filter(|r| !r.1 && covers(r)) {
                let key = if args[r.5].is_empty() { names[r.4].to_string() } else { format!("{}, {}", names[r.4], args[r.5]) };
                *wanted.entry(key).or_insert(0) |= list_perm[r.0];
            }
            for r in rules.iter().filter(|r| r.1 && !r.2 && covers(r)) {
                let key = if args[r.5].is_empty() { names[r.4].to_string() } else { format!("{}, {}", names[r.4], args[r.5]) };
                wanted.remove(&key);
            }
            let mut want_calls: BTreeSet<String> = BTreeSet::new();
            if !blanket {
                for (key, granted) in &wanted {
                    let mut parts = key.splitn(2, ", ");
                    let f = canon(parts.next().unwrap());
                    let Some(req) = required.get(f.as_str()) else { continue };
                    if f == "delta" { continue; }   // has a dependency that is not loaded: not injected
                    if req & !granted != 0 { continue; }
                    let a: Vec<String> = parts.next().map(|a| a.split(", ").map(|x| format!("{:?}", x)).collect()).unwrap_or_default();
                    want_calls.insert(format!("{}({})", f, a.join(", ")));
                }
            }
            let got = e.url_cosmetic_resources(&format!("https://{h}/")).injected_script;
            let got_calls: BTreeSet<String> = got.split("try {\n").skip(1).map(|b| b.split("\n} catch").next().unwrap().to_string()).collect();
            // dependencies: every body a call needs is there, none twice; a dependency that requires permission bits appears only if a list
            // that requested a scriptlet needing it on this page was granted them (an unprivileged dependency of a refused scriptlet may
            // appear: the statement does not forbid it)
            let mut ok = got_calls == want_calls;
            for (dep, needed_by) in [("function dep1() {}", vec!["beta("]), ("function dep2() {}", vec!["gamma("]), ("function deptrusted() {}", vec!["gamma("])] {
                let n = got.matches(dep).count();
                let need = want_calls.iter().any(|c| needed_by.iter().any(|p| c.starts_with(p)));
                if n > 1 || (need && n != 1) { ok = false; }
            }
            let gamma_granted = rules.iter().any(|r| !r.1 && covers(r) && canon(names[r.4]) == "gamma" && list_perm[r.0] & 2 != 0);
            if got.contains("function deptrusted() {}") && !gamma_granted { ok = false; }
            if got.contains("function trusted(") && !rules.iter().any(|r| !r.1 && covers(r) && canon(names[r.4]) == "trusted" && list_perm[r.0] & 1 != 0) { ok = false; }
            if !ok { mismatches.push(format!("host={h} list permissions={list_perm:?} rules={:?}: calls want {want_calls:?}, got script {got:?}", rules.iter().map(|r| format!("L{}:{}", r.0, text(r))).collect::<Vec<_>>())); }
        }
    }
    assert!(cases >= 1500);
    assert!(mismatches.is_empty(), "{} of {} cases differ from the model; first: {}", mismatches.len(), cases, mismatches[0]);
}
