// Witness inputs for C13 (run on the real crate; a BOUNDED stand-in): the verdict's redirect against a model written from the statement,
// over generated lists of `$redirect` / `$redirect-rule` rules and exceptions (resource names incl. aliases, unknown names, priorities
// incl. negative, equal and malformed suffixes) and resource stores (kinds, permissions, missing).  Checked: the redirect is the data-URL
// of the resource named by a highest-priority matching, non-cancelled option, provided it is loaded, redirectable and permission-free;
// `redirect` blocks, `redirect-rule` alone never does; the redirect does not depend on whether the request ends up blocked.
// Quick tier: 400 lists; thorough: 5000.
use adblock::lists::ParseOptions;
use adblock::request::Request;
use adblock::resources::{MimeType, PermissionMask, Resource, ResourceType};
use adblock::Engine;
use base64::{engine::Engine as _, prelude::BASE64_STANDARD};
use std::collections::HashSet;

fn res(name: &str, aliases: &[&str], kind: ResourceType, perm: u8) -> Resource {
    Resource { name: name.into(), aliases: aliases.iter().map(|s| s.to_string()).collect(), kind, content: BASE64_STANDARD.encode(name), dependencies: vec![], permission: PermissionMask::from_bits(perm) }
}

/// OBL C13.witness.model
#[test]
fn c13_redirect_equals_the_model() {
    // name -> Some(body) if serving it as a redirect is allowed
    let store = |variant: usize| -> Vec<Resource> {
        let mut v = vec![res("noop.js", &["noopjs", "n.js"], ResourceType::Mime(MimeType::ApplicationJavascript), 0), res("blank.txt", &[], ResourceType::Mime(MimeType::TextPlain), 0),
                         res("tpl.js", &[], ResourceType::Template, 0), res("fn.js", &[], ResourceType::Mime(MimeType::FnJavascript), 0)];
        if variant != 1 { v.push(res("perm.js", &["p.js"], ResourceType::Mime(MimeType::ApplicationJavascript), if variant == 2 { 0 } else { 1 })); }
        v
    };
    let servable = |variant: usize, name: &str| -> Option<String> {
        let canon = match name { "noop.js" | "noopjs" | "n.js" => "noop.js", "blank.txt" => "blank.txt", "perm.js" | "p.js" if variant == 2 => "perm.js", _ => return None };
        let mime = match canon { "blank.txt" => "text/plain", _ => "application/javascript" };
        Some(format!("data:{};base64,{}", mime, BASE64_STANDARD.encode(canon)))
    };
    let names = ["noop.js", "noopjs", "n.js", "blank.txt", "tpl.js", "fn.js", "perm.js", "p.js", "missing.js"];
    let suffixes = ["", ":10", ":5", ":-3", ":10", ":x", ":"];
    let pats = ["||x.test^", "/a.js", "||y.test^"];
    let mut seed = 7u64;
    let mut next = move |n: usize| { seed = seed.wrapping_mul(6364136223846793005).wrapping_add(1442695040888963407); ((seed >> 33) as usize) % n };
    let lists = if std::env::var("VF_TIER").as_deref() == Ok("thorough") { 5000 } else { 400 };
    let parse = |opt: &str| -> (String, i32) {
        match opt.rfind(':') { Some(i) => match opt[i + 1..].parse::<i32>() { Ok(p) => (opt[..i].to_string(), p), Err(_) => (opt.to_string(), 0) }, None => (opt.to_string(), 0) }
    };
    let mut cases = 0;
    let mut mismatches: Vec<String> = vec![];
    for _ in 0..lists {
        // (kind: 0 redirect, 1 redirect-rule, 2 exception, 3 plain block, 4 plain exception), pattern, name, suffix
        let rules: Vec<(usize, usize, usize, usize)> = (0..(1 + next(6))).map(|_| (next(5), next(pats.len()), next(names.len()), next(suffixes.len()))).collect();
        let texts: Vec<String> = rules.iter().map(|r| match r.0 {
            0 => format!("{}$redirect={}{}", pats[r.1], names[r.2], suffixes[r.3]),
            1 => format!("{}$redirect-rule={}{}", pats[r.1], names[r.2], suffixes[r.3]),
            2 => format!("@@{}$redirect-rule={}{}", pats[r.1], names[r.2], suffixes[r.3]),
            3 => pats[r.1].to_string(),
            _ => format!("@@{}", pats[r.1]),
        }).collect();
        let variant = next(3);
        for optimize in [false, true] {
            let mut e = Engine::from_rules_parametrised(&texts, ParseOptions::default(), true, optimize);
            e.use_resources(store(variant));
            for u in ["https://x.test/a.js", "https://x.test/b.css", "https://y.test/a.js", "https://z.test/a.js"] {
                let req = Request::new(u, "https://s.test/", "script").unwrap();
                cases += 1;
                let m = |p: usize| match pats[p] { "||x.test^" => u.starts_with("https://x.test/"), "/a.js" => u.contains("/a.js"), _ => u.starts_with("https://y.test/") };
                let cancelled: HashSet<String> = rules.iter().filter(|r| r.0 == 2 && m(r.1)).map(|r| parse(&format!("{}{}", names[r.2], suffixes[r.3])).0).collect();
                let mut best: Option<i32> = None;
                let cands: Vec<(String, i32)> = rules.iter().filter(|r| r.0 <= 1 && m(r.1)).map(|r| parse(&format!("{}{}", names[r.2], suffixes[r.3]))).filter(|(n, _)| !cancelled.contains(n)).collect();
                for (_, p) in &cands { if best.map_or(true, |b| *p > b) { best = Some(*p); } }
                // every candidate of maximal priority is an acceptable choice
                let acceptable: HashSet<Option<String>> = cands.iter().filter(|(_, p)| Some(*p) == best).map(|(n, _)| servable(variant, n)).collect();
                let got = e.check_network_request(&req);
                let ok_redirect = if cands.is_empty() { got.redirect.is_none() } else { acceptable.contains(&got.redirect) };
                // blocking: a `redirect` rule or a plain block blocks; `redirect-rule` alone never; any matching exception (plain or redirect-rule) excepts
                let blocks = rules.iter().any(|r| (r.0 == 0 || r.0 == 3) && m(r.1));
                let excepts = rules.iter().any(|r| (r.0 == 2 || r.0 == 4) && m(r.1));
                if !ok_redirect || got.matched != (blocks && !excepts) {
                    mismatches.push(format!("optimize={optimize} store={variant} url={u}: redirect got {:?}, acceptable {acceptable:?} (candidates {cands:?}, cancelled {cancelled:?}); matched got {}, want {}; rules {texts:?}", got.redirect, got.matched, blocks && !excepts));
                }
            }
        }
    }
    assert!(cases > 3000);
    assert!(mismatches.is_empty(), "{} of {} cases differ from the model; first: {}", mismatches.len(), cases, mismatches[0]);
}
