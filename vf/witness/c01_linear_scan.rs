// Witness inputs for C01 (run on the real crate; a BOUNDED stand-in for the composition that is not mechanised as one theorem): the
// engine's verdict against the verdict "obtained by testing every successfully parsed rule individually against the request and
// combining the hits with the documented precedence" (important > exception > block), over a grid: a pool of rules (27 patterns x 9
// anchor shapes x 16 option sets, as blocking rules and as exceptions) sampled into lists by stride, optimised and not, x 17 URLs x
// 4 sources x 6 request types.  Quick tier: two strides; thorough tier (VF_TIER=thorough, release build): seven strides incl. the whole pool.
use adblock::filters::network::{NetworkFilter, NetworkFilterMaskHelper, NetworkMatchable};
use adblock::lists::{FilterSet, ParseOptions};
use adblock::regex_manager::RegexManager;
use adblock::request::Request;
use adblock::Engine;

/// OBL C01.witness.engine_equals_linear_scan
#[test]
fn c01_engine_equals_linear_scan() {
    let pats = ["ads", "/ads/", "ad*banner", "banner^", "^ads^", "example.com", "example.com/ads", "example.com^", "ads.example.com", "a.js", ".gif", "ads/a.js", "*", "/ad[0-9]/", "/AdS/", "foo.example.com/x",
                "e.com", "xample.com", "com/ads", "ads?x=1", "x=1", "&y=2", "ads-banner", "ads_banner", "%61ds", "äds", "exämple.com"];
    let anchors = [("", ""), ("|", ""), ("", "|"), ("|", "|"), ("||", ""), ("||", "|"), ("||", "^"), ("|https://", ""), ("|http://", "")];
    let opts = ["", "$script", "$image", "$~script", "$third-party", "$~third-party", "$domain=src.test", "$domain=~src.test", "$domain=src.test|other.test", "$match-case", "$important", "$script,third-party",
                "$xhr,domain=~other.test", "$document", "$websocket", "$domain=example.com"];
    let mut rules: Vec<String> = vec![];
    for p in pats { for (l, r) in anchors { for o in opts {
        let body = format!("{l}{p}{r}{o}");
        rules.push(body.clone());
        rules.push(format!("@@{body}"));
    }}}
    let urls = ["https://example.com/ads/a.js", "https://ads.example.com/banner.gif", "http://example.com/ad1/x", "https://foo.example.com/x?ads", "https://notexample.com/ads/", "https://example.com.evil.test/ads",
                "wss://example.com/ads", "https://example.com/ADS/A.JS", "https://example.com/xads/a.js", "https://example.com/ads", "https://e.com/ads?x=1&y=2", "https://example.com/ads-banner",
                "https://example.com/ads_banner/ad", "https://example.com/%61ds", "https://exämple.com/äds", "https://src.test/ads/a.js", "https://example.com/adxbanner/"];
    let srcs = ["https://src.test/", "https://example.com/", "https://other.test/", "https://sub.src.test/"];
    let types = ["script", "image", "xmlhttprequest", "document", "websocket", "other"];
    let parsed: Vec<(String, NetworkFilter)> = rules.iter().filter_map(|r| NetworkFilter::parse(r, true, Default::default()).ok().map(|f| (r.clone(), f))).collect();
    assert!(parsed.len() > 5000, "the pool must parse ({} of {})", parsed.len(), rules.len());
    let thorough = std::env::var("VF_TIER").as_deref() == Ok("thorough");
    let strides: Vec<usize> = if thorough { vec![7, 11, 13, 17, 29, 41, 1] } else { vec![23, 61, 211] };
    let mut cases = 0u64;
    let mut mismatches: Vec<String> = vec![];
    for stride in strides {
        for off in 0..stride.min(if thorough { 5 } else { 3 }) {
            let subset: Vec<&(String, NetworkFilter)> = parsed.iter().skip(off).step_by(stride).collect();
            for optimize in [false, true] {
                let mut fs = FilterSet::new(true);
                fs.add_filters(subset.iter().map(|(r, _)| r.as_str()), ParseOptions::default());
                let e = Engine::from_filter_set(fs, optimize);
                for u in urls { for s in srcs { for t in types {
                    let req = match Request::new(u, s, t) { Ok(r) => r, Err(_) => continue };
                    cases += 1;
                    let mut rm = RegexManager::default();
                    let (mut blk, mut exc, mut imp) = (false, false, false);
                    for (_, f) in subset.iter() {
                        if f.matches(&req, &mut rm) {
                            if f.is_exception() { exc = true } else if f.is_important() { imp = true } else { blk = true }
                        }
                    }
                    let want = imp || (blk && !exc);
                    let got = e.check_network_request(&req);
                    if want != got.matched || got.important != imp {
                        let culprits: Vec<&String> = subset.iter().filter(|(_, f)| f.matches(&req, &mut rm)).map(|(r, _)| r).take(6).collect();
                        mismatches.push(format!("optimize={optimize} url={u} src={s} type={t}: rule-by-rule blocked={want} important={imp} (block={blk} exception={exc}), engine matched={} important={}; matching rules: {culprits:?}", got.matched, got.important));
                    }
                }}}
            }
        }
    }
    assert!(cases > 1000);
    assert!(mismatches.is_empty(), "{} of {} cases differ; first: {}", mismatches.len(), cases, mismatches[0]);
}

/// OBL C01.witness.no_rule_lost_by_bucketing
#[test]
fn c01_a_rule_in_an_engine_matches_what_it_matches_alone() {
    // "No rule that matches a request is lost, and no rule that does not match is applied, because of how rules are bucketed by token":
    // every pattern up to length 3 (thorough: 4) over {a d 1 % - _ . / * ^ é A =} - token characters, token separators, wildcards next to
    // either - with each anchor shape, as a blocking rule, an $important rule and an exception, loaded into an engine (optimised and not)
    // next to decoy rules: the engine must report the rule for a URL exactly when the rule, tested alone, matches that URL.
    let thorough = std::env::var("VF_TIER").as_deref() == Ok("thorough");
    let alphabet = ['a', 'd', '1', '%', '-', '_', '.', '/', '*', '^', 'é', 'A', '='];
    let mut bodies: Vec<String> = vec![];
    let mut frontier = vec![String::new()];
    for _ in 0..(if thorough { 4 } else { 3 }) {
        let mut nextf = vec![];
        for p in &frontier { for c in alphabet { let mut q = p.clone(); q.push(c); nextf.push(q); } }
        bodies.extend(nextf.iter().cloned());
        frontier = nextf;
    }
    let urls = ["https://ad.d1.a/ad/a1%ad-ad_a.d?a=d&d1=a-1", "https://a-d.ad/1a/d1/=a=/%1d%a1", "https://d.a/aéd/é1/a_1/A1/AD", "http://1.d/a.d/d.a/ad.1/a*d", "https://xn--d-9fa.a/ad=1/a%/d-/_a_/.d."];
    let mut reqs: Vec<Request> = urls.iter().map(|u| Request::new(u, "https://src.test/", "script").unwrap()).collect();
    // pre-parsed requests carry the URL as the embedder gave it: non-ASCII letters stay unencoded and are token characters of the
    // request just as they are of a rule
    for (u, h) in [("https://d.a/aéd/é1/éa/dé/AÉ/é", "d.a"), ("https://a.d/1é/a-é_d/é.é/=é=", "a.d")] {
        reqs.push(Request::preparsed(u, h, "src.test", "script", true));
    }
    let (mut n, mut bad) = (0u64, vec![]);
    for body in &bodies {
        for text in [body.clone(), format!("|{body}"), format!("{body}|"), format!("||{body}"), format!("@@{body}"), format!("{body}$important")] {
            // the list loader drops one-character lines; a rule counts once the loader accepts it
            if text.chars().count() == 1 { continue; }
            let Ok(f) = NetworkFilter::parse(&text, true, Default::default()) else { continue };
            for optimize in [false, true] {
                let mut fs = FilterSet::new(true);
                // decoys: for an exception, a blocking rule that matches every URL (so that exceptions are consulted); otherwise rules that match nothing
                let decoys: [&str; 2] = if f.is_exception() { ["/$script", "zzzdecoy"] } else { ["zzzdecoy$script", "@@zzzexc"] };
                fs.add_filters([text.as_str(), decoys[0], decoys[1]], ParseOptions::default());
                let e = Engine::from_filter_set(fs, optimize);
                for r in &reqs {
                    n += 1;
                    let want = f.matches(r, &mut RegexManager::default());
                    let v = e.check_network_request(r);
                    let got = if f.is_exception() { v.exception.is_some() } else { v.matched };
                    if want != got && bad.len() < 40 { bad.push(format!("{text:?} optimize={optimize} vs {}: the rule alone {want}, in the engine {got}", r.url)); }
                }
            }
        }
    }
    assert!(n > 50_000, "{n}");
    assert!(bad.is_empty(), "{} (capped) of {n} cases: {:#?}", bad.len(), &bad[..bad.len().min(10)]);
}
