// Witness inputs for C11 (run on the real crate; a BOUNDED stand-in, not a proof): a corpus derived mechanically from real rule
// spellings - every prefix and every suffix (at character boundaries) of each base line, and each base line with a multi-byte
// character / a blank / a control character inserted at every offset - parsed as a rule, as list metadata and as a hosts entry in
// both formats: nothing may panic.  Then line independence: a list with rejected lines interleaved builds the same engine (same
// serialized bytes) as the list with those lines deleted.
use adblock::lists::{parse_filter, read_list_metadata, FilterFormat, FilterSet, ParseOptions, RuleTypes};
use adblock::resources::PermissionMask;
use adblock::Engine;
use std::panic::{catch_unwind, AssertUnwindSafe};

fn base() -> Vec<&'static str> {
    vec![
        "||ads.example.com^$script,third-party,domain=a.com|~b.a.com", "@@|https://good.example/path*/x^$image,~third-party", "/banner/[0-9]+/ad\\.gif/$match-case",
        "||r.example^$redirect=noop.js:10,important", "*$csp=script-src 'none',domain=x.com", "||p.example^$removeparam=utm_source", "-bad-$badfilter,tag=t1",
        "example.com,~sub.example.com,foo.*##.ad > div:not(.sponsored)", "example.com#@#.ad", "##.generic-ad", "###id\\:with\\:colons", "a.com##div:not(.sponsored):style(color: red !important)",
        "a.com##.x:remove-attr(href)", "a.com##.y:remove-class(big)", "a.com##.z:remove()", "a.com##div:has-text(/ad/i):upward(2)", "a.com##+js(set-constant, a.b, 'x, y', \\,z)",
        "a.com#@#+js()", "[Adblock Plus 2.0]", "! Title: My list", "! Expires: 4 days (update frequency)", "! Expires: 12 hours", "! Homepage: https://example.com/", "! Redirect: https://example.com/list.txt",
        "127.0.0.1 ads.example.net", "0.0.0.0 tracker.example.org # comment", "::1 localhost", "ads.example.net", "bücher.example##.ad", "||bücher.example^", "example.com#?#div:-abp-has(.ad)", "example.com#$#.x { color: red }",
        "example.com#%#//scriptlet('x')", "[ads]/banner", "[x]$image", " ads.example.com # ad server", "\t0.0.0.0  tracker2.example.org  # é comment", "a.com,b.com#@#.x:style(color: red)", "$websocket,domain=~a.com", "|ws://sock.example^", "||a.example^$~script,~image,xhr", "@@||a.example^$generichide", "@@||a.example^$elemhide",
    ]
}
fn corpus() -> Vec<String> {
    let mut out = vec![];
    for b in base() {
        out.push(b.to_string());
        let idx: Vec<usize> = b.char_indices().map(|(i, _)| i).chain(std::iter::once(b.len())).collect();
        for &i in &idx {
            out.push(b[..i].to_string());
            out.push(b[i..].to_string());
            for ins in ["é", "★", "😀", "\u{a0}", "\u{3000}", " ", "\t", "\u{1}", "#", "$", ",", "(", ")", "\\", "|", "*", "^", ":"] {
                out.push(format!("{}{}{}", &b[..i], ins, &b[i..]));
            }
        }
    }
    out
}

/// OBL C11.witness.corpus_total
#[test]
fn c11_corpus_parses_without_panic() {
    let lines = corpus();
    let prev = std::panic::take_hook();
    std::panic::set_hook(Box::new(|_| {}));
    let mut failures = vec![];
    for l in &lines {
        let r = catch_unwind(AssertUnwindSafe(|| {
            for format in [FilterFormat::Standard, FilterFormat::Hosts] {
                for rule_types in [RuleTypes::All, RuleTypes::NetworkOnly, RuleTypes::CosmeticOnly] {
                    for permissions in [PermissionMask::default(), PermissionMask::from_bits(0xff)] {
                        for debug in [false, true] {
                            let _ = parse_filter(l, debug, ParseOptions { format, rule_types, permissions, ..Default::default() });
                        }
                    }
                }
                let _ = read_list_metadata(l);
                let _ = read_list_metadata(&format!("{l}\n{l}\r\n! Title: x\n{l}"));
                let mut fs = FilterSet::new(true);
                let _ = fs.add_filter_list(&format!("{l}\n{l}\r\n\n{l}"), ParseOptions { format, ..Default::default() });
                let e = Engine::from_filter_set(fs, true);
                let _ = e.url_cosmetic_resources("https://a.com/");
                let _ = e.hidden_class_id_selectors(["ad", "x"], ["id"], &Default::default());
            }
        }));
        if r.is_err() { failures.push(l.clone()); }
    }
    std::panic::set_hook(prev);
    assert!(failures.is_empty(), "{} of {} corpus lines panic; first: {:?}", failures.len(), lines.len(), failures[0]);
}

/// OBL C11.witness.line_independence
#[test]
fn c11_rejected_lines_do_not_influence_the_others() {
    for format in [FilterFormat::Standard, FilterFormat::Hosts] {
        let opts = ParseOptions { format, ..Default::default() };
        let lines = corpus();
        let (good, bad): (Vec<&String>, Vec<&String>) = lines.iter().step_by(7).partition(|l| parse_filter(l, true, opts).is_ok());
        assert!(good.len() > 20 && bad.len() > 20, "the corpus must contain accepted and rejected lines ({} / {})", good.len(), bad.len());
        // interleave: bad lines before, between and after the good ones
        let mut mixed: Vec<&String> = vec![];
        for (i, g) in good.iter().enumerate() {
            mixed.push(bad[i % bad.len()]);
            mixed.push(g);
            if i % 3 == 0 { mixed.push(bad[(i * 7 + 1) % bad.len()]); }
        }
        mixed.push(bad[0]);
        let build = |ls: &Vec<&String>| {
            let mut fs = FilterSet::new(true);
            fs.add_filters(ls.iter().map(|s| s.as_str()), opts);
            Engine::from_filter_set(fs, false).serialize_raw().unwrap()
        };
        assert!(build(&mixed) == build(&good), "{format:?}: a list with rejected lines interleaved builds a different engine than the list without them");
        // the same with every accepted line moved to the front once, behind comment lines and behind a rejected line
        for g in good.iter().step_by(5) {
            let others: Vec<&String> = good.iter().filter(|x| *x != g).cloned().collect();
            let bang = "! comment".to_string(); let junk = "$$".to_string(); let empty = String::new();
            let a: Vec<&String> = std::iter::once(*g).chain(others.iter().cloned()).collect();
            let b: Vec<&String> = [&bang, &bang, *g].into_iter().chain(others.iter().cloned()).collect();
            let c: Vec<&String> = [&bang, &junk, &empty, *g].into_iter().chain(others.iter().cloned()).collect();
            let ea = build(&a);
            assert!(ea == build(&b) && ea == build(&c), "{format:?}: whether {g:?} is loaded depends on the comment / rejected lines in front of it");
        }
    }
}
