// Witness histories for C09 (run on the real crate): the parts of the property that sit in iterator chains and serde glue no
// contract here can reach (the bucket-by-bucket conversion From<NetworkFilterListV0DeserializeFmt>, the map stabilisers at run time).
// One rule set that exercises shared buckets (pattern-less multi-domain rules), optimised any-of rules, every cosmetic bin with
// several hosts, tags and redirects; checked: two independent builds give one buffer, and reloading it is a fixpoint.
use adblock::lists::ParseOptions;
use adblock::Engine;

fn rules() -> Vec<String> {
    let mut r: Vec<String> = vec![
        "*$script,domain=foo.com|bar.com", "*$image,domain=foo.com|baz.com|qux.com", "*$xhr,domain=~foo.com|baz.com",
        "||ads.example.com^", "/adframe.", "/banner/*/img^", "@@||good.example.com^$script", "||cdn.example.net^$important,third-party",
        "||track.example.org^$redirect=noop.js", "||media.example.org^$csp=script-src 'none'", "||tagged.example^$tag=alpha", "@@||tagged.example/ok^$tag=beta",
        "||example.com^$removeparam=utm_source", "-advert-$badfilter", "-advert-",
        // one fusable group in which two rule lines reduce to the same pattern text
        "-adbanner-", "-adbanner-*", "-adbanner-2", "-adbanner-3", "-adbanner-4", "-adbanner-5", "-adbanner-6",
        "##.generic-ad", "###sponsor", "##.complex > .ad", "a.com,b.com##.site-ad", "a.com,c.org#@#.generic-ad", "b.com,d.net##+js(set-constant, a, 1)",
        "d.net#@#+js(set-constant, a, 1)", "a.com,e.io##.x:style(color: red)", "a.com#@#.x:style(color: red)", "e.io,f.dev#@#.y:has-text(ad)", "~g.net##.y:has-text(ad)",
        "h.com,i.com##.z:remove()", "example.*##.entity-ad",
    ].into_iter().map(String::from).collect();
    for i in 0..8 { r.push(format!("banner{}$domain=foo.com", i)); r.push(format!("/path{}/ads/*", i)); r.push(format!("||tagged{}.example^$tag=t{}", i, i % 3)); }
    r
}

fn reload(buffer: &[u8]) -> Vec<u8> {
    let mut e = Engine::default();
    e.deserialize(buffer).unwrap();
    e.serialize_raw().unwrap()
}

/// OBL C09.witness.reload_fixpoint
#[test]
fn c09_reload_is_a_fixpoint() {
    for optimize in [true, false] {
        let e = Engine::from_rules_parametrised(rules(), ParseOptions::default(), true, optimize);
        let b = e.serialize_raw().unwrap();
        let again = reload(&b);
        assert!(b == again, "optimize={}: re-serializing the loaded engine did not reproduce the buffer ({} vs {} bytes)", optimize, b.len(), again.len());
        assert!(reload(&again) == again);
    }
}

/// OBL C09.witness.independent_builds
#[test]
fn c09_independent_builds_serialize_identically() {
    for optimize in [true, false] {
        let bufs: Vec<Vec<u8>> = (0..4).map(|_| Engine::from_rules_parametrised(rules(), ParseOptions::default(), true, optimize).serialize_raw().unwrap()).collect();
        for b in &bufs[1..] { assert!(*b == bufs[0], "optimize={}: two builds of the same list serialize differently", optimize); }
    }
}

/// OBL C09.witness.tag_history_does_not_show
#[test]
fn c09_serialized_bytes_do_not_depend_on_tag_history() {
    // "two engines built from the same rule sequence serialize to byte-identical buffers": also when one of them had tags switched on
    // and off again in between (the enabled set is not part of the buffer; the active tagged list is rebuilt from it)
    for optimize in [true, false] {
        let fresh = Engine::from_rules_parametrised(rules(), ParseOptions::default(), true, optimize).serialize_raw().unwrap();
        let mut e = Engine::from_rules_parametrised(rules(), ParseOptions::default(), true, optimize);
        e.enable_tags(&["alpha", "t0", "t1"]);
        e.disable_tags(&["t0"]);
        e.use_tags(&["beta", "t2"]);
        e.disable_tags(&["beta", "t2", "never"]);
        let after = e.serialize_raw().unwrap();
        assert!(after == fresh, "optimize={optimize}: the buffer depends on which tags were enabled and disabled before ({} vs {} bytes)", after.len(), fresh.len());
        assert!(reload(&after) == after);
    }
}
