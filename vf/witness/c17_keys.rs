// Witness inputs for C17's leading-key extraction (key_from_selector: three regexes, outside every contract): each test
// states what the property demands for concrete selectors and runs it on the real crate (public API only).
use adblock::{lists::ParseOptions, Engine};
use std::collections::HashSet;

fn by_class(rule: &str, class: &str) -> Vec<String> {
    let e = Engine::from_rules([rule], ParseOptions::default());
    e.hidden_class_id_selectors([class], Vec::<&str>::new(), &HashSet::new())
}
fn by_id(rule: &str, id: &str) -> Vec<String> {
    let e = Engine::from_rules([rule], ParseOptions::default());
    e.hidden_class_id_selectors(Vec::<&str>::new(), [id], &HashSet::new())
}
fn per_site(rule: &str, sel: &str) -> bool {
    let e = Engine::from_rules([rule], ParseOptions::default());
    e.url_cosmetic_resources("https://example.com/").hide_selectors.contains(sel)
}

/// OBL C17.key.non_ascii_identifier
#[test]
fn c17_key_non_ascii_identifier() {
    // a class name may contain any non-ASCII code point: the leading class of `.ad😀` is `ad😀`, not `ad`
    assert_eq!(by_class("##.ad😀", "ad😀"), vec![".ad😀".to_string()]);
    assert!(by_class("##.ad😀", "ad").is_empty());
    assert_eq!(by_class("##.ad😀 > div", "ad😀"), vec![".ad😀 > div".to_string()]);
    assert_eq!(by_id("###😀", "😀"), vec!["#😀".to_string()]);
    // the same when the identifier also carries a CSS escape (the escaped-selector path)
    assert_eq!(by_class("##.promo\\:★box", "promo:★box"), vec![".promo\\:★box".to_string()]);
    assert!(by_class("##.promo\\:★box", "promo:").is_empty());
}

/// OBL C17.key.reachable_once
#[test]
fn c17_key_reachable_once() {
    // "every generic selector is reachable either this way or through the per-site resources, never both and never neither"
    for (sel, name) in [(".😀ad", "😀ad"), (".ad", "ad"), (".a\\.b", "a.b"), (".\\31 23", "123"), (".\\110000 x", "\u{fffd}x"), (".-x", "-x")] {
        let rule = format!("##{}", sel);
        let looked_up = by_class(&rule, name).contains(&sel.to_string());
        assert!(looked_up != per_site(&rule, sel), "{} looked_up={} per_site={}", sel, looked_up, per_site(&rule, sel));
    }
    assert!(per_site("##div[ad]", "div[ad]"));
}

/// OBL C17.witness.controls
#[test]
fn c17_witness_controls() {
    assert_eq!(by_class("##.ad", "ad"), vec![".ad".to_string()]);
    assert_eq!(by_class("##.ad > div", "ad"), vec![".ad > div".to_string()]);
    assert_eq!(by_id("###ad", "ad"), vec!["#ad".to_string()]);
    assert_eq!(by_class("##.\\31 23", "123"), vec![".\\31 23".to_string()]);
    assert!(by_class("##.ad", "ads").is_empty());
    assert!(by_id("##.ad", "ad").is_empty());
}

/// OBL C17.witness.lookup_excepted_simple_keeps_complex
#[test]
fn c17_lookup_excepted_simple_keeps_complex() {
    // "excluding any selector in the exception set": only that selector - the compound rules under the same name stay
    let e = Engine::from_rules(["###X", "###X > .ad", "##.c", "##.c + div"], ParseOptions::default());
    let exc: HashSet<String> = ["#X".to_string(), ".c".to_string()].into_iter().collect();
    let mut got = e.hidden_class_id_selectors(["c"], ["X"], &exc);
    got.sort();
    assert_eq!(got, vec!["#X > .ad".to_string(), ".c + div".to_string()]);
    let mut all = e.hidden_class_id_selectors(["c"], ["X"], &HashSet::new());
    all.sort();
    assert_eq!(all, vec!["#X".to_string(), "#X > .ad".to_string(), ".c".to_string(), ".c + div".to_string()]);
}

/// OBL C17.key.escaped_non_ascii
#[test]
fn c17_key_escaped_non_ascii_character() {
    // a backslash in front of a non-ASCII character escapes that one character (CSS unescaping counts characters, not bytes);
    // building the engine must not panic and the rule is filed under the unescaped name
    assert_eq!(by_id("###\\Û", "Û"), vec!["#\\Û".to_string()]);
    assert_eq!(by_class("##.a\\★b", "a★b"), vec![".a\\★b".to_string()]);
    assert_eq!(by_class("##.\\😀 > div", "😀"), vec![".\\😀 > div".to_string()]);
    assert_eq!(by_class("##.x\\é\\31 y", "xé1y"), vec![".x\\é\\31 y".to_string()]);
}
