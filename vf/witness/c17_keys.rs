// Witness inputs for C17's leading-key extraction (key_from_selector: three regexes, outside every contract): each test
// states what the property demands for concrete selectors and runs it on the real crate (public API only).
use adblock::{lists::ParseOptions, Engine};
use std::collections::HashSet;

fn by_class(rule: &str, class: &str) -> Vec<String> {
    let e = Engine::from_rules([rule], ParseOptions::default());
    e.hidden_class_id_selectors([class], Vec::<&str>::new(), &HashSet::new())
}
fn by_id(rule: &str, id: &str) -> Vec<String> {
    let e = Engine::from_rules([rule], ParseOptions::default());
    e.hidden_class_id_selectors(Vec::<&str>::new(), [id], &HashSet::new())
}
fn per_site(rule: &str, sel: &str) -> bool {
    let e = Engine::from_rules([rule], ParseOptions::default());
    e.url_cosmetic_resources("https://example.com/").hide_selectors.contains(sel)
}

/// OBL C17.key.non_ascii_identifier
#[test]
fn c17_key_non_ascii_identifier() {
    // a class name may contain any non-ASCII code point: the leading class of `.ad😀` is `ad😀`, not `ad`
    assert_eq!(by_class("##.ad😀", "ad😀"), vec![".ad😀".to_string()]);
    assert!(by_class("##.ad😀", "ad").is_empty());
    assert_eq!(by_class("##.ad😀 > div", "ad😀"), vec![".ad😀 > div".to_string()]);
    assert_eq!(by_id("###😀", "😀"), vec!["#😀".to_string()]);
    // the same when the identifier also carries a CSS escape (the escaped-selector path)
    assert_eq!(by_class("##.promo\\:★box", "promo:★box"), vec![".promo\\:★box".to_string()]);
    assert!(by_class("##.promo\\:★box", "promo:").is_empty());
}

/// OBL C17.key.reachable_once
#[test]
fn c17_key_reachable_once() {
    // "every generic selector is reachable either this way or through the per-site resources, never both and never neither"
    for (sel, name) in [(".😀ad", "😀ad"), (".ad", "ad"), (".a\\.b", "a.b"), (".\\31 23", "123"), (".\\110000 x", "\u{fffd}x"), (".-x", "-x")] {
        let rule = format!("##{}", sel);
        let looked_up = by_class(&rule, name).contains(&sel.to_string());
        assert!(looked_up != per_site(&rule, sel), "{} looked_up={} per_site={}", sel, looked_up, per_site(&rule, sel));
    }
    assert!(per_site("##div[ad]", "div[ad]"));
}

/// OBL C17.witness.controls
#[test]
fn c17_witness_controls() {
    assert_eq!(by_class("##.ad", "ad"), vec![".ad".to_string()]);
    assert_eq!(by_class("##.ad > div", "ad"), vec![".ad > div".to_string()]);
    assert_eq!(by_id("###ad", "ad"), vec!["#ad".to_string()]);
    assert_eq!(by_class("##.\\31 23", "123"), vec![".\\31 23".to_string()]);
    assert!(by_class("##.ad", "ads").is_empty());
    assert!(by_id("##.ad", "ad").is_empty());
}

/// OBL C17.witness.lookup_excepted_simple_keeps_complex
#[test]
fn c17_lookup_excepted_simple_keeps_complex() {
    // "excluding any selector in the exception set": only that selector - the compound rules under the same name stay
    let e = Engine::from_rules(["###X", "###X > .ad", "##.c", "##.c + div"], ParseOptions::default());
    let exc: HashSet<String> = ["#X".to_string(), ".c".to_string()].into_iter().collect();
    let mut got = e.hidden_class_id_selectors(["c"], ["X"], &exc);
    got.sort();
    assert_eq!(got, vec!["#X > .ad".to_string(), ".c + div".to_string()]);
    let mut all = e.hidden_class_id_selectors(["c"], ["X"], &HashSet::new());
    all.sort();
    assert_eq!(all, vec!["#X".to_string(), "#X > .ad".to_string(), ".c".to_string(), ".c + div".to_string()]);
}

/// OBL C17.key.escaped_non_ascii
#[test]
fn c17_key_escaped_non_ascii_character() {
    // a backslash in front of a non-ASCII character escapes that one character (CSS unescaping counts characters, not bytes);
    // building the engine must not panic and the rule is filed under the unescaped name
    assert_eq!(by_id("###\\Û", "Û"), vec!["#\\Û".to_string()]);
    assert_eq!(by_class("##.a\\★b", "a★b"), vec![".a\\★b".to_string()]);
    assert_eq!(by_class("##.\\😀 > div", "😀"), vec![".\\😀 > div".to_string()]);
    assert_eq!(by_class("##.x\\é\\31 y", "xé1y"), vec![".x\\é\\31 y".to_string()]);
}

// Set-level model written from the statement: for every ordered selection of rules from a pool whose leading names are
// known by construction, the lookup returns exactly the pool selectors of the list whose leading name is asked for
// (each once, whatever else the list holds and in whatever order it was loaded), minus the excepted ones, and none of
// them appears in the per-site set.
/// OBL C17.witness.rule_sets_model
#[test]
fn c17_rule_sets_equal_the_model() {
    // (selector, is_class, leading name)
    let pool: [(&str, bool, &str); 12] = [
        (".ad", true, "ad"), (".ad.banner", true, "ad"), (".ad[data-slot]", true, "ad"), (".ad:not(.x)", true, "ad"), (".ad > div", true, "ad"),
        (".ads", true, "ads"), ("#ad", false, "ad"), ("#ad.banner", false, "ad"), ("#ad[data-slot]", false, "ad"), ("#ad #b", false, "ad"),
        (".banner", true, "banner"), ("#ad:hover", false, "ad"),
    ];
    let names = ["ad", "ads", "banner", "b"];
    let mut n = 0;
    for i in 0..pool.len() {
        for j in 0..pool.len() {
            for k in 0..pool.len() {
                if i == j || j == k || i == k {
                    continue;
                }
                let chosen = [pool[i], pool[j], pool[k]];
                let rules: Vec<String> = chosen.iter().map(|c| format!("##{}", c.0)).collect();
                let e = Engine::from_rules(rules.iter().map(|s| s.as_str()), ParseOptions::default());
                let site = e.url_cosmetic_resources("https://example.com/").hide_selectors;
                for exc_sel in [None, Some(chosen[0].0), Some(chosen[2].0)] {
                    let exc: HashSet<String> = exc_sel.iter().map(|s| s.to_string()).collect();
                    for name in names {
                        for class_query in [true, false] {
                            let mut want: Vec<String> =
                                chosen.iter().filter(|c| c.1 == class_query && c.2 == name && Some(c.0) != exc_sel).map(|c| c.0.to_string()).collect();
                            want.sort();
                            let mut got = if class_query {
                                e.hidden_class_id_selectors([name], Vec::<&str>::new(), &exc)
                            } else {
                                e.hidden_class_id_selectors(Vec::<&str>::new(), [name], &exc)
                            };
                            got.sort();
                            n += 1;
                            assert!(
                                got == want,
                                "rules {rules:?}, exceptions {exc:?}: looking up {} {name:?} gave {got:?}, the statement demands {want:?}",
                                if class_query { "class" } else { "id" }
                            );
                        }
                    }
                }
                for c in chosen {
                    assert!(!site.contains(c.0), "rules {rules:?}: {:?} is reachable by name and must not be in the per-site set {site:?}", c.0);
                }
            }
        }
    }
    assert!(n > 30_000, "grid shrank to {n}");
}
