// Witness inputs for C12 (run on the real crate; a BOUNDED stand-in): `Request::new` against a reference written from the statement over
// a grid of URL spellings: scheme (incl. upper case) x userinfo (none, user, user:password, an '@' inside the userinfo) x host (names,
// upper case, multi-label public suffix, trailing dot, IPv4, IPv6 literal, IDN) x port (none, number, empty) x tail (path, query,
// fragment, none, backslash path) x request type x source.  Checked: it parses, the hostname is the host component in its normal form,
// third-party exactly when the registrable domains differ (or the source is absent / unparseable), ws / wss force the websocket type,
// only http, https, ws, wss are eligible for matching, and a request built from the pre-parsed parts behaves identically.
use adblock::lists::ParseOptions;
use adblock::request::Request;
use adblock::Engine;

/// OBL C12.witness.model
#[test]
fn c12_requests_equal_the_reference() {
    let schemes = ["http", "https", "ws", "wss", "HTTPS", "Ws", "ftp"];
    let userinfos = ["", "user@", "user:pw@", "a@b@", "us%40er:p%3Aw@"];
    // (spelling, normal form, registrable domain)
    let hosts = [("example.com", "example.com", "example.com"), ("EXAMPLE.Com", "example.com", "example.com"), ("sub.example.co.uk", "sub.example.co.uk", "example.co.uk"),
                 ("a.b.example.com", "a.b.example.com", "example.com"), ("example.com.", "example.com.", "example.com."), ("127.0.0.1", "127.0.0.1", "127.0.0.1"),
                 ("[::1]", "[::1]", "[::1]"), ("bücher.example", "xn--bcher-kva.example", "xn--bcher-kva.example"), ("BÜCHER.example", "xn--bcher-kva.example", "xn--bcher-kva.example")];
    let ports = ["", ":8080", ":"];
    let tails = ["/", "/p/a.js?q=1#f", "", "?q=1", "#f", "/a:b@c/d"];
    let sources = [("https://example.com/", Some("example.com")), ("https://other.example.co.uk/x", Some("example.co.uk")), ("", None), ("not a url", None), ("https://127.0.0.1/", Some("127.0.0.1"))];
    let e = Engine::from_rules(["/a.js$script", "*$websocket", "||example.com^$image", "||example.co.uk^$image", "||xn--bcher-kva.example^$image", "||127.0.0.1^$image", "/a:b@c/$image"], ParseOptions::default());
    let mut cases = 0;
    let mut mismatches: Vec<String> = vec![];
    for scheme in schemes { for ui in userinfos { for (host, normal, domain) in hosts { for port in ports { for tail in tails {
        let url = format!("{scheme}://{ui}{host}{port}{tail}");
        for (src, src_domain) in sources { for t in ["script", "image", "websocket"] {
            cases += 1;
            let r = match Request::new(&url, src, t) { Ok(r) => r, Err(e) => { mismatches.push(format!("{url}: does not parse ({e:?})")); continue } };
            let lower = scheme.to_ascii_lowercase();
            let mut problems = vec![];
            if r.hostname != normal { problems.push(format!("hostname {:?}, want {normal:?}", r.hostname)); }
            let want_third = src_domain.map_or(true, |d| d != domain);
            if r.is_third_party != want_third { problems.push(format!("third_party {}, want {want_third}", r.is_third_party)); }
            let ws = lower == "ws" || lower == "wss";
            let supported = ["http", "https", "ws", "wss"].contains(&lower.as_str());
            // what the engine answers: the catch-all websocket rule applies iff (ws scheme, or type websocket on a supported scheme)
            let v = e.check_network_request(&r);
            let eff = if ws { "websocket" } else { t };
            let path_rule = tail.starts_with("/p/a.js") && eff == "script";
            let host_rule = eff == "image" && ["example.com", "example.co.uk", "xn--bcher-kva.example", "127.0.0.1"].iter().any(|h| normal == *h || normal.ends_with(&format!(".{h}")));
            let odd_rule = tail.starts_with("/a:b@c/") && eff == "image";
            let want_matched = supported && (eff == "websocket" || path_rule || host_rule || odd_rule);
            if v.matched != want_matched { problems.push(format!("matched {}, want {want_matched} (effective type {eff})", v.matched)); }
            // the same request from its pre-parsed parts
            let p = Request::preparsed(&r.url, &r.hostname, src_domain.map(|_| Request::new(src, src, "document").unwrap().hostname).as_deref().unwrap_or(""), t, r.is_third_party);
            if e.check_network_request(&p).matched != v.matched { problems.push("preparsed twin answers differently".into()); }
            if !problems.is_empty() && mismatches.len() < 60 { mismatches.push(format!("{url} (source {src:?}, type {t}): {}", problems.join("; "))); }
        }}
    }}}}}
    assert!(cases > 50000, "{cases}");
    assert!(mismatches.is_empty(), "{} (capped) of {} cases differ from the reference; first ones: {:#?}", mismatches.len(), cases, &mismatches[..mismatches.len().min(15)]);
}
