// Witness inputs for C04 (run on the real crate): $badfilter cancellation wherever the badfilter rule stands in the list, and the
// exception / important precedence.  Blocker::new and check_parameterised are under contract (units c04_partition,
// c04_precedence, c04_ids); these inputs decide the property when one of them is restructured out of its contract's anchors.
use adblock::lists::{FilterSet, ParseOptions};
use adblock::request::Request;
use adblock::Engine;

fn blocked(rules: &[&str], url: &str, optimize: bool) -> (bool, bool) {
    let mut fs = FilterSet::new(true);
    fs.add_filters(rules, ParseOptions::default());
    let e = Engine::from_filter_set(fs, optimize);
    let v = e.check_network_request(&Request::new(url, "https://news.example/", "script").unwrap());
    (v.matched, v.exception.is_some())
}

/// OBL C04.witness.badfilter_any_position
#[test]
fn c04_badfilter_cancels_its_twin_wherever_it_stands() {
    let u = "https://ads.example.com/banner/img.js";
    for optimize in [false, true] {
        for twin in ["||ads.example.com^", "/banner/img.js", "||ads.example.com/banner/img.js", "||ads.example.com^$script", "||ads.example.com^$script,third-party"] {
            let bad = format!("{}{}badfilter", twin, if twin.contains('$') { "," } else { "$" });
            assert!(blocked(&[twin], u, optimize).0, "{twin} blocks");
            for list in [vec![twin, bad.as_str()], vec![bad.as_str(), twin], vec!["/other/", twin, "/more/", bad.as_str()], vec![bad.as_str(), "/other/", twin]] {
                assert!(!blocked(&list, u, optimize).0, "optimize={optimize} {list:?}: the badfilter rule cancels its twin");
            }
            // ... and only its twin
            assert!(blocked(&[twin, "||ads.example.com^$image,badfilter"], u, optimize).0, "optimize={optimize}: a badfilter with other options cancels nothing");
        }
        // an exception twin
        for list in [vec!["||ads.example.com^", "@@||ads.example.com^$script", "@@||ads.example.com^$script,badfilter"], vec!["@@||ads.example.com^$script,badfilter", "||ads.example.com^", "@@||ads.example.com^$script"]] {
            assert_eq!(blocked(&list, u, optimize), (true, false), "optimize={optimize} {list:?}: the cancelled exception no longer applies");
        }
    }
}

/// OBL C04.witness.precedence
#[test]
fn c04_exception_and_important_precedence() {
    let u = "https://ads.example.com/banner/img.js";
    for optimize in [false, true] {
        assert_eq!(blocked(&["||ads.example.com^", "@@/banner/"], u, optimize), (false, true));
        assert_eq!(blocked(&["@@/banner/", "||ads.example.com^"], u, optimize), (false, true));
        assert_eq!(blocked(&["||ads.example.com^$important", "@@/banner/"], u, optimize).0, true);
        assert_eq!(blocked(&["@@/banner/", "||ads.example.com^$important", "@@||ads.example.com^"], u, optimize).0, true);
        assert_eq!(blocked(&["@@/banner/"], u, optimize).0, false);
        // adding a rule that does not match changes nothing
        assert_eq!(blocked(&["||ads.example.com^", "@@/banner/", "@@/nomatch/", "/nomatch2/$important"], u, optimize), (false, true));
    }
}
