// Witness histories for C07 (run on the real crate): "a rule carrying a tag option takes part in matching if and only if that tag
// is in the engine's enabled set", for rule categories that share one bucket, and across a load.  These decide the property
// when a rewrite of NetworkFilterList::check / Engine::deserialize leaves the shape the contracts of units c01_lookup / c10_engine
// are anchored to.
use adblock::lists::ParseOptions;
use adblock::request::Request;
use adblock::Engine;

fn req(url: &str) -> Request { Request::new(url, "https://news.example.org/", "script").unwrap() }

/// OBL C07.witness.same_bucket_tags
#[test]
fn c07_same_bucket_rules_with_different_tags() {
    for optimize in [false, true] {
        // exceptions: whichever single tag is enabled, its exception applies - wherever it sits in the bucket
        let mut e = Engine::from_rules_parametrised(["||ads.example.com^", "@@||ads.example.com^$tag=alpha", "@@||ads.example.com^$tag=beta", "@@||ads.example.com^$tag=gamma"],
            ParseOptions::default(), true, optimize);
        let r = req("https://ads.example.com/banner.js");
        let v = e.check_network_request(&r);
        assert!(v.matched && v.exception.is_none(), "optimize={optimize} no tags: {v:?}");
        for tag in ["alpha", "beta", "gamma"] {
            e.use_tags(&[tag]);
            let v = e.check_network_request(&r);
            assert!(!v.matched && v.exception.is_some(), "optimize={optimize} only `{tag}` enabled: {v:?}");
        }
        e.use_tags(&[]);
        assert!(e.check_network_request(&r).matched);
        // importants and plain blocking rules
        let mut e = Engine::from_rules_parametrised(["||ads.example.com^$important,tag=alpha", "||ads.example.com^$important,tag=beta", "||t.example.com^$tag=alpha", "||t.example.com^$tag=beta"],
            ParseOptions::default(), true, optimize);
        assert!(!e.check_network_request(&r).matched);
        for tag in ["alpha", "beta"] {
            e.use_tags(&[tag]);
            let v = e.check_network_request(&r);
            assert!(v.matched && v.important, "optimize={optimize} only `{tag}` enabled: {v:?}");
            assert!(e.check_network_request(&req("https://t.example.com/x.js")).matched, "optimize={optimize} only `{tag}` enabled (plain rule)");
        }
        e.disable_tags(&["alpha", "beta"]);
        assert!(!e.check_network_request(&r).matched && !e.check_network_request(&req("https://t.example.com/x.js")).matched);
        // "disabling tags behaves as set difference": also when the list names tags that are not enabled
        e.use_tags(&["alpha"]);
        e.disable_tags(&["alpha", "never-enabled"]);
        assert!(!e.tag_exists("alpha") && !e.check_network_request(&r).matched, "optimize={optimize}: disable_tags([enabled, not enabled]) must remove the enabled one");
        e.enable_tags(&["beta"]);
        e.enable_tags(&["beta", "alpha"]);
        assert!(e.tag_exists("alpha") && e.tag_exists("beta"));
        e.disable_tags(&["gamma"]);
        assert!(e.tag_exists("alpha") && e.tag_exists("beta") && e.check_network_request(&r).matched);
    }
}

/// OBL C07.engine.active_list_rebuilt
#[test]
fn c07_load_activates_the_callers_tags() {
    let rules = ["adv$tag=stuff", "||brianbondy.com/$tag=brian"];
    let blocked = |e: &Engine, u: &str| e.check_network_request(&Request::new(u, "https://example.org/", "image").unwrap()).matched;
    for optimize in [false, true] {
        for producer_tags in [vec![], vec!["brian"], vec!["stuff", "brian"]] {
            let mut producer = Engine::from_rules_parametrised(rules, ParseOptions::default(), true, optimize);
            producer.use_tags(&producer_tags);
            let data = producer.serialize_raw().unwrap();
            let mut consumer = Engine::new(optimize);
            consumer.enable_tags(&["stuff"]);
            consumer.deserialize(&data).unwrap();
            assert!(consumer.tag_exists("stuff") && !consumer.tag_exists("brian"));
            assert!(blocked(&consumer, "http://example.com/advert.html"), "optimize={optimize} producer={producer_tags:?}: the caller's tag must be active after the load");
            assert!(!blocked(&consumer, "https://brianbondy.com/about"), "optimize={optimize} producer={producer_tags:?}: a tag only the producer had must be inactive");
        }
        // a list whose only tagged rules are an exception and an $important rule (no plain tagged blocking rule)
        let producer = Engine::from_rules_parametrised(["||ads.example.net^", "@@||ads.example.net/partner^$tag=p", "||imp.example^$important,tag=p"], ParseOptions::default(), true, optimize);
        let data = producer.serialize_raw().unwrap();
        let mut consumer = Engine::new(optimize);
        consumer.enable_tags(&["p"]);
        consumer.deserialize(&data).unwrap();
        assert!(consumer.tag_exists("p"), "optimize={optimize}: the caller's enabled set must survive the load");
        assert!(!blocked(&consumer, "https://ads.example.net/partner/banner.js"), "optimize={optimize}: tagged exception must apply after the load");
        assert!(blocked(&consumer, "https://ads.example.net/other.js"));
        assert!(blocked(&consumer, "https://imp.example/x"), "optimize={optimize}: tagged $important rule must apply after the load");
    }
}

/// OBL C07.witness.tag_names_verbatim
#[test]
fn c07_tag_names_are_compared_verbatim() {
    // active(rule) == (tag(rule) in current_set): the tag of the rule is the text written in the rule
    for optimize in [false, true] {
        let mut e = Engine::from_rules_parametrised(["||s.example^$tag=Social-Embeds", "@@||s.example/ok^$tag=OK_Tag", "||c.example^$csp=script-src 'none',tag=CSP"], ParseOptions::default(), true, optimize);
        let r = req("https://s.example/w.js");
        assert!(!e.check_network_request(&r).matched);
        e.use_tags(&["social-embeds"]);
        assert!(!e.check_network_request(&r).matched, "optimize={optimize}: a different (lower-case) tag must not activate the rule");
        e.use_tags(&["Social-Embeds"]);
        assert!(e.tag_exists("Social-Embeds") && e.check_network_request(&r).matched, "optimize={optimize}: the rule's own tag must activate it");
        assert!(e.check_network_request(&req("https://s.example/ok/w.js")).matched);
        e.enable_tags(&["OK_Tag", "CSP"]);
        assert!(!e.check_network_request(&req("https://s.example/ok/w.js")).matched);
        let d = Request::new("https://c.example/", "https://c.example/", "document").unwrap();
        assert_eq!(e.get_csp_directives(&d), Some("script-src 'none'".to_string()));
        e.disable_tags(&["CSP"]);
        assert_eq!(e.get_csp_directives(&d), None);
    }
}
