// Model witness for C17's key extraction under CSS escapes: "whose leading simple class or id selector (after CSS
// unescaping) is one of the given names". The reference below is CSS Syntax 3 "consume an escaped code point",
// written from the specification, not from key_from_selector; it is run over a grid of identifiers built from
// escape and non-escape pieces and compared with the real crate through the public API.
use adblock::{lists::ParseOptions, Engine};
use std::collections::HashSet;

/// CSS unescaping of an identifier: `\` + 1..6 hex digits + one optional blank is that code point, `\` + any other
/// character is that character.
fn css_unescape(s: &str) -> Option<String> {
    let cs: Vec<char> = s.chars().collect();
    let mut out = String::new();
    let mut i = 0;
    while i < cs.len() {
        if cs[i] == '\\' {
            if i + 1 >= cs.len() {
                return None;
            }
            let mut j = i + 1;
            let mut hex = String::new();
            while j < cs.len() && hex.len() < 6 && cs[j].is_ascii_hexdigit() {
                hex.push(cs[j]);
                j += 1;
            }
            if hex.is_empty() {
                out.push(cs[i + 1]);
                i += 2;
            } else {
                if j < cs.len() && (cs[j] == ' ' || cs[j] == '\t') {
                    j += 1;
                }
                let cp = u32::from_str_radix(&hex, 16).unwrap();
                // NUL, surrogates and out-of-range values have no name a page could carry: out of the model
                out.push(char::from_u32(cp).filter(|c| *c != '\0')?);
                i = j;
            }
        } else {
            out.push(cs[i]);
            i += 1;
        }
    }
    Some(out)
}

/// OBL C17.witness.model_css_unescape
#[test]
fn c17_escaped_keys_equal_css_unescaping() {
    let pieces = [
        "ad", "-", "_", "é", "\\:", "\\31 ", "\\.", "😀", "\\000041", "9", "\\41 ", "\\41", "\\e9 ", "B", "\\\\", "\\ ", "\\5f",
        "\\1F600", "\\g", "\\41\t", "\\000041 ", "\\00005f\t",
    ];
    let tails = ["", " > div", ".b", "[x]", ":hover", "\\>x", " .c"];
    let thorough = std::env::var("VF_TIER").map(|t| t == "thorough").unwrap_or(false);
    let mut n = 0;
    for prefix in ['.', '#'] {
        for a in pieces {
            for b in pieces.iter().chain(std::iter::once(&"")) {
                // quick: the third piece from the first 8 only
                for c in pieces.iter().take(if thorough { pieces.len() } else { 8 }).chain(std::iter::once(&"")) {
                    for tail in tails {
                        let ident = format!("{a}{b}{c}");
                        // an identifier does not start with an unescaped digit, `-digit`, or consist of `-` alone
                        if ident.starts_with(|ch: char| ch.is_ascii_digit()) || ident.starts_with("-9") || ident == "-" {
                            continue;
                        }
                        // the tail `\>x` continues the identifier; the other tails end it
                        let full_ident = if tail.starts_with('\\') { format!("{ident}{tail}") } else { ident.clone() };
                        let sel = format!("{prefix}{ident}{tail}");
                        // the rule line is trimmed: keep selectors that would lose an escaped trailing blank out
                        if sel.trim() != sel {
                            continue;
                        }
                        let name = match css_unescape(&full_ident) {
                            Some(x) => x,
                            None => continue,
                        };
                        let rule = format!("##{sel}");
                        let e = Engine::from_rules([rule.as_str()], ParseOptions::default());
                        n += 1;
                        let keyed = if prefix == '.' {
                            e.hidden_class_id_selectors([name.as_str()], Vec::<&str>::new(), &HashSet::new())
                        } else {
                            e.hidden_class_id_selectors(Vec::<&str>::new(), [name.as_str()], &HashSet::new())
                        };
                        let per_site = e.url_cosmetic_resources("https://example.com/").hide_selectors.contains(&sel);
                        assert!(
                            keyed == vec![sel.clone()] && !per_site,
                            "{rule:?}: the leading name after CSS unescaping is {name:?}; looking that name up gave {keyed:?}, per-site resources carry it: {per_site}"
                        );
                    }
                }
            }
        }
    }
    assert!(n > 10_000, "grid shrank to {n}");
}
