// Witness inputs for C06 (run on the real crate; a BOUNDED stand-in): generated operation sequences over {network check, csp query,
// cosmetic query, use / enable / disable tags, set the regex discard policy (incl. "discard at once"), explicit optimise, add_filter,
// serialize + deserialize}; after every step each query result is compared with that of a FRESHLY built engine / blocker holding the same
// rules, tags and resources.  Engine level: tags, resources, discard policy, reload.  Blocker level: add_filter one at a time vs one batch,
// explicit optimise, tag switches (the regex cache lives here).  Quick: 120 sequences; thorough: 1500.
use adblock::blocker::{Blocker, BlockerOptions};
use adblock::lists::{parse_filters, ParseOptions};
use adblock::regex_manager::RegexManagerDiscardPolicy;
use adblock::request::Request;
use adblock::resources::ResourceStorage;
use adblock::Engine;
use std::time::Duration;

fn pool() -> Vec<&'static str> {
    vec!["||ads.example.com^", "/banner/*/img^", "/ad[0-9]+/", "@@||ads.example.com/ok^", "||imp.example^$important", "@@||imp.example^", "/track*pixel^$third-party", "||t1.example^$tag=t1",
         "@@||ads.example.com/t2^$tag=t2", "||x.example^$csp=a-src 'none'", "||x.example^$csp=b-src *,tag=t1", "*$script,domain=d.test|e.test", "/wild*card*here", "|https://left.example/p*q", "/end*here.gif|",
         "a.test##.site", "a.test#@#.generic", "##.generic", "a.test##+js(x)"]
}
fn requests() -> Vec<Request> {
    let mut v = vec![];
    for u in ["https://ads.example.com/a", "https://ads.example.com/ok/a", "https://ads.example.com/t2/a", "https://x.test/banner/1/img/", "https://x.test/ad12/", "https://imp.example/x", "https://p.test/track-1-pixel/",
              "https://t1.example/x", "https://x.example/", "https://y.test/wild-1-card-2-here", "https://left.example/p123q", "https://y.test/end-1-here.gif", "https://y.test/s.js"] {
        for (s, t) in [("https://d.test/", "script"), ("https://ads.example.com/", "image"), ("https://x.example/", "document")] { v.push(Request::new(u, s, t).unwrap()); }
    }
    v
}
fn observe_engine(e: &Engine, reqs: &[Request]) -> Vec<String> {
    let mut out: Vec<String> = reqs.iter().map(|r| { let v = e.check_network_request(r);
        let mut csp: Vec<String> = e.get_csp_directives(r).map(|s| s.split(',').map(String::from).collect()).unwrap_or_default(); csp.sort();
        format!("{} {:?}: m={} i={} e={} csp={:?}", r.url, r.request_type, v.matched, v.important, v.exception.is_some(), csp) }).collect();
    for u in ["https://a.test/", "https://b.test/"] { let r = e.url_cosmetic_resources(u); let mut h: Vec<&String> = r.hide_selectors.iter().collect(); h.sort(); let mut x: Vec<&String> = r.exceptions.iter().collect(); x.sort();
        out.push(format!("{u}: hide={h:?} exc={x:?} script={:?}", r.injected_script)); }
    out
}

/// OBL C06.witness.model
#[test]
fn c06_answers_do_not_depend_on_history() {
    let mut seed = 6006u64;
    let mut next = move |n: usize| { seed = seed.wrapping_mul(6364136223846793005).wrapping_add(1442695040888963407); ((seed >> 33) as usize) % n };
    let sequences = if std::env::var("VF_TIER").as_deref() == Ok("thorough") { 1500 } else { 120 };
    let reqs = requests();
    let tag_sets: Vec<Vec<&str>> = vec![vec![], vec!["t1"], vec!["t2"], vec!["t1", "t2"]];
    for _ in 0..sequences {
        let rules: Vec<&str> = pool().into_iter().filter(|_| next(3) != 0).collect();
        let optimize = next(2) == 0;
        // ---- engine level ----
        let mut e = Engine::from_rules_parametrised(&rules, ParseOptions::default(), true, optimize);
        let mut tags: Vec<&str> = vec![];
        let mut history = vec![];
        for _ in 0..(2 + next(6)) {
            match next(7) {
                0 => { tags = tag_sets[next(4)].clone(); e.use_tags(&tags); history.push(format!("use{tags:?}")); }
                1 => { let t = tag_sets[next(4)].clone(); e.enable_tags(&t); for x in t { if !tags.contains(&x) { tags.push(x); } } history.push("enable".into()); }
                2 => { let t = tag_sets[next(4)].clone(); e.disable_tags(&t); tags.retain(|x| !t.contains(x)); history.push("disable".into()); }
                3 => { e.set_regex_discard_policy(RegexManagerDiscardPolicy { cleanup_interval: Duration::from_secs(0), discard_unused_time: Duration::from_secs(0) }); history.push("discard-at-once".into()); }
                4 => { e.set_regex_discard_policy(RegexManagerDiscardPolicy::default()); history.push("default-policy".into()); }
                5 => { let b = e.serialize_raw().unwrap(); e.deserialize(&b).unwrap(); history.push("reload".into()); }
                _ => { let _ = observe_engine(&e, &reqs[..(1 + next(reqs.len()))]); history.push("queries".into()); }
            }
            let mut fresh = Engine::from_rules_parametrised(&rules, ParseOptions::default(), true, optimize);
            fresh.use_tags(&tags);
            let (a, b) = (observe_engine(&e, &reqs), observe_engine(&fresh, &reqs));
            for (x, y) in a.iter().zip(b.iter()) { assert_eq!(x, y, "optimize={optimize} rules={rules:?} after {history:?}: differs from a freshly built engine"); }
        }
        // ---- blocker level: one batch vs one at a time, explicit optimise, tag switches ----
        let (filters, _) = parse_filters(&rules, true, ParseOptions::default());
        let resources = ResourceStorage::default();
        let mut b = Blocker::new(vec![], &BlockerOptions { enable_optimizations: false });
        let mut added = vec![];
        let mut history = vec![];
        let mut tags: Vec<&str> = vec![];
        for f in filters.iter() {
            b.add_filter(f.clone()).unwrap();
            added.push(f.clone());
            match next(5) {
                0 => { b.optimize(); history.push("optimize".into()); }
                1 => { tags = tag_sets[next(4)].clone(); b.use_tags(&tags); history.push(format!("use{tags:?}")); }
                2 => { for r in &reqs[..(1 + next(reqs.len()))] { let _ = b.check(r, &resources); } history.push("queries".into()); }
                _ => {}
            }
            let mut fresh = Blocker::new(added.clone(), &BlockerOptions { enable_optimizations: false });
            fresh.use_tags(&tags);
            for r in &reqs {
                let (x, y) = (b.check(r, &resources), fresh.check(r, &resources));
                assert_eq!((x.matched, x.important, x.exception.is_some(), &x.rewritten_url), (y.matched, y.important, y.exception.is_some(), &y.rewritten_url),
                    "{} {:?} after adding {} rules one at a time with {history:?}: differs from a blocker built from the same rules in one batch", r.url, r.request_type, added.len());
                assert_eq!(b.get_csp_directives(r).map(|s| { let mut d: Vec<&str> = s.split(',').collect(); d.sort(); d.join(",") }), fresh.get_csp_directives(r).map(|s| { let mut d: Vec<&str> = s.split(',').collect(); d.sort(); d.join(",") }));
            }
        }
    }
}
