// Witness inputs for C18 (run on the real crate): spellings of `+js(...)` argument lists and what reaches a function-style scriptlet
// as string literals; exception identity and the blanket exception.  The gate, the per-host merge, the escaping core and the
// separator scan are under contract (units c18_gate, c16_resources, c18_stringify, c18_args); WHICH pieces parse_scriptlet_args
// returns is not (proved total only) - these inputs decide that part on concrete spellings.
use adblock::lists::{FilterSet, ParseOptions};
use adblock::resources::{MimeType, Resource, ResourceType};
use adblock::Engine;
use base64::{engine::Engine as _, prelude::BASE64_STANDARD};

const DEFINITION: &str = "function setConstant(chain = '', cValue = '') { }\n";

fn injected_at(rules: &[&str], url: &str) -> String {
    let mut fs = FilterSet::new(false);
    fs.add_filters(rules, ParseOptions::default());
    let mut e = Engine::from_filter_set(fs, true);
    e.use_resources([Resource { name: "set-constant.js".into(), aliases: vec!["set.js".into()], kind: ResourceType::Mime(MimeType::ApplicationJavascript),
        content: BASE64_STANDARD.encode("function setConstant(chain = '', cValue = '') { }"), dependencies: vec![], permission: Default::default() }]);
    e.url_cosmetic_resources(url).injected_script
}
fn injected(rule: &str) -> String { injected_at(&[rule], "https://example.com") }
fn call(args: &str) -> String { format!("{}try {{\nsetConstant({})\n}} catch ( e ) {{ }}\n", DEFINITION, args) }

// the emitted call's argument text, parsed back as a JSON array of strings ("emitted as a string literal that parses back to exactly
// the original argument")
fn emitted_args(rule: &str) -> Vec<String> {
    let s = injected(rule);
    let body = s.strip_prefix(DEFINITION).unwrap_or_else(|| panic!("unexpected script for {rule}: {s:?}"));
    let inner = body.strip_prefix("try {\nsetConstant(").and_then(|x| x.strip_suffix(")\n} catch ( e ) { }\n")).unwrap_or_else(|| panic!("unexpected script for {rule}: {s:?}"));
    serde_json::from_str::<Vec<String>>(&format!("[{inner}]")).unwrap_or_else(|e| panic!("arguments of {rule} are not string literals: {inner:?} ({e})"))
}

/// OBL C18.witness.argument_spellings
#[test]
fn c18_argument_spellings() {
    for (rule_args, want) in [
        ("set, adsEnabled, false", vec!["adsEnabled", "false"]),
        ("set,\tadsEnabled,  false", vec!["adsEnabled", "false"]),
        ("set,\u{a0}adsEnabled, false", vec!["adsEnabled", "false"]),
        ("set, adsEnabled,\u{3000}false", vec!["adsEnabled", "false"]),
        ("set, onload, 'a, b'", vec!["onload", "a, b"]),
        ("set, onload,\u{3000}'a, b'", vec!["onload", "a, b"]),
        ("set, onload,\u{a0}\"x, y\"", vec!["onload", "x, y"]),
        ("set, onload, init()", vec!["onload", "init()"]),
        ("set, onload, (a)(b))", vec!["onload", "(a)(b))"]),
        ("set, a\\,b, c", vec!["a,b", "c"]),
        ("set, /adSlot\\,\\d+\\.init\\(/, x", vec!["/adSlot,\\d+\\.init\\(/", "x"]),
        ("set, say \"hi\", back\\slash", vec!["say \"hi\"", "back\\slash"]),
        ("set, </script><!--, a\u{2028}b$&$'`${x}", vec!["</script><!--", "a\u{2028}b$&$'`${x}"]),
        ("set, \u{1}ctl\u{7f}, tab\there", vec!["\u{1}ctl\u{7f}", "tab\there"]),
        ("set, ünï, 😀", vec!["ünï", "😀"]),
    ] {
        assert_eq!(emitted_args(&format!("example.com##+js({rule_args})")), want, "+js({rule_args})");
    }
}

/// OBL C18.witness.exception_identity
#[test]
fn c18_exceptions_remove_exactly_the_identical_injection() {
    let inj = "example.com##+js(set, onload, init())";
    assert_eq!(injected_at(&[inj, "example.com#@#+js(set, onload, init())"], "https://example.com"), "");
    assert_eq!(injected_at(&[inj, "example.com#@#+js(set, onload, init()"], "https://example.com"), call(r#""onload", "init()""#));
    assert_eq!(injected_at(&[inj, "example.com#@#+js(set, onload, init)"], "https://example.com"), call(r#""onload", "init()""#));
    assert_eq!(injected_at(&[inj, "sub.example.com#@#+js(set, onload, init())"], "https://example.com"), call(r#""onload", "init()""#));
    assert_eq!(injected_at(&[inj, "sub.example.com#@#+js(set, onload, init())"], "https://sub.example.com"), "");
    // blanket exception: exactly `+js()`
    assert_eq!(injected_at(&[inj, "example.com##+js(set, a, 1)", "example.com#@#+js()"], "https://example.com"), "");
    assert_ne!(injected_at(&[inj, "example.com#@#+js())"], "https://example.com"), "");
}

/// OBL C18.witness.permission_per_list
#[test]
fn c18_each_list_injects_with_its_own_permission() {
    use adblock::resources::PermissionMask;
    // "appears in a page's injected script only if the rule list that requested it was granted all of those bits" - and it does
    // appear when SOME list that requested it was granted them, whatever other lists said about the same host before or after
    let trusted = PermissionMask::from_bits(1);
    let build = |lists: &[(&[&str], PermissionMask)]| {
        let mut fs = FilterSet::new(false);
        for (rules, permissions) in lists { fs.add_filters(rules.iter(), ParseOptions { permissions: *permissions, ..Default::default() }); }
        let mut e = Engine::from_filter_set(fs, true);
        e.use_resources([Resource { name: "trusted.js".into(), aliases: vec![], kind: ResourceType::Mime(MimeType::ApplicationJavascript),
            content: BASE64_STANDARD.encode("function trusted(a = '') { }"), dependencies: vec![], permission: trusted }]);
        e.url_cosmetic_resources("https://example.com").injected_script
    };
    let rule: &[&str] = &["example.com##+js(trusted, x)"];
    assert_eq!(build(&[(rule, PermissionMask::default())]), "", "a list without the permission must not inject");
    assert!(build(&[(rule, trusted)]).contains("trusted(\"x\")"));
    assert!(build(&[(rule, PermissionMask::default()), (rule, trusted)]).contains("trusted(\"x\")"), "untrusted list first, trusted list second");
    assert!(build(&[(rule, trusted), (rule, PermissionMask::default())]).contains("trusted(\"x\")"), "trusted list first, untrusted list second");
    assert_eq!(build(&[(rule, PermissionMask::from_bits(2)), (rule, PermissionMask::from_bits(4))]), "", "two lists that each lack the bit");
}
