// Witness input for an obligation no contract can carry because the code refutes it: the v0 wire form of a scoped
// scriptlet injection (LegacySpecificFilterType::ScriptInject(String)) has no slot for the permission of the list that
// requested it; loading rebuilds it as PermissionMask::default().
use adblock::{
    lists::{FilterSet, ParseOptions},
    resources::{PermissionMask, Resource, ResourceType},
    Engine,
};

fn resources() -> Vec<Resource> {
    use base64::{engine::general_purpose::STANDARD, Engine as _};
    vec![
        Resource { name: "trusted.js".into(), aliases: vec![], kind: ResourceType::Template, content: STANDARD.encode("console.log('{{1}}')"),
                   dependencies: vec![], permission: PermissionMask::from_bits(1) },
        Resource { name: "plain.js".into(), aliases: vec![], kind: ResourceType::Template, content: STANDARD.encode("console.log('{{1}}')"),
                   dependencies: vec![], permission: PermissionMask::default() },
    ]
}

fn round_trip(rule: &str, bits: u8) -> (String, String) {
    let mut fs = FilterSet::new(false);
    fs.add_filters([rule], ParseOptions { permissions: PermissionMask::from_bits(bits), ..Default::default() });
    let mut e = Engine::from_filter_set(fs, true);
    e.use_resources(resources());
    let before = e.url_cosmetic_resources("https://example.com/").injected_script;
    let bytes = e.serialize_raw().unwrap();
    let mut e2 = Engine::default();
    e2.deserialize(&bytes).unwrap();
    e2.use_resources(resources());
    (before, e2.url_cosmetic_resources("https://example.com/").injected_script)
}

/// OBL C08.legacy.inject_permission
#[test]
fn c08_legacy_inject_permission() {
    let (before, after) = round_trip("example.com##+js(trusted, hi)", 1);
    assert_eq!(before, after);
}

/// OBL C08.witness.controls
#[test]
fn c08_witness_controls() {
    let (before, after) = round_trip("example.com##+js(plain, hi)", 0);
    assert!(!before.is_empty());
    assert_eq!(before, after);
    let (before, _) = round_trip("example.com##+js(trusted, hi)", 0);
    assert!(before.is_empty());
    let (before, _) = round_trip("example.com##+js(trusted, hi)", 1);
    assert!(!before.is_empty());
}
