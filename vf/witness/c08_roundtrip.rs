// Witness inputs for C08 (run on the real crate): one engine holding every kind of rule (except the two recorded findings:
// $removeparam and permissioned scriptlet injections), serialized and loaded, compared with the original over a grid of queries.
// The wire conversions are under contract (units c08_wire, c08_wiring, c08_legacy, c08_shape); these inputs decide the property when
// a conversion is rewritten into a shape its contract is no longer anchored to, and cover the serde / rmp glue no contract reaches.
use adblock::lists::ParseOptions;
use adblock::request::Request;
use adblock::resources::{MimeType, Resource, ResourceType};
use adblock::Engine;
use base64::{engine::Engine as _, prelude::BASE64_STANDARD};
use std::collections::HashSet;

fn rules() -> Vec<&'static str> {
    vec![
        "||ads.example.com^", "/banner/*/img^", "/adframe.", "|https://start.example/x", "/end.gif|", "@@||good.example.com^$script", "@@/banner/ok/*",
        "||i.example^$important", "@@||i.example/x^", "||tp.example^$third-party", "||fp.example^$first-party,image", "||d.example^$domain=a.com|~sub.a.com",
        "*$script,domain=foo.com|bar.com", "||nd.example^$domain=~b.com", "||t.example^$tag=alpha", "@@||t.example/ok^$tag=beta", "/tagfuse/a$tag=alpha", "/tagfuse/b$tag=alpha", "/tagfuse/c$tag=alpha", "||mc.example/Path$match-case",
        "||r.example^$redirect=noop.js", "||rr.example^$redirect-rule=noop.js:10", "||rr.example^$redirect-rule=blank.txt:5", "@@||rr.example/no^$redirect-rule=noop.js:10",
        "||c.example^$csp=script-src 'none'", "||c.example^$csp=worker-src 'none'", "@@||c.example/free^$csp=worker-src 'none'", "@@||c.example/all^$csp",
        "/re[0-9]+x/", "||gh.example^$generichide", "@@||gh.example^$generichide", "-bad-$badfilter", "-bad-", "||ws.example^$websocket",
        "##.generic", "###gid", "##.generic > .complex", "###gid + div", "##div[ad]", "a.com,b.com##.site", "a.com#@#.generic", "~c.com##.notc", "example.*##.ent", "~example.*,a.com##.notent",
        "b.com##+js(sc, a, 1)", "b.com,c.com##+js(abort, x)", "c.com#@#+js(abort, x)", "d.com##+js(sc, a, 1)", "d.com#@#+js()",
        "a.com##.x:style(color: red)", "a.com#@#.x:style(color: red)", "b.com##.x:style(color: red)", "a.com##.y:has-text(ad)", "c.com#@#.y:has-text(ad)", "c.com##.y:has-text(ad)",
        // hosts that carry ONLY an exception (their bucket is created by the exception itself)
        "sub.b.com#@#+js(sc, a, 1)", "only.b.com#@#+js()", "sub.a.com#@#.site", "sub2.a.com#@#.x:style(color: red)", "sub3.a.com#@#.y:has-text(ad)",
        "a.com##.z:remove()", "b.com##.w:remove-attr(href)", "b.com##.w:remove-class(big)",
    ]
}
fn resources() -> Vec<Resource> {
    let t = |name: &str, body: &str, kind| Resource { name: name.into(), aliases: vec![], kind, content: BASE64_STANDARD.encode(body), dependencies: vec![], permission: Default::default() };
    vec![t("noop.js", "(function(){})()", ResourceType::Mime(MimeType::ApplicationJavascript)), t("blank.txt", "", ResourceType::Mime(MimeType::TextPlain)),
         t("sc.js", "set({{1}},{{2}})", ResourceType::Template), t("abort.js", "abort({{1}})", ResourceType::Template)]
}
fn sorted(s: &HashSet<String>) -> Vec<String> { let mut v: Vec<String> = s.iter().cloned().collect(); v.sort(); v }

fn observe(e: &Engine) -> Vec<String> {
    let mut out = vec![];
    for u in ["https://ads.example.com/a.js", "https://x.test/banner/1/img/", "https://x.test/banner/ok/img/", "https://x.test/adframe.html", "https://start.example/x1", "https://x.test/start.example/x",
              "https://x.test/end.gif", "https://x.test/end.gif?1", "https://good.example.com/a.js", "https://i.example/x/", "https://i.example/y", "https://tp.example/a", "https://fp.example/a.png",
              "https://d.example/a", "https://nd.example/a", "https://t.example/a", "https://t.example/ok/", "https://x.test/tagfuse/a", "https://x.test/tagfuse/c", "https://mc.example/Path", "https://mc.example/path", "https://r.example/a.js",
              "https://rr.example/a.js", "https://rr.example/no/a.js", "https://c.example/", "https://c.example/free/", "https://c.example/all/", "https://x.test/re12x", "https://x.test/-bad-/",
              "wss://ws.example/s", "https://gh.example/"] {
        for (s, t) in [("https://a.com/", "script"), ("https://sub.a.com/", "image"), ("https://foo.com/", "script"), ("https://b.com/", "document"), ("https://fp.example/", "image"), ("", "websocket")] {
            if let Ok(r) = Request::new(u, s, t) {
                let v = e.check_network_request(&r);
                // the policy is a set of directives (C15)
                let csp = e.get_csp_directives(&r).map(|p| { let mut d: Vec<String> = p.split(',').map(String::from).collect(); d.sort(); d });
                out.push(format!("{u} {s} {t}: m={} i={} e={:?} r={:?} rw={:?} csp={:?} f={:?}", v.matched, v.important, v.exception.is_some(), v.redirect, v.rewritten_url, csp, v.filter));
            }
        }
    }
    for u in ["https://a.com/", "https://sub.a.com/p", "https://b.com/", "https://c.com/", "https://d.com/", "https://example.org/", "https://example.co.uk/", "https://gh.example/", "https://other.net/",
              "https://sub.b.com/", "https://only.b.com/", "https://sub2.a.com/", "https://sub3.a.com/"] {
        let r = e.url_cosmetic_resources(u);
        // the injected script is a set of `try { .. }` blocks (their order follows a hash map's iteration order: not part of the property)
        let mut blocks: Vec<&str> = r.injected_script.split("try {\n").collect();
        blocks.sort();
        out.push(format!("{u}: hide={:?} proc={:?} exc={:?} script={:?} gh={}", sorted(&r.hide_selectors), sorted(&r.procedural_actions), sorted(&r.exceptions), blocks, r.generichide));
    }
    for exc in [HashSet::new(), [".generic".to_string()].into_iter().collect::<HashSet<String>>()] {
        let mut v = e.hidden_class_id_selectors(["generic", "site", "nope"], ["gid", "nope"], &exc);
        v.sort();
        out.push(format!("class/id with {:?}: {:?}", sorted(&exc), v));
    }
    out
}

/// OBL C08.witness.roundtrip_observations
#[test]
fn c08_loaded_engine_answers_like_the_original() {
    for optimize in [true, false] {
        for tags in [vec![], vec!["alpha"], vec!["alpha", "beta"]] {
            let mut e = Engine::from_rules_parametrised(rules(), ParseOptions::default(), true, optimize);
            e.use_resources(resources());
            e.use_tags(&tags);
            let bytes = e.serialize_raw().unwrap();
            let mut l = Engine::new(optimize);
            l.use_resources(resources());
            l.use_tags(&tags);
            l.deserialize(&bytes).unwrap();
            let (a, b) = (observe(&e), observe(&l));
            for (x, y) in a.iter().zip(b.iter()) { assert_eq!(x, y, "optimize={optimize} tags={tags:?}: the loaded engine answers differently"); }
            assert_eq!(a.len(), b.len());
            // controls: the grid is not vacuous
            assert!(a.iter().any(|x| x.contains("m=true")) && a.iter().any(|x| x.contains("r=Some")) && a.iter().any(|x| x.contains("csp=Some")) && a.iter().any(|x| x.contains("set(")));
        }
    }
}

/// OBL C08.witness.roundtrip_generated_lists
#[test]
fn c08_generated_lists_answer_alike_after_a_load() {
    // the same comparison over generated lists: random sub-lists of the pool above, in random order (quick: 40 lists; thorough: 600)
    let pool = rules();
    let mut seed = 555u64;
    let mut next = move |n: usize| { seed = seed.wrapping_mul(6364136223846793005).wrapping_add(1442695040888963407); ((seed >> 33) as usize) % n };
    let lists = if std::env::var("VF_TIER").as_deref() == Ok("thorough") { 600 } else { 40 };
    for _ in 0..lists {
        let mut list: Vec<&str> = pool.iter().filter(|_| next(3) == 0).cloned().collect();
        for i in (1..list.len()).rev() { list.swap(i, next(i + 1)); }
        let optimize = next(2) == 0;
        let tags: Vec<&str> = ["alpha", "beta"].into_iter().filter(|_| next(2) == 0).collect();
        let mut e = Engine::from_rules_parametrised(&list, ParseOptions::default(), true, optimize);
        e.use_resources(resources());
        e.use_tags(&tags);
        let bytes = e.serialize_raw().unwrap();
        let mut l = Engine::new(optimize);
        l.use_resources(resources());
        l.use_tags(&tags);
        l.deserialize(&bytes).unwrap();
        let (a, b) = (observe(&e), observe(&l));
        for (x, y) in a.iter().zip(b.iter()) { assert_eq!(x, y, "optimize={optimize} tags={tags:?} list={list:?}: the loaded engine answers differently"); }
        // and the buffer is a fixpoint, and a second build gives the same bytes (C09)
        assert!(l.serialize_raw().unwrap() == bytes, "optimize={optimize} list={list:?}: re-serializing the loaded engine changes the buffer");
        let mut e2 = Engine::from_rules_parametrised(&list, ParseOptions::default(), true, optimize);
        e2.use_tags(&tags);
        assert!(e2.serialize_raw().unwrap() == bytes, "optimize={optimize} list={list:?}: a second build serializes differently");
    }
}
