// Witness inputs for C02 (run on the real crate): literal pattern text is compared without regard to case (unless `match-case`),
// for every anchor shape - the URL side of the comparison is what each matcher takes from the request (get_url), which the
// contracts of unit c02_matchers state per matcher; these inputs decide it when a matcher is rewritten out of its contract's reach.
use adblock::filters::network::{NetworkFilter, NetworkMatchable};
use adblock::regex_manager::RegexManager;
use adblock::request::Request;

fn m(rule: &str, url: &str) -> bool {
    let f = NetworkFilter::parse(rule, true, Default::default()).unwrap();
    f.matches(&Request::new(url, "https://source.test/", "image").unwrap(), &mut RegexManager::default())
}

/// OBL C02.witness.case_insensitive_literals
#[test]
fn c02_literals_ignore_case_in_every_anchor_shape() {
    for (rule, hit, miss) in [
        ("/promo/banner", "https://site.test/Promo/Banner.gif", "https://site.test/promos/banner"),
        ("|https://site.test/promo/", "https://site.test/PROMO/banner.gif", "https://other.test/?u=https://site.test/promo/"),
        ("/promo/banner.gif|", "https://site.test/Promo/BANNER.GIF", "https://site.test/promo/banner.gif?x"),
        ("|https://site.test/promo|", "https://site.test/PROMO", "https://site.test/promo/"),
        ("||site.test/promo/", "https://site.test/Promo/x", "https://site.test/x/promo/"),
        ("||site.test/promo|", "https://site.test/PROMO", "https://site.test/promo/x"),
        ("||site.test^promo^x", "https://site.test/PROMO/x", "https://site.test/promos/x"),
        ("/promo/*/banner^", "https://site.test/PROMO/1/Banner/", "https://site.test/promo/banner1"),
    ] {
        assert!(m(rule, hit), "{rule} must match {hit}");
        assert!(!m(rule, miss), "{rule} must not match {miss}");
    }
    // the rule spelled with capitals, the URL too
    assert!(m("|https://site.test/Promo/", "https://site.test/Promo/banner.gif"));
    assert!(m("||site.test/Promo/", "https://site.test/promo/banner.gif"));
}

/// OBL C02.witness.separator_class
#[test]
fn c02_separator_matches_exactly_the_separator_characters() {
    // "'^' matches one separator character (anything but a letter, a digit or one of _ - . %) or the end of the URL when it is last"
    for sep in ["/", "?", ":", "=", "&", "#", "!", "+", ",", ";", "@", "~"] {
        let url = format!("https://site.test/redirect{sep}2fads");
        if Request::new(&url, "https://source.test/", "image").is_ok() {
            assert!(m("redirect^2fads", &url), "`^` must match {sep:?} in {url}");
            assert!(m("/redirect^", &format!("https://site.test/redirect{sep}")), "a final `^` must match {sep:?}");
        }
    }
    for non in ["%", "_", "-", ".", "a", "7", "Z"] {
        let url = format!("https://site.test/redirect{non}2fads");
        assert!(!m("redirect^2fads", &url), "`^` must not match {non:?} in {url}");
        assert!(!m("/redirect^", &format!("https://site.test/redirect{non}x")), "a final `^` must not match {non:?}");
        assert!(!m("||site.test/redirect^2fads", &url) && !m("|https://site.test/redirect^2fads", &url));
    }
    // the end of the URL counts only for a `^` in last position
    assert!(m("/redirect^", "https://site.test/redirect") && !m("redirect^x", "https://site.test/redirect"));
    assert!(m("||site.test^", "https://site.test") && m("||site.test^", "https://site.test:8080/") && !m("||site.test^", "https://site.testx/"));
}
