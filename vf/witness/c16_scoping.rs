// Witness inputs for C16 (run on the real crate): per-site cosmetic resources for hosts, subdomains, entities and their negations.
// The storage and lookup are under contract (units c16_store, c16_resources, c16_labels, c11_locations); these inputs decide the
// property when store_rule / the lookup are rewritten out of their contracts' anchors.
use adblock::lists::ParseOptions;
use adblock::Engine;
use std::collections::HashSet;

fn set(v: &[&str]) -> HashSet<String> { v.iter().map(|s| s.to_string()).collect() }

/// OBL C16.witness.scoping
#[test]
fn c16_rules_scoped_to_the_host() {
    let e = Engine::from_rules([
        "example.com##.host", "sub.example.com##.sub", "shop.*##.entity", "shop.*,~beta.shop.*##.promo-box", "example.com,~sub.example.com##.not-sub",
        "~news.*##div[not-news]", "~example.org##a[not-org]", "example.com#@#.generic", "##.generic", "##.generic2", "~news.*##.y:style(color: red)", "news.*#@#.z:style(color: red)", "##div[misc]",
        "shop.*##.z:style(color: red)",
    ], ParseOptions::default());
    let hide = |u: &str| e.url_cosmetic_resources(u).hide_selectors;
    let exc = |u: &str| e.url_cosmetic_resources(u).exceptions;
    assert_eq!(hide("https://example.com/"), set(&[".host", ".not-sub", "div[not-news]", "a[not-org]", "div[misc]"]));
    assert_eq!(exc("https://example.com/"), set(&[".generic"]));
    assert_eq!(hide("https://sub.example.com/"), set(&[".host", ".sub", "div[not-news]", "a[not-org]", "div[misc]"]));
    assert!(exc("https://sub.example.com/").contains(".not-sub") && exc("https://sub.example.com/").contains(".generic"));
    assert_eq!(hide("https://shop.com/"), set(&[".entity", ".promo-box", "div[not-news]", "a[not-org]", "div[misc]"]));
    assert_eq!(hide("https://beta.shop.com/"), set(&[".entity", "div[not-news]", "a[not-org]", "div[misc]"]));
    assert!(exc("https://beta.shop.com/").contains(".promo-box"));
    assert_eq!(hide("https://beta.shop.co.uk/"), set(&[".entity", "div[not-news]", "a[not-org]", "div[misc]"]));
    assert_eq!(hide("https://news.co.uk/"), set(&["a[not-org]", "div[misc]"]));
    assert!(exc("https://news.co.uk/").contains("div[not-news]"));
    assert_eq!(hide("https://example.org/"), set(&["div[not-news]", "div[misc]"]));
    // actions: entity rule, and the negated host of a negation-only action rule
    let procs = |u: &str| e.url_cosmetic_resources(u).procedural_actions;
    assert!(!procs("https://news.com/").iter().any(|p| p.contains(".y")));
    assert!(procs("https://shop.com/").iter().any(|p| p.contains(".z")) && !procs("https://example.com/").iter().any(|p| p.contains(".z")));
    // the page URL may carry credentials and a port: the host is what counts
    assert_eq!(hide("https://user:pw@sub.example.com:8080/p?q#f"), hide("https://sub.example.com/"));
    assert_eq!(hide("https://user@shop.com/"), hide("https://shop.com/"));
    assert_eq!(hide("https://SUB.Example.COM/"), hide("https://sub.example.com/"));
}

/// OBL C16.rule.negation_only_action_rule_applies
#[test]
fn c16_negation_only_rule_with_action_applies_elsewhere() {
    // KNOWN FINDING (known_findings.json): a rule whose location list holds only negations covers every host but the negated ones.
    // For plain selectors that is implemented through the "hidden generic rule"; for rules with an action, procedural operators or a
    // scriptlet it is not (documented at CosmeticFilter::hidden_generic_rule): such a rule is accepted and never applies anywhere.
    let e = Engine::from_rules(["~news.*##.y:style(color: red)", "~news.example##.p:has-text(ad)", "~news.example##+js(sc, a, 1)"], ParseOptions::default());
    let r = e.url_cosmetic_resources("https://example.com/");
    assert!(r.procedural_actions.iter().any(|p| p.contains(".y")), "`~news.*##.y:style(..)` must style .y on example.com; got {:?}", r.procedural_actions);
    assert!(r.procedural_actions.iter().any(|p| p.contains(".p")), "`~news.example##.p:has-text(ad)` must apply on example.com; got {:?}", r.procedural_actions);
}
