// Witness inputs for C07 (run on the real crate; a BOUNDED stand-in): `active(rule) == (tag(rule) in current_set)` over generated
// operation sequences {use_tags, enable_tags, disable_tags, serialize+deserialize into the same engine, deserialize into a fresh engine
// that has its own enabled set} on lists with a tag option on every rule category a tag can be combined with (blocking, exception,
// important, csp), optimised and not.  The current set is tracked as a plain set (assignment / union / difference; a load keeps the
// loading engine's set); after every step each category is probed and `tag_exists` compared.  Quick: 150 sequences; thorough: 2000.
use adblock::lists::ParseOptions;
use adblock::request::Request;
use adblock::Engine;
use std::collections::BTreeSet;

/// OBL C07.witness.model
#[test]
fn c07_active_iff_tag_enabled() {
    let tags = ["a", "b", "c", "D"];
    let mut rules: Vec<String> = vec!["||always.example^".into(), "||ex.example^".into(), "||imp.example^".into(), "@@||imp.example^".into()];
    for t in tags {
        rules.push(format!("||block-{}.example^$tag={t}", t.to_lowercase()));
        rules.push(format!("@@||ex.example/{}^$tag={t}", t.to_lowercase()));
        rules.push(format!("||imp.example/{}^$important,tag={t}", t.to_lowercase()));
        rules.push(format!("||csp.example^$csp=x-{} 'none',tag={t}", t.to_lowercase()));
    }
    let mut seed = 2024u64;
    let mut next = move |n: usize| { seed = seed.wrapping_mul(6364136223846793005).wrapping_add(1442695040888963407); ((seed >> 33) as usize) % n };
    let sequences = if std::env::var("VF_TIER").as_deref() == Ok("thorough") { 2000 } else { 150 };
    let req = |u: &str, t: &str| Request::new(u, "https://src.test/", t).unwrap();
    let mut checks = 0;
    for _ in 0..sequences {
        let optimize = next(2) == 0;
        let mut e = Engine::from_rules_parametrised(&rules, ParseOptions::default(), true, optimize);
        let mut cur: BTreeSet<&str> = BTreeSet::new();
        let mut history = vec![];
        for _ in 0..(1 + next(6)) {
            let mut pick: Vec<&str> = vec![];
            for t in tags { if next(2) == 0 { pick.push(t); } }
            if next(5) == 0 { pick.push("unknown"); }
            match next(5) {
                0 => { e.use_tags(&pick); cur = pick.iter().cloned().collect(); history.push(format!("use{pick:?}")); }
                1 => { e.enable_tags(&pick); cur.extend(pick.iter().cloned()); history.push(format!("enable{pick:?}")); }
                2 => { e.disable_tags(&pick); for p in &pick { cur.remove(p); } history.push(format!("disable{pick:?}")); }
                3 => { let b = e.serialize_raw().unwrap(); e.deserialize(&b).unwrap(); history.push("reload".into()); }
                _ => {
                    // another engine (with its own enabled set) wrote the buffer; this engine keeps ITS set
                    let mut producer = Engine::from_rules_parametrised(&rules, ParseOptions::default(), true, next(2) == 0);
                    producer.use_tags(&pick);
                    e.deserialize(&producer.serialize_raw().unwrap()).unwrap();
                    history.push(format!("load-from-producer{pick:?}"));
                }
            }
            for t in tags {
                checks += 1;
                let on = cur.contains(t);
                let l = t.to_lowercase();
                assert_eq!(e.tag_exists(t), on, "tag_exists({t}) after {history:?}");
                assert_eq!(e.check_network_request(&req(&format!("https://block-{l}.example/x"), "script")).matched, on, "blocking rule of tag {t} after {history:?} (optimize={optimize})");
                assert_eq!(e.check_network_request(&req(&format!("https://ex.example/{l}/x"), "script")).matched, !on, "exception of tag {t} after {history:?} (optimize={optimize})");
                assert_eq!(e.check_network_request(&req(&format!("https://imp.example/{l}/x"), "script")).matched, on, "important rule of tag {t} after {history:?} (optimize={optimize})");
                let csp = e.get_csp_directives(&req("https://csp.example/", "document")).unwrap_or_default();
                assert_eq!(csp.split(',').any(|d| d == format!("x-{l} 'none'")), on, "csp rule of tag {t} after {history:?} (optimize={optimize}): {csp:?}");
            }
            assert!(!e.tag_exists("unknown") || cur.contains("unknown"));
            assert!(e.check_network_request(&req("https://always.example/x", "script")).matched);
        }
    }
    assert!(checks > 1000);
}
