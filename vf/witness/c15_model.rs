// Witness inputs for C15 (run on the real crate; a BOUNDED stand-in): `set(split(csp(r), ',')) == expected set` - the property's own
// formulation - over generated lists of csp rules and exceptions (6 patterns x 4 directives incl. none x 5 domain options x 3 tags),
// optimised and not, 3 enabled-tag sets, 4 URLs x 4 (type, source) pairs.  The model is written from the statement: for document and
// sub-document requests the directives of all matching active csp rules, minus every directive named by a matching exception, nothing
// at all if a matching exception carries no directive; for every other type never a policy.  Quick: 300 lists; thorough: 3000.
use adblock::lists::ParseOptions;
use adblock::request::Request;
use adblock::Engine;
use std::collections::HashSet;

type R = (bool, usize, usize, usize, usize); // (exception, pattern, directive, domain option, tag)

/// OBL C15.witness.model
#[test]
fn c15_policy_equals_the_model() {
    let pats = ["||example.com^", "/page", "||sub.example.com^", "*", "|https://example.com/page|", "||other.net^"];
    let dirs = ["a-src 'none'", "b-src 'self'", "c-src *", ""];
    let doms = ["", "example.com", "~example.com", "src.test", "example.com|~sub.example.com"];
    let tags = ["", "t1", "t2"];
    let urls = ["https://example.com/page", "https://sub.example.com/page", "https://other.net/x", "https://example.com/other"];
    let mut seed = 99u64;
    let mut next = move |n: usize| { seed = seed.wrapping_mul(6364136223846793005).wrapping_add(1442695040888963407); ((seed >> 33) as usize) % n };
    let lists = if std::env::var("VF_TIER").as_deref() == Ok("thorough") { 3000 } else { 300 };
    let mut cases = 0;
    let mut mismatches: Vec<String> = vec![];
    for _ in 0..lists {
        let rules: Vec<R> = (0..(1 + next(6))).map(|_| (next(3) == 0, next(pats.len()), next(dirs.len()), next(doms.len()), next(tags.len()))).filter(|r| r.0 || r.2 != 3).collect();
        let texts: Vec<String> = rules.iter().map(|r| {
            let mut opts = vec![if dirs[r.2].is_empty() { "csp".to_string() } else { format!("csp={}", dirs[r.2]) }];
            if !doms[r.3].is_empty() { opts.push(format!("domain={}", doms[r.3])); }
            if !tags[r.4].is_empty() { opts.push(format!("tag={}", tags[r.4])); }
            format!("{}{}${}", if r.0 { "@@" } else { "" }, pats[r.1], opts.join(","))
        }).collect();
        for optimize in [false, true] {
            let mut e = Engine::from_rules_parametrised(&texts, ParseOptions::default(), true, optimize);
            for enabled in [vec![], vec!["t1"], vec!["t1", "t2"]] {
                e.use_tags(&enabled);
                for u in urls { for (t, src) in [("document", u), ("subdocument", "https://src.test/"), ("subdocument", "https://example.com/"), ("script", "https://src.test/")] {
                    let req = Request::new(u, src, t).unwrap();
                    cases += 1;
                    let src_host = Request::new(src, src, "document").unwrap().hostname;
                    let matches = |r: &R| -> bool {
                        let pm = match pats[r.1] { "||example.com^" => req.hostname == "example.com" || req.hostname.ends_with(".example.com"), "/page" => u.contains("/page"),
                            "||sub.example.com^" => req.hostname == "sub.example.com", "*" => true, "|https://example.com/page|" => u == "https://example.com/page", _ => req.hostname == "other.net" };
                        let sd = |d: &str| src_host == d || src_host.ends_with(&format!(".{d}"));
                        let dm = match doms[r.3] { "" => true, "example.com" => sd("example.com"), "~example.com" => !sd("example.com"), "src.test" => sd("src.test"), _ => sd("example.com") && !sd("sub.example.com") };
                        pm && dm && (tags[r.4].is_empty() || enabled.contains(&tags[r.4]))
                    };
                    let want: Option<HashSet<String>> = if t == "script" { None } else {
                        let (mut on, mut off, mut blanket) = (HashSet::new(), HashSet::new(), false);
                        for r in rules.iter().filter(|r| matches(r)) {
                            if r.0 { if dirs[r.2].is_empty() { blanket = true } else { off.insert(dirs[r.2].to_string()); } } else { on.insert(dirs[r.2].to_string()); }
                        }
                        let rest: HashSet<String> = on.difference(&off).cloned().collect();
                        if blanket || rest.is_empty() { None } else { Some(rest) }
                    };
                    let got: Option<HashSet<String>> = e.get_csp_directives(&req).map(|s| s.split(',').map(String::from).collect());
                    if want != got { mismatches.push(format!("optimize={optimize} tags={enabled:?} url={u} type={t} source={src}: want {want:?}, got {got:?}; rules {texts:?}")); }
                }}
            }
        }
    }
    assert!(cases > 10000);
    assert!(mismatches.is_empty(), "{} of {} cases differ from the model; first: {}", mismatches.len(), cases, mismatches[0]);
}
