// Witness inputs for C02 (run on the real crate; a BOUNDED stand-in): `matches(rule, url) == reference_match(pattern, url)` for every
// pattern over the alphabet {a, d, /, ., ^, *} up to length 4 (thorough: 5), with each anchor shape (none, `|p`, `p|`, `|p|`,
// `||host p`, `||host p|`) and four rule hosts, against a small URL universe.  The reference is written from the statement: literal
// text case-insensitive, `*` any run, `^` one separator (anything but a letter, a digit or one of `_ - . %`) or the end of the URL when
// it is last, `|` pins start / end, `||host` pins the host text to a label-aligned occurrence in the request hostname with the
// remainder matching directly after it.  Degenerate spellings are excluded as the statement lists them; URLs in which the rule's host
// text occurs twice are left to the recorded findings (C02.match.host_*.complete).
use adblock::filters::network::{NetworkFilter, NetworkMatchable};
use adblock::regex_manager::RegexManager;
use adblock::request::Request;

fn is_sep(c: u8) -> bool { !(c.is_ascii_alphanumeric() || b"_-.%".contains(&c)) }

// does body[i..] match url starting at pos (to the end of the URL if `to_end`)?
fn m(body: &[u8], i: usize, url: &[u8], pos: usize, to_end: bool) -> bool {
    if i == body.len() { return !to_end || pos == url.len(); }
    match body[i] {
        b'*' => (pos..=url.len()).any(|k| m(body, i + 1, url, k, to_end)),
        b'^' => (pos < url.len() && is_sep(url[pos]) && m(body, i + 1, url, pos + 1, to_end)) || (i + 1 == body.len() && pos == url.len()),
        c => pos < url.len() && url[pos].to_ascii_lowercase() == c.to_ascii_lowercase() && m(body, i + 1, url, pos + 1, to_end),
    }
}

fn reference(host: Option<&str>, body: &str, left: bool, right: bool, url: &str, hostname_range: (usize, usize)) -> bool {
    let (u, b) = (url.as_bytes(), body.as_bytes());
    match host {
        None => if left { m(b, 0, u, 0, right) } else { (0..=u.len()).any(|s| m(b, 0, u, s, right)) },
        Some(h) => {
            let (hs, he) = hostname_range;
            (hs..he).any(|s| {
                let e = s + h.len();
                e <= he && u[s..e].eq_ignore_ascii_case(h.as_bytes()) && (s == hs || u[s - 1] == b'.') && (e == he || u[e] == b'.')
                    && m(b, 0, u, e, right)
            })
        }
    }
}

/// OBL C02.witness.model
#[test]
fn c02_matches_equal_the_reference() {
    let thorough = std::env::var("VF_TIER").as_deref() == Ok("thorough");
    let alphabet = [b'a', b'd', b'/', b'.', b'^', b'*'];
    let max_len = if thorough { 5 } else { 4 };
    let mut bodies: Vec<String> = vec![String::new()];
    let mut frontier = vec![String::new()];
    for _ in 0..max_len {
        let mut nextf = vec![];
        for p in &frontier { for c in alphabet { let mut q = p.clone(); q.push(c as char); nextf.push(q); } }
        bodies.extend(nextf.iter().cloned());
        frontier = nextf;
    }
    // degenerate spellings the statement excludes
    let ok_body = |b: &str| !(b.starts_with('*') || b.ends_with('*') || b.contains("**") || b.contains("^^") || (b.len() > 1 && b.starts_with('/') && b.ends_with('/')));
    let hosts = ["ads.net", "net", "ads", "d.ads.net"];
    let urls = ["https://ads.net/a", "https://d.ads.net/a/d", "https://ads.net.x.org/a", "https://xads.net/a.d", "http://net/ad", "https://ads.net:80/a?a=d", "https://a.ads/a/", "wss://ads.net/d.a/ad", "https://ads.net/A/D",
                "https://ads.net.xads.net/a", "https://d.ads.net.ads.net/", "https://ads.netads.net/a", "https://net.internet/a"];
    let mut cases = 0u64;
    let mut mismatches: Vec<String> = vec![];
    for body in bodies.iter().filter(|b| ok_body(b)) {
        let mut rules: Vec<(String, Option<&str>, bool, bool)> = vec![];
        if !body.is_empty() {
            rules.push((body.clone(), None, false, false));
            rules.push((format!("|{body}"), None, true, false));
            rules.push((format!("{body}|"), None, false, true));
            rules.push((format!("|{body}|"), None, true, true));
        }
        // `||host` + remainder: the remainder must not continue the host text, and the excluded shapes `||host...^|`, `||host*...|`
        if body.is_empty() || matches!(body.as_bytes()[0], b'/' | b'^') {
            for h in hosts {
                rules.push((format!("||{h}{body}"), Some(h), false, false));
                // (`||host|` with nothing in between is a recorded finding, see the test below)
                if !body.is_empty() && !body.ends_with('^') && !body.contains('*') { rules.push((format!("||{h}{body}|"), Some(h), false, true)); }
            }
        }
        for (text, host, left, right) in rules {
            let Ok(f) = NetworkFilter::parse(&text, true, Default::default()) else { continue };
            for url in urls {
                let req = Request::new(url, "https://src.test/", "script").unwrap();
                let hs = url.find("://").unwrap() + 3;
                let he = hs + req.hostname.len();
                // a remainder behind a host text that occurs twice in the URL is left to the recorded findings
                if let Some(h) = host { if url.to_ascii_lowercase().matches(h).count() > 1 && !(body.is_empty() || body == "^") { continue; } }
                cases += 1;
                let want = reference(host, body, left, right, url, (hs, he));
                let got = f.matches(&req, &mut RegexManager::default());
                if want != got && mismatches.len() < 40 { mismatches.push(format!("{text:?} vs {url}: reference {want}, engine {got}")); }
            }
        }
    }
    assert!(cases > 20000, "{cases}");
    assert!(mismatches.is_empty(), "{} (capped) of {} cases differ from the reference; first ones: {:#?}", mismatches.len(), cases, &mismatches[..mismatches.len().min(12)]);
}

/// OBL C02.match.host_pipe_is_url_end
#[test]
fn c02_host_followed_by_pipe_pins_the_end_of_the_url() {
    // KNOWN FINDING (known_findings.json): "'|' pins the start or end of the URL" - `||ads.net|` says the URL ends right after the host;
    // the engine compiles it to the same rule as `||ads.net^` (hostname match, any path)
    let f = NetworkFilter::parse("||ads.net|", true, Default::default()).unwrap();
    let req = Request::new("https://ads.net/a", "https://src.test/", "script").unwrap();
    assert!(!f.matches(&req, &mut RegexManager::default()), "`||ads.net|` must not match https://ads.net/a (the URL does not end after the host)");
}

/// OBL C02.witness.model_special_characters
#[test]
fn c02_special_characters_are_literal_text() {
    // "literal text is matched case-insensitively as a substring": every character other than `*`, `^` and the anchoring `|` stands for
    // itself, including the ones a regular expression gives a meaning to.  Every pattern up to length 3 (thorough: 4) over
    // {a d + ( ) [ { | . ? \ ^ *}, unanchored, `|p` and `p|`, against URLs that contain these characters.
    let thorough = std::env::var("VF_TIER").as_deref() == Ok("thorough");
    let alphabet = [b'a', b'+', b'(', b'\\', b'^', b'*', b'[', b'{', b'|', b'.', b'?', b'd', b')'];
    let mut bodies: Vec<String> = vec![];
    let mut frontier = vec![String::new()];
    for _ in 0..(if thorough { 4 } else { 3 }) {
        let mut nextf = vec![];
        for p in &frontier { for c in alphabet { let mut q = p.clone(); q.push(c as char); nextf.push(q); } }
        bodies.extend(nextf.iter().cloned());
        frontier = nextf;
    }
    let ok_body = |b: &str| !(b.starts_with('*') || b.ends_with('*') || b.contains("**") || b.contains("^^") || b.starts_with('|') || b.ends_with('|'));
    let urls = ["https://x.org/a+(a\\a[a{a|a.a?a)", "https://x.org/aa+a(d\\d)1", "https://x.org/a|d", "https://x.org/a.d?a+d", "https://x.org/ad1\\d", "https://x.org/a?a=(a)&d=[d]", "https://x.org/a{a}a\\+"];
    let mut cases = 0u64;
    let mut mismatches: Vec<String> = vec![];
    for body in bodies.iter().filter(|b| ok_body(b)) {
        for (text, left, right) in [(body.clone(), false, false), (format!("|{body}"), true, false), (format!("{body}|"), false, true)] {
            let Ok(f) = NetworkFilter::parse(&text, true, Default::default()) else { continue };
            for url in urls {
                let req = Request::new(url, "https://src.test/", "script").unwrap();
                assert_eq!(req.url, url);
                cases += 1;
                let want = reference(None, body, left, right, url, (0, 0));
                let got = f.matches(&req, &mut RegexManager::default());
                if want != got && mismatches.len() < 40 { mismatches.push(format!("{text:?} vs {url}: reference {want}, engine {got}")); }
            }
        }
    }
    assert!(cases > 20000, "{cases}");
    assert!(mismatches.is_empty(), "{} (capped) of {} cases differ from the reference; first ones: {:#?}", mismatches.len(), cases, &mismatches[..mismatches.len().min(12)]);
}

/// OBL C02.match.host_then_port_or_query
#[test]
fn c02_remainder_after_host_may_start_with_a_port_or_query() {
    // regression input of fix 9f00384: "'||host' pins the match to the request hostname ... with the remainder matching directly after that
    // host": in `||example.com:8080^` the host is example.com and the remainder is `:8080^` (the parser used to take everything up to the
    // first `/`, `^` or `*` as the host)
    let mut bad = vec![];
    for (rule, url) in [("||example.com:8080^", "https://example.com:8080/x"), ("||example.com:8080/x", "https://example.com:8080/x"), ("||example.com?a", "https://example.com?a=1"),
                        ("||example.com:8080^", "https://sub.example.com:8080/x"), ("||[::1]:8080^", "https://[::1]:8080/x"), ("||[::1]/x", "https://[::1]/x"), ("||example.com:*/x", "https://example.com:8080/x")] {
        let f = NetworkFilter::parse(rule, true, Default::default()).unwrap();
        let req = Request::new(url, "https://src.test/", "script").unwrap();
        if !f.matches(&req, &mut RegexManager::default()) { bad.push(format!("`{rule}` does not match {url}")); }
    }
    // control: the port-less spelling matches
    let f = NetworkFilter::parse("||example.com^", true, Default::default()).unwrap();
    assert!(f.matches(&Request::new("https://example.com:8080/x", "https://src.test/", "script").unwrap(), &mut RegexManager::default()));
    for (rule, url) in [("||example.com:8080^", "https://example.com/x"), ("||example.com:8080^", "https://example.com:80801/x"), ("||example.com:8080^", "https://example.com.evil.com:8080/x"), ("||example.com/x", "https://example.com:8080/x")] {
        let f = NetworkFilter::parse(rule, true, Default::default()).unwrap();
        let req = Request::new(url, "https://src.test/", "script").unwrap();
        if f.matches(&req, &mut RegexManager::default()) { bad.push(format!("`{rule}` matches {url}")); }
    }
    assert!(bad.is_empty(), "{:?}", bad);
}
