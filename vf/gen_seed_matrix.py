#!/usr/bin/env python3
"""Regenerates the table of ALL kept seeded changes in DESIGN.md section 10.6 (between <!-- SEED-MATRIX-BEGIN/END -->) from
/verif/seeded/<id>/meta.json and /verif/seeded/eval_results.jsonl (written from the output of vf/seed_eval.py on the final tree)."""
import json, os, re, sys
ROOT = os.path.dirname(os.path.dirname(os.path.abspath(__file__)))
res = {}
for l in open(os.path.join(ROOT, "seeded", "eval_results.jsonl")):
    d = json.loads(l)
    res[d["seed"]] = d
rows = ["| seed | round | what it changes | result | obligations that fail (W = witness input replayed on the real crate) |", "|---|---|---|---|---|"]
tot = dict(caught=0, undecided=0, missed=0)
wonly = 0
for sd in sorted(os.listdir(os.path.join(ROOT, "seeded"))):
    mp = os.path.join(ROOT, "seeded", sd, "meta.json")
    if not os.path.exists(mp):
        continue
    m = json.load(open(mp))
    what = re.sub(r"\s+", " ", m.get("what_it_changes", "")).replace("|", "\\|")
    what = re.sub(r"^(Change [AB]\b[^:—-]*[:—-]\s*)", "", what)[:150]
    r = res.get(sd, {}).get("results", {})
    labs, und = [], False
    for p, v in r.items():
        if isinstance(v, dict):
            if v["rc"] == 1:
                for x in v["violations"]:
                    if x not in labs:
                        labs.append(x)
            elif v["rc"] == 2:
                und = True
    if labs:
        st = "caught"
        if all(".witness." in x for x in labs):
            st = "caught (W only)"; wonly += 1
        tot["caught"] += 1
    elif und:
        st = "undecided"; tot["undecided"] += 1
    else:
        st = "**missed**"; tot["missed"] += 1
    rows.append("| %s | %s | %s | %s | %s |" % (sd, m.get("round", 1 if sd[-1] in "AB" else 2), what, st, ", ".join("`%s`" % x + (" (W)" if ".witness." in x else "") for x in labs[:4])))
summary = "%d kept changes: %d caught (%d of them only by witness inputs, the deductive part being undecided or out of reach), %d undecided, %d missed." % (
    sum(tot.values()), tot["caught"], wonly, tot["undecided"], tot["missed"])
p = os.path.join(ROOT, "DESIGN.md")
s = open(p).read()
b, e = "<!-- SEED-MATRIX-BEGIN -->", "<!-- SEED-MATRIX-END -->"
if b not in s:
    print("markers missing"); sys.exit(1)
s = s[:s.index(b) + len(b)] + "\n" + summary + "\n\n" + "\n".join(rows) + "\n" + s[s.index(e):]
open(p, "w").write(s)
print(summary)
