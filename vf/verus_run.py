"""Run Verus on one generated unit and turn its diagnostics into an obligation ledger."""

import json
import os
import re
import subprocess
import time

from extract import Extractor, UnitError, clean_markers
from rsscan import LostAnchor

OBL_RE = re.compile(r"//\s*OBL\s+([A-Za-z0-9_.\-]+)")
VERIF_ERR = (
    "postcondition not satisfied", "precondition not met", "precondition not satisfied", "invariant not satisfied",
    "assertion failed", "possible arithmetic underflow/overflow", "possible division by zero",
    "decreases not satisfied", "index out of bounds", "possible bit shift underflow/overflow",
    "recommendation not met", "loop invariant not satisfied", "invariant not satisfied at end of loop body",
    "invariant not satisfied before loop", "assertion not satisfied", "could not prove termination",
    "unreachable", "constructed value may fail to meet its declared type invariant", "unable to prove", "closure",
)
RESOURCE_ERR = ("resource limit", "rlimit", "timed out", "timeout")


class UnitResult:
    def __init__(self, unit):
        self.unit = unit
        self.status = "ok"            # ok | undecided
        self.reason = ""
        self.obligations = {}         # label -> dict(status, msg)
        self.functions = {}           # verus per-function success
        self.time_s = 0.0
        self.smt_ms = 0
        self.items = []
        self.lifts = []
        self.stats = {}
        self.trusted = []
        self.verus_summary = {}
        self.generated = None
        self.raw_errors = []
        self.missing_lifts = []


def scan_trusted(text):
    """mechanical scan for assumptions in the generated file."""
    out = []
    lines = text.split("\n")
    for n, ln in enumerate(lines, 1):
        s = ln.strip()
        if s.startswith("//"):
            continue
        for kw in ("external_body", "assume_specification", "axiom fn", "admit(", "assume(", "uninterp spec fn", "external_type_specification", "#[verifier::external"):
            if kw in s:
                # name: next fn name in this or following lines
                name = ""
                for q in range(n - 1, min(n + 6, len(lines))):
                    m = re.search(r"\b(?:fn|struct|enum)\s+([A-Za-z0-9_]+)|\[\s*([A-Za-z0-9_:<>, ]+?)\s*\]", lines[q])
                    if m:
                        name = m.group(1) or m.group(2)
                        break
                out.append("%s %s (line %d)" % (kw.rstrip("("), name, n))
                break
    return out


def _run_unit_once(unit, repo, vfdir, scratch, rlimit=None, keep=False, extra_args=(), stub=()):
    res = UnitResult(unit)
    t0 = time.time()
    tpl = os.path.join(vfdir, "units", unit + ".rs")
    ex = Extractor(repo, vfdir)
    ex.stub = set(stub)
    try:
        text, fn_ranges = ex.process(tpl)
    except LostAnchor as e:
        res.status, res.reason = "undecided", "lost anchor: %s" % e
        res.time_s = time.time() - t0
        return res
    except UnitError as e:
        res.status, res.reason = "undecided", "extraction: %s" % e
        res.time_s = time.time() - t0
        return res
    res.items, res.lifts, res.stats = ex.items, ex.lifts, ex.stats
    res.missing_lifts = ex.missing_lifts
    gen = clean_markers(text)
    # inside-contract assume/admit is a hard error
    for n, ln in enumerate(gen.split("\n"), 1):
        s = ln.strip()
        if not s.startswith("//") and re.search(r"\b(admit|assume)\s*\(", s):
            res.status, res.reason = "undecided", "assume/admit in generated unit at line %d" % n
            return res
    path = os.path.join(scratch, unit + ".rs")
    with open(path, "w") as f:
        f.write(gen)
    res.generated = path
    res.trusted = scan_trusted(gen)
    labels = {}
    for n, ln in enumerate(gen.split("\n"), 1):
        m = OBL_RE.search(ln)
        if m:
            labels[n] = m.group(1)
    for (_, _, lab, _) in fn_ranges:
        pass
    all_labels = set(labels.values()) | {r[2] for r in fn_ranges}
    cmd = ["verus", path, "--output-json", "--time", "--multiple-errors", "40", "--error-format=json",
           "--num-threads", "8"]
    if rlimit:
        cmd += ["--rlimit", str(rlimit)]
    cmd += list(extra_args)
    try:
        p = subprocess.run(cmd, capture_output=True, text=True, timeout=1800, cwd=scratch)
    except subprocess.TimeoutExpired:
        res.status, res.reason = "undecided", "verus timeout"
        return res
    res.time_s = time.time() - t0
    try:
        summary = json.loads(p.stdout)
    except Exception:
        res.status, res.reason = "undecided", "verus produced no json: %s" % (p.stderr[-2000:])
        return res
    vr = summary.get("verification-results", {})
    res.verus_summary = vr
    try:
        res.smt_ms = summary["times-ms"]["smt"]["total"]
        for m in summary["times-ms"]["smt"]["smt-run-module-times"]:
            for fb in m.get("function-breakdown", []):
                res.functions[fb["function"]] = dict(ok=fb["success"], ms=fb["time"], rlimit=fb.get("rlimit"))
    except Exception:
        pass
    diags = []
    for ln in p.stderr.split("\n"):
        ln = ln.strip()
        if ln.startswith("{"):
            try:
                diags.append(json.loads(ln))
            except Exception:
                pass
    failed = {}
    canary_failed = False
    hard = []
    hard_lines = []
    for dg in diags:
        if dg.get("level") != "error":
            continue
        msg = dg.get("message", "")
        if msg.startswith("aborting due to"):
            continue
        spans = dg.get("spans", [])
        prim = [s for s in spans if s.get("is_primary")]
        sec = [s for s in spans if not s.get("is_primary")]
        rendered = dg.get("rendered", "")
        if "vf_canary" in rendered and "postcondition not satisfied" in msg:
            canary_failed = True
            continue
        is_verif = any(msg.startswith(v) or v in msg for v in VERIF_ERR)
        is_res = any(v in msg.lower() for v in RESOURCE_ERR)
        if is_res:
            res.status = "undecided"
            res.reason = "resource limit: %s" % rendered[:400]
            continue
        if not is_verif:
            hard.append(rendered)
            hard_lines.append(prim[0]["line_start"] if prim else 0)
            continue

        def lab_of(spanlist):
            for s in spanlist:
                for n in range(s["line_start"], s["line_end"] + 1):
                    if n in labels:
                        return labels[n]
            return None

        def fn_of(spanlist):
            for s in spanlist:
                for (a, b, lab, nm) in fn_ranges:
                    if a <= s["line_start"] <= b:
                        return lab
            return None

        lab = lab_of(prim) or fn_of(prim) or lab_of(sec) or fn_of(sec)
        if lab is None:
            line = prim[0]["line_start"] if prim else 0
            lab = "%s.unlabelled@%d" % (unit, line)
        failed.setdefault(lab, []).append(rendered)
        res.raw_errors.append(rendered)
    if hard:
        res.status = "undecided"
        res.reason = "verus rejected the unit (unsupported construct / type error):\n" + "\n".join(hard)[:3000]
        res.hard_lines = hard_lines
        res.all_ranges = ex.all_ranges
        return res
    if not canary_failed:
        if "fn vf_canary" in gen:
            res.status, res.reason = "undecided", "vacuity guard: canary `ensures false` did not fail"
            return res
    if vr.get("verified", 0) + vr.get("errors", 0) == 0:
        res.status, res.reason = "undecided", "vacuity guard: zero functions verified"
        return res
    for lab in sorted(all_labels):
        if lab in failed:
            res.obligations[lab] = dict(status="failed", msg=failed[lab][0])
        else:
            res.obligations[lab] = dict(status="discharged", msg="")
    for lab in failed:
        if lab not in res.obligations:
            res.obligations[lab] = dict(status="failed", msg=failed[lab][0])
    if res.status == "undecided":
        # resource limit on some function: obligations not failed are not thereby discharged
        for lab, o in res.obligations.items():
            if o["status"] == "discharged":
                o["status"] = "undecided"
    return res


def run_unit(unit, repo, vfdir, scratch, rlimit=None, keep=False, extra_args=()):
    """Run the unit; if Verus rejects it because of constructs inside extracted function bodies, retry with those
    functions reduced to signature + contract (external_body): their own obligations become undecided, the
    rest of the unit is still decided."""
    res = _run_unit_once(unit, repo, vfdir, scratch, rlimit, keep, extra_args)
    if res.status == "undecided" and res.reason.startswith("resource limit") and rlimit is None:
        # the solver ran out of its default budget (typical for a clause that is now FALSE: Z3 searches instead of refuting).
        # Give it more before giving up: a longer search can only turn "undecided" into a decision.
        for bigger in (40, 160):
            res_b = _run_unit_once(unit, repo, vfdir, scratch, bigger, keep, extra_args)
            if not (res_b.status == "undecided" and res_b.reason.startswith("resource limit")):
                res_b.rlimit_used = bigger
                res = res_b
                break
    if res.status != "undecided" or not getattr(res, "hard_lines", None):
        return res
    stub = set()
    cur = res
    res2 = None
    for _ in range(5):
        before = set(stub)
        for ln in cur.hard_lines:
            hit = [r for r in cur.all_ranges if r[0] <= ln <= r[1]]
            if not hit or hit[0][3] or hit[0][2] in before:   # outside any extracted fn / inside a block lift / already stubbed in an earlier pass
                return res
            stub.add(hit[0][2])
        res2 = _run_unit_once(unit, repo, vfdir, scratch, rlimit, keep, extra_args, stub=tuple(stub))
        if res2.status == "undecided" and getattr(res2, "hard_lines", None):
            cur = res2
            continue
        break
    else:
        return res
    # obligations of stubbed functions are not decided
    stub_labels = set()
    for (a, b, name, bodyonly, safety) in getattr(res2, "all_ranges", []) or []:
        pass
    res2.stubbed = sorted(stub)
    res2.status = "undecided"
    res2.reason = "verus rejected the body of %s (first run: %s); the rest of the unit was decided with these functions reduced to their contracts" % (", ".join(sorted(stub)), res.reason[:600])
    for lab, o in res2.obligations.items():
        if o["status"] == "undecided":
            pass
    # keep failures as failures; discharged obligations of OTHER functions stay discharged, but the unit as a whole is undecided
    keep_status = {lab: o["status"] for lab, o in res2.obligations.items()}
    res2.obligations = {lab: dict(status=("failed" if st == "failed" else "undecided"), msg=res2.obligations[lab]["msg"]) for lab, st in keep_status.items()}
    return res2
