#!/bin/bash
# usage: confirm_seed.sh <seed-id> <patch.diff> <demo.rs>
# Confirms in a scratch worktree of /repo HEAD: demo passes without the patch, fails with it, and the
# repository's own suite still shows only the 6 network-dependent failures.  Writes <out>/confirm.txt
id=$1; patch=$2; demo=$3; out=/verif/seeded/$id
wt=/tmp/sv/$id
mkdir -p /tmp/sv "$out"
git -C /repo worktree remove --force "$wt" 2>/dev/null
git -C /repo worktree add -q --detach "$wt" HEAD || exit 2
cd "$wt"
export CARGO_NET_OFFLINE=true
cp "$demo" tests/seed_demo.rs
r1=$(cargo test --offline --test seed_demo 2>&1 | grep -E "^test result" | tail -1)
if ! git apply --check "$patch" 2>/dev/null; then echo "PATCH-DOES-NOT-APPLY" > "$out/confirm.txt"; cd /; git -C /repo worktree remove --force "$wt"; exit 1; fi
git apply "$patch"
r2=$(cargo test --offline --test seed_demo 2>&1 | grep -E "^test result|error(\[|:)" | tail -1)
rm tests/seed_demo.rs
fails=$(cargo test --workspace --no-fail-fast --offline 2>&1 | grep -E "^test .* \.\.\. FAILED" | sed -E 's/^test (.*) \.\.\. FAILED/\1/' | sort | tr '\n' ' ')
expected="check_live_from_filterlists check_live_specific_urls check_matching_equivalent check_matching_hostnames stable_serialization stable_serialization_through_load "
{
 echo "repo_head=$(git -C /repo rev-parse --short HEAD)"
 echo "demo_without_patch: $r1"
 echo "demo_with_patch: $r2"
 if [ "$fails" == "$expected" ]; then echo "suite_with_patch: baseline (only the 6 network tests fail)"; else echo "suite_with_patch: UNEXPECTED failures: $fails"; fi
} > "$out/confirm.txt"
cp "$patch" "$out/patch.diff"; cp "$demo" "$out/demo.rs"
cd /; git -C /repo worktree remove --force "$wt"; rm -rf "$wt"
cat "$out/confirm.txt"
