#!/usr/bin/env python3
"""setup_cmd: nothing to build; checks that the tools this framework drives are present offline."""
import shutil, subprocess, sys
ok = True
for tool in ("verus", "cargo", "rsync", "cargo-kani"):
    if not shutil.which(tool):
        print("missing tool:", tool); ok = False
sys.exit(0 if ok else 1)
