#![no_main]
use adblock::{lists::ParseOptions, Engine};
use libfuzzer_sys::fuzz_target;
use std::collections::HashSet;

fn css_unescape(s: &str) -> Option<String> {
    let cs: Vec<char> = s.chars().collect();
    let mut out = String::new();
    let mut i = 0;
    while i < cs.len() {
        if cs[i] == '\\' {
            if i + 1 >= cs.len() { return None; }
            let mut j = i + 1; let mut hex = String::new();
            while j < cs.len() && hex.len() < 6 && cs[j].is_ascii_hexdigit() { hex.push(cs[j]); j += 1; }
            if hex.is_empty() { if cs[i + 1] == '\n' { return None; } out.push(cs[i + 1]); i += 2; }
            else {
                if j < cs.len() && (cs[j] == ' ' || cs[j] == '\t') { j += 1; }
                let cp = u32::from_str_radix(&hex, 16).unwrap();
                out.push(char::from_u32(cp).filter(|c| *c != '\0')?);
                i = j;
            }
        } else if cs[i].is_ascii_alphanumeric() || cs[i] == '_' || cs[i] == '-' || !cs[i].is_ascii() { out.push(cs[i]); i += 1; }
        else { return None; }
    }
    Some(out)
}

fuzz_target!(|data: &[u8]| {
    let Ok(ident) = std::str::from_utf8(data) else { return };
    if ident.is_empty() || ident.len() > 40 || ident.trim() != ident || ident.contains(|c: char| c.is_control()) { return; }
    if ident.starts_with(|c: char| c.is_ascii_digit()) || ident == "-" || (ident.starts_with('-') && ident[1..].starts_with(|c: char| c.is_ascii_digit())) { return; }
    // a trailing `\` + blank would be trimmed with the line
    if ident.ends_with(' ') || ident.ends_with('\t') { return; }
    let Some(name) = css_unescape(ident) else { return };
    for prefix in ['.', '#'] {
        let sel = format!("{}{}", prefix, ident);
        let rule = format!("##{}", sel);
        let e = Engine::from_rules([rule.as_str()], ParseOptions::default());
        let keyed = if prefix == '.' { e.hidden_class_id_selectors([name.as_str()], Vec::<&str>::new(), &HashSet::new()) } else { e.hidden_class_id_selectors(Vec::<&str>::new(), [name.as_str()], &HashSet::new()) };
        let per_site = e.url_cosmetic_resources("https://example.com/").hide_selectors.contains(&sel);
        // the rule may have been rejected by the list parser (then it is nowhere, which is fine)
        let parsed = adblock::lists::parse_filter(&rule, true, ParseOptions::default()).is_ok();
        if !parsed { continue; }
        assert!(keyed == vec![sel.clone()] && !per_site, "C17: {:?} name {:?}: keyed {:?} per-site {}", rule, name, keyed, per_site);
    }
});
