#![no_main]
use adblock::filters::network::{NetworkFilter, NetworkMatchable};
use adblock::regex_manager::RegexManager;
use adblock::request::Request;
use libfuzzer_sys::fuzz_target;

fn is_sep(c: u8) -> bool { !(c.is_ascii_alphanumeric() || b"_-.%".contains(&c)) }
fn m(body: &[u8], i: usize, url: &[u8], pos: usize, to_end: bool, depth: &mut u32) -> bool {
    *depth += 1; if *depth > 200000 { return false; }
    if i == body.len() { return !to_end || pos == url.len(); }
    match body[i] {
        b'*' => (pos..=url.len()).any(|k| m(body, i + 1, url, k, to_end, depth)),
        b'^' => (pos < url.len() && is_sep(url[pos]) && m(body, i + 1, url, pos + 1, to_end, depth)) || (i + 1 == body.len() && pos == url.len()),
        c => pos < url.len() && url[pos].to_ascii_lowercase() == c.to_ascii_lowercase() && m(body, i + 1, url, pos + 1, to_end, depth),
    }
}

fuzz_target!(|data: &[u8]| {
    let Ok(text) = std::str::from_utf8(data) else { return };
    let Some((pat, tail)) = text.split_once('\n') else { return };
    let ok = |c: char| c.is_ascii_alphanumeric() || "/.-_%^*:?=&+()[]{}\\,;!~@".contains(c);
    if pat.is_empty() || pat.len() > 24 || tail.len() > 60 || !pat.chars().all(ok) || !tail.chars().all(|c| ok(c) && c != '^' && c != '*' && c != '\\') { return; }
    if pat.starts_with('*') || pat.ends_with('*') || pat.contains("**") || pat.contains("^^") || (pat.len() > 1 && pat.starts_with('/') && pat.ends_with('/')) || pat.starts_with('!') || pat.starts_with("@@") || pat.contains("##") || pat.contains("#@#") { return; }
    if pat.matches('*').count() > 3 { return; }
    let url = format!("https://x.org/{}", tail);
    let Ok(req) = Request::new(&url, "https://src.test/", "script") else { return };
    if req.url != url { return; }
    for (left, right) in [(false, false), (true, false), (false, true)] {
        // a left-anchored pattern is written against the whole URL
        let body = if left { format!("https://x.org/{}", pat) } else { pat.to_string() };
        let rule = format!("{}{}{}", if left { "|" } else { "" }, body, if right { "|" } else { "" });
        if rule.contains('$') { return; }
        let Ok(f) = NetworkFilter::parse(&rule, true, Default::default()) else { continue };
        let (b, u) = (body.as_bytes(), url.as_bytes());
        let mut depth = 0u32;
        let want = if left { m(b, 0, u, 0, right, &mut depth) } else { (0..=u.len()).any(|s| m(b, 0, u, s, right, &mut depth)) };
        if depth > 200000 { continue; }
        let got = f.matches(&req, &mut RegexManager::default());
        assert_eq!(want, got, "C02: rule {:?} vs {}", rule, url);
    }
});
