#![no_main]
use adblock::request::Request;
use libfuzzer_sys::fuzz_target;

fuzz_target!(|data: &[u8]| {
    let Ok(text) = std::str::from_utf8(data) else { return };
    for u in [text.to_string(), format!("https://{}", text), format!("http://u:p@{}", text)] {
        let Ok(r) = Request::new(&u, "https://src.example/", "script") else { continue };
        let Ok(p) = url::Url::parse(&u) else { continue };
        let Some(h) = p.host_str() else { continue };
        if !matches!(p.scheme(), "http" | "https" | "ws" | "wss") { continue; }
        // recorded findings: percent-encoded host text, IP-literal spellings
        if matches!(p.host(), Some(url::Host::Ipv4(_)) | Some(url::Host::Ipv6(_))) { continue; }
        let authority_end = u.find("://").map(|i| i + 3).unwrap_or(0);
        let rest = &u[authority_end..];
        let auth = &rest[..rest.find(|c| c == '/' || c == '?' || c == '#' || c == '\\').unwrap_or(rest.len())];
        if auth.contains('%') || u.contains('%') { continue; }
        assert_eq!(r.hostname, h, "C12: hostname of {:?}", u);
        // from pre-parsed parts
        let r2 = Request::new(&u, &u, "script").unwrap();
        assert!(!r2.is_third_party, "C12: a request from its own URL is first-party: {:?}", u);
    }
});
