#![no_main]
use adblock::lists::{FilterSet, ParseOptions};
use adblock::request::Request;
use adblock::Engine;
use libfuzzer_sys::fuzz_target;
use std::collections::HashSet;

fn base() -> Engine {
    let mut fs = FilterSet::new(true);
    fs.add_filters(["||base.example^", "base.example##.b", "/basead/$script,tag=t"], ParseOptions::default());
    Engine::from_filter_set(fs, true)
}

fuzz_target!(|data: &[u8]| {
    let mut e = base();
    let before = e.serialize_raw().unwrap();
    match e.deserialize(data) {
        Err(_) => {
            let after = e.serialize_raw().unwrap();
            assert!(before == after, "C10: a failed load changed the engine");
        }
        Ok(()) => {
            for (u, s, t) in [("https://base.example/x", "https://src.test/", "script"), ("https://xq.com/ads/a.js?x=1", "https://xq.com/", "image"), ("https://a.b/c", "", "document")] {
                let r = Request::new(u, s, t).unwrap();
                let _ = e.check_network_request(&r);
                let _ = e.get_csp_directives(&r);
            }
            let _ = e.url_cosmetic_resources("https://base.example/");
            let _ = e.url_cosmetic_resources("https://sub.xq.com/p");
            let _ = e.hidden_class_id_selectors(["a", "b"], ["c"], &HashSet::new());
            let _ = e.tag_exists("t");
            let _ = e.serialize_raw();
        }
    }
});
