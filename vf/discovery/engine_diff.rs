#![no_main]
use adblock::lists::{FilterSet, ParseOptions};
use adblock::request::Request;
use adblock::resources::{MimeType, Resource, ResourceType};
use adblock::Engine;
use libfuzzer_sys::fuzz_target;
use std::collections::HashSet;

fn verdict(e: &Engine, r: &Request) -> (bool, bool, bool, Option<String>, Option<String>, Option<Vec<String>>) {
    let v = e.check_network_request(r);
    let mut csp = e.get_csp_directives(r).map(|s| s.split(',').map(String::from).collect::<Vec<_>>());
    if let Some(c) = csp.as_mut() { c.sort(); }
    (v.matched, v.important, v.exception.is_some(), v.redirect, v.rewritten_url, csp)
}
fn res() -> Vec<Resource> {
    vec![Resource { name: "noop.js".into(), aliases: vec!["n.js".into()], kind: ResourceType::Mime(MimeType::ApplicationJavascript), content: "Ly8=".into(), dependencies: vec![], permission: Default::default() },
         Resource { name: "sc.js".into(), aliases: vec!["sc".into()], kind: ResourceType::Template, content: "e3sxfX0=".into(), dependencies: vec![], permission: Default::default() }]
}

fuzz_target!(|data: &[u8]| {
    let Ok(text) = std::str::from_utf8(data) else { return };
    if text.contains("inject") { return; }
    let rp = text.contains("removeparam");
    let mut lines: Vec<&str> = text.split('\n').collect();
    if lines.len() < 2 { return; }
    let url = lines.pop().unwrap();
    let url = format!("https://{}", url);
    let mut reqs = vec![];
    for (s, t) in [("https://src.example/", "script"), ("", "image"), ("https://sub.example.com/", "xmlhttprequest")] { if let Ok(r) = Request::new(&url, s, t) { reqs.push(r); } }
    if let Ok(r) = Request::new(&url, &url, "document") { reqs.push(r); }
    if reqs.is_empty() { return; }
    let build = |opt: bool| { let mut fs = FilterSet::new(true); fs.add_filters(lines.iter().copied(), ParseOptions::default()); let mut e = Engine::from_filter_set(fs, opt); e.use_resources(res()); e.enable_tags(&["t"]); e };
    let plain = build(false);
    let opt = build(true);
    for r in &reqs {
        assert_eq!(verdict(&plain, r), verdict(&opt, r), "C05: optimised differs for {:?} url {}", lines, r.url);
    }
    let bytes = plain.serialize_raw().unwrap();
    let mut loaded = Engine::new(false);
    loaded.enable_tags(&["t"]);
    loaded.deserialize(&bytes).unwrap();
    loaded.use_resources(res());
    if !rp { for r in &reqs {
        assert_eq!(verdict(&plain, r), verdict(&loaded, r), "C08: loaded differs for {:?} url {}", lines, r.url);
    } }
    let c1 = plain.url_cosmetic_resources(&url);
    let c2 = loaded.url_cosmetic_resources(&url);
    let c3 = opt.url_cosmetic_resources(&url);
    assert_eq!((&c1.hide_selectors, &c1.exceptions, c1.generichide, &c1.injected_script), (&c2.hide_selectors, &c2.exceptions, c2.generichide, &c2.injected_script), "C08 cosmetic: {:?} url {}", lines, url);
    assert_eq!((&c1.hide_selectors, &c1.exceptions, c1.generichide, &c1.injected_script), (&c3.hide_selectors, &c3.exceptions, c3.generichide, &c3.injected_script), "C05 cosmetic: {:?} url {}", lines, url);
    let mut p1 = c1.procedural_actions.iter().cloned().collect::<Vec<_>>(); p1.sort();
    let mut p2 = c2.procedural_actions.iter().cloned().collect::<Vec<_>>(); p2.sort();
    assert_eq!(p1, p2, "C08 procedural: {:?} url {}", lines, url);
    let ex: HashSet<String> = c1.exceptions.clone();
    let k1 = plain.hidden_class_id_selectors(["a", "ad", "x"], ["a", "ad"], &ex);
    let k2 = loaded.hidden_class_id_selectors(["a", "ad", "x"], ["a", "ad"], &ex);
    let (mut k1, mut k2) = (k1, k2); k1.sort(); k2.sort();
    assert_eq!(k1, k2, "C08 class/id: {:?}", lines);
    let bytes2 = loaded.serialize_raw().unwrap();
    assert!(bytes == bytes2, "C09: re-serialised differs for {:?}", lines);
    // C06: queries do not depend on earlier queries
    for r in reqs.iter().rev() { let _ = verdict(&plain, r); }
    let fresh = build(false);
    for r in &reqs { assert_eq!(verdict(&plain, r), verdict(&fresh, r), "C06: history {:?} url {}", lines, r.url); }
});
