#![no_main]
use adblock::lists::{parse_filter, FilterFormat, FilterSet, ParseOptions};
use adblock::Engine;
use libfuzzer_sys::fuzz_target;

fuzz_target!(|data: &[u8]| {
    let Ok(text) = std::str::from_utf8(data) else { return };
    if text.contains('\r') { return; }
    for format in [FilterFormat::Standard, FilterFormat::Hosts] {
        let opts = ParseOptions { format, ..Default::default() };
        let lines: Vec<&str> = text.split('\n').collect();
        let accepted: Vec<&str> = lines.iter().copied().filter(|l| parse_filter(l, true, opts).is_ok()).collect();
        let build = |ls: &[&str], opt: bool| { let mut fs = FilterSet::new(true); fs.add_filters(ls.iter().copied(), opts); Engine::from_filter_set(fs, opt).serialize_raw().unwrap() };
        let a = build(&lines, false);
        let b = build(&accepted, false);
        assert!(a == b, "C11: deleting the rejected lines changes the engine: {:?} vs {:?}", lines, accepted);
        // one batch of text vs line by line
        let mut fs = FilterSet::new(true);
        fs.add_filter_list(text, opts);
        let c = Engine::from_filter_set(fs, false).serialize_raw().unwrap();
        assert!(a == c, "C06: add_filter_list differs from add_filters: {:?}", lines);
        // one at a time into separate calls
        let mut fs = FilterSet::new(true);
        for l in &lines { let _ = fs.add_filter(l, opts); }
        let d = Engine::from_filter_set(fs, false).serialize_raw().unwrap();
        assert!(a == d, "C06: add_filter one at a time differs: {:?}", lines);
    }
});
