#![no_main]
use adblock::filters::network::{NetworkFilter, NetworkFilterMaskHelper, NetworkMatchable};
use adblock::lists::{parse_filter, FilterSet, ParseOptions, ParsedFilter};
use adblock::regex_manager::RegexManager;
use adblock::request::Request;
use adblock::Engine;
use libfuzzer_sys::fuzz_target;

fuzz_target!(|data: &[u8]| {
    let Ok(text) = std::str::from_utf8(data) else { return };
    for w in ["badfilter", "tag", "redirect", "removeparam", "generichide", "ghide", "inject", "important"] { if text.contains(w) { return; } }
    let mut lines: Vec<&str> = text.split('\n').collect();
    if lines.len() < 2 || lines.len() > 12 { return; }
    let url = format!("https://{}", lines.pop().unwrap());
    let filters: Vec<NetworkFilter> = lines.iter().filter_map(|l| match parse_filter(l, true, ParseOptions::default()) { Ok(ParsedFilter::Network(f)) => Some(f), _ => None }).collect();
    if filters.is_empty() { return; }
    // csp: the directive set for a document request, rule by rule
    if let Ok(req) = Request::new(&url, &url, "document") {
        let mut rm = RegexManager::default();
        let mut dirs: Vec<String> = vec![]; let mut disabled: Vec<String> = vec![]; let mut all_off = false;
        for f in &filters { if f.is_csp() && f.matches(&req, &mut rm) {
            match (f.is_exception(), f.modifier_option.as_ref()) { (false, Some(d)) => dirs.push(d.clone()), (true, Some(d)) => disabled.push(d.clone()), (true, None) => all_off = true, _ => {} }
        } }
        let mut want: Vec<String> = if all_off { vec![] } else { dirs.into_iter().filter(|d| !disabled.contains(d)).collect() };
        want.sort(); want.dedup();
        let mut fs = FilterSet::new(true);
        fs.add_filters(lines.iter().copied(), ParseOptions::default());
        let e = Engine::from_filter_set(fs, true);
        let mut got: Vec<String> = e.get_csp_directives(&req).map(|s| s.split(',').map(String::from).collect()).unwrap_or_default();
        got.sort(); got.dedup();
        assert_eq!(got, want, "C15: rules {:?} url {}", lines, url);
    }
    if text.contains("csp") { return; }
    for (src, ty) in [("https://src.example/", "script"), ("https://sub.example.com/", "image"), ("", "xmlhttprequest")] {
        let Ok(req) = Request::new(&url, src, ty) else { continue };
        let mut rm = RegexManager::default();
        let (mut blk, mut exc, mut imp) = (false, false, false);
        for f in &filters { if f.matches(&req, &mut rm) { if f.is_exception() { exc = true } else if f.is_important() { imp = true } else { blk = true } } }
        let want = imp || (blk && !exc);
        for optimize in [false, true] {
            let mut fs = FilterSet::new(true);
            fs.add_filters(lines.iter().copied(), ParseOptions::default());
            let e = Engine::from_filter_set(fs, optimize);
            let got = e.check_network_request(&req);
            assert!(got.matched == want && got.important == imp, "C01: optimize={} rules {:?} url {} src {:?} type {}: rule by rule blocked={} important={} (block={} exception={}), engine matched={} important={}", optimize, lines, url, src, ty, want, imp, blk, exc, got.matched, got.important);
        }
    }
});
