#![no_main]
use adblock::filters::network::{NetworkFilter, NetworkFilterMaskHelper, NetworkMatchable};
use adblock::lists::{parse_filter, FilterSet, ParseOptions, ParsedFilter};
use adblock::regex_manager::RegexManager;
use adblock::request::Request;
use adblock::Engine;
use libfuzzer_sys::fuzz_target;

fuzz_target!(|data: &[u8]| {
    let Ok(text) = std::str::from_utf8(data) else { return };
    for w in ["badfilter", "tag=", "redirect", "csp", "removeparam", "generichide", "ghide", "inject"] { if text.contains(w) { return; } }
    let mut lines: Vec<&str> = text.split('\n').collect();
    if lines.len() < 2 || lines.len() > 12 { return; }
    let url = format!("https://{}", lines.pop().unwrap());
    let filters: Vec<NetworkFilter> = lines.iter().filter_map(|l| match parse_filter(l, true, ParseOptions::default()) { Ok(ParsedFilter::Network(f)) => Some(f), _ => None }).collect();
    if filters.is_empty() { return; }
    for (src, ty) in [("https://src.example/", "script"), ("https://sub.example.com/", "image"), ("", "xmlhttprequest")] {
        let Ok(req) = Request::new(&url, src, ty) else { continue };
        let mut rm = RegexManager::default();
        let (mut blk, mut exc, mut imp) = (false, false, false);
        for f in &filters { if f.matches(&req, &mut rm) { if f.is_exception() { exc = true } else if f.is_important() { imp = true } else { blk = true } } }
        let want = imp || (blk && !exc);
        for optimize in [false, true] {
            let mut fs = FilterSet::new(true);
            fs.add_filters(lines.iter().copied(), ParseOptions::default());
            let e = Engine::from_filter_set(fs, optimize);
            let got = e.check_network_request(&req);
            assert!(got.matched == want && got.important == imp, "C01: optimize={} rules {:?} url {} src {:?} type {}: rule by rule blocked={} important={} (block={} exception={}), engine matched={} important={}", optimize, lines, url, src, ty, want, imp, blk, exc, got.matched, got.important);
        }
    }
});
