#![no_main]
use adblock::lists::{parse_filter, read_list_metadata, FilterFormat, FilterSet, ParseOptions, RuleTypes};
use adblock::Engine;
use libfuzzer_sys::fuzz_target;
use std::collections::HashSet;

fuzz_target!(|data: &[u8]| {
    let Ok(text) = std::str::from_utf8(data) else { return };
    let _ = read_list_metadata(text);
    for format in [FilterFormat::Standard, FilterFormat::Hosts] { for rule_types in [RuleTypes::All, RuleTypes::NetworkOnly, RuleTypes::CosmeticOnly] {
        let opts = ParseOptions { format, rule_types, ..Default::default() };
        for l in text.lines() { let _ = parse_filter(l, true, opts); let _ = parse_filter(l, false, opts); }
        let mut fs = FilterSet::new(false);
        let _ = fs.add_filter_list(text, opts);
        let e = Engine::from_filter_set(fs, true);
        let _ = e.url_cosmetic_resources("https://sub.example.com/a");
        let _ = e.hidden_class_id_selectors(["a"], ["b"], &HashSet::new());
    }}
});
