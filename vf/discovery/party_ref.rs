#![no_main]
use adblock::request::Request;
use libfuzzer_sys::fuzz_target;

fn reg_domain(host: &str) -> String {
    match addr::parse_domain_name(host) { Ok(d) => d.root().unwrap_or_else(|| d.suffix()).to_string(), Err(_) => host.to_string() }
}

fuzz_target!(|data: &[u8]| {
    let Ok(text) = std::str::from_utf8(data) else { return };
    let Some((a, b)) = text.split_once('\n') else { return };
    let ok = |x: &str| !x.is_empty() && x.chars().all(|c| c.is_alphanumeric() || c == '.' || c == '-');
    if !ok(a) || !ok(b) { return; }
    let (u, s) = (format!("https://{}/x", a), format!("https://{}/", b));
    let (Ok(pu), Ok(ps)) = (url::Url::parse(&u), url::Url::parse(&s)) else { return };
    let (Some(url::Host::Domain(hu)), Some(url::Host::Domain(hs))) = (pu.host(), ps.host()) else { return };
    let Ok(r) = Request::new(&u, &s, "script") else { return };
    if r.hostname != hu { return; }
    let want = reg_domain(hu) != reg_domain(hs);
    assert_eq!(r.is_third_party, want, "C12: {} from {}: domains {:?} / {:?}", u, s, reg_domain(hu), reg_domain(hs));
});
