#!/usr/bin/env python3
"""Regenerates the per-property status table of DESIGN.md section 10.3 from vf/props.py (units, harnesses, witnesses, trusted base),
between the markers <!-- STATUS-TABLE-BEGIN --> and <!-- STATUS-TABLE-END -->."""
import os, re, sys
ROOT = os.path.dirname(os.path.dirname(os.path.abspath(__file__)))
sys.path.insert(0, os.path.join(ROOT, "vf"))
import props

def esc(s):
    return s.replace("|", "\\|").replace("\n", " ")

rows = ["| id | Verus units (P, unbounded) | Kani harnesses (C complete / B bounded) | witness inputs (W, concrete) | not under contract (first entries of the trusted base; full list in evidence) |",
        "|----|----|----|----|----|"]
for pid in sorted(props.PROPS):
    c = props.PROPS[pid]
    units = ", ".join("`%s`" % u for u in c.get("verus", []))
    ks = []
    for k in c.get("kani", []):
        for h in k.harnesses:
            ks.append("%s `%s`" % (h.tag, h.name))
    wit = ", ".join("`%s`" % w for w in c.get("witness", []))
    tb = c.get("trusted", [])
    t = "; ".join(esc(x)[:160] + ("…" if len(x) > 160 else "") for x in tb[:3])
    rows.append("| %s | %s | %s | %s | %s |" % (pid, units, "; ".join(ks) or "—", wit or "—", t))
table = "\n".join(rows)
p = os.path.join(ROOT, "DESIGN.md")
s = open(p).read()
b, e = "<!-- STATUS-TABLE-BEGIN -->", "<!-- STATUS-TABLE-END -->"
if b not in s:
    print("markers missing"); sys.exit(1)
s = s[:s.index(b) + len(b)] + "\n" + table + "\n" + s[s.index(e):]
open(p, "w").write(s)
print("table rows:", len(rows) - 2)
