#!/bin/bash
# Runs the repository's own suite (guard off: there is no hook in /repo) and checks that exactly the
# tests known to need the network fail.
cd /repo || exit 2
out=$(cargo test --workspace --no-fail-fast --offline 2>&1)
fails=$(echo "$out" | grep -E "^test .* \.\.\. FAILED" | sed -E 's/^test (.*) \.\.\. FAILED/\1/' | sort | tr '\n' ' ')
expected="check_live_from_filterlists check_live_specific_urls check_matching_equivalent check_matching_hostnames stable_serialization stable_serialization_through_load "
echo "$out" | grep -E "^test result"
if [ "$fails" == "$expected" ]; then echo "BASELINE-OK (only the 6 network-dependent tests fail)"; exit 0; fi
echo "unexpected failures: $fails"; exit 1
