#!/bin/bash
# usage: adopt_seed.sh <prop> <round-dir e.g. /tmp/seed-out/C04r3> <A|B>
# confirms the change (demo passes without / fails with it, suite at baseline), stores it as the next free /verif/seeded/<prop><letter>,
# and evaluates the registered checks against it.
prop=$1; dir=$2; which=$3
id=""; for L in A B C D E F G H I J K L M N O P Q R S T U V W X Y Z; do [ -d /verif/seeded/$prop$L ] || { id=$prop$L; break; }; done
[ -n "$id" ] || { echo "no free seed id for $prop"; exit 2; }
bash /verif/vf/confirm_seed.sh $id $dir/$which.diff $dir/${which}_demo.rs > /tmp/adopt_$id.log 2>&1
if ! grep -q "suite_with_patch: baseline" /verif/seeded/$id/confirm.txt || ! grep -q "demo_without_patch: test result: ok" /verif/seeded/$id/confirm.txt || grep -q "demo_with_patch: test result: ok" /verif/seeded/$id/confirm.txt; then
  echo "$id NOT CONFIRMED: $(cat /verif/seeded/$id/confirm.txt | tr '\n' ' ')"; [ -n "$id" ] && rm -rf "/verif/seeded/$id"; exit 1
fi
cp $dir/$which.md /verif/seeded/$id/notes.md
python3 - "$id" "$prop" "$dir/$which.md" <<'PY'
import json,sys
id,prop,md=sys.argv[1:4]
txt=open(md).read().strip()
json.dump(dict(seed=id, property=prop, round=int(__import__('os').environ.get('ROUND','3')), author="sub-agent (property text + scratch worktree only)", what_it_changes=txt.split("\n")[0][:400],
               needs_to_manifest="see notes.md", confirmed_by="vf/confirm_seed.sh", confirmation=open('/verif/seeded/%s/confirm.txt'%id).read(), also_check=[]),
          open('/verif/seeded/%s/meta.json'%id,'w'), indent=1)
PY
cd /verif && SEV_WT=/tmp/sev_$id SEV_OUT=/tmp/seed_eval_$id.json python3 vf/seed_eval.py $id 2>&1 | tail -1 | cut -c1-300
