//@INCLUDE shims/mask.rs

//@EXTRACT src/filters/network.rs :: bitflags NetworkFilterMask
//@END

pub mod utils {
    use vstd::prelude::*;
    verus!{
//@EXTRACT src/utils.rs :: type Hash
//@END
    pub open spec fn sorted(s: Seq<Hash>) -> bool { forall|i: int, j: int| 0 <= i < j < s.len() ==> s[i] <= s[j] }
    // T (utils::bin_lookup = slice::binary_search(..).is_ok()): membership, on a sorted slice
    #[verifier::external_body]
    pub fn bin_lookup(arr: &[Hash], elt: Hash) -> (r: bool)
        requires sorted(arr@)
        ensures r == arr@.contains(elt)
    { unimplemented!() }
    }
}

pub mod request {
    use vstd::prelude::*;
    use super::utils;
    verus!{
//@EXTRACT src/request.rs :: enum RequestType
//@ ATTR #[derive(PartialEq, Eq)]
//@END

//@EXTRACT src/request.rs :: struct Request
//@END

    // T: #[derive(PartialEq)] on a field-less enum is structural equality
    impl vstd::std_specs::cmp::PartialEqSpecImpl for RequestType {
        open spec fn obeys_eq_spec() -> bool { true }
        open spec fn eq_spec(&self, other: &Self) -> bool { *self == *other }
    }
    }
}

// Which type bit a request type is tested against (from the option semantics: beacon/ping -> ping,
// the exotic types -> other, csp reports match nothing).
pub open spec fn type_bit(rt: request::RequestType) -> NetworkFilterMask {
    match rt {
        request::RequestType::Beacon => NetworkFilterMask::FROM_PING,
        request::RequestType::Csp => NetworkFilterMask::UNMATCHED,
        request::RequestType::Document => NetworkFilterMask::FROM_DOCUMENT,
        request::RequestType::Dtd => NetworkFilterMask::FROM_OTHER,
        request::RequestType::Fetch => NetworkFilterMask::FROM_OTHER,
        request::RequestType::Font => NetworkFilterMask::FROM_FONT,
        request::RequestType::Image => NetworkFilterMask::FROM_IMAGE,
        request::RequestType::Media => NetworkFilterMask::FROM_MEDIA,
        request::RequestType::Object => NetworkFilterMask::FROM_OBJECT,
        request::RequestType::Other => NetworkFilterMask::FROM_OTHER,
        request::RequestType::Ping => NetworkFilterMask::FROM_PING,
        request::RequestType::Script => NetworkFilterMask::FROM_SCRIPT,
        request::RequestType::Stylesheet => NetworkFilterMask::FROM_STYLESHEET,
        request::RequestType::Subdocument => NetworkFilterMask::FROM_SUBDOCUMENT,
        request::RequestType::Websocket => NetworkFilterMask::FROM_WEBSOCKET,
        request::RequestType::Xlst => NetworkFilterMask::FROM_OTHER,
        request::RequestType::Xmlhttprequest => NetworkFilterMask::FROM_XMLHTTPREQUEST,
    }
}

// "the document/implicit-all rules": a document request needs the document bit, or the rule is an
// exception (uBO-style); every other request needs its own type bit.
pub open spec fn cpt_allowed_spec(m: NetworkFilterMask, rt: request::RequestType) -> bool {
    if rt is Document { m.has(NetworkFilterMask::FROM_DOCUMENT) || m.has(NetworkFilterMask::IS_EXCEPTION) }
    else { m.has(type_bit(rt)) }
}

impl<'a> vstd::std_specs::convert::FromSpecImpl<&'a request::RequestType> for NetworkFilterMask {
    open spec fn obeys_from_spec() -> bool { true }
    open spec fn from_spec(rt: &'a request::RequestType) -> Self { type_bit(*rt) }
}

//@EXTRACT src/filters/network.rs :: impl From<&request::RequestType> for NetworkFilterMask
//@ SAFETY mask.from_request_type
//@END

//@INCLUDE shims/mask_helper.rs

impl NetworkFilterMaskHelper for NetworkFilterMask {
    open spec fn spec_mask(&self) -> NetworkFilterMask { *self }
//@EXTRACT src/filters/network.rs :: impl NetworkFilterMaskHelper for NetworkFilterMask :: fn has_flag
//@ SAFETY mask.has_flag
//@END
}
