// NetworkFilterMaskHelper: every default method extracted verbatim and verified against the flag its
// name denotes (contracts written from the option names, not from the bodies).
pub trait NetworkFilterMaskHelper {
    spec fn spec_mask(&self) -> NetworkFilterMask;

    fn has_flag(&self, v: NetworkFilterMask) -> (r: bool)
        ensures r == self.spec_mask().has(v);

//@EXTRACT src/filters/network.rs :: trait NetworkFilterMaskHelper :: fn is_exception
//@ RET r
//@ SAFETY mask.is_exception
//@ SPEC
        ensures r == self.spec_mask().has(NetworkFilterMask::IS_EXCEPTION), // OBL mask.is_exception
//@ ENDSPEC
//@END

//@EXTRACT src/filters/network.rs :: trait NetworkFilterMaskHelper :: fn is_hostname_anchor
//@ RET r
//@ SAFETY mask.is_hostname_anchor
//@ SPEC
        ensures r == self.spec_mask().has(NetworkFilterMask::IS_HOSTNAME_ANCHOR), // OBL mask.is_hostname_anchor
//@ ENDSPEC
//@END

//@EXTRACT src/filters/network.rs :: trait NetworkFilterMaskHelper :: fn is_right_anchor
//@ RET r
//@ SAFETY mask.is_right_anchor
//@ SPEC
        ensures r == self.spec_mask().has(NetworkFilterMask::IS_RIGHT_ANCHOR), // OBL mask.is_right_anchor
//@ ENDSPEC
//@END

//@EXTRACT src/filters/network.rs :: trait NetworkFilterMaskHelper :: fn is_left_anchor
//@ RET r
//@ SAFETY mask.is_left_anchor
//@ SPEC
        ensures r == self.spec_mask().has(NetworkFilterMask::IS_LEFT_ANCHOR), // OBL mask.is_left_anchor
//@ ENDSPEC
//@END

//@EXTRACT src/filters/network.rs :: trait NetworkFilterMaskHelper :: fn match_case
//@ RET r
//@ SAFETY mask.match_case
//@ SPEC
        ensures r == self.spec_mask().has(NetworkFilterMask::MATCH_CASE), // OBL mask.match_case
//@ ENDSPEC
//@END

//@EXTRACT src/filters/network.rs :: trait NetworkFilterMaskHelper :: fn is_important
//@ RET r
//@ SAFETY mask.is_important
//@ SPEC
        ensures r == self.spec_mask().has(NetworkFilterMask::IS_IMPORTANT), // OBL mask.is_important
//@ ENDSPEC
//@END

//@EXTRACT src/filters/network.rs :: trait NetworkFilterMaskHelper :: fn is_redirect
//@ RET r
//@ SAFETY mask.is_redirect
//@ SPEC
        ensures r == self.spec_mask().has(NetworkFilterMask::IS_REDIRECT), // OBL mask.is_redirect
//@ ENDSPEC
//@END

//@EXTRACT src/filters/network.rs :: trait NetworkFilterMaskHelper :: fn is_removeparam
//@ RET r
//@ SAFETY mask.is_removeparam
//@ SPEC
        ensures r == self.spec_mask().has(NetworkFilterMask::IS_REMOVEPARAM), // OBL mask.is_removeparam
//@ ENDSPEC
//@END

//@EXTRACT src/filters/network.rs :: trait NetworkFilterMaskHelper :: fn also_block_redirect
//@ RET r
//@ SAFETY mask.also_block_redirect
//@ SPEC
        ensures r == self.spec_mask().has(NetworkFilterMask::ALSO_BLOCK_REDIRECT), // OBL mask.also_block_redirect
//@ ENDSPEC
//@END

//@EXTRACT src/filters/network.rs :: trait NetworkFilterMaskHelper :: fn is_badfilter
//@ RET r
//@ SAFETY mask.is_badfilter
//@ SPEC
        ensures r == self.spec_mask().has(NetworkFilterMask::BAD_FILTER), // OBL mask.is_badfilter
//@ ENDSPEC
//@END

//@EXTRACT src/filters/network.rs :: trait NetworkFilterMaskHelper :: fn is_generic_hide
//@ RET r
//@ SAFETY mask.is_generic_hide
//@ SPEC
        ensures r == self.spec_mask().has(NetworkFilterMask::GENERIC_HIDE), // OBL mask.is_generic_hide
//@ ENDSPEC
//@END

//@EXTRACT src/filters/network.rs :: trait NetworkFilterMaskHelper :: fn is_regex
//@ RET r
//@ SAFETY mask.is_regex
//@ SPEC
        ensures r == self.spec_mask().has(NetworkFilterMask::IS_REGEX), // OBL mask.is_regex
//@ ENDSPEC
//@END

//@EXTRACT src/filters/network.rs :: trait NetworkFilterMaskHelper :: fn is_complete_regex
//@ RET r
//@ SAFETY mask.is_complete_regex
//@ SPEC
        ensures r == self.spec_mask().has(NetworkFilterMask::IS_COMPLETE_REGEX), // OBL mask.is_complete_regex
//@ ENDSPEC
//@END

//@EXTRACT src/filters/network.rs :: trait NetworkFilterMaskHelper :: fn is_csp
//@ RET r
//@ SAFETY mask.is_csp
//@ SPEC
        ensures r == self.spec_mask().has(NetworkFilterMask::IS_CSP), // OBL mask.is_csp
//@ ENDSPEC
//@END

//@EXTRACT src/filters/network.rs :: trait NetworkFilterMaskHelper :: fn third_party
//@ RET r
//@ SAFETY mask.third_party
//@ SPEC
        ensures r == self.spec_mask().has(NetworkFilterMask::THIRD_PARTY), // OBL mask.third_party
//@ ENDSPEC
//@END

//@EXTRACT src/filters/network.rs :: trait NetworkFilterMaskHelper :: fn first_party
//@ RET r
//@ SAFETY mask.first_party
//@ SPEC
        ensures r == self.spec_mask().has(NetworkFilterMask::FIRST_PARTY), // OBL mask.first_party
//@ ENDSPEC
//@END

//@EXTRACT src/filters/network.rs :: trait NetworkFilterMaskHelper :: fn for_http
//@ RET r
//@ SAFETY mask.for_http
//@ SPEC
        ensures r == self.spec_mask().has(NetworkFilterMask::FROM_HTTP), // OBL mask.for_http
//@ ENDSPEC
//@END

//@EXTRACT src/filters/network.rs :: trait NetworkFilterMaskHelper :: fn for_https
//@ RET r
//@ SAFETY mask.for_https
//@ SPEC
        ensures r == self.spec_mask().has(NetworkFilterMask::FROM_HTTPS), // OBL mask.for_https
//@ ENDSPEC
//@END

//@EXTRACT src/filters/network.rs :: trait NetworkFilterMaskHelper :: fn is_plain
//@ RET r
//@ SAFETY mask.is_plain
//@ SPEC
        ensures r == !self.spec_mask().has(NetworkFilterMask::IS_REGEX), // OBL mask.is_plain
//@ ENDSPEC
//@END

//@EXTRACT src/filters/network.rs :: trait NetworkFilterMaskHelper :: fn check_cpt_allowed
//@ RET r
//@ SAFETY mask.check_cpt_allowed
//@ SPEC
        ensures r == cpt_allowed_spec(self.spec_mask(), *cpt), // OBL mask.check_cpt_allowed
//@ ENDSPEC
//@END
}
