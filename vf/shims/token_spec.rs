// ---- token vocabulary shared by the tokenizer unit (which proves it) and its clients -------------
pub uninterp spec fn hash_spec(s: Seq<u8>) -> Hash;
pub uninterp spec fn tok_char(c: char) -> bool;
// ---- the (byte offset, char) sequence of a string (R5: `char_indices()` materialised) ------------
pub open spec fn ci_wf(ci: Seq<(usize, char)>, bytes: Seq<u8>) -> bool {
    (forall|k: int| 0 <= k < ci.len() ==> (#[trigger] ci[k]).0 < bytes.len() && vstd::utf8::is_char_boundary(bytes, ci[k].0 as int))
    && (forall|k: int, l: int| 0 <= k < l < ci.len() ==> (#[trigger] ci[k]).0 < (#[trigger] ci[l]).0)
    && (ci.len() > 0 ==> ci[0].0 == 0)
    && (ci.len() == 0 <==> bytes.len() == 0)
}

pub uninterp spec fn ci_of(bytes: Seq<u8>) -> Seq<(usize, char)>;

pub open spec fn off(ci: Seq<(usize, char)>, n: int, k: int) -> int { if 0 <= k < ci.len() { ci[k].0 as int } else { n } }
pub open spec fn allowed(ci: Seq<(usize, char)>, k: int) -> bool { tok_char(ci[k].1) }

// [p, q) (character positions) is a maximal run of token characters
pub open spec fn is_run(ci: Seq<(usize, char)>, p: int, q: int) -> bool {
    0 <= p < q <= ci.len()
    && (forall|k: int| p <= k < q ==> allowed(ci, k))
    && (p == 0 || !allowed(ci, p - 1))
    && (q == ci.len() || !allowed(ci, q))
}

// which runs are tokens: at least two bytes long; not the first / last run when the caller says its
// start / end is not pinned; and (for rule patterns, where '*' is a wildcard) not next to a '*'
pub open spec fn emit_ok(ci: Seq<(usize, char)>, n: int, p: int, q: int, skip_first: bool, skip_last: bool, wild: bool) -> bool {
    is_run(ci, p, q)
    && off(ci, n, q) - off(ci, n, p) > 1
    && !(skip_first && p == 0)
    && !(skip_last && q == ci.len())
    && !(wild && ((q < ci.len() && ci[q].1 == '*') || (p > 0 && ci[p - 1].1 == '*')))
}

pub open spec fn tok_hash(bytes: Seq<u8>, ci: Seq<(usize, char)>, p: int, q: int) -> Hash {
    hash_spec(bytes.subrange(off(ci, bytes.len() as int, p), off(ci, bytes.len() as int, q)))
}

pub open spec fn sound_upto(buf: Seq<Hash>, lo: int, bytes: Seq<u8>, ci: Seq<(usize, char)>, sf: bool, sl: bool, w: bool) -> bool {
    forall|x: int| lo <= x < buf.len() ==> exists|p: int, q: int| emit_ok(ci, bytes.len() as int, p, q, sf, sl, w) && #[trigger] buf[x] == tok_hash(bytes, ci, p, q)
}

pub open spec fn complete_upto(buf: Seq<Hash>, lo: int, bytes: Seq<u8>, ci: Seq<(usize, char)>, sf: bool, sl: bool, w: bool, j: int) -> bool {
    forall|p: int, q: int| #[trigger] emit_ok(ci, bytes.len() as int, p, q, sf, sl, w) && q < j
        ==> exists|x: int| lo <= x < buf.len() && buf[x] == tok_hash(bytes, ci, p, q)
}



// h is one of the tokens of `bytes` under the given skip rules
pub open spec fn tok_in(h: Hash, bytes: Seq<u8>, sf: bool, sl: bool, w: bool) -> bool {
    exists|p: int, q: int| emit_ok(ci_of(bytes), bytes.len() as int, p, q, sf, sl, w) && h == tok_hash(bytes, ci_of(bytes), p, q)
}
