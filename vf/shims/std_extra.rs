// ---- std functions without a vstd specification (trusted: documented std behaviour) -----------
pub assume_specification<T, A: std::alloc::Allocator>[ std::vec::Vec::<T, A>::shrink_to_fit ](v: &mut std::vec::Vec<T, A>)
    ensures final(v)@ == old(v)@;
