// ---- std functions without a vstd specification (trusted: documented std behaviour) -----------
pub assume_specification<T, A: std::alloc::Allocator>[ std::vec::Vec::<T, A>::shrink_to_fit ](v: &mut std::vec::Vec<T, A>)
    ensures final(v)@ == old(v)@;

// std::mem::take: returns the old value (the value left behind is T::default(), not specified here)
pub assume_specification<T: std::default::Default>[ std::mem::take ](x: &mut T) -> (r: T)
    ensures r == *old(x);

// [T]::contains for element types whose == is structural (used with &String): membership
pub assume_specification<T: core::cmp::PartialEq>[ <[T]>::contains ](s: &[T], x: &T) -> (r: bool)
    ensures r == exists|i: int| 0 <= i < s@.len() && #[trigger] s@[i] == *x;

// <String as AsRef<str>>::as_ref: the same text
pub assume_specification[ <std::string::String as std::convert::AsRef<str>>::as_ref ](s: &std::string::String) -> (r: &str)
    ensures r@ == s@;

// Option::or
pub assume_specification<T>[ std::option::Option::<T>::or ](a: std::option::Option<T>, b: std::option::Option<T>) -> (r: std::option::Option<T>)
    where T: core::marker::Destruct
    ensures r == (if a is Some { a } else { b });

// HashSet::is_subset
pub assume_specification<T: core::cmp::Eq + core::hash::Hash, S: core::hash::BuildHasher, A: std::alloc::Allocator>[ std::collections::HashSet::<T, S, A>::is_subset ](a: &std::collections::HashSet<T, S, A>, b: &std::collections::HashSet<T, S, A>) -> (r: bool)
    ensures r == a@.subset_of(b@);
