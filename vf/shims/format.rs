// ---- format!: R6 — the macro is replaced by vf_format!, which keeps the argument list verbatim.
// T (core::fmt): for a fixed format string the output is an injective function of the formatted
// arguments (true for {:b} of an integer, {:?} of bool / Option<String> with ':' separators).
pub mod vf_fmt_axioms {
    use vstd::prelude::*;
    verus!{
    pub uninterp spec fn fmt_spec<T>(fmt: Seq<char>, args: T) -> Seq<char>;
    pub broadcast axiom fn fmt_injective<T>(fmt: Seq<char>, a: T, b: T)
        requires #[trigger] fmt_spec(fmt, a) == #[trigger] fmt_spec(fmt, b)
        ensures a == b;
    }
}
pub use vf_fmt_axioms::fmt_spec;

#[verifier::external_body]
pub fn vf_format1<A>(fmt: &str, a: &A) -> (r: String) ensures r@ == fmt_spec(fmt@, (*a,)) { unimplemented!() }
#[verifier::external_body]
pub fn vf_format2<A, B>(fmt: &str, a: &A, b: &B) -> (r: String) ensures r@ == fmt_spec(fmt@, (*a, *b)) { unimplemented!() }
#[verifier::external_body]
pub fn vf_format3<A, B, C>(fmt: &str, a: &A, b: &B, c: &C) -> (r: String) ensures r@ == fmt_spec(fmt@, (*a, *b, *c)) { unimplemented!() }
#[verifier::external_body]
pub fn vf_format4<A, B, C, D>(fmt: &str, a: &A, b: &B, c: &C, d: &D) -> (r: String) ensures r@ == fmt_spec(fmt@, (*a, *b, *c, *d)) { unimplemented!() }
