// ---- R2: NetworkFilterMask (bitflags! type) as a plain struct --------------------------------
// Flag constants are computed from the bitflags! block of /repo on every run (see the R2 item
// below).  The operation set is the bitflags 2.9 semantics of contains/set/bits/is_empty/|/&/!
// (trusted: that bitflags implements them this way), each verified here against bit-vector specs.
#[derive(Clone, Copy, PartialEq, Eq)]
pub struct NetworkFilterMask { pub bits: u32 }


impl NetworkFilterMask {
    pub open spec fn has(self, f: NetworkFilterMask) -> bool { self.bits & f.bits == f.bits }

    pub fn bits(&self) -> (r: u32) ensures r == self.bits { self.bits }

    pub fn contains(&self, other: NetworkFilterMask) -> (r: bool)
        ensures r == self.has(other)
    { self.bits & other.bits == other.bits }

    pub fn is_empty(&self) -> (r: bool) ensures r == (self.bits == 0) { self.bits == 0 }

    pub fn set(&mut self, other: NetworkFilterMask, value: bool)
        ensures final(self).bits == (if value { old(self).bits | other.bits } else { old(self).bits & !other.bits })
    {
        if value { self.bits = self.bits | other.bits; } else { self.bits = self.bits & !other.bits; }
    }
}

pub open spec fn mask_or(a: NetworkFilterMask, b: NetworkFilterMask) -> NetworkFilterMask { NetworkFilterMask { bits: a.bits | b.bits } }
pub open spec fn mask_and(a: NetworkFilterMask, b: NetworkFilterMask) -> NetworkFilterMask { NetworkFilterMask { bits: a.bits & b.bits } }
pub open spec fn mask_not(a: NetworkFilterMask) -> NetworkFilterMask { NetworkFilterMask { bits: !a.bits } }
