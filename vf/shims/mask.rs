// ---- R2: NetworkFilterMask (bitflags! type) as a plain struct --------------------------------
// Flag constants are computed from the bitflags! block of /repo on every run (see the R2 item
// below).  The operation set is the bitflags 2.9 semantics of contains/set/bits/is_empty/|/&/!
// (trusted: that bitflags implements them this way), each verified here against bit-vector specs.
#[derive(Clone, Copy, PartialEq, Eq)]
pub struct NetworkFilterMask { pub bits: u32 }


impl NetworkFilterMask {
    pub open spec fn has(self, f: NetworkFilterMask) -> bool { self.bits & f.bits == f.bits }

    pub fn bits(&self) -> (r: u32) ensures r == self.bits { self.bits }

    pub fn contains(&self, other: NetworkFilterMask) -> (r: bool)
        ensures r == self.has(other)
    { self.bits & other.bits == other.bits }

    pub fn is_empty(&self) -> (r: bool) ensures r == (self.bits == 0) { self.bits == 0 }

    pub fn set(&mut self, other: NetworkFilterMask, value: bool)
        ensures final(self).bits == (if value { old(self).bits | other.bits } else { old(self).bits & !other.bits })
    {
        if value { self.bits = self.bits | other.bits; } else { self.bits = self.bits & !other.bits; }
    }

    // further bitflags operations a maintainer may reach for (same trusted reading of bitflags 2.x)
    pub fn intersects(&self, other: NetworkFilterMask) -> (r: bool) ensures r == (self.bits & other.bits != 0) { self.bits & other.bits != 0 }
    pub fn insert(&mut self, other: NetworkFilterMask) ensures final(self).bits == old(self).bits | other.bits { self.bits = self.bits | other.bits; }
    pub fn remove(&mut self, other: NetworkFilterMask) ensures final(self).bits == old(self).bits & !other.bits { self.bits = self.bits & !other.bits; }
    pub fn toggle(&mut self, other: NetworkFilterMask) ensures final(self).bits == old(self).bits ^ other.bits { self.bits = self.bits ^ other.bits; }
    pub fn union(self, other: NetworkFilterMask) -> (r: NetworkFilterMask) ensures r.bits == self.bits | other.bits { NetworkFilterMask { bits: self.bits | other.bits } }
    pub fn intersection(self, other: NetworkFilterMask) -> (r: NetworkFilterMask) ensures r.bits == self.bits & other.bits { NetworkFilterMask { bits: self.bits & other.bits } }
    pub fn difference(self, other: NetworkFilterMask) -> (r: NetworkFilterMask) ensures r.bits == self.bits & !other.bits { NetworkFilterMask { bits: self.bits & !other.bits } }
}

pub open spec fn mask_or(a: NetworkFilterMask, b: NetworkFilterMask) -> NetworkFilterMask { NetworkFilterMask { bits: a.bits | b.bits } }
pub open spec fn mask_and(a: NetworkFilterMask, b: NetworkFilterMask) -> NetworkFilterMask { NetworkFilterMask { bits: a.bits & b.bits } }
pub open spec fn mask_not(a: NetworkFilterMask) -> NetworkFilterMask { NetworkFilterMask { bits: !a.bits } }

// operators used on masks in the parser (`|`, `&`, `!`, `|=`, `&=`, `==`): bitflags semantics, each body
// verified against its spec
impl vstd::std_specs::ops::BitOrSpecImpl<NetworkFilterMask> for NetworkFilterMask {
    open spec fn obeys_bitor_spec() -> bool { true }
    open spec fn bitor_req(self, rhs: NetworkFilterMask) -> bool { true }
    open spec fn bitor_spec(self, rhs: NetworkFilterMask) -> NetworkFilterMask { NetworkFilterMask { bits: self.bits | rhs.bits } }
}
impl core::ops::BitOr for NetworkFilterMask {
    type Output = NetworkFilterMask;
    fn bitor(self, rhs: NetworkFilterMask) -> (r: NetworkFilterMask) { NetworkFilterMask { bits: self.bits | rhs.bits } }
}
impl vstd::std_specs::ops::BitAndSpecImpl<NetworkFilterMask> for NetworkFilterMask {
    open spec fn obeys_bitand_spec() -> bool { true }
    open spec fn bitand_req(self, rhs: NetworkFilterMask) -> bool { true }
    open spec fn bitand_spec(self, rhs: NetworkFilterMask) -> NetworkFilterMask { NetworkFilterMask { bits: self.bits & rhs.bits } }
}
impl core::ops::BitAnd for NetworkFilterMask {
    type Output = NetworkFilterMask;
    fn bitand(self, rhs: NetworkFilterMask) -> (r: NetworkFilterMask) { NetworkFilterMask { bits: self.bits & rhs.bits } }
}
impl vstd::std_specs::ops::NotSpecImpl for NetworkFilterMask {
    open spec fn obeys_not_spec() -> bool { true }
    open spec fn not_req(self) -> bool { true }
    open spec fn not_spec(self) -> NetworkFilterMask { NetworkFilterMask { bits: !self.bits } }
}
impl core::ops::Not for NetworkFilterMask {
    type Output = NetworkFilterMask;
    fn not(self) -> (r: NetworkFilterMask) { NetworkFilterMask { bits: !self.bits } }
}
impl vstd::std_specs::ops::BitOrAssignSpecImpl<NetworkFilterMask> for NetworkFilterMask {
    open spec fn obeys_bitor_assign_spec() -> bool { true }
    open spec fn bitor_assign_req(&self, rhs: NetworkFilterMask) -> bool { true }
    open spec fn bitor_assign_spec(&self, rhs: NetworkFilterMask) -> &NetworkFilterMask { &NetworkFilterMask { bits: self.bits | rhs.bits } }
}
impl core::ops::BitOrAssign for NetworkFilterMask {
    fn bitor_assign(&mut self, rhs: NetworkFilterMask) { self.bits = self.bits | rhs.bits; }
}
impl vstd::std_specs::ops::BitAndAssignSpecImpl<NetworkFilterMask> for NetworkFilterMask {
    open spec fn obeys_bitand_assign_spec() -> bool { true }
    open spec fn bitand_assign_req(&self, rhs: NetworkFilterMask) -> bool { true }
    open spec fn bitand_assign_spec(&self, rhs: NetworkFilterMask) -> &NetworkFilterMask { &NetworkFilterMask { bits: self.bits & rhs.bits } }
}
impl core::ops::BitAndAssign for NetworkFilterMask {
    fn bitand_assign(&mut self, rhs: NetworkFilterMask) { self.bits = self.bits & rhs.bits; }
}
impl vstd::std_specs::cmp::PartialEqSpecImpl for NetworkFilterMask {
    open spec fn obeys_eq_spec() -> bool { true }
    open spec fn eq_spec(&self, other: &Self) -> bool { self.bits == other.bits }
}
