//@INCLUDE shims/mask_items.rs

pub use utils::Hash;

//@EXTRACT src/filters/network.rs :: enum FilterPart
//@END

//@EXTRACT src/filters/network.rs :: struct NetworkFilter
//@END

impl NetworkFilterMaskHelper for NetworkFilter {
    open spec fn spec_mask(&self) -> NetworkFilterMask { self.mask }
//@EXTRACT src/filters/network.rs :: impl NetworkFilterMaskHelper for NetworkFilter :: fn has_flag
//@ SAFETY filter.has_flag
//@END
}

// T: #[derive(Clone)] on NetworkFilter is a structural copy
impl Clone for NetworkFilter {
    #[verifier::external_body]
    fn clone(&self) -> (r: Self) ensures r == *self { unimplemented!() }
}
