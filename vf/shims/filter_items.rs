//@INCLUDE shims/mask_items.rs

pub use utils::Hash;

//@EXTRACT src/filters/network.rs :: enum FilterPart
//@END

//@EXTRACT src/filters/network.rs :: struct NetworkFilter
//@END

impl NetworkFilterMaskHelper for NetworkFilter {
    open spec fn spec_mask(&self) -> NetworkFilterMask { self.mask }
//@EXTRACT src/filters/network.rs :: impl NetworkFilterMaskHelper for NetworkFilter :: fn has_flag
//@ SAFETY filter.has_flag
//@END
}

// T: #[derive(Clone)] on NetworkFilter is a structural copy
impl Clone for NetworkFilter {
    #[verifier::external_body]
    fn clone(&self) -> (r: Self) ensures r == *self { unimplemented!() }
}

// FilterPart::string_view (`s.join("|")` for AnyOf): T — the joined text is uninterpreted
pub uninterp spec fn joined_spec(v: Seq<String>) -> String;
impl FilterPart {
    #[verifier::external_body]
    pub fn string_view(&self) -> (r: Option<String>)
        ensures r == (match *self { FilterPart::Empty => None::<String>, FilterPart::Simple(s) => Some(s), FilterPart::AnyOf(v) => Some(joined_spec(v@)) })
    { unimplemented!() }
}
