// ---- slice iterator view: `xs.iter().any(f)` / `.all(f)` with closure contracts ----------------
// R6 (plumbing only): `xs.iter()` is replaced by `vf_iter(xs)`; the adapter call (`any`, `all`) and
// the closure stay verbatim.  T: std's Iterator::any/all semantics for slice iterators.
pub struct VfIter<'a, T> { pub s: &'a [T] }

pub fn vf_iter<'a, T>(s: &'a [T]) -> (r: VfIter<'a, T>) ensures r.s@ == s@ { VfIter { s } }

impl<'a, T> VfIter<'a, T> {
    #[verifier::external_body]
    pub fn any<F: Fn(&'a T) -> bool>(self, f: F) -> (r: bool)
        requires forall|i: int| 0 <= i < self.s@.len() ==> call_requires(f, (&#[trigger] self.s@[i],)),
        ensures
            r ==> exists|i: int| 0 <= i < self.s@.len() && call_ensures(f, (&#[trigger] self.s@[i],), true),
            !r ==> forall|i: int| 0 <= i < self.s@.len() ==> call_ensures(f, (&#[trigger] self.s@[i],), false),
    { self.s.iter().any(f) }

    // find (T: std's Iterator::find for slice iterators): the result, if any, is an element of the slice that the predicate accepts;
    // none means the predicate refuses every element
    #[verifier::external_body]
    pub fn find<F: Fn(&&'a T) -> bool>(self, f: F) -> (r: Option<&'a T>)
        requires forall|i: int| 0 <= i < self.s@.len() ==> call_requires(f, (&&#[trigger] self.s@[i],)),
        ensures
            r is Some ==> exists|i: int| 0 <= i < self.s@.len() && *r->Some_0 == #[trigger] self.s@[i] && call_ensures(f, (&&self.s@[i],), true),
            r is None ==> forall|i: int| 0 <= i < self.s@.len() ==> call_ensures(f, (&&#[trigger] self.s@[i],), false),
    { self.s.iter().find(f) }

    #[verifier::external_body]
    pub fn all<F: Fn(&'a T) -> bool>(self, f: F) -> (r: bool)
        requires forall|i: int| 0 <= i < self.s@.len() ==> call_requires(f, (&#[trigger] self.s@[i],)),
        ensures
            r ==> forall|i: int| 0 <= i < self.s@.len() ==> call_ensures(f, (&#[trigger] self.s@[i],), true),
            !r ==> exists|i: int| 0 <= i < self.s@.len() && call_ensures(f, (&#[trigger] self.s@[i],), false),
    { self.s.iter().all(f) }
}
