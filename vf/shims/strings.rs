pub mod vf_str {
    use vstd::prelude::*;
    use vstd::string::*;
    use vstd::slice::*;
    use core::str::pattern::Pattern;
    verus!{
// ---- trusted string shims (byte-level specs of std / memchr functions) ------------------------
// All specs are over `s.spec_bytes()` (the UTF-8 bytes; vstd's own model of `str`).

pub open spec fn occurs_at(h: Seq<u8>, n: Seq<u8>, i: int) -> bool {
    0 <= i && i + n.len() <= h.len() && h.subrange(i, i + n.len()) =~= n
}

pub open spec fn has_prefix(s: Seq<u8>, p: Seq<u8>) -> bool { occurs_at(s, p, 0) }

pub open spec fn has_suffix(s: Seq<u8>, p: Seq<u8>) -> bool { occurs_at(s, p, s.len() - p.len()) }

pub uninterp spec fn pat_prefix<P>(p: P, s: Seq<u8>) -> bool;
pub uninterp spec fn pat_suffix<P>(p: P, s: Seq<u8>) -> bool;
pub uninterp spec fn pat_contains<P>(p: P, s: Seq<u8>) -> bool;

#[verifier::allow(undeclared_external_trait)]
pub assume_specification<P: Pattern>[ str::starts_with ](s: &str, p: P) -> (r: bool)
    ensures r == pat_prefix(p, s.spec_bytes());

#[verifier::allow(undeclared_external_trait)]
pub assume_specification<P: Pattern>[ str::ends_with ](s: &str, p: P) -> (r: bool)
    where for<'a> P::Searcher<'a>: core::str::pattern::ReverseSearcher<'a>
    ensures r == pat_suffix(p, s.spec_bytes());

#[verifier::allow(undeclared_external_trait)]
pub assume_specification<P: Pattern>[ str::contains ](s: &str, p: P) -> (r: bool)
    ensures r == pat_contains(p, s.spec_bytes());

// &s[range]: the installed vstd states the precondition (in bounds, on char boundaries) but no
// postcondition for str; the result is the byte sub-range (vstd's own index_postcondition)
pub assume_specification<I: core::slice::SliceIndex<str>>[ <str as core::ops::Index<I>>::index ](s: &str, idx: I) -> (r: &I::Output)
    ensures idx.index_postcondition(s, r);

// ASCII char pattern == its single byte (UTF-8 encodes c < 128 as the byte c, and no other
// scalar value produces that byte)
pub broadcast axiom fn pat_prefix_ascii_char(c: char, s: Seq<u8>)
    requires (c as u32) < 128
    ensures #[trigger] pat_prefix::<char>(c, s) == (s.len() > 0 && s[0] == c as u8);

pub broadcast axiom fn pat_suffix_ascii_char(c: char, s: Seq<u8>)
    requires (c as u32) < 128
    ensures #[trigger] pat_suffix::<char>(c, s) == (s.len() > 0 && s[s.len() - 1] == c as u8);

pub broadcast axiom fn pat_prefix_str(p: &str, s: Seq<u8>)
    ensures #[trigger] pat_prefix::<&str>(p, s) == has_prefix(s, p.spec_bytes());

pub broadcast axiom fn pat_suffix_str(p: &str, s: Seq<u8>)
    ensures #[trigger] pat_suffix::<&str>(p, s) == has_suffix(s, p.spec_bytes());

pub broadcast axiom fn pat_contains_str(p: &str, s: Seq<u8>)
    ensures #[trigger] pat_contains::<&str>(p, s) == (exists|i: int| occurs_at(s, p.spec_bytes(), i));

// UTF-8 facts used for slicing obligations
pub broadcast axiom fn ascii_boundary(s: &str, i: int)
    requires s.is_ascii(), 0 <= i <= s.spec_bytes().len()
    ensures #[trigger] vstd::utf8::is_char_boundary(s.spec_bytes(), i);

// UTF-8 is injective: equal byte strings are equal strings (vstd defines spec_bytes() as
// encode_utf8(view) but does not export injectivity)
pub axiom fn utf8_injective(a: &str, b: &str)
    requires a.spec_bytes() == b.spec_bytes()
    ensures a@ == b@;

// a String value is its text (the HashSet/HashMap key model for String relies on the same fact)
pub broadcast axiom fn string_ext(a: String, b: String)
    requires #[trigger] a@ == #[trigger] b@
    ensures a == b;

// the same over character sequences (String values)
pub broadcast axiom fn utf8_encode_injective(a: Seq<char>, b: Seq<char>)
    requires #[trigger] vstd::utf8::encode_utf8(a) == #[trigger] vstd::utf8::encode_utf8(b)
    ensures a == b;

pub broadcast axiom fn utf8_injective_b(a: &str, b: &str)
    requires a.spec_bytes() == b.spec_bytes()
    ensures #![trigger a.spec_bytes(), b.spec_bytes()] a@ == b@;

pub proof fn lemma_occurs_shift(h: Seq<u8>, n: Seq<u8>, from: int, j: int)
    requires 0 <= from <= h.len()
    ensures occurs_at(h.subrange(from, h.len() as int), n, j) == (occurs_at(h, n, from + j) && j >= 0)
{
    let t = h.subrange(from, h.len() as int);
    if 0 <= j && j + n.len() <= t.len() {
        assert(t.subrange(j, j + n.len()) =~= h.subrange(from + j, from + j + n.len()));
    }
}

// searching in a tail slice == searching in the whole string from that offset
pub broadcast proof fn lemma_occurs_unshift(h: Seq<u8>, n: Seq<u8>, from: int, k: int)
    requires 0 <= from <= h.len(), from <= k
    ensures #![trigger occurs_at(h, n, k), h.subrange(from, h.len() as int)]
        occurs_at(h, n, k) == occurs_at(h.subrange(from, h.len() as int), n, k - from)
{
    lemma_occurs_shift(h, n, from, k - from);
}

// the same fact over byte sequences (for String values, whose bytes are encode_utf8(view))
pub open spec fn ascii_bytes(b: Seq<u8>) -> bool { forall|j: int| 0 <= j < b.len() ==> b[j] < 128 }
pub broadcast axiom fn ascii_bytes_boundary(b: Seq<u8>, i: int)
    requires ascii_bytes(b), 0 <= i <= b.len()
    ensures #[trigger] vstd::utf8::is_char_boundary(b, i);
pub open spec fn sb(s: String) -> Seq<u8> { vstd::utf8::encode_utf8(s@) }

// an ASCII byte is a whole character: there is a character boundary on both sides of it
pub broadcast axiom fn ascii_byte_boundaries(s: &str, i: int)
    requires 0 <= i < s.spec_bytes().len(), #[trigger] s.spec_bytes()[i] < 128
    ensures vstd::utf8::is_char_boundary(s.spec_bytes(), i), vstd::utf8::is_char_boundary(s.spec_bytes(), i + 1);

// an all-ASCII text is encoded byte for character
pub broadcast axiom fn ascii_text_bytes(s: &str)
    requires forall|i: int| 0 <= i < s@.len() ==> (#[trigger] s@[i] as u32) < 128
    ensures #![trigger s.spec_bytes()]
        s.spec_bytes().len() == s@.len(), forall|i: int| 0 <= i < s@.len() ==> #[trigger] s.spec_bytes()[i] == s@[i] as u8;

// both ends of any string are character boundaries
pub broadcast axiom fn str_ends_are_boundaries(s: &str)
    ensures #![trigger s.spec_bytes()]
        vstd::utf8::is_char_boundary(s.spec_bytes(), 0),
        vstd::utf8::is_char_boundary(s.spec_bytes(), s.spec_bytes().len() as int);

// UTF-8 is self-synchronising: where one (valid) string occurs inside another, the occurrence ends on a
// character boundary of the enclosing string
pub broadcast axiom fn occurrence_boundaries(u: &str, h: &str, i: int)
    requires #[trigger] occurs_at(u.spec_bytes(), h.spec_bytes(), i)
    ensures vstd::utf8::is_char_boundary(u.spec_bytes(), i + h.spec_bytes().len());

// the same for a String, whose bytes are encode_utf8(view)
pub broadcast axiom fn utf8_ends_are_boundaries(t: Seq<char>)
    ensures #![trigger vstd::utf8::encode_utf8(t)]
        vstd::utf8::is_char_boundary(vstd::utf8::encode_utf8(t), 0),
        vstd::utf8::is_char_boundary(vstd::utf8::encode_utf8(t), vstd::utf8::encode_utf8(t).len() as int);

// no Rust object is larger than isize::MAX bytes
pub broadcast axiom fn str_len_fits(s: &str)
    ensures #[trigger] s.spec_bytes().len() <= usize::MAX / 2;

// UTF-8 decoding is a function: the text of a string is determined by its bytes
pub uninterp spec fn utf8_text(b: Seq<u8>) -> Seq<char>;
pub broadcast axiom fn utf8_text_of_str(s: &str)
    ensures #[trigger] utf8_text(s.spec_bytes()) == s@;


    } // verus!
}
pub use vf_str::*;

pub mod memmem {
    use vstd::prelude::*;
    use super::vf_str::occurs_at;
    verus!{
    // T: memchr::memmem::find — first occurrence
    #[verifier::external_body]
    pub fn find(haystack: &[u8], needle: &[u8]) -> (r: Option<usize>)
        ensures
            match r {
                Some(i) => occurs_at(haystack@, needle@, i as int)
                    && forall|j: int| 0 <= j < i ==> !occurs_at(haystack@, needle@, j),
                None => forall|j: int| !occurs_at(haystack@, needle@, j),
            }
    { unimplemented!() }
    }
}
