"""Kani track: append #[cfg(kani)] harness modules to a scratch copy of /repo's working tree and run
`cargo kani` on the named harnesses.  /repo itself is never touched; cfg(kani) is set only by the
tool.  The scratch copy and its target/ are removed by the caller."""

import os
import re
import shutil
import subprocess
import time


class KaniSet:
    """harness module `vf/kani/<file>` appended to `<target>` (path in /repo)."""

    def __init__(self, target, module_file, harnesses):
        self.target, self.module_file, self.harnesses = target, module_file, harnesses


class Harness:
    def __init__(self, name, label, tag, bound="", tiers=("quick", "thorough"), timeout=600, extra=()):
        self.name, self.label, self.tag, self.bound = name, label, tag, bound
        self.tiers, self.timeout, self.extra = tiers, timeout, list(extra)


def prepare_copy(repo, scratch):
    dst = os.path.join(scratch, "repo")
    if os.path.exists(dst):
        return dst
    subprocess.run(["rsync", "-a", "--exclude", "/target", "--exclude", "/.git", "--exclude", "/data",
                    "--exclude", "/js", "--exclude", "/fuzz", "--exclude", "/node_modules",
                    repo.rstrip("/") + "/", dst + "/"], check=True)
    os.makedirs(os.path.join(dst, ".cargo"), exist_ok=True)
    with open(os.path.join(dst, ".cargo", "config.toml"), "a") as f:
        f.write("\n[net]\noffline = true\n")
    return dst


def append_module(dst, kset, vfdir):
    tgt = os.path.join(dst, kset.target)
    if not os.path.exists(tgt):
        return "target file %s missing" % kset.target
    mod = open(os.path.join(vfdir, "kani", kset.module_file)).read()
    with open(tgt, "a") as f:
        f.write("\n\n// ---- appended by /verif (cfg(kani) only; append-only) ----\n")
        f.write(mod)
    return None


RESULT_RE = re.compile(r"Checking harness ([A-Za-z0-9_:]+)\.\.\.")


def _split_blocks(out):
    """yield (harness_name, body) pairs for sequential and for -j (Thread k:) output."""
    if not re.search(r"^Thread \d+: ", out, re.M):
        parts = RESULT_RE.split(out)
        for i in range(1, len(parts), 2):
            yield parts[i].split("::")[-1], parts[i + 1]
        return
    cur = {}
    bodies = {}
    order = []
    active = None
    for ln in out.split("\n"):
        m = re.match(r"^Thread (\d+): (.*)$", ln)
        if m:
            th, rest = m.group(1), m.group(2)
            c = RESULT_RE.match(rest)
            if c:
                name = c.group(1).split("::")[-1]
                cur[th] = name
                bodies[name] = []
                order.append(name)
                active = None
            else:
                active = cur.get(th)
                if active:
                    bodies[active].append(rest)
            continue
        if ln.startswith("Manual Harness Summary") or ln.startswith("Complete - "):
            active = None
        if active:
            bodies[active].append(ln)
    for name in order:
        yield name, "\n".join(bodies[name])


def parse_output(out):
    """split cargo-kani output per harness -> dict name -> dict(status, failed_checks, time)"""
    res = {}
    for name, body in _split_blocks(out):
        st = "undecided"
        if "VERIFICATION:- SUCCESSFUL" in body:
            st = "ok"
        elif "VERIFICATION:- FAILED" in body:
            st = "failed"
        failed = []
        for m in re.finditer(r"Failed Checks: (.*)\n\s*File: \"([^\"]*)\", line (\d+)", body):
            failed.append("%s (%s:%s)" % (m.group(1), os.path.basename(m.group(2)), m.group(3)))
        unsup = st == "failed" and bool(failed) and all(("unsupported" in f.lower() or "not currently supported" in f.lower() or "unwinding assertion" in f) for f in failed) and any("unsupported" in f.lower() or "not currently supported" in f.lower() for f in failed)
        unwind = st == "failed" and bool(failed) and all("unwinding assertion" in f for f in failed)
        tm = re.search(r"Verification Time: ([0-9.]+)s", body)
        cov_total = re.search(r"\*\* (\d+) of (\d+) cover properties satisfied", body)
        res[name] = dict(status=st, failed_checks=failed, unsupported=unsup, unwind=unwind,
                         time=float(tm.group(1)) if tm else None,
                         covers=(int(cov_total.group(1)), int(cov_total.group(2))) if cov_total else None,
                         body_tail=body[-3000:])
    return res


def run_harnesses(dst, harness_names, timeout, extra=(), playback=False, jobs=None):
    cmd = ["cargo", "kani", "-Z", "function-contracts", "-Z", "stubbing"]
    for h in harness_names:
        cmd += ["--harness", h]
    if playback:
        cmd += ["-Z", "concrete-playback", "--concrete-playback=print"]
    if jobs and len(harness_names) > 1:
        cmd += ["-j", str(jobs), "--output-format=terse"]
    cmd += list(extra)
    env = dict(os.environ)
    env["CARGO_NET_OFFLINE"] = "true"
    t0 = time.time()
    try:
        p = subprocess.run(cmd, cwd=dst, capture_output=True, text=True, timeout=timeout, env=env)
        out = p.stdout + "\n" + p.stderr
        rc = p.returncode
    except subprocess.TimeoutExpired as e:
        out = ((e.stdout or b"").decode("utf-8", "replace") if isinstance(e.stdout, bytes) else (e.stdout or "")) + "\nTIMEOUT"
        rc = -9
    return rc, out, time.time() - t0
