#!/usr/bin/env python3
"""Runs the registered checks against every kept seeded change (in a scratch worktree, via VF_REPO;
/repo itself is not touched) and prints which obligations catch which change.
usage: seed_eval.py [seed ids...]   (default: all under /verif/seeded)"""
import json, os, re, subprocess, sys
ROOT = os.path.dirname(os.path.dirname(os.path.abspath(__file__)))
sys.path.insert(0, os.path.join(ROOT, "vf"))
import props
WT = os.environ.get("SEV_WT", "/tmp/sev")
seeds = sys.argv[1:] or sorted(os.listdir(os.path.join(ROOT, "seeded")))
subprocess.run("git -C /repo worktree remove --force %s 2>/dev/null; git -C /repo worktree add -q --detach %s HEAD" % (WT, WT), shell=True, check=True)
out = {}
try:
    for sd in seeds:
        d = os.path.join(ROOT, "seeded", sd)
        patch = os.path.join(d, "patch.diff")
        if not os.path.exists(patch):
            continue
        ap = subprocess.run("git -C %s checkout -q -- . && git -C %s apply %s" % (WT, WT, patch), shell=True)
        if ap.returncode != 0:
            out[sd] = "patch-does-not-apply"
            print(sd, "patch-does-not-apply (the code it changes has moved: rebase the seed)", flush=True)
            continue
        pid = sd[:3]
        extra = []
        meta = os.path.join(d, "meta.json")
        if os.path.exists(meta):
            extra = json.load(open(meta)).get("also_check", [])
        res = {}
        for p in [pid] + extra:
            if p not in props.PROPS:
                res[p] = "not-claimed"
                continue
            env = dict(os.environ, VF_REPO=WT, VF_WITNESS_TARGET=WT + "-wtarget")
            r = subprocess.run([os.path.join(ROOT, "check"), p, "--no-evidence"], capture_output=True, text=True, env=env)
            viol = re.findall(r"obligation=(\S+)", r.stdout)
            und = [l for l in r.stdout.split("\n") if l.startswith("UNDECIDED")]
            res[p] = dict(rc=r.returncode, violations=viol, undecided=[u[:160] for u in und][:3])
        out[sd] = res
        print(sd, json.dumps(res), flush=True)
finally:
    subprocess.run("git -C /repo worktree remove --force %s; rm -rf %s-wtarget" % (WT, WT), shell=True)
json.dump(out, open(os.environ.get("SEV_OUT", "/tmp/seed_eval.json"), "w"), indent=1)
