"""Minimal Rust lexical scanner: comment / string / char aware tokenisation, brace matching and
item location.  No regex-on-source guessing: every position the extractor uses is a token
boundary computed here.  A missing item raises LostAnchor (=> exit 2 / UNDECIDED upstream)."""

import re


class LostAnchor(Exception):
    pass


class Tok:
    __slots__ = ("kind", "text", "start", "end")

    def __init__(self, kind, text, start, end):
        self.kind, self.text, self.start, self.end = kind, text, start, end

    def __repr__(self):
        return "Tok(%s,%r,%d)" % (self.kind, self.text, self.start)


_ident = re.compile(r"[A-Za-z_][A-Za-z0-9_]*")
_num = re.compile(r"[0-9][A-Za-z0-9_]*(?:\.[0-9][A-Za-z0-9_]*)?")


def lex(src, keep_comments=False):
    """Return list of Tok. kinds: id, num, str, char, life, punct, comment, doc."""
    toks = []
    i, n = 0, len(src)
    while i < n:
        c = src[i]
        if c.isspace():
            i += 1
            continue
        if src.startswith("//", i):
            j = src.find("\n", i)
            if j < 0:
                j = n
            text = src[i:j]
            is_doc = (text.startswith("///") and not text.startswith("////")) or text.startswith("//!")
            if keep_comments or is_doc:
                toks.append(Tok("doc" if is_doc else "comment", text, i, j))
            i = j
            continue
        if src.startswith("/*", i):
            depth, j = 1, i + 2
            while j < n and depth:
                if src.startswith("/*", j):
                    depth += 1
                    j += 2
                elif src.startswith("*/", j):
                    depth -= 1
                    j += 2
                else:
                    j += 1
            if keep_comments:
                toks.append(Tok("comment", src[i:j], i, j))
            i = j
            continue
        # raw / byte strings
        m = re.match(r"b?r(#*)\"", src[i:i + 40])
        if m and (i == 0 or not (src[i - 1].isalnum() or src[i - 1] == "_")):
            hashes = m.group(1)
            close = '"' + hashes
            j = src.find(close, i + m.end())
            if j < 0:
                raise ValueError("unterminated raw string at %d" % i)
            j += len(close)
            toks.append(Tok("str", src[i:j], i, j))
            i = j
            continue
        if c == '"' or (c == "b" and i + 1 < n and src[i + 1] == '"' and (i == 0 or not (src[i - 1].isalnum() or src[i - 1] == "_"))):
            j = i + (2 if c == "b" else 1)
            while j < n and src[j] != '"':
                j += 2 if src[j] == "\\" else 1
            j += 1
            toks.append(Tok("str", src[i:j], i, j))
            i = j
            continue
        if c == "'" or (c == "b" and i + 1 < n and src[i + 1] == "'" and (i == 0 or not (src[i - 1].isalnum() or src[i - 1] == "_"))):
            q = i + (1 if c == "b" else 0)
            # char literal or lifetime
            if q + 1 < n and src[q + 1] == "\\":
                j = q + 3
                while j < n and src[j] != "'":
                    j += 1
                j += 1
                toks.append(Tok("char", src[i:j], i, j))
                i = j
                continue
            if q + 2 < n and src[q + 2] == "'":
                j = q + 3
                toks.append(Tok("char", src[i:j], i, j))
                i = j
                continue
            m = _ident.match(src, q + 1)
            if m:
                toks.append(Tok("life", src[i:m.end()], i, m.end()))
                i = m.end()
                continue
            raise ValueError("bad quote at %d" % i)
        m = _ident.match(src, i)
        if m:
            toks.append(Tok("id", m.group(0), i, m.end()))
            i = m.end()
            continue
        m = _num.match(src, i)
        if m:
            toks.append(Tok("num", m.group(0), i, m.end()))
            i = m.end()
            continue
        toks.append(Tok("punct", c, i, i + 1))
        i += 1
    return toks


OPEN = {"(": ")", "[": "]", "{": "}"}
CLOSE = {")": "(", "]": "[", "}": "{"}


def match_table(toks):
    """index of open token -> index of matching close token (and back)."""
    st, tbl = [], {}
    for k, t in enumerate(toks):
        if t.kind != "punct":
            continue
        if t.text in OPEN:
            st.append(k)
        elif t.text in CLOSE:
            if not st:
                raise ValueError("unbalanced close at %d" % t.start)
            o = st.pop()
            tbl[o] = k
            tbl[k] = o
    if st:
        raise ValueError("unbalanced open at %d" % toks[st[-1]].start)
    return tbl


def code_tokens(src):
    """tokens without comments, docs included as 'doc' kind removed too (used for comparisons)."""
    return [t for t in lex(src) if t.kind != "doc"]


def token_texts(src):
    return [t.text for t in code_tokens(src)]


def norm(s):
    return " ".join(token_texts(s))


class Source:
    def __init__(self, path, text):
        self.path = path
        self.text = text
        self.toks = [t for t in lex(text)]  # includes doc tokens
        self.tbl = match_table(self.toks)

    # -- helpers ---------------------------------------------------------------------------
    def _children(self, lo, hi):
        """yield token indices lo<=k<hi at nesting depth 0 relative to the range."""
        k = lo
        while k < hi:
            t = self.toks[k]
            yield k
            if t.kind == "punct" and t.text in OPEN:
                k = self.tbl[k] + 1
            else:
                k += 1

    def find_container(self, header, lo=0, hi=None):
        """Find `impl ... {` / `trait X {` / `mod x {` whose header tokens equal `header` tokens.
        Returns (open_brace_index, close_brace_index)."""
        if hi is None:
            hi = len(self.toks)
        want = token_texts(header)
        hits = []
        for k in self._children(lo, hi):
            t = self.toks[k]
            if t.kind == "id" and t.text == want[0]:
                # collect header until '{' at depth 0 (angle brackets are not nested by our table)
                j = k
                texts = []
                while j < hi and not (self.toks[j].kind == "punct" and self.toks[j].text in "{;"):
                    if self.toks[j].kind != "doc":
                        texts.append(self.toks[j].text)
                    if self.toks[j].kind == "punct" and self.toks[j].text in "([":
                        # include nested group verbatim
                        e = self.tbl[j]
                        for q in range(j + 1, e + 1):
                            texts.append(self.toks[q].text)
                        j = e
                    j += 1
                if texts == want and j < hi and self.toks[j].text == "{":
                    hits.append((j, self.tbl[j]))
        if len(hits) != 1:
            raise LostAnchor("%s: container `%s` found %d times" % (self.path, header, len(hits)))
        return hits[0]

    def item_start(self, k, lo):
        """walk back from keyword token k over visibility / qualifiers / attributes / docs."""
        s = k
        while s - 1 >= lo:
            p = self.toks[s - 1]
            if p.kind == "id" and p.text in ("pub", "const", "unsafe", "async", "extern", "default"):
                s -= 1
                continue
            if p.kind == "str" and s - 2 >= lo and self.toks[s - 2].text == "extern":
                s -= 1
                continue
            if p.kind == "punct" and p.text == ")" and s - 1 in self.tbl:
                o = self.tbl[s - 1]
                if o - 1 >= lo and self.toks[o - 1].text == "pub":
                    s = o - 1
                    continue
            break
        # attributes and docs
        a = s
        while a - 1 >= lo:
            p = self.toks[a - 1]
            if p.kind == "doc":
                a -= 1
                continue
            if p.kind == "punct" and p.text == "]" and (a - 1) in self.tbl:
                o = self.tbl[a - 1]
                if o - 1 >= lo and self.toks[o - 1].text == "#":
                    a = o - 1
                    continue
            break
        return s, a

    def find_item(self, kind, name, lo=0, hi=None, cfg_eval=None):
        """kind in fn/struct/enum/const/static/type/trait/impl/macro. Returns dict with token
        indices: kw (keyword), start (first qualifier), attr_start, end (last token, inclusive),
        body_open/body_close when braces exist."""
        if hi is None:
            hi = len(self.toks)
        hits = []
        for k in self._children(lo, hi):
            t = self.toks[k]
            if t.kind == "id" and t.text == kind and k + 1 < hi:
                nt = self.toks[k + 1]
                if kind == "const" and nt.text in ("fn", "unsafe"):
                    continue
                if nt.kind == "id" and nt.text == name:
                    hits.append(k)
        if len(hits) > 1 and cfg_eval is not None:
            # keep the candidates whose #[cfg(..)] attributes are active
            keep = []
            for k in hits:
                s_, a_ = self.item_start(k, lo)
                ok = True
                for q in range(a_, s_):
                    if self.toks[q].text == "cfg" and self.toks[q - 1].text == "[":
                        e = self.tbl[q + 1]
                        if cfg_eval([t.text for t in self.toks[q + 2:e]]) is not True:
                            ok = False
                if ok:
                    keep.append(k)
            hits = keep
        if len(hits) != 1:
            raise LostAnchor("%s: item `%s %s` found %d times" % (self.path, kind, name, len(hits)))
        k = hits[0]
        s, a = self.item_start(k, lo)
        # find end: first '{' or ';' at depth 0
        j = k
        body_open = body_close = None
        while j < hi:
            t = self.toks[j]
            if t.kind == "punct" and t.text == "{":
                body_open, body_close = j, self.tbl[j]
                end = body_close
                break
            if t.kind == "punct" and t.text == ";":
                end = j
                break
            if t.kind == "punct" and t.text in "([":
                j = self.tbl[j]
            j += 1
        else:
            raise LostAnchor("item end not found for %s %s" % (kind, name))
        if kind in ("struct",) and body_open is None:
            pass
        # tuple struct: `struct X(..);` handled by ';' branch. unit-like etc fine.
        # for `const X: T = expr;` with braces in expr: the '{' branch may fire; extend to ';'
        if kind in ("const", "static", "type") and body_open is not None:
            j = body_close + 1
            while j < hi and not (self.toks[j].kind == "punct" and self.toks[j].text == ";"):
                if self.toks[j].kind == "punct" and self.toks[j].text in OPEN:
                    j = self.tbl[j]
                j += 1
            end = j
            body_open = body_close = None
        return dict(kw=k, start=s, attr_start=a, end=end, body_open=body_open, body_close=body_close)

    def find_macro_block(self, macro, lo=0, hi=None):
        """`name! { ... }` at depth 0 of range."""
        if hi is None:
            hi = len(self.toks)
        hits = []
        for k in self._children(lo, hi):
            t = self.toks[k]
            if t.kind == "id" and t.text == macro and k + 2 < hi and self.toks[k + 1].text == "!" and self.toks[k + 2].text in OPEN:
                hits.append(k)
        return hits

    def text_of(self, a, b):
        """source text from token a to token b inclusive."""
        return self.text[self.toks[a].start:self.toks[b].end]
