// Unit c04_partition — C04.1 / C07.2 / C06: category assignment of every rule in Blocker::new,
// Blocker::add_filter and Blocker::filter_exists against ONE spec function `category`, and the
// data-structure invariant blocker_wf (which lists may contain tagged rules).
#![feature(allocator_api)]
use vstd::prelude::*;
use std::collections::HashSet;

verus! {

pub mod vf_axioms {
    use vstd::prelude::*;
    verus!{
    pub broadcast axiom fn string_key_model()
        ensures #[trigger] vstd::std_specs::hash::obeys_key_model::<String>();
    }
}
broadcast use {vf_axioms::string_key_model, vstd::std_specs::hash::group_hash_axioms};

//@INCLUDE shims/filter_items.rs
//@INCLUDE shims/std_extra.rs

// ---- rule ids (frame contract proved in unit c04_ids; uninterpreted here) ---------------------
pub uninterp spec fn id_spec(f: NetworkFilter) -> Hash;
pub uninterp spec fn id_nobad_spec(f: NetworkFilter) -> Hash;

impl NetworkFilter {
    #[verifier::external_body]
    pub fn get_id(&self) -> (r: Hash) ensures r == id_spec(*self) { unimplemented!() }
    #[verifier::external_body]
    pub fn get_id_without_badfilter(&self) -> (r: Hash) ensures r == id_nobad_spec(*self) { unimplemented!() }
}

// ---- NetworkFilterList / RegexManager: abstract views -------------------------------------------
pub struct RegexManager { pub x: u8 }
// the regex cache behind its cell: what matters here is only whether it holds anything (entries are keyed by filter ADDRESS)
pub struct RegexManagerCell { pub holds_regexes: Ghost<bool> }

pub struct NetworkFilterList { pub ghost_filters: Ghost<Seq<NetworkFilter>>, pub ghost_optimized: Ghost<bool> }

impl NetworkFilterList {
    pub open spec fn filters(&self) -> Seq<NetworkFilter> { self.ghost_filters@ }
    pub open spec fn optimized(&self) -> bool { self.ghost_optimized@ }

    // T (here): the index holds exactly the given rules (C01 units carry that proof)
    #[verifier::external_body]
    pub fn new(filters: Vec<NetworkFilter>, optimize: bool) -> (r: NetworkFilterList)
        ensures r.filters() == filters@, r.optimized() == optimize
    { unimplemented!() }

    // T (here): fusing rebuilds the buckets: every filter object is a new allocation afterwards (units c05_*, c09_order carry what the
    // rebuilt list contains)
    #[verifier::external_body]
    pub fn optimize(&mut self) { unimplemented!() }

    // T (here): adding to the index appends to the set of rules held (C01 units)
    #[verifier::external_body]
    pub fn add_filter(&mut self, filter: NetworkFilter)
        ensures final(self).filters() == old(self).filters().push(filter), final(self).optimized() == old(self).optimized()
    { unimplemented!() }

    #[verifier::external_body]
    pub fn filter_exists(&self, filter: &NetworkFilter) -> (r: bool)
        ensures r == list_has_id(self.filters(), *filter)
    { unimplemented!() }
}

pub uninterp spec fn list_has_id(l: Seq<NetworkFilter>, f: NetworkFilter) -> bool;

pub struct BlockerOptions { pub enable_optimizations: bool }

//@EXTRACT src/blocker.rs :: enum BlockerError
//@END

//@EXTRACT src/blocker.rs :: struct Blocker
//@ SUBST R6*
    std::cell::RefCell<RegexManager>
//@ WITH
    RegexManagerCell
//@ ENDSUBST
//@END

// ---- the specification --------------------------------------------------------------------------
pub enum Category { Csp, Removeparam, GenericHide, Exception, Important, Tagged, Normal, None }

// "category assignment of each rule", from the statement of C04/C07/C13/C14: modifier rules (csp,
// removeparam) are kept apart; generichide exceptions; exceptions; $important blocking rules;
// tagged blocking rules (a tagged redirect is unsupported: it only redirects); everything else
// blocks normally unless it is a redirect-rule (redirects without blocking).
pub open spec fn category(f: NetworkFilter) -> Category {
    let m = f.mask;
    if m.has(NetworkFilterMask::IS_CSP) { Category::Csp }
    else if m.has(NetworkFilterMask::IS_REMOVEPARAM) { Category::Removeparam }
    else if m.has(NetworkFilterMask::GENERIC_HIDE) { Category::GenericHide }
    else if m.has(NetworkFilterMask::IS_EXCEPTION) { Category::Exception }
    else if m.has(NetworkFilterMask::IS_IMPORTANT) { Category::Important }
    else if f.tag is Some && !m.has(NetworkFilterMask::IS_REDIRECT) { Category::Tagged }
    else if !m.has(NetworkFilterMask::IS_REDIRECT) || m.has(NetworkFilterMask::ALSO_BLOCK_REDIRECT) { Category::Normal }
    else { Category::None }
}

pub open spec fn in_redirects(f: NetworkFilter) -> bool { f.mask.has(NetworkFilterMask::IS_REDIRECT) }

// a $badfilter rule never takes part; it cancels the rules whose id equals its id-without-badfilter
pub open spec fn cancelled(all: Seq<NetworkFilter>, f: NetworkFilter) -> bool {
    f.mask.has(NetworkFilterMask::BAD_FILTER)
    || exists|j: int| 0 <= j < all.len() && (#[trigger] all[j]).mask.has(NetworkFilterMask::BAD_FILTER) && id_nobad_spec(all[j]) == id_spec(f)
}

// list `l` holds exactly the surviving rules of `all[..k]` that satisfy `p`
pub open spec fn in_prefix(all: Seq<NetworkFilter>, k: int, f: NetworkFilter) -> bool {
    exists|i: int| 0 <= i < k && i < all.len() && all[i] == f
}

pub open spec fn holds_exactly(l: Seq<NetworkFilter>, all: Seq<NetworkFilter>, k: int, p: spec_fn(NetworkFilter) -> bool) -> bool {
    (forall|x: int| 0 <= x < l.len() ==> in_prefix(all, k, #[trigger] l[x]) && !cancelled(all, l[x]) && p(l[x]))
    && (forall|i: int| 0 <= i < k && i < all.len() && !cancelled(all, #[trigger] all[i]) && p(all[i]) ==> l.contains(all[i]))
}

pub open spec fn same_rules(a: Blocker, b: Blocker) -> bool {
    a.csp.filters() == b.csp.filters() && a.exceptions.filters() == b.exceptions.filters()
    && a.importants.filters() == b.importants.filters() && a.redirects.filters() == b.redirects.filters()
    && a.removeparam.filters() == b.removeparam.filters() && a.filters_tagged.filters() == b.filters_tagged.filters()
    && a.filters.filters() == b.filters.filters() && a.generic_hide.filters() == b.generic_hide.filters()
    && a.tagged_filters_all@ == b.tagged_filters_all@ && a.tags_enabled@ == b.tags_enabled@
    && a.enable_optimizations == b.enable_optimizations
}

pub open spec fn same_rules_except_tagged(a: Blocker, b: Blocker) -> bool {
    a.csp.filters() == b.csp.filters() && a.exceptions.filters() == b.exceptions.filters()
    && a.importants.filters() == b.importants.filters() && a.redirects.filters() == b.redirects.filters()
    && a.removeparam.filters() == b.removeparam.filters()
    && a.filters.filters() == b.filters.filters() && a.generic_hide.filters() == b.generic_hide.filters()
    && a.tagged_filters_all@ == b.tagged_filters_all@
    && a.enable_optimizations == b.enable_optimizations
}

pub open spec fn plus_if(l: Seq<NetworkFilter>, c: bool, f: NetworkFilter) -> Seq<NetworkFilter> { if c { l.push(f) } else { l } }

// incremental addition files a rule exactly where batch construction would
pub open spec fn added_to(a: Blocker, b: Blocker, f: NetworkFilter) -> bool {
    b.csp.filters() == plus_if(a.csp.filters(), category(f) is Csp, f)
    && b.removeparam.filters() == plus_if(a.removeparam.filters(), category(f) is Removeparam, f)
    && b.generic_hide.filters() == plus_if(a.generic_hide.filters(), category(f) is GenericHide, f)
    && b.exceptions.filters() == plus_if(a.exceptions.filters(), category(f) is Exception, f)
    && b.importants.filters() == plus_if(a.importants.filters(), category(f) is Important, f)
    && b.tagged_filters_all@ == plus_if(a.tagged_filters_all@, category(f) is Tagged, f)
    && b.filters.filters() == plus_if(a.filters.filters(), category(f) is Normal, f)
    && b.redirects.filters() == plus_if(a.redirects.filters(), in_redirects(f), f)
    && b.tags_enabled@ == a.tags_enabled@
    && (if category(f) is Tagged {
            b.filters_tagged.filters() == b.tagged_filters_all@.filter(|n: NetworkFilter| n.tag is Some && b.tags_enabled@.contains(n.tag->Some_0))
        } else { b.filters_tagged.filters() == a.filters_tagged.filters() })
}

pub proof fn lemma_prefix_mono(all: Seq<NetworkFilter>, k: int, f: NetworkFilter)
    requires in_prefix(all, k, f)
    ensures in_prefix(all, k + 1, f)
{
    let i = choose|i: int| 0 <= i < k && i < all.len() && all[i] == f;
    assert(0 <= i < k + 1 && i < all.len() && all[i] == f);
}

pub proof fn lemma_step_push(l: Seq<NetworkFilter>, all: Seq<NetworkFilter>, k: int, p: spec_fn(NetworkFilter) -> bool, f: NetworkFilter)
    requires holds_exactly(l, all, k, p), 0 <= k < all.len(), f == all[k], !cancelled(all, f), p(f)
    ensures holds_exactly(l.push(f), all, k + 1, p)
{
    let l2 = l.push(f);
    assert forall|x: int| 0 <= x < l2.len() implies in_prefix(all, k + 1, #[trigger] l2[x]) && !cancelled(all, l2[x]) && p(l2[x]) by {
        if x < l.len() {
            assert(l2[x] == l[x]);
            lemma_prefix_mono(all, k, l[x]);
        } else {
            assert(l2[x] == all[k]);
            assert(0 <= k < k + 1 && k < all.len() && all[k] == l2[x]);
        }
    }
    assert forall|i: int| 0 <= i < k + 1 && i < all.len() && !cancelled(all, #[trigger] all[i]) && p(all[i]) implies l2.contains(all[i]) by {
        if i < k {
            assert(l.contains(all[i]));
            let x = choose|x: int| 0 <= x < l.len() && l[x] == all[i];
            assert(l2[x] == all[i]);
        } else {
            assert(l2[l.len() as int] == all[i]);
        }
    }
}

pub proof fn lemma_step_skip(l: Seq<NetworkFilter>, all: Seq<NetworkFilter>, k: int, p: spec_fn(NetworkFilter) -> bool)
    requires holds_exactly(l, all, k, p), 0 <= k < all.len(), cancelled(all, all[k]) || !p(all[k])
    ensures holds_exactly(l, all, k + 1, p)
{
    assert forall|x: int| 0 <= x < l.len() implies in_prefix(all, k + 1, #[trigger] l[x]) && !cancelled(all, l[x]) && p(l[x]) by {
        lemma_prefix_mono(all, k, l[x]);
    }
    assert forall|i: int| 0 <= i < k + 1 && i < all.len() && !cancelled(all, #[trigger] all[i]) && p(all[i]) implies l.contains(all[i]) by {
        if i < k { assert(l.contains(all[i])); }
    }
}

// one step of the partition loop for one list: either the rule was appended (and belongs there) or
// the list is unchanged (and the rule does not belong there)
pub proof fn lemma_step(before: Seq<NetworkFilter>, after: Seq<NetworkFilter>, all: Seq<NetworkFilter>, k: int, p: spec_fn(NetworkFilter) -> bool)
    requires
        holds_exactly(before, all, k, p), 0 <= k < all.len(),
        (after == before && (cancelled(all, all[k]) || !p(all[k]))) || (after == before.push(all[k]) && !cancelled(all, all[k]) && p(all[k])),
    ensures holds_exactly(after, all, k + 1, p)
{
    if after == before && (cancelled(all, all[k]) || !p(all[k])) { lemma_step_skip(before, all, k, p); } else { lemma_step_push(before, all, k, p, all[k]); }
}

pub open spec fn is_cat(c: Category) -> spec_fn(NetworkFilter) -> bool { |f: NetworkFilter| category(f) == c }

#[verifier::external_body]
fn vf_collect_badfilter_ids(badfilters: &Vec<&NetworkFilter>) -> (r: HashSet<Hash>)
    ensures forall|h: Hash| r@.contains(h) <==> exists|j: int| 0 <= j < badfilters@.len() && id_nobad_spec(*#[trigger] badfilters@[j]) == h
{
    badfilters
                .iter()
                .map(|f| f.get_id_without_badfilter())
                .collect()
}

#[verifier::external_body]
fn vf_default_regex_manager() -> (r: RegexManagerCell) ensures !r.holds_regexes@ { unimplemented!() }
// R6: `self.borrow_regex_manager().clear()` with `&mut self` at hand: the cell's manager forgets every compiled regex
#[verifier::external_body]
fn vf_clear_regex_cache(cell: &mut RegexManagerCell) ensures !final(cell).holds_regexes@ { unimplemented!() }

impl Blocker {
//@EXTRACT src/blocker.rs :: impl Blocker :: fn new
//@ RET r
//@ R4
//@ SAFETY C04.new.safety
//@ SPEC
    ensures
        holds_exactly(r.csp.filters(), network_filters@, network_filters@.len() as int, is_cat(Category::Csp)), // OBL C04.new.csp
        holds_exactly(r.removeparam.filters(), network_filters@, network_filters@.len() as int, is_cat(Category::Removeparam)), // OBL C04.new.removeparam
        holds_exactly(r.generic_hide.filters(), network_filters@, network_filters@.len() as int, is_cat(Category::GenericHide)), // OBL C04.new.generic_hide
        holds_exactly(r.exceptions.filters(), network_filters@, network_filters@.len() as int, is_cat(Category::Exception)), // OBL C04.new.exceptions
        holds_exactly(r.importants.filters(), network_filters@, network_filters@.len() as int, is_cat(Category::Important)), // OBL C04.new.importants
        holds_exactly(r.tagged_filters_all@, network_filters@, network_filters@.len() as int, is_cat(Category::Tagged)), // OBL C04.new.tagged
        holds_exactly(r.filters.filters(), network_filters@, network_filters@.len() as int, is_cat(Category::Normal)), // OBL C04.new.filters
        holds_exactly(r.redirects.filters(), network_filters@, network_filters@.len() as int, |f: NetworkFilter| in_redirects(f)), // OBL C04.new.redirects
        r.filters_tagged.filters().len() == 0 && r.tags_enabled@.len() == 0, // OBL C07.new.no_tags_enabled
        !r.removeparam.optimized(), // OBL C05.new.removeparam_unoptimized
        r.enable_optimizations == options.enable_optimizations,
//@ ENDSPEC
//@ SUBST R6
    badfilters
                .iter()
                .map(|f| f.get_id_without_badfilter())
                .collect()
//@ WITH
    vf_collect_badfilter_ids(&badfilters)
//@ ENDSUBST
//@ SUBST R8
    let mut csp =
//@ WITH
    let mut csp: Vec<NetworkFilter> =
//@ ENDSUBST
//@ SUBST R8
    let mut exceptions =
//@ WITH
    let mut exceptions: Vec<NetworkFilter> =
//@ ENDSUBST
//@ SUBST R8
    let mut importants =
//@ WITH
    let mut importants: Vec<NetworkFilter> =
//@ ENDSUBST
//@ SUBST R8
    let mut redirects =
//@ WITH
    let mut redirects: Vec<NetworkFilter> =
//@ ENDSUBST
//@ SUBST R8
    let mut removeparam =
//@ WITH
    let mut removeparam: Vec<NetworkFilter> =
//@ ENDSUBST
//@ SUBST R8
    let mut tagged_filters_all =
//@ WITH
    let mut tagged_filters_all: Vec<NetworkFilter> =
//@ ENDSUBST
//@ SUBST R8
    let mut badfilters =
//@ WITH
    let mut badfilters: Vec<&NetworkFilter> =
//@ ENDSUBST
//@ SUBST R8
    let mut generic_hide =
//@ WITH
    let mut generic_hide: Vec<NetworkFilter> =
//@ ENDSUBST
//@ SUBST R8
    let mut filters =
//@ WITH
    let mut filters: Vec<NetworkFilter> =
//@ ENDSUBST
//@ BEFORE
    if !network_filters.is_empty()
//@ AT
        let ghost nf = network_filters@;
//@ ENDBEFORE
//@ SUBST R8#1
    for filter in network_filters
//@ WITH
    for filter in it: network_filters
//@ ENDSUBST
//@ LOOP 1
                invariant
                    it.seq().len() == nf.len(),
                    forall|i: int| 0 <= i < nf.len() ==> *#[trigger] it.seq()[i] == nf[i],
                    forall|j: int| 0 <= j < badfilters@.len() ==> nf.contains(*#[trigger] badfilters@[j]) && badfilters@[j].mask.has(NetworkFilterMask::BAD_FILTER),
                    forall|i: int| 0 <= i < it.index() && (#[trigger] nf[i]).mask.has(NetworkFilterMask::BAD_FILTER) ==> exists|j: int| 0 <= j < badfilters@.len() && *badfilters@[j] == nf[i],
//@ ENDLOOP
//@ SUBST R8#2
    for filter in network_filters
//@ WITH
    for filter in it: network_filters
//@ ENDSUBST
//@ LOOP 2
                invariant
                    it.seq() == nf,
                    forall|f: NetworkFilter| nf.contains(f) ==> ((badfilter_ids@.contains(id_spec(f)) || f.mask.has(NetworkFilterMask::BAD_FILTER)) <==> cancelled(nf, f)),
                    holds_exactly(csp@, nf, it.index(), is_cat(Category::Csp)),
                    holds_exactly(removeparam@, nf, it.index(), is_cat(Category::Removeparam)),
                    holds_exactly(generic_hide@, nf, it.index(), is_cat(Category::GenericHide)),
                    holds_exactly(exceptions@, nf, it.index(), is_cat(Category::Exception)),
                    holds_exactly(importants@, nf, it.index(), is_cat(Category::Important)),
                    holds_exactly(tagged_filters_all@, nf, it.index(), is_cat(Category::Tagged)),
                    holds_exactly(filters@, nf, it.index(), is_cat(Category::Normal)),
                    holds_exactly(redirects@, nf, it.index(), |f: NetworkFilter| in_redirects(f)),
//@ ENDLOOP
//@ LOOPSTART 1
                    let ghost k1 = it.index() as int;
                    let ghost old_bf = badfilters@;
                    proof { assert(*filter == nf[k1]); }
//@ ENDLOOPSTART
//@ LOOPEND 1
                    proof {
                        assert forall|j: int| 0 <= j < badfilters@.len() implies nf.contains(*#[trigger] badfilters@[j]) && badfilters@[j].mask.has(NetworkFilterMask::BAD_FILTER) by {
                            if j < old_bf.len() { assert(badfilters@[j] == old_bf[j]); } else { assert(nf[k1] == *badfilters@[j]); }
                        }
                        assert forall|i: int| 0 <= i < k1 + 1 && (#[trigger] nf[i]).mask.has(NetworkFilterMask::BAD_FILTER) implies exists|j: int| 0 <= j < badfilters@.len() && *badfilters@[j] == nf[i] by {
                            if i < k1 {
                                let j = choose|j: int| 0 <= j < old_bf.len() && *old_bf[j] == nf[i];
                                assert(*badfilters@[j] == nf[i]);
                            } else {
                                assert(*badfilters@[badfilters@.len() - 1] == nf[i]);
                            }
                        }
                    }
//@ ENDLOOPEND
//@ LOOPSTART 2
                    let ghost k2 = it.index() as int;
                    let ghost fg = filter;
                    let ghost (o_csp, o_rp, o_gh, o_ex, o_im, o_tg, o_fl, o_rd) = (csp@, removeparam@, generic_hide@, exceptions@, importants@, tagged_filters_all@, filters@, redirects@);
                    proof { assert(fg == nf[k2]); assert(nf.contains(fg)); }
//@ ENDLOOPSTART
//@ LOOPEND 2
                    proof {
                        lemma_step(o_csp, csp@, nf, k2, is_cat(Category::Csp)); // OBL C04.new.csp
                        lemma_step(o_rp, removeparam@, nf, k2, is_cat(Category::Removeparam)); // OBL C04.new.removeparam
                        lemma_step(o_gh, generic_hide@, nf, k2, is_cat(Category::GenericHide)); // OBL C04.new.generic_hide
                        lemma_step(o_ex, exceptions@, nf, k2, is_cat(Category::Exception)); // OBL C04.new.exceptions
                        lemma_step(o_im, importants@, nf, k2, is_cat(Category::Important)); // OBL C04.new.importants
                        lemma_step(o_tg, tagged_filters_all@, nf, k2, is_cat(Category::Tagged)); // OBL C04.new.tagged
                        lemma_step(o_fl, filters@, nf, k2, is_cat(Category::Normal)); // OBL C04.new.filters
                        lemma_step(o_rd, redirects@, nf, k2, |f: NetworkFilter| in_redirects(f)); // OBL C04.new.redirects
                    }
//@ ENDLOOPEND
//@ SUBST R6
    regex_manager: Default::default()
//@ WITH
    regex_manager: vf_default_regex_manager()
//@ ENDSUBST
//@END

    #[verifier::external_body]
    pub fn tags_enabled(&self) -> Vec<String> { self.tags_enabled.iter().cloned().collect() }

    #[verifier::external_body]
    fn vf_tags_as_set(&self) -> (r: HashSet<String>)
        ensures r@ == self.tags_enabled@
    { self.tags_enabled().into_iter().collect::<HashSet<_>>() }

    #[verifier::external_body]
    fn vf_tagged_any_id(&self, filter: &NetworkFilter) -> (r: bool)
        ensures r == list_has_id(self.tagged_filters_all@, *filter)
    { self.tagged_filters_all.iter().any(|f| f.id == filter.id) }

    // the active tagged rules: tagged_filters_all restricted to the enabled tags (R6: the
    // filter/clone iterator chain is trusted to compute this)
    #[verifier::external_body]
    fn vf_active_tagged(&self) -> (r: Vec<NetworkFilter>)
        ensures r@ == self.tagged_filters_all@.filter(|n: NetworkFilter| n.tag is Some && self.tags_enabled@.contains(n.tag->Some_0))
    {
        self
            .tagged_filters_all
            .iter()
            .filter(|n| n.tag.is_some() && self.tags_enabled.contains(n.tag.as_ref().unwrap()))
            .cloned()
            .collect()
    }

    // R7: the tag test of tags_with_set - the body of the closure passed to `.filter(..)` - for every rule that may sit in
    // tagged_filters_all, also one decoded from a buffer without its tag ("corrupt data never panics": the unwrap is guarded)
    fn vf_tag_test(&self, n: &NetworkFilter) -> (b: bool)
        ensures b == (n.tag is Some && self.tags_enabled@.contains(n.tag->Some_0)), // OBL C07.tags_with_set.tag_test
    {
//@EXTRACT src/blocker.rs :: impl Blocker :: fn tags_with_set
//@ SAFETY C10.wf.tag_test.safety
//@ CLOSUREBODY .filter
//@END
    }

//@EXTRACT src/blocker.rs :: impl Blocker :: fn tags_with_set
//@ SAFETY C07.tags_with_set.safety
//@ SPEC
    ensures
        final(self).tags_enabled@ == tags_enabled@, // OBL C07.tags_with_set.assign
        final(self).filters_tagged.filters() == old(self).tagged_filters_all@.filter(|n: NetworkFilter| n.tag is Some && tags_enabled@.contains(n.tag->Some_0)), // OBL C07.tags_with_set.active
        same_rules_except_tagged(*old(self), *final(self)), // OBL C07.tags_with_set.frame
        // the tagged list is rebuilt from fresh allocations: no regex compiled for a freed filter may stay cached under its address
        !final(self).regex_manager.holds_regexes@, // OBL C06.cache.cleared_on_tag_switch
//@ ENDSPEC
//@ SUBST R6
    self.borrow_regex_manager().clear();
//@ WITH
    vf_clear_regex_cache(&mut self.regex_manager);
//@ ENDSUBST
//@ SUBST R6
        self
            .tagged_filters_all
            .iter()
            .filter(|n| n.tag.is_some() && self.tags_enabled.contains(n.tag.as_ref().unwrap()))
            .cloned()
            .collect()
//@ WITH
        self.vf_active_tagged()
//@ ENDSUBST
//@END

    // R6: the iterator chains that build the new tag set (T: they compute the stated set)
    #[verifier::external_body]
    fn vf_tag_set(tags: &[&str]) -> (r: HashSet<String>)
        ensures forall|t: String| r@.contains(t) <==> exists|i: int| 0 <= i < tags@.len() && (#[trigger] tags@[i])@ == t@
    { tags.iter().map(|&t| String::from(t)).collect() }
    #[verifier::external_body]
    fn vf_tag_union(&self, tags: &[&str]) -> (r: HashSet<String>)
        ensures forall|t: String| r@.contains(t) <==> (self.tags_enabled@.contains(t) || exists|i: int| 0 <= i < tags@.len() && (#[trigger] tags@[i])@ == t@)
    { unimplemented!() }
    #[verifier::external_body]
    fn vf_tag_difference(&self, tags: &[&str]) -> (r: HashSet<String>)
        ensures forall|t: String| r@.contains(t) <==> (self.tags_enabled@.contains(t) && !exists|i: int| 0 <= i < tags@.len() && (#[trigger] tags@[i])@ == t@)
    { unimplemented!() }

//@EXTRACT src/blocker.rs :: impl Blocker :: fn optimize
//@ SAFETY C06.optimize.safety
//@ SPEC
    ensures
        // "the removeparam list is never optimised"
        final(self).removeparam == old(self).removeparam, // OBL C05.optimize.removeparam_untouched
        // every optimised list is rebuilt from fresh allocations: no regex compiled for a freed filter may stay cached under its address
        !final(self).regex_manager.holds_regexes@, // OBL C06.cache.cleared_on_optimize
//@ ENDSPEC
//@ SUBST R6
    self.borrow_regex_manager().clear();
//@ WITH
    vf_clear_regex_cache(&mut self.regex_manager);
//@ ENDSUBST
//@END

//@EXTRACT src/blocker.rs :: impl Blocker :: fn use_tags
//@ SAFETY C07.use_tags.safety
//@ SPEC
    ensures
        // "replacing ... behaves as set assignment"
        forall|t: String| final(self).tags_enabled@.contains(t) <==> exists|i: int| 0 <= i < tags@.len() && (#[trigger] tags@[i])@ == t@, // OBL C07.use_tags.assignment
        same_rules_except_tagged(*old(self), *final(self)), // OBL C07.use_tags.frame
//@ ENDSPEC
//@ SUBST R6
    tags.iter().map(|&t| String::from(t)).collect()
//@ WITH
    Self::vf_tag_set(tags)
//@ ENDSUBST
//@END

//@EXTRACT src/blocker.rs :: impl Blocker :: fn enable_tags
//@ SAFETY C07.enable_tags.safety
//@ SPEC
    ensures
        // "enabling ... behaves as union"
        forall|t: String| final(self).tags_enabled@.contains(t) <==> (old(self).tags_enabled@.contains(t) || exists|i: int| 0 <= i < tags@.len() && (#[trigger] tags@[i])@ == t@), // OBL C07.enable_tags.union
        same_rules_except_tagged(*old(self), *final(self)), // OBL C07.enable_tags.frame
//@ ENDSPEC
//@ REPLACE R6
        tags
            .iter()
            .map(|&t| String::from(t))
//@ UPTO
            .collect();
//@ WITH
        self.vf_tag_union(tags);
//@ ENDREPLACE
//@END

//@EXTRACT src/blocker.rs :: impl Blocker :: fn disable_tags
//@ SAFETY C07.disable_tags.safety
//@ SPEC
    ensures
        // "disabling ... behaves as difference"
        forall|t: String| final(self).tags_enabled@.contains(t) <==> (old(self).tags_enabled@.contains(t) && !exists|i: int| 0 <= i < tags@.len() && (#[trigger] tags@[i])@ == t@), // OBL C07.disable_tags.difference
        same_rules_except_tagged(*old(self), *final(self)), // OBL C07.disable_tags.frame
//@ ENDSPEC
//@ REPLACE R6
        self
            .tags_enabled
            .difference(
//@ UPTO
            .collect();
//@ WITH
        self.vf_tag_difference(tags);
//@ ENDREPLACE
//@END

//@EXTRACT src/blocker.rs :: impl Blocker :: fn filter_exists
//@ RET r
//@ SAFETY C06.filter_exists.safety
//@ SPEC
    ensures
        // looked up where add_filter would store it (same category function as Blocker::new)
        category(*filter) is Csp ==> r == list_has_id(self.csp.filters(), *filter), // OBL C06.filter_exists.csp
        category(*filter) is Removeparam ==> r == list_has_id(self.removeparam.filters(), *filter), // OBL C06.filter_exists.removeparam
        category(*filter) is GenericHide ==> r == list_has_id(self.generic_hide.filters(), *filter), // OBL C06.filter_exists.generic_hide
        category(*filter) is Exception ==> r == list_has_id(self.exceptions.filters(), *filter), // OBL C06.filter_exists.exceptions
        category(*filter) is Important ==> r == list_has_id(self.importants.filters(), *filter), // OBL C06.filter_exists.importants
        category(*filter) is Tagged ==> r == list_has_id(self.tagged_filters_all@, *filter), // OBL C06.filter_exists.tagged
        category(*filter) is Normal && !in_redirects(*filter) ==> r == list_has_id(self.filters.filters(), *filter), // OBL C06.filter_exists.filters
//@ ENDSPEC
//@ SUBST R6
    self.tagged_filters_all.iter().any(|f| f.id == filter.id)
//@ WITH
    self.vf_tagged_any_id(filter)
//@ ENDSUBST
//@END

//@EXTRACT src/blocker.rs :: impl Blocker :: fn add_filter
//@ RET r
//@ SAFETY C06.add_filter.safety
//@ SPEC
    ensures
        (r is Err && r->Err_0 is BadFilterAddUnsupported) <==> filter.mask.has(NetworkFilterMask::BAD_FILTER), // OBL C04.add_filter.badfilter_rejected
        r is Err ==> same_rules(*old(self), *final(self)), // OBL C06.add_filter.err_unchanged
        r is Ok ==> added_to(*old(self), *final(self), filter), // OBL C06.add_filter.same_category_as_new
//@ ENDSPEC
//@ SUBST R6
    self.tags_enabled().into_iter().collect::<HashSet<_>>()
//@ WITH
    self.vf_tags_as_set()
//@ ENDSUBST
//@END
}

proof fn vf_canary() ensures false {}

} // verus!
fn main() {}
