// Unit c12_offsets — C12: "building a request from any URL strings never panics; the reported hostname is the host component of
// the normalised URL".  The URL scanner (url_parser/parser.rs) writes the normalised URL into one String and remembers three byte
// offsets into it (scheme_end, host_start, host_end).  Proved here, for every input: the offsets that come out of
// parse_with_scheme / after_double_slash / parse_non_special are lengths that the buffer had at some moment (so they are ordered,
// in range and on character boundaries of the final text, however much is appended later), the host text between them is exactly
// what parse_host wrote, and Hostname::host_str / the slice in url_parser::parse_url therefore never slice out of range or off a
// boundary.  parse_userinfo / parse_host enter by contract ("only appends"; units c12_userinfo).
#![feature(pattern)]
#![feature(allocator_api)]
use vstd::prelude::*;
use vstd::string::*;
use vstd::slice::*;
use core::str::pattern::Pattern;

verus! {

//@INCLUDE shims/strings.rs
broadcast use {vf_str::str_ends_are_boundaries, vf_str::str_len_fits};

// ---- UTF-8 facts about a growing text (T) --------------------------------------------------------------------------------
pub open spec fn blen(t: Seq<char>) -> int { vstd::utf8::encode_utf8(t).len() as int }
pub open spec fn is_prefix(p: Seq<char>, t: Seq<char>) -> bool { p.len() <= t.len() && t.take(p.len() as int) =~= p }
// `off` is the byte length of some character prefix of t
pub open spec fn text_offset(t: Seq<char>, off: int) -> bool { exists|k: int| 0 <= k <= t.len() && off == blen(#[trigger] t.take(k)) }
pub mod vf_utf8 {
    use vstd::prelude::*;
    verus!{
    // the encoding of a concatenation is the concatenation of the encodings
    pub broadcast axiom fn encode_concat(a: Seq<char>, b: Seq<char>)
        ensures #[trigger] vstd::utf8::encode_utf8(a + b) == vstd::utf8::encode_utf8(a) + vstd::utf8::encode_utf8(b);
    // the encoding of a character prefix ends on a character boundary of the whole encoding
    pub broadcast axiom fn prefix_boundary(t: Seq<char>, k: int)
        requires 0 <= k <= t.len()
        ensures vstd::utf8::is_char_boundary(vstd::utf8::encode_utf8(t), #[trigger] vstd::utf8::encode_utf8(t.take(k)).len() as int);
    }
}

proof fn lemma_prefix_len(t: Seq<char>, k: int)
    requires 0 <= k <= t.len()
    ensures blen(t.take(k)) <= blen(t), vstd::utf8::encode_utf8(t).take(blen(t.take(k))) =~= vstd::utf8::encode_utf8(t.take(k))
{
    vf_utf8::encode_concat(t.take(k), t.skip(k));
    assert(t.take(k) + t.skip(k) =~= t);
}
proof fn lemma_offset_mono(t: Seq<char>, i: int, j: int)
    requires 0 <= i <= j <= t.len()
    ensures blen(t.take(i)) <= blen(t.take(j))
{
    lemma_prefix_len(t.take(j), i);
    assert(t.take(j).take(i) =~= t.take(i));
}
// an offset of a text is an offset of every extension of it
proof fn lemma_offset_grows(t: Seq<char>, t2: Seq<char>, off: int)
    requires text_offset(t, off), is_prefix(t, t2)
    ensures text_offset(t2, off)
{
    let k = choose|k: int| 0 <= k <= t.len() && off == blen(#[trigger] t.take(k));
    assert(t2.take(k) =~= t.take(k));
}
proof fn lemma_len_is_offset(t: Seq<char>)
    ensures text_offset(t, blen(t))
{
    assert(t.take(t.len() as int) =~= t);
}


// ---- the scanner's buffer and cursor (T: String / str::Chars behaviour) ------------------------------------------------------
pub struct Input<'i> { pub v: Ghost<Seq<char>>, pub p: core::marker::PhantomData<&'i u8> }
impl<'i> Clone for Input<'i> {
    #[verifier::external_body]
    fn clone(&self) -> (r: Self) ensures r.v@ == self.v@ { unimplemented!() }
}
impl<'i> Input<'i> {
    // T: Input::new (trims C0 control / space characters at both ends)
    #[verifier::external_body]
    pub fn new(input: &'i str) -> (r: Self) { unimplemented!() }
    // T: Iterator::next on the cursor
    #[verifier::external_body]
    pub fn next(&mut self) -> (r: Option<char>)
        ensures match r {
            Some(c) => old(self).v@.len() > 0 && c == old(self).v@[0] && final(self).v@ == old(self).v@.skip(1),
            None => old(self).v@.len() == 0 && final(self).v@ == old(self).v@,
        }
    { unimplemented!() }
    #[verifier::external_body]
    pub fn vf_is_empty(&self) -> (r: bool) ensures r == (self.v@.len() == 0) { unimplemented!() }
    // R6: `input.starts_with(|c: char| c.is_ascii_alphabetic())`
    #[verifier::external_body]
    pub fn vf_starts_alpha(&self) -> (r: bool) ensures r == (self.v@.len() > 0 && (('a' <= self.v@[0] && self.v@[0] <= 'z') || ('A' <= self.v@[0] && self.v@[0] <= 'Z'))) { unimplemented!() }
    // R6: `input.chars.as_str()` — the text not yet consumed
    #[verifier::external_body]
    pub fn vf_rest(&self) -> (r: &'i str) ensures r@ == self.v@ { unimplemented!() }
    // T: Input::split_prefix(&str): the cursor after the prefix, if it is there
    #[verifier::external_body]
    pub fn split_prefix(&self, p: &str) -> (r: Option<Self>) { unimplemented!() }
    // R6: `input.count_matching(|c| matches!(c, '/' | '\\'))` — closure argument
    #[verifier::external_body]
    pub fn vf_skip_slashes(&self) -> (r: (u32, Self)) { unimplemented!() }
}
//@EXTRACT src/url_parser/parser.rs :: enum SchemeType
//@ ATTR #[derive(Clone, Copy)]
//@END
impl SchemeType {
    #[verifier::external_body]
    pub fn vf_from(s: &String) -> (r: Self) { unimplemented!() }
}
pub enum ParseError { IdnaError, RelativeUrlWithoutBase, FileUrlNotSupported, ExpectedMoreChars }
pub type ParseResult<T> = Result<T, ParseError>;

#[verifier::external_body]
fn vf_len(s: &String) -> (r: usize) ensures r == blen(s@) { s.len() }
#[verifier::external_body]
fn vf_push(s: &mut String, c: char) ensures final(s)@ == old(s)@.push(c) { s.push(c) }
#[verifier::external_body]
fn vf_push_str(s: &mut String, t: &str) ensures final(s)@ == old(s)@ + t@ { s.push_str(t) }
#[verifier::external_body]
fn vf_as_str(s: &String) -> (r: &str) ensures r@ == s@ { s }
// R6: `self.serialization.as_mut_str().get_mut(host_end..)` + `.map(|s| { s.make_ascii_lowercase(); &*s })`: ASCII letters of the
// tail are lower-cased in place - no character before the offset changes, no character changes its encoded length
#[verifier::external_body]
fn vf_lowercase_tail(s: &mut String, from: usize)
    ensures
        final(s)@.len() == old(s)@.len(),
        forall|k: int| 0 <= k <= old(s)@.len() ==> blen(#[trigger] final(s)@.take(k)) == blen(old(s)@.take(k)),
{ unimplemented!() }

#[verifier::external_body]
fn vf_is_ascii(s: &str) -> (r: bool) ensures r == ascii_text(s@) { s.is_ascii() }
// R6: `s[from..].make_ascii_lowercase()` where the text before `from` is `head` and the text after it is `tail`: ASCII letters of the
// tail are lower-cased in place
#[verifier::external_body]
fn vf_lowercase_from(s: &mut String, from: usize, head: Ghost<Seq<char>>, tail: Ghost<Seq<char>>)
    requires old(s)@ == head@ + tail@, from == blen(head@),
    ensures final(s)@ == head@ + ascii_lower(tail@),
{ unimplemented!() }
// T: idna::domain_to_ascii (errors become ParseError::IdnaError through `?`)
#[verifier::external_body]
fn vf_idna(s: &str) -> (r: ParseResult<String>)
    ensures match r { Ok(h) => idna_ascii(s@) == Some(h@), Err(_) => idna_ascii(s@) is None }
{ unimplemented!() }

//@EXTRACT src/url_parser/parser.rs :: struct Hostname
//@ PUB
//@ PUBFIELDS
//@END
//@EXTRACT src/url_parser/parser.rs :: struct Parser
//@END

// scheme characters (URL standard): ASCII letters, digits, '+', '-', '.'
pub open spec fn scheme_char(c: char) -> bool { ('a' <= c && c <= 'z') || ('A' <= c && c <= 'Z') || ('0' <= c && c <= '9') || c == '+' || c == '-' || c == '.' }
pub open spec fn scheme_chars(t: Seq<char>) -> bool { forall|i: int| 0 <= i < t.len() ==> scheme_char(#[trigger] t[i]) }
// n is where the first ':' stands; before it only scheme characters; `ser` is that text in lower case, `rest` what follows the ':'
pub open spec fn scheme_split(a: Seq<char>, n: int, ser: Seq<char>, rest: Seq<char>) -> bool {
    0 <= n < a.len() && a[n] == ':' && scheme_chars(a.take(n)) && ser =~= ascii_lower(a.take(n)) && rest =~= a.skip(n + 1)
}
#[verifier::external_body]
fn vf_lower(c: char) -> (r: char) ensures r == lower_char(c) { c.to_ascii_lowercase() }
#[verifier::external_body]
fn vf_clear(s: &mut String) ensures final(s)@.len() == 0 { s.clear() }

// the three offsets are byte lengths of character prefixes of the text, in order
pub open spec fn wf(h: Hostname) -> bool {
    text_offset(h.serialization@, h.scheme_end as int) && text_offset(h.serialization@, h.host_start as int) && text_offset(h.serialization@, h.host_end as int)
        && h.scheme_end <= h.host_start <= h.host_end
}
pub open spec fn sbytes(s: String) -> Seq<u8> { vstd::utf8::encode_utf8(s@) }
// the host text parse_host cuts out of `input` (up to the first terminator, tab / newline dropped: unit c12_userinfo, C12.host.*)
pub uninterp spec fn host_text(input: Seq<char>, special: bool) -> Seq<char>;
// "the host component of the normalised URL (IDN hosts in punycode)": hosts are case-insensitive, the normalised URL carries them
// in lower case; a non-ASCII host goes through the IDNA mapping (which lower-cases as well)
pub open spec fn ascii_text(t: Seq<char>) -> bool { forall|i: int| 0 <= i < t.len() ==> (#[trigger] t[i] as u32) < 128 }
pub open spec fn lower_char(c: char) -> char { if 'A' <= c && c <= 'Z' { ((c as u8) + 32) as char } else { c } }
pub open spec fn ascii_lower(t: Seq<char>) -> Seq<char> { t.map_values(|c: char| lower_char(c)) }
pub uninterp spec fn idna_ascii(t: Seq<char>) -> Option<Seq<char>>;   // idna::domain_to_ascii
pub open spec fn host_form(t: Seq<char>) -> Option<Seq<char>> { if ascii_text(t) { Some(ascii_lower(t)) } else { idna_ascii(t) } }
pub open spec fn host_written(input: Seq<char>, special: bool) -> Seq<char> { host_form(host_text(input, special))->Some_0 }
pub open spec fn special(t: SchemeType) -> bool { !(t is NotSpecial) }

proof fn lemma_offset_slices(t: Seq<char>, a: int, b: int)
    requires text_offset(t, a), text_offset(t, b), a <= b
    ensures 0 <= a <= b <= blen(t), vstd::utf8::is_char_boundary(vstd::utf8::encode_utf8(t), a), vstd::utf8::is_char_boundary(vstd::utf8::encode_utf8(t), b)
{
    let i = choose|k: int| 0 <= k <= t.len() && a == blen(#[trigger] t.take(k));
    let j = choose|k: int| 0 <= k <= t.len() && b == blen(#[trigger] t.take(k));
    lemma_prefix_len(t, i); lemma_prefix_len(t, j);
    vf_utf8::prefix_boundary(t, i); vf_utf8::prefix_boundary(t, j);
}

proof fn lemma_after_double_slash(s0: Seq<char>, s2: Seq<char>, hw: Seq<char>, rest: Seq<char>, scheme_end: int)
    requires text_offset(s0, scheme_end), is_prefix(s0, s2)
    ensures ({
        let s3 = s2 + hw; let s4 = s3 + rest;
        &&& text_offset(s4, scheme_end) && text_offset(s4, blen(s2)) && text_offset(s4, blen(s3))
        &&& scheme_end <= blen(s2) <= blen(s3)
        &&& vstd::utf8::encode_utf8(s4).subrange(blen(s2), blen(s3)) == vstd::utf8::encode_utf8(hw)
    })
{
    let s3 = s2 + hw; let s4 = s3 + rest;
    assert(s3.take(s2.len() as int) =~= s2);
    assert(s4.take(s3.len() as int) =~= s3);
    assert(s4.take(s2.len() as int) =~= s2);
    assert(s4.take(s0.len() as int) =~= s0) by { assert(s2.take(s0.len() as int) =~= s0); }
    lemma_offset_grows(s0, s4, scheme_end);
    lemma_len_is_offset(s2); lemma_offset_grows(s2, s4, blen(s2));
    lemma_len_is_offset(s3); lemma_offset_grows(s3, s4, blen(s3));
    // order
    let k = choose|k: int| 0 <= k <= s0.len() && scheme_end == blen(#[trigger] s0.take(k));
    lemma_prefix_len(s0, k);
    lemma_prefix_len(s2, s0.len() as int);
    assert(s2.take(s0.len() as int) =~= s0);
    vf_utf8::encode_concat(s2, hw);
    vf_utf8::encode_concat(s3, rest);
    assert(vstd::utf8::encode_utf8(s4).subrange(blen(s2), blen(s3)) =~= vstd::utf8::encode_utf8(hw));
}

// R3: the `RangeArg` implementation that Hostname::slice is called with (Range<usize>)
pub struct VfRange { pub start: usize, pub end: usize }
impl VfRange {
//@EXTRACT src/url_parser/parser.rs :: impl RangeArg for Range<usize> :: fn slice_of
//@ RET r
//@ SAFETY C12.offsets.slice_of.safety
//@ SPEC
        requires self.start <= self.end <= s.spec_bytes().len(), vstd::utf8::is_char_boundary(s.spec_bytes(), self.start as int), vstd::utf8::is_char_boundary(s.spec_bytes(), self.end as int),
        ensures r.spec_bytes() == s.spec_bytes().subrange(self.start as int, self.end as int),
//@ ENDSPEC
//@END
}

#[verifier::external_body]
fn vf_with_capacity(n: usize) -> (r: String) ensures r@.len() == 0 { String::with_capacity(n) }
impl Hostname {
//@EXTRACT src/url_parser/parser.rs :: impl Hostname :: fn parse
//@ RET r
//@ SAFETY C12.offsets.parse.safety
//@ SPEC
        ensures
            r is Ok ==> wf(r->Ok_0), // OBL C12.offsets.parse.wf
//@ ENDSPEC
//@ REPLACE R1
    Parser {
//@ UPTO
    .parse_url(input)
//@ WITH
    Parser::parse_url(Parser { serialization: vf_with_capacity(input.len()) }, input)
//@ ENDREPLACE
//@END

//@EXTRACT src/url_parser/parser.rs :: impl Hostname :: fn has_host
//@ RET r
//@ SAFETY C12.offsets.has_host.safety
//@ SPEC
        ensures r == (self.host_end > self.host_start),
//@ ENDSPEC
//@END

//@EXTRACT src/url_parser/parser.rs :: impl Hostname :: fn host_str
//@ RET r
//@ SAFETY C12.offsets.host_str.safety
//@ SPEC
        requires wf(*self),
        ensures
            r is Some <==> self.host_end > self.host_start,
            r is Some ==> r->Some_0.spec_bytes() == sbytes(self.serialization).subrange(self.host_start as int, self.host_end as int), // OBL C12.offsets.host_str.is_the_host_range
//@ ENDSPEC
//@ FNSTART
        proof { lemma_offset_slices(self.serialization@, self.host_start as int, self.host_end as int); }
//@ ENDFNSTART
//@ SUBST R3
    self.slice(self.host_start..self.host_end)
//@ WITH
    VfRange { start: self.host_start, end: self.host_end }.slice_of(vf_as_str(&self.serialization))
//@ ENDSUBST
//@END
}

impl Parser {
    // parse_userinfo / parse_host by contract: they only append to the buffer; parse_host reports the buffer length after writing
    // the host's normal form (unit c12_userinfo has their scanning loops under contract)
    #[verifier::external_body]
    fn parse_userinfo<'i>(&mut self, input: Input<'i>, scheme_type: SchemeType) -> (r: ParseResult<(u32, Input<'i>)>)
        ensures r is Ok ==> is_prefix(old(self).serialization@, final(self).serialization@)
    { unimplemented!() }

    // R7: the tail of parse_host - the host text is written in its normal form and the buffer length reported
    fn vf_write_host<'i>(&mut self, host_str: &str, remaining: Input<'i>) -> (r: ParseResult<(usize, Input<'i>)>)
        ensures
            r is Ok ==> host_form(host_str@) is Some && final(self).serialization@ == old(self).serialization@ + host_form(host_str@)->Some_0, // OBL C12.host.written_in_normal_form
            r is Ok ==> r->Ok_0.0 == blen(final(self).serialization@) && r->Ok_0.1.v@ == remaining.v@, // OBL C12.host.end_is_buffer_length
            r is Err ==> host_form(host_str@) is None,
    {
        let ghost s0 = self.serialization@;
//@EXTRACT src/url_parser/parser.rs :: impl Parser :: fn parse_host
//@ BODYONLY
//@ SAFETY C12.host.write.safety
//@ FROM
        if host_str.is_ascii() {
//@ ENDFROM
//@ TO
        Ok((host_end, remaining))
//@ ENDTO
//@ SUBST R6
    host_str.is_ascii()
//@ WITH
    vf_is_ascii(host_str)
//@ ENDSUBST
//@ SUBST R6*
    self.serialization.len()
//@ WITH
    vf_len(&self.serialization)
//@ ENDSUBST
//@ SUBST R6
    self.serialization.push_str(host_str);
//@ WITH
    vf_push_str(&mut self.serialization, host_str);
//@ ENDSUBST
//@ SUBST R6
    self.serialization[host_start..].make_ascii_lowercase();
//@ WITH
    vf_lowercase_from(&mut self.serialization, host_start, Ghost(s0), Ghost(host_str@));
//@ ENDSUBST
//@ SUBST R6
    idna::domain_to_ascii(host_str)?
//@ WITH
    vf_idna(host_str)?
//@ ENDSUBST
//@ SUBST R6
    write!(&mut self.serialization, "{}", encoded).unwrap();
//@ WITH
    vf_push_str(&mut self.serialization, encoded.as_str());
//@ ENDSUBST
//@END
    }
    #[verifier::external_body]
    pub fn parse_host<'i>(&mut self, input: Input<'i>, scheme_type: SchemeType) -> (r: ParseResult<(usize, Input<'i>)>)
        ensures r is Ok ==> final(self).serialization@ == old(self).serialization@ + host_written(input.v@, special(scheme_type)) && r->Ok_0.0 == blen(final(self).serialization@)
    { unimplemented!() }

//@EXTRACT src/url_parser/parser.rs :: impl Parser :: fn after_double_slash
//@ RET r
//@ SAFETY C12.offsets.after_double_slash.safety
//@ SPEC
        requires text_offset(vf_self.serialization@, scheme_end as int),
        ensures
            r is Ok ==> wf(r->Ok_0), // OBL C12.offsets.after_double_slash.wf
            // the text between the two host offsets is what parse_host wrote for some remaining input
            r is Ok ==> exists|host_input: Seq<char>| sbytes(r->Ok_0.serialization).subrange(r->Ok_0.host_start as int, r->Ok_0.host_end as int)
                == vstd::utf8::encode_utf8(#[trigger] host_written(host_input, special(scheme_type))), // OBL C12.offsets.after_double_slash.host_text
//@ ENDSPEC
//@ FNSTART
        let ghost s0 = vf_self.serialization@;
//@ ENDFNSTART
//@ AFTER
    let (_username_end, remaining) = self.parse_userinfo(input, scheme_type)?;
//@ AT
        let ghost hin = remaining.v@;
        let ghost s2 = vf_self.serialization@;
        proof { assert(is_prefix(s0, s0 + "//"@)) by { assert((s0 + "//"@).take(s0.len() as int) =~= s0); }
                assert(is_prefix(s0, s2)) by { assert(s2.take(s0.len() as int) =~= (s0 + "//"@).take(s0.len() as int)); } }
//@ ENDAFTER
//@ BEFORE
    Ok(Hostname {
//@ AT
        proof { lemma_after_double_slash(s0, s2, host_written(hin, special(scheme_type)), remaining.v@, scheme_end as int); }
//@ ENDBEFORE
//@ SUBST R1
    mut self,
//@ WITH
    mut vf_self: Self,
//@ ENDSUBST
//@ SUBST R6
    self.serialization.push_str("//");
//@ WITH
    vf_push_str(&mut vf_self.serialization, "//");
//@ ENDSUBST
//@ SUBST R6
    self.serialization.len()
//@ WITH
    vf_len(&vf_self.serialization)
//@ ENDSUBST
//@ SUBST R6
    self.serialization.push_str(remaining.chars.as_str());
//@ WITH
    vf_push_str(&mut vf_self.serialization, remaining.vf_rest());
//@ ENDSUBST
//@ SUBST R1
    self.parse_userinfo(
//@ WITH
    vf_self.parse_userinfo(
//@ ENDSUBST
//@ SUBST R1
    self.parse_host(
//@ WITH
    vf_self.parse_host(
//@ ENDSUBST
//@ SUBST R1
    serialization: self.serialization,
//@ WITH
    serialization: vf_self.serialization,
//@ ENDSUBST
//@END

//@EXTRACT src/url_parser/parser.rs :: impl Parser :: fn parse_non_special
//@ RET r
//@ SAFETY C12.offsets.parse_non_special.safety
//@ SPEC
        requires text_offset(vf_self.serialization@, scheme_end as int),
        ensures
            r is Ok ==> wf(r->Ok_0), // OBL C12.offsets.parse_non_special.wf
//@ ENDSPEC
//@ FNSTART
        let ghost s0 = vf_self.serialization@;
//@ ENDFNSTART
//@ SUBST R1
    mut self,
//@ WITH
    mut vf_self: Self,
//@ ENDSUBST
//@ SUBST R1
    return self.after_double_slash(input, scheme_type, scheme_end);
//@ WITH
    return Self::after_double_slash(vf_self, input, scheme_type, scheme_end);
//@ ENDSUBST
//@ SUBST R6
    self.serialization.len()
//@ WITH
    vf_len(&vf_self.serialization)
//@ ENDSUBST
//@ SUBST R6
    self.serialization.push_str(input.chars.as_str());
//@ WITH
    vf_push_str(&mut vf_self.serialization, input.vf_rest());
//@ ENDSUBST
//@ REPLACE R6
    let ser_remaining = self.serialization.as_mut_str().get_mut(host_end..);
//@ UPTO
        &*s
        });
//@ WITH
    let ghost s1 = vf_self.serialization@;
    vf_lowercase_tail(&mut vf_self.serialization, host_end);
    proof {
        let s2 = vf_self.serialization@;
        assert(s1.take(s0.len() as int) =~= s0);
        lemma_len_is_offset(s0);
        lemma_offset_grows(s0, s1, scheme_end as int);
        lemma_offset_grows(s0, s1, blen(s0));
        let k1 = choose|k: int| 0 <= k <= s1.len() && scheme_end as int == blen(#[trigger] s1.take(k));
        assert(blen(s2.take(k1)) == blen(s1.take(k1)));
        assert(blen(s2.take(s0.len() as int)) == blen(s1.take(s0.len() as int)));
        let k0 = choose|k: int| 0 <= k <= s0.len() && scheme_end as int == blen(#[trigger] s0.take(k));
        lemma_prefix_len(s0, k0);
    }
//@ ENDREPLACE
//@ SUBST R1
    serialization: self.serialization,
//@ WITH
    serialization: vf_self.serialization,
//@ ENDSUBST
//@END

//@EXTRACT src/url_parser/parser.rs :: impl Parser :: fn parse_with_scheme
//@ RET r
//@ SAFETY C12.offsets.parse_with_scheme.safety
//@ SPEC
        ensures
            r is Ok ==> wf(r->Ok_0), // OBL C12.offsets.parse_with_scheme.wf
//@ ENDSPEC
//@ SUBST R1
    mut self,
//@ WITH
    mut vf_self: Self,
//@ ENDSUBST
//@ SUBST R6
    self.serialization.len()
//@ WITH
    vf_len(&vf_self.serialization)
//@ ENDSUBST
//@ SUBST R6
    SchemeType::from(&self.serialization)
//@ WITH
    SchemeType::vf_from(&vf_self.serialization)
//@ ENDSUBST
//@ SUBST R6
    self.serialization.push(':');
//@ WITH
    let ghost s0 = vf_self.serialization@;
    vf_push(&mut vf_self.serialization, ':');
    proof { lemma_len_is_offset(s0); assert(s0.push(':').take(s0.len() as int) =~= s0); lemma_offset_grows(s0, s0.push(':'), scheme_end as int); }
//@ ENDSUBST
//@ SUBST R6
    input.count_matching(|c| matches!(c, '/' | '\\'))
//@ WITH
    input.vf_skip_slashes()
//@ ENDSUBST
//@ SUBST R1
    self.after_double_slash(remaining, scheme_type, scheme_end)
//@ WITH
    Self::after_double_slash(vf_self, remaining, scheme_type, scheme_end)
//@ ENDSUBST
//@ SUBST R1
    self.parse_non_special(input, scheme_type, scheme_end)
//@ WITH
    Self::parse_non_special(vf_self, input, scheme_type, scheme_end)
//@ ENDSUBST
//@END

//@EXTRACT src/url_parser/parser.rs :: impl Parser :: fn parse_scheme
//@ RET r
//@ SAFETY C12.scheme.safety
//@ ATTR #[verifier::exec_allows_no_decreases_clause]
//@ SPEC
        requires old(self).serialization@.len() == 0,
        ensures
            // the scheme of the normalised URL is the text before the first ':' in lower case ("only http, https, ws and wss ..." is
            // decided on this text)
            r is Ok ==> exists|n: int| #[trigger] scheme_split(input0.v@, n, final(self).serialization@, r->Ok_0.v@), // OBL C12.scheme.lower_cased
//@ ENDSPEC
//@ SUBST R1
    mut input: Input<'i>
//@ WITH
    input0: Input<'i>
//@ ENDSUBST
//@ FNSTART
        // R1: `fn f(mut input: T)` spelled as `fn f(input0: T) { let mut input = input0; .. }` (a move), so that the contract can name
        // the value the function was called with
        let mut input = input0;
        let ghost a = input0.v@;
        let ghost mut n: int = 0;
        proof { assert(a.skip(0) =~= a); assert(a.take(0) =~= Seq::<char>::empty()); assert(ascii_lower(a.take(0)) =~= Seq::<char>::empty()); }
//@ ENDFNSTART
//@ SUBST R6
    input.is_empty() || !input.starts_with(|c: char| c.is_ascii_alphabetic())
//@ WITH
    input.vf_is_empty() || !input.vf_starts_alpha()
//@ ENDSUBST
//@ SUBST R1
    debug_assert!(self.serialization.is_empty());
//@ WITH
//@ ENDSUBST
//@ LOOP 1
            invariant
                a == input0.v@, 0 <= n <= a.len(), input.v@ =~= a.skip(n), scheme_chars(a.take(n)), self.serialization@ =~= ascii_lower(a.take(n)), // OBL C12.scheme.lower_cased
//@ ENDLOOP
//@ LOOPSTART 1
            proof {
                assert(c == a[n]);
                assert(a.take(n + 1) =~= a.take(n).push(c));
                assert(ascii_lower(a.take(n + 1)) =~= ascii_lower(a.take(n)).push(lower_char(c)));
                assert(a.skip(n).skip(1) =~= a.skip(n + 1));
                if c == ':' { assert(scheme_split(a, n, self.serialization@, input.v@)); }
            }
//@ ENDLOOPSTART
//@ SUBST R6*
    self.serialization.push(c)
//@ WITH
    vf_push(&mut self.serialization, c)
//@ ENDSUBST
//@ SUBST R6
    self.serialization.push(c.to_ascii_lowercase())
//@ WITH
    vf_push(&mut self.serialization, vf_lower(c))
//@ ENDSUBST
//@ SUBST R6
    self.serialization.clear();
//@ WITH
    vf_clear(&mut self.serialization);
//@ ENDSUBST
//@ LOOPEND 1
            proof { n = n + 1; }
//@ ENDLOOPEND
//@END

//@EXTRACT src/url_parser/parser.rs :: impl Parser :: fn parse_url
//@ RET r
//@ SAFETY C12.offsets.parse_url.safety
//@ SPEC
        requires vf_self.serialization@.len() == 0,
        ensures
            r is Ok ==> wf(r->Ok_0), // OBL C12.offsets.parse_url.wf
//@ ENDSPEC
//@ SUBST R1
    mut self,
//@ WITH
    mut vf_self: Self,
//@ ENDSUBST
//@ SUBST R1
    self.parse_scheme(input.clone())
//@ WITH
    vf_self.parse_scheme(input.clone())
//@ ENDSUBST
//@ SUBST R1
    return self.parse_with_scheme(remaining);
//@ WITH
    return Self::parse_with_scheme(vf_self, remaining);
//@ ENDSUBST
//@END
}

// T (std): the ASCII character classes a rewrite of this predicate may reach for
pub assume_specification [ char::is_ascii_whitespace ](c: &char) -> (r: bool)
    ensures r == (*c == ' ' || *c == '\t' || *c == '\n' || *c == '\x0C' || *c == '\r');
pub assume_specification [ char::is_ascii_control ](c: &char) -> (r: bool)
    ensures r == ((*c as u32) < 0x20 || (*c as u32) == 0x7f);

// what Input::new trims from both ends of a URL text: "C0 control or space" (URL standard): U+0000 ..= U+0020
//@EXTRACT src/url_parser/parser.rs :: fn c0_control_or_space
//@ RET r
//@ SAFETY C12.trim.c0_control_or_space.safety
//@ SPEC
    ensures r == (ch as u32 <= 0x20), // OBL C12.trim.c0_control_or_space
//@ ENDSPEC
//@END

proof fn vf_canary() ensures false {}

} // verus!
fn main() {}
