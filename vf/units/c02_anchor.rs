// Unit c02_anchor — C02.1: hostname anchoring at label boundaries.
#![feature(pattern)]
use vstd::prelude::*;
use vstd::string::*;
use vstd::slice::*;
use core::str::pattern::Pattern;

verus! {

//@INCLUDE shims/strings.rs

broadcast use {pat_prefix_ascii_char, pat_suffix_ascii_char, ascii_boundary, str_len_fits, lemma_occurs_unshift};

// `||host` pins the match "to the request hostname or one of its subdomains at a label boundary":
// an occurrence of the rule's hostname text inside the request hostname whose two ends are label
// boundaries (start/end of the hostname, or a '.' on either side of the cut).  `wildcard` is the
// `||host*` form, whose right end is free.
pub open spec fn label_aligned(fh: Seq<u8>, h: Seq<u8>, wildcard: bool, i: int) -> bool {
    occurs_at(h, fh, i)
    && (i == 0 || fh[0] == 46u8 || h[i - 1] == 46u8)
    && (i + fh.len() == h.len() || wildcard || fh[fh.len() - 1] == 46u8 || h[i + fh.len()] == 46u8)
}

pub open spec fn anchored_spec(fh: Seq<u8>, h: Seq<u8>, wildcard: bool) -> bool {
    fh.len() == 0 || exists|i: int| label_aligned(fh, h, wildcard, i)
}

//@EXTRACT src/filters/network_matchers.rs :: fn is_anchored_by_hostname
//@ RET r
//@ SAFETY C02.anch.safety
//@ SPEC
    ensures
        r ==> anchored_spec(filter_hostname.spec_bytes(), hostname.spec_bytes(), wildcard_filter_hostname), // OBL C02.anch.sound
        anchored_spec(filter_hostname.spec_bytes(), hostname.spec_bytes(), wildcard_filter_hostname) ==> r, // OBL C02.anch.complete
//@ ENDSPEC
//@ BEFORE
    if filter_hostname_len > hostname_len
//@ AT
    proof {
        if filter_hostname.spec_bytes() == hostname.spec_bytes() { utf8_injective(filter_hostname, hostname); }
        // equal length: the only candidate offset is 0 and both ends are the hostname's ends
        if filter_hostname_len == hostname_len {
            assert(forall|i: int| label_aligned(filter_hostname.spec_bytes(), hostname.spec_bytes(), wildcard_filter_hostname, i) ==> i == 0);
            if filter_hostname.spec_bytes() =~= hostname.spec_bytes() {
                assert(hostname.spec_bytes().subrange(0, hostname_len as int) =~= hostname.spec_bytes());
                assert(label_aligned(filter_hostname.spec_bytes(), hostname.spec_bytes(), wildcard_filter_hostname, 0));
            } else {
                assert(hostname.spec_bytes().subrange(0, hostname_len as int) =~= hostname.spec_bytes());
            }
        }
    }
//@ ENDBEFORE
//@ LOOP 1
        invariant
            0 <= search_from <= hostname_len,
            hostname_len == hostname.spec_bytes().len(),
            filter_hostname_len == filter_hostname.spec_bytes().len(),
            0 < filter_hostname_len < hostname_len,
            forall|j: int| 0 <= j < search_from ==> !label_aligned(filter_hostname.spec_bytes(), hostname.spec_bytes(), wildcard_filter_hostname, j),
        ensures
            forall|j: int| !label_aligned(filter_hostname.spec_bytes(), hostname.spec_bytes(), wildcard_filter_hostname, j),
        decreases hostname_len - search_from,
//@ ENDLOOP
//@ BEFORE
    let match_end = match_index + filter_hostname_len;
//@ AT
            proof {
                assert(('.' as u32) < 128);
                let ghost hb = hostname.spec_bytes();
                let ghost fb = filter_hostname.spec_bytes();
                assert forall|j: int| occurs_at(hb.subrange(search_from as int, hb.len() as int), fb, j)
                    == (occurs_at(hb, fb, search_from + j) && j >= 0) by { lemma_occurs_shift(hb, fb, search_from as int, j); }
                assert(occurs_at(hb, fb, match_index as int));
                assert forall|j: int| search_from <= j < match_index implies !occurs_at(hb, fb, j) by {
                    lemma_occurs_shift(hb, fb, search_from as int, j - search_from);
                }
            }
//@ ENDBEFORE
//@ BEFORE#2
    return true;
//@ AT
                proof {
                    assert(label_aligned(filter_hostname.spec_bytes(), hostname.spec_bytes(), wildcard_filter_hostname, match_index as int));
                }
//@ ENDBEFORE
//@END

proof fn vf_canary() ensures false {}

} // verus!
fn main() {}
