// Unit c03_apply_options — C03: option AST -> mask / modifier / tag (the `for_each` over the parsed options in
// NetworkFilter::parse, R7 block lift).  R10 rewrites (mechanical, from the source on every run):
// `options.into_iter().for_each(|option| { BODY });`  ->  `for option in options { BODY }`  (BODY has no `return`),
// and the function-local `macro_rules! apply_content_type` is expanded at its call sites.
#![feature(allocator_api)]
use vstd::prelude::*;

verus! {

//@INCLUDE shims/mask_items.rs
//@INCLUDE shims/std_extra.rs

pub use utils::Hash;

//@EXTRACT src/filters/abstract_network.rs :: enum NetworkFilterOption
//@END

// T: seahash, slice sort / dedup, the union fold
pub uninterp spec fn hash_str(s: Seq<char>) -> Hash;
pub uninterp spec fn canon_domains(d: Seq<(bool, String)>) -> Seq<(bool, String)>;   // sort_unstable + dedup
pub uninterp spec fn sort_spec(v: Seq<Hash>) -> Seq<Hash>;
pub uninterp spec fn union_spec(hs: Seq<Hash>) -> Hash;

pub mod utils2 {}
#[verifier::external_body]
fn vf_fast_hash(s: &String) -> (r: Hash) ensures r == hash_str(s@) { unimplemented!() }
// T (ASCII case folding, idna crate): the normal form of a listed domain name - lower case, an IDN in punycode - which is the form the
// source hostname of a request has (C12); what the two branches compute is decided by vf/witness/c03_domain_names.rs on the real crate
pub uninterp spec fn domain_norm(s: Seq<char>) -> Seq<char>;
#[verifier::external_body]
fn vf_domain_norm(s: String) -> (r: String) ensures r@ == domain_norm(s@) { unimplemented!() }
#[verifier::external_body]
fn vf_sort_dedup(v: &mut Vec<(bool, String)>) ensures final(v)@ == canon_domains(old(v)@) { unimplemented!() }
#[verifier::external_body]
fn vf_sort(v: &mut Vec<Hash>) ensures final(v)@ == sort_spec(old(v)@) { unimplemented!() }
#[verifier::external_body]
fn vf_fold_or(v: &Vec<Hash>) -> (r: Hash) ensures r == union_spec(v@) { unimplemented!() }

// "~ entries exclude": the hashes of the entries with the given sign, in order; a listed name counts in its normal form (a domain name
// is case-insensitive, an IDN is the same name in Unicode and in punycode)
pub open spec fn part_hashes(ds: Seq<(bool, String)>, upto: int, enabled: bool) -> Seq<Hash>
    decreases upto
{
    if upto <= 0 { Seq::empty() }
    else if ds[upto - 1].0 == enabled { part_hashes(ds, upto - 1, enabled).push(hash_str(domain_norm(ds[upto - 1].1@))) }
    else { part_hashes(ds, upto - 1, enabled) }
}

pub struct St {
    pub mask: u32, pub pos: u32, pub neg: u32,
    pub opt_domains: Option<Seq<Hash>>, pub opt_not_domains: Option<Seq<Hash>>,
    pub opt_domains_union: Option<Hash>, pub opt_not_domains_union: Option<Hash>,
    pub modifier_option: Option<String>, pub tag: Option<String>,
}

pub open spec fn fb(f: NetworkFilterMask) -> u32 { f.bits }
pub open spec fn typed(st: St, enabled: bool, t: NetworkFilterMask) -> St {
    if enabled { St { pos: st.pos | fb(t), ..st } } else { St { neg: st.neg | fb(t), ..st } }
}

// what each option means (from the option semantics of the statement, not from the parser's text)
pub open spec fn apply_one(st: St, o: NetworkFilterOption) -> St {
    match o {
        NetworkFilterOption::Domain(ds) => {
            let c = canon_domains(ds@);
            let inc = part_hashes(c, c.len() as int, true);
            let exc = part_hashes(c, c.len() as int, false);
            let st1 = if inc.len() > 0 { St { opt_domains: Some(sort_spec(inc)), opt_domains_union: Some(union_spec(sort_spec(inc))), ..st } } else { st };
            if exc.len() > 0 { St { opt_not_domains: Some(sort_spec(exc)), opt_not_domains_union: Some(union_spec(sort_spec(exc))), ..st1 } } else { st1 }
        },
        NetworkFilterOption::Badfilter => St { mask: st.mask | fb(NetworkFilterMask::BAD_FILTER), ..st },
        NetworkFilterOption::Important => St { mask: st.mask | fb(NetworkFilterMask::IS_IMPORTANT), ..st },
        NetworkFilterOption::MatchCase => St { mask: st.mask | fb(NetworkFilterMask::MATCH_CASE), ..st },
        // third-party(only) / ~first-party: the rule no longer applies to first-party requests; and vice versa
        NetworkFilterOption::ThirdParty(e) => if e { St { mask: st.mask & !fb(NetworkFilterMask::FIRST_PARTY), ..st } } else { St { mask: st.mask & !fb(NetworkFilterMask::THIRD_PARTY), ..st } },
        NetworkFilterOption::FirstParty(e) => if e { St { mask: st.mask & !fb(NetworkFilterMask::THIRD_PARTY), ..st } } else { St { mask: st.mask & !fb(NetworkFilterMask::FIRST_PARTY), ..st } },
        NetworkFilterOption::Tag(v) => St { tag: Some(v), ..st },
        // redirect also blocks; redirect-rule only redirects
        NetworkFilterOption::Redirect(v) => St { mask: (st.mask | fb(NetworkFilterMask::IS_REDIRECT)) | fb(NetworkFilterMask::ALSO_BLOCK_REDIRECT), modifier_option: Some(v), ..st },
        NetworkFilterOption::RedirectRule(v) => St { mask: st.mask | fb(NetworkFilterMask::IS_REDIRECT), modifier_option: Some(v), ..st },
        NetworkFilterOption::Removeparam(v) => St { mask: st.mask | fb(NetworkFilterMask::IS_REMOVEPARAM), modifier_option: Some(v), ..st },
        // csp rules always apply to documents (and sub-documents through the implicit-all rule)
        NetworkFilterOption::Csp(v) => St { mask: (st.mask | fb(NetworkFilterMask::IS_CSP)) | fb(NetworkFilterMask::FROM_DOCUMENT), modifier_option: v, ..st },
        NetworkFilterOption::Generichide => St { mask: st.mask | fb(NetworkFilterMask::GENERIC_HIDE), ..st },
        NetworkFilterOption::Document => St { pos: st.pos | fb(NetworkFilterMask::FROM_DOCUMENT), ..st },
        NetworkFilterOption::Image(e) => typed(st, e, NetworkFilterMask::FROM_IMAGE),
        NetworkFilterOption::Media(e) => typed(st, e, NetworkFilterMask::FROM_MEDIA),
        NetworkFilterOption::Object(e) => typed(st, e, NetworkFilterMask::FROM_OBJECT),
        NetworkFilterOption::Other(e) => typed(st, e, NetworkFilterMask::FROM_OTHER),
        NetworkFilterOption::Ping(e) => typed(st, e, NetworkFilterMask::FROM_PING),
        NetworkFilterOption::Script(e) => typed(st, e, NetworkFilterMask::FROM_SCRIPT),
        NetworkFilterOption::Stylesheet(e) => typed(st, e, NetworkFilterMask::FROM_STYLESHEET),
        NetworkFilterOption::Subdocument(e) => typed(st, e, NetworkFilterMask::FROM_SUBDOCUMENT),
        NetworkFilterOption::XmlHttpRequest(e) => typed(st, e, NetworkFilterMask::FROM_XMLHTTPREQUEST),
        NetworkFilterOption::Websocket(e) => typed(st, e, NetworkFilterMask::FROM_WEBSOCKET),
        NetworkFilterOption::Font(e) => typed(st, e, NetworkFilterMask::FROM_FONT),
    }
}

pub open spec fn apply_upto(st0: St, os: Seq<NetworkFilterOption>, n: int) -> St
    decreases n
{
    if n <= 0 { st0 } else { apply_one(apply_upto(st0, os, n - 1), os[n - 1]) }
}

pub open spec fn opt_view(o: Option<Vec<Hash>>) -> Option<Seq<Hash>> { match o { Some(v) => Some(v@), None => None } }

pub struct Applied {
    pub mask: NetworkFilterMask, pub pos: NetworkFilterMask, pub neg: NetworkFilterMask,
    pub opt_domains: Option<Vec<Hash>>, pub opt_not_domains: Option<Vec<Hash>>,
    pub opt_domains_union: Option<Hash>, pub opt_not_domains_union: Option<Hash>,
    pub modifier_option: Option<String>, pub tag: Option<String>,
}

pub open spec fn st_of(a: Applied) -> St {
    St { mask: a.mask.bits, pos: a.pos.bits, neg: a.neg.bits, opt_domains: opt_view(a.opt_domains), opt_not_domains: opt_view(a.opt_not_domains),
         opt_domains_union: a.opt_domains_union, opt_not_domains_union: a.opt_not_domains_union, modifier_option: a.modifier_option, tag: a.tag }
}

fn vf_apply_options(options: Vec<NetworkFilterOption>, init: Applied) -> (r: Applied)
    ensures st_of(r) == apply_upto(st_of(init), options@, options@.len() as int), // OBL C03.apply_options.fold
{
    let mut mask = init.mask;
    let mut cpt_mask_positive = init.pos;
    let mut cpt_mask_negative = init.neg;
    let mut opt_domains = init.opt_domains;
    let mut opt_not_domains = init.opt_not_domains;
    let mut opt_domains_union = init.opt_domains_union;
    let mut opt_not_domains_union = init.opt_not_domains_union;
    let mut modifier_option = init.modifier_option;
    let mut tag = init.tag;
    let ghost os = options@;
    let ghost st0 = st_of(init);
//@EXTRACT src/filters/network.rs :: impl NetworkFilter :: fn parse
//@ SAFETY C03.apply_options.safety
//@ FROM
            macro_rules! apply_content_type {
//@ ENDFROM
//@ TO
                    NetworkFilterOption::Font(enabled) => apply_content_type!(FROM_FONT, enabled),
                }
            });
//@ ENDTO
//@ EXPANDMACRO apply_content_type
//@ SUBST R6
    options.into_iter().for_each(|option| {
//@ WITH
    for option in it: options
                invariant
                    it.seq() == os,
                    apply_upto(st0, os, it.index() as int) == (St { mask: mask.bits, pos: cpt_mask_positive.bits, neg: cpt_mask_negative.bits,
                        opt_domains: opt_view(opt_domains), opt_not_domains: opt_view(opt_not_domains), opt_domains_union: opt_domains_union,
                        opt_not_domains_union: opt_not_domains_union, modifier_option: modifier_option, tag: tag }), // OBL C03.apply_options.fold
    {
//@ ENDSUBST
//@ REPLACE R6
                    NetworkFilterOption::Font(enabled) => apply_content_type!(FROM_FONT, enabled),
                }
//@ UPTO
            });
//@ WITH
                    NetworkFilterOption::Font(enabled) => { if enabled { cpt_mask_positive.set(NetworkFilterMask::FROM_FONT, true); } else { cpt_mask_negative.set(NetworkFilterMask::FROM_FONT, true); } },
                }
            }
//@ ENDREPLACE
//@ REPLACE R6
                        domains.sort_unstable();
//@ UPTO
                        domains.dedup();
//@ WITH
                        vf_sort_dedup(&mut domains);
//@ ENDREPLACE
//@ REPLACE R6
                            let domain = if domain.is_ascii() {
//@ UPTO
                            };
//@ WITH
                            let domain = vf_domain_norm(domain);
//@ ENDREPLACE
//@ SUBST R6
    utils::fast_hash(&domain)
//@ WITH
    vf_fast_hash(&domain)
//@ ENDSUBST
//@ SUBST R6
    opt_domains_array.sort_unstable();
//@ WITH
    vf_sort(&mut opt_domains_array);
//@ ENDSUBST
//@ SUBST R6
    opt_not_domains_array.sort_unstable();
//@ WITH
    vf_sort(&mut opt_not_domains_array);
//@ ENDSUBST
//@ SUBST R6
    opt_domains_array.iter().fold(0, |acc, x| acc | x)
//@ WITH
    vf_fold_or(&opt_domains_array)
//@ ENDSUBST
//@ SUBST R6
    opt_not_domains_array.iter().fold(0, |acc, x| acc | x)
//@ WITH
    vf_fold_or(&opt_not_domains_array)
//@ ENDSUBST
//@ SUBST R8
    for (enabled, domain) in
//@ WITH
    for (enabled, domain) in it2:
//@ ENDSUBST
//@ LOOP 1
                            invariant
                                it2.seq() == domains@,
                                opt_domains_array@ == part_hashes(domains@, it2.index() as int, true),
                                opt_not_domains_array@ == part_hashes(domains@, it2.index() as int, false),
//@ ENDLOOP
//@END
    Applied { mask, pos: cpt_mask_positive, neg: cpt_mask_negative, opt_domains, opt_not_domains, opt_domains_union, opt_not_domains_union, modifier_option, tag }
}

// ---- validate_options: "csp rules ... reject explicit types"; only one modifier option per rule --------------
//@EXTRACT src/filters/network.rs :: enum NetworkFilterError
//@ SUBST R6
    RegexParsingError(regex::Error),
//@ WITH
    RegexParsingError(u8),
//@ ENDSUBST
//@END

pub open spec fn is_ct(o: NetworkFilterOption) -> bool {
    o is Document || o is Image || o is Media || o is Object || o is Other || o is Ping || o is Script || o is Stylesheet
        || o is Subdocument || o is XmlHttpRequest || o is Websocket || o is Font
}
pub open spec fn is_modifier(o: NetworkFilterOption) -> bool { o is Csp || o is Redirect || o is RedirectRule || o is Removeparam }
pub open spec fn count_mod(os: Seq<NetworkFilterOption>, n: int) -> int
    decreases n
{ if n <= 0 { 0 } else { count_mod(os, n - 1) + (if is_modifier(os[n - 1]) { 1int } else { 0int }) } }

impl NetworkFilterOption {
//@EXTRACT src/filters/abstract_network.rs :: impl NetworkFilterOption :: fn is_content_type
//@ RET r
//@ SAFETY C03.option.is_content_type.safety
//@ SPEC
        ensures r == is_ct(*self), // OBL C03.option.is_content_type
//@ ENDSPEC
//@END
//@EXTRACT src/filters/abstract_network.rs :: impl NetworkFilterOption :: fn is_redirection
//@ RET r
//@ SAFETY C03.option.is_redirection.safety
//@ SPEC
        ensures r == (self is Redirect || self is RedirectRule), // OBL C03.option.is_redirection
//@ ENDSPEC
//@END
}

//@EXTRACT src/filters/network.rs :: fn validate_options
//@ RET r
//@ SAFETY C15.validate.safety
//@ SPEC
    requires options@.len() < 1000000,
    ensures
        // a csp rule may not carry explicit request types
        (exists|i: int| 0 <= i < options@.len() && #[trigger] options@[i] is Csp) && (exists|j: int| 0 <= j < options@.len() && is_ct(#[trigger] options@[j]))
            ==> r is Err, // OBL C15.validate.csp_rejects_types
        // at most one of csp / redirect / redirect-rule / removeparam
        count_mod(options@, options@.len() as int) > 1 ==> r is Err, // OBL C03.validate.one_modifier
        r is Err ==> ((exists|i: int| 0 <= i < options@.len() && #[trigger] options@[i] is Csp) && (exists|j: int| 0 <= j < options@.len() && is_ct(#[trigger] options@[j])))
            || count_mod(options@, options@.len() as int) > 1, // OBL C03.validate.err_only_then
//@ ENDSPEC
//@ SUBST R8
    for option in
//@ WITH
    for option in it:
//@ ENDSUBST
//@ LOOP 1
        invariant
            it.seq().len() == options@.len(), options@.len() < 1000000,
            forall|i: int| 0 <= i < options@.len() ==> *#[trigger] it.seq()[i] == options@[i],
            has_csp == (exists|i: int| 0 <= i < it.index() && #[trigger] options@[i] is Csp),
            has_content_type ==> (exists|j: int| 0 <= j < it.index() && is_ct(#[trigger] options@[j])),
            (exists|j: int| 0 <= j < it.index() && is_ct(#[trigger] options@[j]) && !(options@[j] is Csp)) ==> has_content_type,
            modifier_options == count_mod(options@, it.index() as int), modifier_options <= it.index(),
//@ ENDLOOP
//@ SUBST R8
    let mut modifier_options = 0;
//@ WITH
    let mut modifier_options: u32 = 0;
//@ ENDSUBST
//@END

proof fn vf_canary() ensures false {}

} // verus!
fn main() {}
