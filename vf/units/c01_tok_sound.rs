// Unit c01_tok_sound — C01, lemma 4 of the design ("pinned pattern token => whole URL token"), over the vocabulary that the
// tokenizer unit proves (shims/token_spec.rs): if a literal text p occurs in a URL u, every token that `get_tokens` may take from p
// under the anchor-derived skip rules is a token of u - so the bucket the rule was filed under is among the buckets probed for every
// request the rule matches.  A pure proof over the contracts (no code of /repo is extracted here): it closes the gap between
// `C01.get_tokens.sound` ("every token of a rule is of a probed kind") and `C01.check_all` ("exactly the matching rules of the
// probed buckets are returned") for patterns matched as literal text.
#![feature(pattern)]
#![feature(allocator_api)]
use vstd::prelude::*;
use vstd::string::*;
use vstd::slice::*;
use core::str::pattern::Pattern;

verus! {

pub type Hash = u64;
//@INCLUDE shims/strings.rs
//@INCLUDE shims/token_spec.rs

// T (UTF-8 decoding is local): where the bytes of p occur in u at a character boundary, the characters of u over that stretch are
// the characters of p, at byte offsets shifted by i; the stretch starts at some character index k of u and is followed by the rest
pub open spec fn chars_at(u: Seq<u8>, p: Seq<u8>, i: int, k: int) -> bool {
    let cu = ci_of(u); let cp = ci_of(p);
    0 <= k && k + cp.len() <= cu.len()
    && off(cu, u.len() as int, k) == i && off(cu, u.len() as int, k + cp.len()) == i + p.len()
    && (forall|j: int| 0 <= j < cp.len() ==> (#[trigger] cu[k + j]).1 == cp[j].1 && cu[k + j].0 == cp[j].0 + i)
}
pub mod vf_tok {
    use vstd::prelude::*;
    use super::*;
    verus!{
    pub axiom fn occurrence_chars(u: Seq<u8>, p: Seq<u8>, i: int)
        requires occurs_at(u, p, i), vstd::utf8::is_char_boundary(u, i), p.len() > 0,
            ci_wf(ci_of(u), u), ci_wf(ci_of(p), p),
        ensures exists|k: int| chars_at(u, p, i, k);
    }
}

// the run [a, b) of p's characters, seen in u at character index k
pub proof fn lemma_run_transfers(u: Seq<u8>, p: Seq<u8>, i: int, k: int, a: int, b: int, left_open: bool, right_open: bool)
    requires
        chars_at(u, p, i, k), is_run(ci_of(p), a, b), ci_wf(ci_of(u), u), ci_wf(ci_of(p), p), occurs_at(u, p, i),
        // a run that touches the start (end) of p is only whole in u if p is pinned there: p starts at the start of u (ends at its end)
        a == 0 ==> !left_open && i == 0,
        b == ci_of(p).len() ==> !right_open && i + p.len() == u.len(),
    ensures
        is_run(ci_of(u), k + a, k + b),
        tok_hash(u, ci_of(u), k + a, k + b) == tok_hash(p, ci_of(p), a, b),
        off(ci_of(u), u.len() as int, k + b) - off(ci_of(u), u.len() as int, k + a) == off(ci_of(p), p.len() as int, b) - off(ci_of(p), p.len() as int, a),
{
    let cu = ci_of(u); let cp = ci_of(p);
    assert forall|x: int| k + a <= x < k + b implies allowed(cu, x) by { assert(cu[k + (x - k)].1 == cp[x - k].1); assert(allowed(cp, x - k)); }
    if a > 0 { assert(cu[k + (a - 1)].1 == cp[a - 1].1); assert(!allowed(cp, a - 1)); }
    else {
        // i == 0: the stretch starts at the first character of u
        if k > 0 { assert(cu[0].0 == 0); assert(cu[0].0 < cu[k].0); }
    }
    if b < cp.len() { assert(cu[k + b].1 == cp[b].1); assert(!allowed(cp, b)); }
    else {
        // the stretch ends where u ends
        if k + b < cu.len() { assert(cu[k + b].0 < u.len()); }
    }
    // offsets
    let ou_a = off(cu, u.len() as int, k + a); let ou_b = off(cu, u.len() as int, k + b);
    let op_a = off(cp, p.len() as int, a); let op_b = off(cp, p.len() as int, b);
    assert(ou_a == op_a + i) by { if a < cp.len() { assert(cu[k + a].0 == cp[a].0 + i); } }
    assert(ou_b == op_b + i) by { if b < cp.len() { assert(cu[k + b].0 == cp[b].0 + i); } }
    assert(0 <= op_a <= op_b <= p.len()) by {
        if a < cp.len() { assert(cp[a].0 < p.len()); }
        if b < cp.len() { assert(cp[b].0 < p.len()); if a < b { assert(cp[a].0 < cp[b].0); } }
    }
    assert(u.subrange(ou_a, ou_b) =~= p.subrange(op_a, op_b)) by {
        assert(u.subrange(i, i + p.len()) =~= p);
        let us = u.subrange(ou_a, ou_b); let ps = p.subrange(op_a, op_b);
        assert forall|x: int| 0 <= x < ou_b - ou_a implies #[trigger] us[x] == ps[x] by { assert(u.subrange(i, i + p.len())[op_a + x] == u[i + op_a + x]); }
    }
}

// Lemma 4: a token of the literal text p (under the skip rules of its anchors, '*' as wildcard) is a token of every URL that
// contains p - at its start when p is pinned left, at its end when pinned right
pub proof fn lemma_tok_sound(h: Hash, u: Seq<u8>, p: Seq<u8>, i: int, pinned_left: bool, pinned_right: bool)
    requires
        tok_in(h, p, !pinned_left, !pinned_right, true),
        occurs_at(u, p, i), vstd::utf8::is_char_boundary(u, i), ci_wf(ci_of(u), u), ci_wf(ci_of(p), p),
        pinned_left ==> i == 0,
        pinned_right ==> i + p.len() == u.len(),
    ensures
        tok_in(h, u, false, false, false), // OBL C01.tok_sound.literal
{
    let cp = ci_of(p);
    let (a, b) = choose|a: int, b: int| emit_ok(cp, p.len() as int, a, b, !pinned_left, !pinned_right, true) && h == tok_hash(p, cp, a, b);
    assert(p.len() > 0) by { assert(cp.len() > 0); }
    vf_tok::occurrence_chars(u, p, i);
    let k = choose|k: int| chars_at(u, p, i, k);
    lemma_run_transfers(u, p, i, k, a, b, !pinned_left, !pinned_right);
    assert(emit_ok(ci_of(u), u.len() as int, k + a, k + b, false, false, false));
}

proof fn vf_canary() ensures false {}

} // verus!
fn main() {}
