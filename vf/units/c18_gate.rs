// Unit c18_gate — C18.2 / C13.2: permission gate on scriptlets and their dependencies; redirects refuse
// permissioned or non-redirectable resources.
#![feature(pattern)]
#![feature(allocator_api)]
use vstd::prelude::*;
use vstd::string::*;
use vstd::slice::*;
use core::str::pattern::Pattern;
use std::collections::HashMap;

macro_rules! vf_format {
    ($f:expr, $a:expr $(,)?) => { vf_format1($f, &$a) };
    ($f:expr, $a:expr, $b:expr $(,)?) => { vf_format2($f, &$a, &$b) };
    ($f:expr, $a:expr, $b:expr, $c:expr $(,)?) => { vf_format3($f, &$a, &$b, &$c) };
    ($f:expr, $a:expr, $b:expr, $c:expr, $d:expr $(,)?) => { vf_format4($f, &$a, &$b, &$c, &$d) };
}

verus! {

pub mod vf_axioms {
    use vstd::prelude::*;
    verus!{
    pub broadcast axiom fn string_key_model()
        ensures #[trigger] vstd::std_specs::hash::obeys_key_model::<String>();
    }
}
broadcast use {vf_axioms::string_key_model, vstd::std_specs::hash::group_hash_axioms};

//@INCLUDE shims/strings.rs
//@INCLUDE shims/std_extra.rs
//@INCLUDE shims/format.rs
//@INCLUDE shims/iter.rs

//@EXTRACT src/resources/mod.rs :: struct PermissionMask
//@ ATTR #[derive(Clone, Copy)]
//@ PUBFIELDS
//@END

// "granted all of those bits": every bit the resource requires is among the bits the list was granted
pub open spec fn perm_subset(required: PermissionMask, granted: PermissionMask) -> bool { required.0 & !granted.0 == 0 }

impl PermissionMask {
//@EXTRACT src/resources/mod.rs :: impl PermissionMask :: fn is_injectable_by
//@ RET r
//@ SAFETY C18.perm.is_injectable_by.safety
//@ SPEC
        ensures r == perm_subset(*self, filter_mask), // OBL C18.perm.is_injectable_by
//@ ENDSPEC
//@ FNSTART
        proof { let a = self.0; let b = filter_mask.0; assert((!b & a == 0) == (a & !b == 0)) by (bit_vector); }
//@ ENDFNSTART
//@END

//@EXTRACT src/resources/mod.rs :: impl PermissionMask :: fn is_default
//@ RET r
//@ PUB
//@ SAFETY C18.perm.is_default.safety
//@ SPEC
        ensures r == (self.0 == 0), // OBL C18.perm.is_default
//@ ENDSPEC
//@END
}

//@EXTRACT src/resources/mod.rs :: enum MimeType
//@END
//@EXTRACT src/resources/mod.rs :: enum ResourceType
//@END
//@EXTRACT src/resources/mod.rs :: struct Resource
//@END

// "of a redirectable kind": everything but scriptlet templates and function-style javascript
pub open spec fn redirectable(k: ResourceType) -> bool { !(k is Template) && !(k is Mime && k->Mime_0 is FnJavascript) }
pub open spec fn injectable_kind(k: ResourceType) -> bool { k is Template || (k is Mime && k->Mime_0 is ApplicationJavascript) }

impl ResourceType {
//@EXTRACT src/resources/mod.rs :: impl ResourceType :: fn supports_redirect
//@ RET r
//@ SAFETY C13.kind.supports_redirect.safety
//@ SPEC
        ensures r == redirectable(*self), // OBL C13.kind.supports_redirect
//@ ENDSPEC
//@END
//@EXTRACT src/resources/mod.rs :: impl ResourceType :: fn supports_scriptlet_injection
//@ RET r
//@ SAFETY C18.kind.supports_scriptlet_injection.safety
//@ SPEC
        ensures r == injectable_kind(*self), // OBL C18.kind.supports_scriptlet_injection
//@ ENDSPEC
//@END
}

//@EXTRACT src/resources/resource_storage.rs :: struct ResourceStorage
//@ PUBFIELDS
//@END

//@EXTRACT src/resources/resource_storage.rs :: enum ScriptletResourceError
//@END

// name / alias lookup (HashMap<String, _> probed with &str) — T here: uninterpreted result
pub uninterp spec fn internal_spec(st: ResourceStorage, ident: Seq<char>) -> Option<Resource>;

// T: argument-list parsing and rendering (bounded harnesses c18_args / c18_stringify cover them)
pub uninterp spec fn parse_args_spec(s: Seq<char>) -> Option<Vec<String>>;
pub uninterp spec fn js_ext_spec(s: Seq<char>) -> Seq<char>;

#[verifier::external_body]
fn parse_scriptlet_args(args: &str) -> (r: Option<Vec<String>>) ensures r == parse_args_spec(args@) { unimplemented!() }
#[verifier::external_body]
fn with_js_extension(scriptlet_name: &str) -> (r: String) ensures r@ == js_ext_spec(scriptlet_name@) { unimplemented!() }
#[verifier::external_body]
fn extract_function_name(fn_def: &str) -> (r: Option<&str>) { unimplemented!() }
#[verifier::external_body]
fn vf_decode_template(content: &String) -> (r: Result<String, ScriptletResourceError>) { unimplemented!() }
#[verifier::external_body]
fn vf_render_call(function_name: &str, args: &[String]) -> (r: String) { unimplemented!() }
#[verifier::external_body]
fn vf_render_template(template: String, args: &[String]) -> (r: String) { unimplemented!() }

impl ResourceStorage {
    #[verifier::external_body]
    fn get_internal_resource(&self, resource_ident: &str) -> (r: Option<&Resource>)
        ensures (r is Some) == (internal_spec(*self, resource_ident@) is Some), r is Some ==> *r->Some_0 == internal_spec(*self, resource_ident@)->Some_0
    { unimplemented!() }

//@EXTRACT src/resources/resource_storage.rs :: impl ResourceStorage :: fn get_permissioned_resource
//@ RET r
//@ SAFETY C18.gate.permissioned.safety
//@ SPEC
    ensures
        // a resource is handed out only if the requesting list was granted every bit it requires
        r is Ok ==> internal_spec(*self, scriptlet_name@) == Some(*r->Ok_0) && perm_subset(r->Ok_0.permission, filter_permission), // OBL C18.gate.permissioned
        r is Err ==> internal_spec(*self, scriptlet_name@) is None || !perm_subset(internal_spec(*self, scriptlet_name@)->Some_0.permission, filter_permission), // OBL C18.gate.err_only_if_missing_or_denied
//@ ENDSPEC
//@END

//@EXTRACT src/resources/resource_storage.rs :: impl ResourceStorage :: fn get_redirect_resource
//@ RET r
//@ SAFETY C13.redirect_resource.safety
//@ SPEC
    ensures
        // "provided the resource is loaded, is of a redirectable kind and requires no permission"
        r is Some ==> internal_spec(*self, resource_ident@) is Some && ({
            let res = internal_spec(*self, resource_ident@)->Some_0;
            res.permission.0 == 0 && redirectable(res.kind) && res.kind is Mime
        }), // OBL C13.redirect_resource.gate
        r is None ==> internal_spec(*self, resource_ident@) is None || ({
            let res = internal_spec(*self, resource_ident@)->Some_0;
            res.permission.0 != 0 || !redirectable(res.kind) || !(res.kind is Mime)
        }), // OBL C13.redirect_resource.none_only_if_refused
//@ ENDSPEC
//@ SUBST R8
    |resource| {
//@ WITH
    |resource: &Resource| -> (o: Option<String>)
            ensures o is Some <==> (resource.permission.0 == 0 && redirectable(resource.kind) && resource.kind is Mime) // OBL C13.redirect_resource.gate
    {
//@ ENDSUBST
//@ SUBST R6
    format!
//@ WITH
    vf_format!
//@ ENDSUBST
//@END


    // ---- the dependency closure of one injection ----------------------------------------------------------------------------
}
// the store resolves every resource it hands out under that resource's own name too (unit c13_store: C13.store.lookup.loaded)
pub open spec fn store_names_wf(st: ResourceStorage) -> bool {
    forall|d: Seq<char>| (#[trigger] internal_spec(st, d)) is Some ==> internal_spec(st, internal_spec(st, d)->Some_0.name@) == internal_spec(st, d)
}
// every entry of a dependency list is the store's resource of that name
pub open spec fn from_store(l: Seq<&Resource>, st: ResourceStorage) -> bool {
    forall|j: int| 0 <= j < l.len() ==> internal_spec(st, (#[trigger] l[j]).name@) == Some(*l[j])
}
// the resource the store resolves `d` to is in the list
pub open spec fn has_res(l: Seq<&Resource>, st: ResourceStorage, d: Seq<char>) -> bool {
    exists|j: int| 0 <= j < l.len() && internal_spec(st, d) == Some(*#[trigger] l[j])
}
// every dependency named by entry i is resolved and in the list
pub open spec fn deps_listed(l: Seq<&Resource>, st: ResourceStorage, i: int) -> bool {
    forall|k: int| 0 <= k < l[i].dependencies@.len() ==> has_res(l, st, (#[trigger] l[i].dependencies@[k])@)
}
// a dependency-closed list of resources, every member granted to the requesting list
pub open spec fn closure_ok(own: Seq<&Resource>, st: ResourceStorage, granted: PermissionMask) -> bool {
    (forall|i: int| 0 <= i < own.len() ==> perm_subset((#[trigger] own[i]).permission, granted))
    && (forall|i: int| 0 <= i < own.len() ==> deps_listed(own, st, i))
}
// what an emitted scriptlet `res` comes with: a dependency-closed, fully granted list that resolves every dependency it names, each
// member of which is in the page's list `fin`
pub open spec fn closure_witness(own: Seq<&Resource>, st: ResourceStorage, granted: PermissionMask, res: Resource, fin: Seq<&Resource>) -> bool {
    closure_ok(own, st, granted)
    && (forall|k: int| 0 <= k < res.dependencies@.len() ==> has_res(own, st, (#[trigger] res.dependencies@[k])@))
    && (forall|i: int| 0 <= i < own.len() ==> exists|j: int| 0 <= j < fin.len() && (#[trigger] fin[j]).name@ == (#[trigger] own[i]).name@)
}
// a list that only grew keeps what was resolved in it
pub proof fn lemma_grow_keeps(a: Seq<&Resource>, b: Seq<&Resource>, st: ResourceStorage)
    requires b.len() >= a.len(), b.subrange(0, a.len() as int) =~= a
    ensures
        forall|d: Seq<char>| has_res(a, st, d) ==> #[trigger] has_res(b, st, d),
        forall|i: int| 0 <= i < a.len() && deps_listed(a, st, i) ==> #[trigger] deps_listed(b, st, i),
{
    assert forall|d: Seq<char>| has_res(a, st, d) implies #[trigger] has_res(b, st, d) by {
        let j = choose|j: int| 0 <= j < a.len() && internal_spec(st, d) == Some(*#[trigger] a[j]);
        assert(b.subrange(0, a.len() as int)[j] == a[j]);
    }
    assert forall|i: int| 0 <= i < a.len() && deps_listed(a, st, i) implies #[trigger] deps_listed(b, st, i) by {
        assert(b.subrange(0, a.len() as int)[i] == a[i]);
        assert forall|k: int| 0 <= k < b[i].dependencies@.len() implies has_res(b, st, (#[trigger] b[i].dependencies@[k])@) by {
            assert(has_res(a, st, a[i].dependencies@[k]@));
        }
    }
}
impl ResourceStorage {
    // R6: `deps.iter().find(|dep| dep.name == name).is_some()` — is a resource of that name already listed
    #[verifier::external_body]
    fn vf_has_dep(deps: &Vec<&Resource>, name: &str) -> (r: bool)
        ensures r == exists|i: int| 0 <= i < deps@.len() && (#[trigger] deps@[i]).name@ == name@
    { deps.iter().find(|dep| dep.name == name).is_some() }

//@EXTRACT src/resources/resource_storage.rs :: impl ResourceStorage :: fn recursive_dependencies
//@ ATTR #[verifier::exec_allows_no_decreases_clause]
//@ RET r
//@ SAFETY C18.deps.safety
//@ SPEC
    ensures
        // what was listed stays listed, and every resource this call lists was granted (Ok or Err)
        final(prev_deps)@.len() >= old(prev_deps)@.len() && final(prev_deps)@.subrange(0, old(prev_deps)@.len() as int) =~= old(prev_deps)@, // OBL C18.deps.frame
        forall|i: int| old(prev_deps)@.len() <= i < final(prev_deps)@.len() ==> perm_subset((#[trigger] final(prev_deps)@[i]).permission, filter_permission), // OBL C18.deps.all_granted
        // on success the named resource is in the list, and every entry THIS call added has all its own dependencies in the list
        // (entries that were there before are not re-examined: that is the early exit)
        store_names_wf(*self) && from_store(old(prev_deps)@, *self) ==> from_store(final(prev_deps)@, *self), // OBL C18.deps.from_store
        r is Ok && store_names_wf(*self) && from_store(old(prev_deps)@, *self) ==> has_res(final(prev_deps)@, *self, new_dep@)
            && forall|i: int| old(prev_deps)@.len() <= i < final(prev_deps)@.len() ==> deps_listed(final(prev_deps)@, *self, i), // OBL C18.deps.added_entries_closed
//@ ENDSPEC
//@ SUBST R6
    prev_deps.iter().find(|dep| dep.name == new_dep).is_some()
//@ WITH
    Self::vf_has_dep(prev_deps, new_dep)
//@ ENDSUBST
//@ SUBST R8
    for dep in
//@ WITH
    for dep in it:
//@ ENDSUBST
//@ BEFORE
    let resource = self.get_permissioned_resource(new_dep, filter_permission)?;
//@ AT
        let ghost d0 = prev_deps@;
//@ ENDBEFORE
//@ AFTER
    prev_deps.push(resource);
//@ AT
        proof {
            assert(prev_deps@.subrange(0, d0.len() as int) =~= d0);
            if store_names_wf(*self) && from_store(d0, *self) {
                assert(internal_spec(*self, new_dep@) == Some(*resource));
                assert(internal_spec(*self, resource.name@) == Some(*resource));
                assert forall|j: int| 0 <= j < prev_deps@.len() implies internal_spec(*self, (#[trigger] prev_deps@[j]).name@) == Some(*prev_deps@[j]) by {
                    if j < d0.len() { assert(prev_deps@.subrange(0, d0.len() as int)[j] == d0[j]); }
                }
            }
        }
//@ ENDAFTER
//@ LOOP 1
            invariant
                d0 == old(prev_deps)@,
                prev_deps@.len() > d0.len() && prev_deps@.subrange(0, d0.len() as int) =~= d0,
                forall|i: int| d0.len() <= i < prev_deps@.len() ==> perm_subset((#[trigger] prev_deps@[i]).permission, filter_permission),
                it.seq().len() == resource.dependencies@.len(), forall|k: int| 0 <= k < resource.dependencies@.len() ==> *#[trigger] it.seq()[k] == resource.dependencies@[k],
                *prev_deps@[d0.len() as int] == *resource, internal_spec(*self, new_dep@) == Some(*resource),
                store_names_wf(*self) && from_store(d0, *self) ==> from_store(prev_deps@, *self), // OBL C18.deps.from_store
                store_names_wf(*self) && from_store(d0, *self) ==> forall|i: int| d0.len() < i < prev_deps@.len() ==> deps_listed(prev_deps@, *self, i), // OBL C18.deps.added_entries_closed
                store_names_wf(*self) && from_store(d0, *self) ==> forall|k: int| 0 <= k < it.index() ==> has_res(prev_deps@, *self, (#[trigger] resource.dependencies@[k])@), // OBL C18.deps.added_entries_closed
//@ ENDLOOP
//@ LOOPSTART 1
            let ghost dj = prev_deps@;
            let ghost k0 = it.index() as int;
//@ ENDLOOPSTART
//@ SUBST R8
    self.recursive_dependencies(dep, prev_deps, filter_permission)?;
//@ WITH
    let vf_rr = self.recursive_dependencies(dep, prev_deps, filter_permission);
            proof {
                assert(prev_deps@.subrange(0, d0.len() as int) =~= dj.subrange(0, d0.len() as int));
                assert(prev_deps@.subrange(0, dj.len() as int)[d0.len() as int] == dj[d0.len() as int]);
                assert forall|i: int| d0.len() <= i < prev_deps@.len() implies perm_subset((#[trigger] prev_deps@[i]).permission, filter_permission) by {
                    if i < dj.len() { assert(prev_deps@.subrange(0, dj.len() as int)[i] == dj[i]); }
                }
                if store_names_wf(*self) && from_store(d0, *self) && vf_rr is Ok {
                    lemma_grow_keeps(dj, prev_deps@, *self);
                    assert forall|i: int| d0.len() < i < prev_deps@.len() implies deps_listed(prev_deps@, *self, i) by {
                        if i < dj.len() { assert(deps_listed(dj, *self, i)); }
                    }
                    assert forall|k: int| 0 <= k < k0 + 1 implies has_res(prev_deps@, *self, (#[trigger] resource.dependencies@[k])@) by {
                        if k < k0 { assert(has_res(dj, *self, resource.dependencies@[k]@)); } else { assert(dep@ == resource.dependencies@[k0]@); }
                    }
                }
            }
            vf_rr?;
//@ ENDSUBST
//@ BEFORE#2
    Ok(())
//@ AT
        proof {
            if store_names_wf(*self) && from_store(d0, *self) {
                let n = d0.len() as int;
                assert(has_res(prev_deps@, *self, new_dep@)) by { assert(internal_spec(*self, new_dep@) == Some(*prev_deps@[n])); }
                assert(deps_listed(prev_deps@, *self, n)) by {
                    assert forall|k: int| 0 <= k < prev_deps@[n].dependencies@.len() implies has_res(prev_deps@, *self, (#[trigger] prev_deps@[n].dependencies@[k])@) by {
                        assert(has_res(prev_deps@, *self, resource.dependencies@[k]@));
                    }
                }
            }
        }
//@ ENDBEFORE
//@ BEFORE#1
    return Ok(());
//@ AT
            proof {
                if from_store(prev_deps@, *self) {
                    let i = choose|i: int| 0 <= i < prev_deps@.len() && (#[trigger] prev_deps@[i]).name@ == new_dep@;
                    assert(internal_spec(*self, prev_deps@[i].name@) == Some(*prev_deps@[i]));
                    assert(has_res(prev_deps@, *self, new_dep@));
                }
                assert(prev_deps@.subrange(0, prev_deps@.len() as int) =~= prev_deps@);
            }
//@ ENDBEFORE
//@END

//@EXTRACT src/resources/resource_storage.rs :: impl ResourceStorage :: fn get_scriptlet_resource
//@ RET r
//@ SAFETY C18.scriptlet.safety
//@ SPEC
    // (no precondition: the comment "guaranteed valid at filter parsing" holds for rules that came through the parser, not for the
    // argument text of a deserialized engine - fix ed0ea80; an argument list that does not parse is an error like the others)
    ensures
        parse_args_spec(scriptlet_args@) is None ==> r is Err, // OBL C10.scriptlet.malformed_args_is_error
        final(required_deps)@.len() >= old(required_deps)@.len() && final(required_deps)@.subrange(0, old(required_deps)@.len() as int) =~= old(required_deps)@, // OBL C18.scriptlet.frame
        // every resource this call adds to the page's dependency list was granted to the requesting list
        forall|i: int| old(required_deps)@.len() <= i < final(required_deps)@.len() ==> perm_subset((#[trigger] final(required_deps)@[i]).permission, filter_permission), // OBL C18.scriptlet.deps_granted
        // an injection is produced only for a loaded, granted, injectable resource
        r is Ok ==> parse_args_spec(scriptlet_args@) is Some && parse_args_spec(scriptlet_args@)->Some_0.len() > 0 && ({
            let name = js_ext_spec(parse_args_spec(scriptlet_args@)->Some_0[0]@);
            internal_spec(*self, name) is Some && perm_subset(internal_spec(*self, name)->Some_0.permission, filter_permission)
                && injectable_kind(internal_spec(*self, name)->Some_0.kind)
        }), // OBL C18.scriptlet.granted
        // ... and only together with its whole dependency closure: there is a list of resources, all granted to THIS injection's
        // list, that holds every dependency the scriptlet names and every dependency of each of its members, and each member is in
        // the page's list - whatever was in the page's list before (entries left by a refused scriptlet, or by other lists)
        r is Ok && store_names_wf(*self) ==> exists|own: Seq<&Resource>| #[trigger] closure_witness(own, *self, filter_permission,
            internal_spec(*self, js_ext_spec(parse_args_spec(scriptlet_args@)->Some_0[0]@))->Some_0, final(required_deps)@), // OBL C18.scriptlet.closure_granted_and_listed
//@ ENDSPEC
//@ SUBST R6*
    required_deps.iter()
//@ WITH
    vf_iter(required_deps)
//@ ENDSUBST
//@ SUBST R8#1
    for dep in
//@ WITH
    for dep in it:
//@ ENDSUBST
//@ SUBST R8#2
    for dep in
//@ WITH
    for dep in it:
//@ ENDSUBST
//@ SUBST R8
    for dep in own_deps {
//@ WITH
    let ghost own = own_deps@;
    let ghost dm = required_deps@;
    for dep in it: own_deps
        invariant
            it.seq() == own, d0 == old(required_deps)@,
            required_deps@.len() >= dm.len() && required_deps@.subrange(0, dm.len() as int) =~= dm,
            required_deps@.len() >= d0.len() && required_deps@.subrange(0, d0.len() as int) =~= d0,
            forall|i: int| d0.len() <= i < required_deps@.len() ==> perm_subset((#[trigger] required_deps@[i]).permission, filter_permission),
            forall|i: int| 0 <= i < own.len() ==> perm_subset((#[trigger] own[i]).permission, filter_permission),
            store_names_wf(*self) ==> closure_ok(own, *self, filter_permission) && forall|k: int| 0 <= k < resource.dependencies@.len() ==> has_res(own, *self, (#[trigger] resource.dependencies@[k])@),
            forall|i: int| 0 <= i < it.index() ==> exists|j: int| 0 <= j < required_deps@.len() && (#[trigger] required_deps@[j]).name@ == (#[trigger] own[i]).name@,
    {
        let ghost dj = required_deps@;
        let ghost i0 = it.index() as int;
        proof { assert(dep == own[i0]); }
//@ ENDSUBST
//@ SUBST R8
    |d| d.name == dep.name
//@ WITH
    |d: &&&Resource| -> (b: bool) ensures b == (d.name@ == dep.name@) { d.name == dep.name }
//@ ENDSUBST
//@ LOOPEND 3
            proof {
                assert(required_deps@.subrange(0, dm.len() as int) =~= dj.subrange(0, dm.len() as int));
                assert(required_deps@.subrange(0, d0.len() as int) =~= dj.subrange(0, d0.len() as int));
                assert forall|i: int| d0.len() <= i < required_deps@.len() implies perm_subset((#[trigger] required_deps@[i]).permission, filter_permission) by {
                    if i < dj.len() { assert(required_deps@.subrange(0, dj.len() as int)[i] == dj[i]); } else { assert(*required_deps@[i] == *own[i0]); }
                }
                assert forall|i: int| 0 <= i < i0 + 1 implies exists|j: int| 0 <= j < required_deps@.len() && (#[trigger] required_deps@[j]).name@ == (#[trigger] own[i]).name@ by {
                    if i < i0 {
                        let j = choose|j: int| 0 <= j < dj.len() && (#[trigger] dj[j]).name@ == own[i].name@;
                        assert(required_deps@.subrange(0, dj.len() as int)[j] == dj[j]);
                    } else if required_deps@.len() > dj.len() {
                        assert(required_deps@[dj.len() as int].name@ == own[i0].name@);
                    } else {
                        // not pushed: find accepted some entry of the list
                        let j = choose|j: int| 0 <= j < dj.len() && (#[trigger] dj[j]).name@ == dep.name@;
                        assert(required_deps@[j].name@ == own[i0].name@);
                    }
                }
            }
//@ ENDLOOPEND
//@ BEFORE
    let scriptlet_name =
//@ AT
        let ghost d0 = required_deps@;
//@ ENDBEFORE
//@ LOOP 1
            invariant
                d0 == old(required_deps)@,
                required_deps@.len() >= d0.len() && required_deps@.subrange(0, d0.len() as int) =~= d0,
                forall|i: int| d0.len() <= i < required_deps@.len() ==> perm_subset((#[trigger] required_deps@[i]).permission, filter_permission),
//@ ENDLOOP
//@ LOOPSTART 1
            let ghost dj = required_deps@;
//@ ENDLOOPSTART
//@ SUBST R8
    self.recursive_dependencies(dep, required_deps, filter_permission)?;
//@ WITH
    let vf_rr = self.recursive_dependencies(dep, required_deps, filter_permission);
            proof {
                assert(required_deps@.subrange(0, d0.len() as int) =~= dj.subrange(0, d0.len() as int));
                assert forall|i: int| d0.len() <= i < required_deps@.len() implies perm_subset((#[trigger] required_deps@[i]).permission, filter_permission) by {
                    if i < dj.len() { assert(required_deps@.subrange(0, dj.len() as int)[i] == dj[i]); }
                }
            }
            vf_rr?;
//@ ENDSUBST
//@ SUBST R8
    let mut own_deps = vec![];
//@ WITH
    let mut own_deps: Vec<&Resource> = vec![];
//@ ENDSUBST
//@ LOOP 2
            invariant
                d0 == old(required_deps)@,
                required_deps@.len() >= d0.len() && required_deps@.subrange(0, d0.len() as int) =~= d0,
                forall|i: int| d0.len() <= i < required_deps@.len() ==> perm_subset((#[trigger] required_deps@[i]).permission, filter_permission),
                it.seq().len() == resource.dependencies@.len(), forall|k: int| 0 <= k < resource.dependencies@.len() ==> *#[trigger] it.seq()[k] == resource.dependencies@[k],
                store_names_wf(*self) ==> from_store(own_deps@, *self),
                forall|i: int| 0 <= i < own_deps@.len() ==> perm_subset((#[trigger] own_deps@[i]).permission, filter_permission),
                store_names_wf(*self) ==> forall|i: int| 0 <= i < own_deps@.len() ==> deps_listed(own_deps@, *self, i),
                store_names_wf(*self) ==> forall|k: int| 0 <= k < it.index() ==> has_res(own_deps@, *self, (#[trigger] resource.dependencies@[k])@),
//@ ENDLOOP
//@ LOOPSTART 2
            let ghost oj = own_deps@;
            let ghost k0 = it.index() as int;
//@ ENDLOOPSTART
//@ SUBST R8
    self.recursive_dependencies(dep, &mut own_deps, filter_permission)?;
//@ WITH
    let vf_r2 = self.recursive_dependencies(dep, &mut own_deps, filter_permission);
            proof {
                assert(own_deps@.subrange(0, oj.len() as int) =~= oj);
                assert forall|i: int| 0 <= i < own_deps@.len() implies perm_subset((#[trigger] own_deps@[i]).permission, filter_permission) by {
                    if i < oj.len() { assert(own_deps@.subrange(0, oj.len() as int)[i] == oj[i]); }
                }
                if store_names_wf(*self) && vf_r2 is Ok {
                    lemma_grow_keeps(oj, own_deps@, *self);
                    assert forall|i: int| 0 <= i < own_deps@.len() implies deps_listed(own_deps@, *self, i) by {
                        if i < oj.len() { assert(own_deps@.subrange(0, oj.len() as int)[i] == oj[i]); assert(deps_listed(oj, *self, i)); }
                    }
                    assert forall|k: int| 0 <= k < k0 + 1 implies has_res(own_deps@, *self, (#[trigger] resource.dependencies@[k])@) by {
                        if k < k0 { assert(has_res(oj, *self, resource.dependencies@[k]@)); }
                    }
                }
            }
            vf_r2?;
//@ ENDSUBST
//@ AFTER
    let template = String::from_utf8(BASE64_STANDARD.decode(&resource.content)?)?;
//@ AT
        let ghost dz = required_deps@;
        proof { if store_names_wf(*self) { assert(closure_witness(own, *self, filter_permission, *resource, dz)); } }
//@ ENDAFTER
//@ AFTER
                required_deps.push(resource);
            }
//@ AT
            proof {
                if store_names_wf(*self) {
                    assert(required_deps@.subrange(0, dz.len() as int) =~= dz);
                    assert forall|i: int| 0 <= i < own.len() implies exists|j: int| 0 <= j < required_deps@.len() && (#[trigger] required_deps@[j]).name@ == (#[trigger] own[i]).name@ by {
                        let j = choose|j: int| 0 <= j < dz.len() && (#[trigger] dz[j]).name@ == own[i].name@;
                        assert(required_deps@.subrange(0, dz.len() as int)[j] == dz[j]);
                    }
                    assert(closure_witness(own, *self, filter_permission, *resource, required_deps@));
                }
            }
//@ ENDAFTER
//@ SUBST R6
    String::from_utf8(BASE64_STANDARD.decode(&resource.content)?)?
//@ WITH
    vf_decode_template(&resource.content)?
//@ ENDSUBST
//@ SUBST R8
    |dep| dep.name == resource.name
//@ WITH
    |dep: &&&Resource| -> (b: bool) { dep.name == resource.name }
//@ ENDSUBST
//@ SUBST R1
    use itertools::Itertools as _;
//@ WITH
//@ ENDSUBST
//@ REPLACE R6
            Ok(format!(
//@ UPTO
            .join(", ")
            ))
//@ WITH
            Ok(vf_render_call(function_name, args))
//@ ENDREPLACE
//@ REPLACE R6
            Ok(patch_template_scriptlet(
//@ UPTO
            stringify_arg::<false>(arg)),
            ))
//@ WITH
            Ok(vf_render_template(template, args))
//@ ENDREPLACE
//@END
}

proof fn vf_canary() ensures false {}

} // verus!
fn main() {}
