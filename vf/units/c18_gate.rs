// Unit c18_gate — C18.2 / C13.2: permission gate on scriptlets and their dependencies; redirects refuse
// permissioned or non-redirectable resources.
#![feature(pattern)]
#![feature(allocator_api)]
use vstd::prelude::*;
use vstd::string::*;
use vstd::slice::*;
use core::str::pattern::Pattern;
use std::collections::HashMap;

macro_rules! vf_format {
    ($f:expr, $a:expr $(,)?) => { vf_format1($f, &$a) };
    ($f:expr, $a:expr, $b:expr $(,)?) => { vf_format2($f, &$a, &$b) };
    ($f:expr, $a:expr, $b:expr, $c:expr $(,)?) => { vf_format3($f, &$a, &$b, &$c) };
    ($f:expr, $a:expr, $b:expr, $c:expr, $d:expr $(,)?) => { vf_format4($f, &$a, &$b, &$c, &$d) };
}

verus! {

pub mod vf_axioms {
    use vstd::prelude::*;
    verus!{
    pub broadcast axiom fn string_key_model()
        ensures #[trigger] vstd::std_specs::hash::obeys_key_model::<String>();
    }
}
broadcast use {vf_axioms::string_key_model, vstd::std_specs::hash::group_hash_axioms};

//@INCLUDE shims/strings.rs
//@INCLUDE shims/std_extra.rs
//@INCLUDE shims/format.rs
//@INCLUDE shims/iter.rs

//@EXTRACT src/resources/mod.rs :: struct PermissionMask
//@ ATTR #[derive(Clone, Copy)]
//@ PUBFIELDS
//@END

// "granted all of those bits": every bit the resource requires is among the bits the list was granted
pub open spec fn perm_subset(required: PermissionMask, granted: PermissionMask) -> bool { required.0 & !granted.0 == 0 }

impl PermissionMask {
//@EXTRACT src/resources/mod.rs :: impl PermissionMask :: fn is_injectable_by
//@ RET r
//@ SAFETY C18.perm.is_injectable_by.safety
//@ SPEC
        ensures r == perm_subset(*self, filter_mask), // OBL C18.perm.is_injectable_by
//@ ENDSPEC
//@ FNSTART
        proof { let a = self.0; let b = filter_mask.0; assert((!b & a == 0) == (a & !b == 0)) by (bit_vector); }
//@ ENDFNSTART
//@END

//@EXTRACT src/resources/mod.rs :: impl PermissionMask :: fn is_default
//@ RET r
//@ PUB
//@ SAFETY C18.perm.is_default.safety
//@ SPEC
        ensures r == (self.0 == 0), // OBL C18.perm.is_default
//@ ENDSPEC
//@END
}

//@EXTRACT src/resources/mod.rs :: enum MimeType
//@END
//@EXTRACT src/resources/mod.rs :: enum ResourceType
//@END
//@EXTRACT src/resources/mod.rs :: struct Resource
//@END

// "of a redirectable kind": everything but scriptlet templates and function-style javascript
pub open spec fn redirectable(k: ResourceType) -> bool { !(k is Template) && !(k is Mime && k->Mime_0 is FnJavascript) }
pub open spec fn injectable_kind(k: ResourceType) -> bool { k is Template || (k is Mime && k->Mime_0 is ApplicationJavascript) }

impl ResourceType {
//@EXTRACT src/resources/mod.rs :: impl ResourceType :: fn supports_redirect
//@ RET r
//@ SAFETY C13.kind.supports_redirect.safety
//@ SPEC
        ensures r == redirectable(*self), // OBL C13.kind.supports_redirect
//@ ENDSPEC
//@END
//@EXTRACT src/resources/mod.rs :: impl ResourceType :: fn supports_scriptlet_injection
//@ RET r
//@ SAFETY C18.kind.supports_scriptlet_injection.safety
//@ SPEC
        ensures r == injectable_kind(*self), // OBL C18.kind.supports_scriptlet_injection
//@ ENDSPEC
//@END
}

//@EXTRACT src/resources/resource_storage.rs :: struct ResourceStorage
//@ PUBFIELDS
//@END

//@EXTRACT src/resources/resource_storage.rs :: enum ScriptletResourceError
//@END

// name / alias lookup (HashMap<String, _> probed with &str) — T here: uninterpreted result
pub uninterp spec fn internal_spec(st: ResourceStorage, ident: Seq<char>) -> Option<Resource>;

// T: argument-list parsing and rendering (bounded harnesses c18_args / c18_stringify cover them)
pub uninterp spec fn parse_args_spec(s: Seq<char>) -> Option<Vec<String>>;
pub uninterp spec fn js_ext_spec(s: Seq<char>) -> Seq<char>;

#[verifier::external_body]
fn parse_scriptlet_args(args: &str) -> (r: Option<Vec<String>>) ensures r == parse_args_spec(args@) { unimplemented!() }
#[verifier::external_body]
fn with_js_extension(scriptlet_name: &str) -> (r: String) ensures r@ == js_ext_spec(scriptlet_name@) { unimplemented!() }
#[verifier::external_body]
fn extract_function_name(fn_def: &str) -> (r: Option<&str>) { unimplemented!() }
#[verifier::external_body]
fn vf_decode_template(content: &String) -> (r: Result<String, ScriptletResourceError>) { unimplemented!() }
#[verifier::external_body]
fn vf_render_call(function_name: &str, args: &[String]) -> (r: String) { unimplemented!() }
#[verifier::external_body]
fn vf_render_template(template: String, args: &[String]) -> (r: String) { unimplemented!() }

impl ResourceStorage {
    #[verifier::external_body]
    fn get_internal_resource(&self, resource_ident: &str) -> (r: Option<&Resource>)
        ensures (r is Some) == (internal_spec(*self, resource_ident@) is Some), r is Some ==> *r->Some_0 == internal_spec(*self, resource_ident@)->Some_0
    { unimplemented!() }

//@EXTRACT src/resources/resource_storage.rs :: impl ResourceStorage :: fn get_permissioned_resource
//@ RET r
//@ SAFETY C18.gate.permissioned.safety
//@ SPEC
    ensures
        // a resource is handed out only if the requesting list was granted every bit it requires
        r is Ok ==> internal_spec(*self, scriptlet_name@) == Some(*r->Ok_0) && perm_subset(r->Ok_0.permission, filter_permission), // OBL C18.gate.permissioned
        r is Err ==> internal_spec(*self, scriptlet_name@) is None || !perm_subset(internal_spec(*self, scriptlet_name@)->Some_0.permission, filter_permission), // OBL C18.gate.err_only_if_missing_or_denied
//@ ENDSPEC
//@END

//@EXTRACT src/resources/resource_storage.rs :: impl ResourceStorage :: fn get_redirect_resource
//@ RET r
//@ SAFETY C13.redirect_resource.safety
//@ SPEC
    ensures
        // "provided the resource is loaded, is of a redirectable kind and requires no permission"
        r is Some ==> internal_spec(*self, resource_ident@) is Some && ({
            let res = internal_spec(*self, resource_ident@)->Some_0;
            res.permission.0 == 0 && redirectable(res.kind) && res.kind is Mime
        }), // OBL C13.redirect_resource.gate
        r is None ==> internal_spec(*self, resource_ident@) is None || ({
            let res = internal_spec(*self, resource_ident@)->Some_0;
            res.permission.0 != 0 || !redirectable(res.kind) || !(res.kind is Mime)
        }), // OBL C13.redirect_resource.none_only_if_refused
//@ ENDSPEC
//@ SUBST R8
    |resource| {
//@ WITH
    |resource: &Resource| -> (o: Option<String>)
            ensures o is Some <==> (resource.permission.0 == 0 && redirectable(resource.kind) && resource.kind is Mime) // OBL C13.redirect_resource.gate
    {
//@ ENDSUBST
//@ SUBST R6
    format!
//@ WITH
    vf_format!
//@ ENDSUBST
//@END

    // R6: `deps.iter().find(|dep| dep.name == name).is_some()` — is a resource of that name already listed
    #[verifier::external_body]
    fn vf_has_dep(deps: &Vec<&Resource>, name: &str) -> (r: bool)
        ensures r == exists|i: int| 0 <= i < deps@.len() && (#[trigger] deps@[i]).name@ == name@
    { deps.iter().find(|dep| dep.name == name).is_some() }

//@EXTRACT src/resources/resource_storage.rs :: impl ResourceStorage :: fn recursive_dependencies
//@ ATTR #[verifier::exec_allows_no_decreases_clause]
//@ RET r
//@ SAFETY C18.deps.safety
//@ SPEC
    ensures
        // what was listed stays listed, and every resource this call lists was granted (Ok or Err)
        final(prev_deps)@.len() >= old(prev_deps)@.len() && final(prev_deps)@.subrange(0, old(prev_deps)@.len() as int) =~= old(prev_deps)@, // OBL C18.deps.frame
        forall|i: int| old(prev_deps)@.len() <= i < final(prev_deps)@.len() ==> perm_subset((#[trigger] final(prev_deps)@[i]).permission, filter_permission), // OBL C18.deps.all_granted
//@ ENDSPEC
//@ SUBST R6
    prev_deps.iter().find(|dep| dep.name == new_dep).is_some()
//@ WITH
    Self::vf_has_dep(prev_deps, new_dep)
//@ ENDSUBST
//@ SUBST R8
    for dep in
//@ WITH
    for dep in it:
//@ ENDSUBST
//@ BEFORE
    let resource = self.get_permissioned_resource(new_dep, filter_permission)?;
//@ AT
        let ghost d0 = prev_deps@;
//@ ENDBEFORE
//@ LOOP 1
            invariant
                d0 == old(prev_deps)@,
                prev_deps@.len() > d0.len() && prev_deps@.subrange(0, d0.len() as int) =~= d0,
                forall|i: int| d0.len() <= i < prev_deps@.len() ==> perm_subset((#[trigger] prev_deps@[i]).permission, filter_permission),
//@ ENDLOOP
//@ LOOPSTART 1
            let ghost dj = prev_deps@;
//@ ENDLOOPSTART
//@ SUBST R8
    self.recursive_dependencies(dep, prev_deps, filter_permission)?;
//@ WITH
    let vf_rr = self.recursive_dependencies(dep, prev_deps, filter_permission);
            proof {
                assert(prev_deps@.subrange(0, d0.len() as int) =~= dj.subrange(0, d0.len() as int));
                assert forall|i: int| d0.len() <= i < prev_deps@.len() implies perm_subset((#[trigger] prev_deps@[i]).permission, filter_permission) by {
                    if i < dj.len() { assert(prev_deps@.subrange(0, dj.len() as int)[i] == dj[i]); }
                }
            }
            vf_rr?;
//@ ENDSUBST
//@END

//@EXTRACT src/resources/resource_storage.rs :: impl ResourceStorage :: fn get_scriptlet_resource
//@ RET r
//@ SAFETY C18.scriptlet.safety
//@ SPEC
    requires
        // "guaranteed valid at filter parsing": the argument list parses
        parse_args_spec(scriptlet_args@) is Some,
    ensures
        final(required_deps)@.len() >= old(required_deps)@.len() && final(required_deps)@.subrange(0, old(required_deps)@.len() as int) =~= old(required_deps)@, // OBL C18.scriptlet.frame
        // every resource this call adds to the page's dependency list was granted to the requesting list
        forall|i: int| old(required_deps)@.len() <= i < final(required_deps)@.len() ==> perm_subset((#[trigger] final(required_deps)@[i]).permission, filter_permission), // OBL C18.scriptlet.deps_granted
        // an injection is produced only for a loaded, granted, injectable resource
        r is Ok ==> parse_args_spec(scriptlet_args@)->Some_0.len() > 0 && ({
            let name = js_ext_spec(parse_args_spec(scriptlet_args@)->Some_0[0]@);
            internal_spec(*self, name) is Some && perm_subset(internal_spec(*self, name)->Some_0.permission, filter_permission)
                && injectable_kind(internal_spec(*self, name)->Some_0.kind)
        }), // OBL C18.scriptlet.granted
//@ ENDSPEC
//@ SUBST R6*
    required_deps.iter()
//@ WITH
    vf_iter(required_deps)
//@ ENDSUBST
//@ SUBST R8
    for dep in
//@ WITH
    for dep in it:
//@ ENDSUBST
//@ BEFORE
    let scriptlet_name =
//@ AT
        let ghost d0 = required_deps@;
//@ ENDBEFORE
//@ LOOP 1
            invariant
                d0 == old(required_deps)@,
                required_deps@.len() >= d0.len() && required_deps@.subrange(0, d0.len() as int) =~= d0,
                forall|i: int| d0.len() <= i < required_deps@.len() ==> perm_subset((#[trigger] required_deps@[i]).permission, filter_permission),
//@ ENDLOOP
//@ LOOPSTART 1
            let ghost dj = required_deps@;
//@ ENDLOOPSTART
//@ SUBST R8
    self.recursive_dependencies(dep, required_deps, filter_permission)?;
//@ WITH
    let vf_rr = self.recursive_dependencies(dep, required_deps, filter_permission);
            proof {
                assert(required_deps@.subrange(0, d0.len() as int) =~= dj.subrange(0, d0.len() as int));
                assert forall|i: int| d0.len() <= i < required_deps@.len() implies perm_subset((#[trigger] required_deps@[i]).permission, filter_permission) by {
                    if i < dj.len() { assert(required_deps@.subrange(0, dj.len() as int)[i] == dj[i]); }
                }
            }
            vf_rr?;
//@ ENDSUBST
//@ SUBST R6
    String::from_utf8(BASE64_STANDARD.decode(&resource.content)?)?
//@ WITH
    vf_decode_template(&resource.content)?
//@ ENDSUBST
//@ SUBST R8
    |dep| dep.name == resource.name
//@ WITH
    |dep: &&&Resource| -> (b: bool) { dep.name == resource.name }
//@ ENDSUBST
//@ SUBST R1
    use itertools::Itertools as _;
//@ WITH
//@ ENDSUBST
//@ REPLACE R6
            Ok(format!(
//@ UPTO
            .join(", ")
            ))
//@ WITH
            Ok(vf_render_call(function_name, args))
//@ ENDREPLACE
//@ REPLACE R6
            Ok(patch_template_scriptlet(
//@ UPTO
            stringify_arg::<false>(arg)),
            ))
//@ WITH
            Ok(vf_render_template(template, args))
//@ ENDREPLACE
//@END
}

proof fn vf_canary() ensures false {}

} // verus!
fn main() {}
