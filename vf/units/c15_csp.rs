// Unit c15_csp — C15: the injected policy is the union of the matching csp rules' directives minus the
// excepted ones; nothing when a blanket csp exception matches or the request is not a (sub)document.
use vstd::prelude::*;
use std::collections::HashSet;

verus! {

pub mod vf_axioms {
    use vstd::prelude::*;
    verus!{
    pub broadcast axiom fn string_key_model()
        ensures #[trigger] vstd::std_specs::hash::obeys_key_model::<String>();
    pub broadcast axiom fn str_key_model()
        ensures #[trigger] vstd::std_specs::hash::obeys_key_model::<&str>();
    }
}
broadcast use {vf_axioms::string_key_model, vf_axioms::str_key_model, vstd::std_specs::hash::group_hash_axioms};

//@INCLUDE shims/filter_items.rs

pub use request::Request;
pub struct RegexManager { pub x: u8 }
pub struct RegexManagerCell { pub x: u8 }

// ---- NetworkFilterList: contract of check_all (unit c01_lookup) over an abstract view -----------
pub struct NetworkFilterList { pub ghost_filters: Ghost<Seq<NetworkFilter>> }
pub uninterp spec fn lhit(l: NetworkFilterList, req: Request, tags: Set<String>, f: NetworkFilter) -> bool;
impl NetworkFilterList {
    #[verifier::external_body]
    pub fn check_all(&self, request: &Request, active_tags: &HashSet<String>, regex_manager: &mut RegexManager) -> (r: Vec<&NetworkFilter>)
        ensures
            forall|x: int| 0 <= x < r@.len() ==> lhit(*self, *request, active_tags@, *#[trigger] r@[x]),
            forall|f: NetworkFilter| lhit(*self, *request, active_tags@, f) ==> exists|x: int| 0 <= x < r@.len() && *#[trigger] r@[x] == f,
    { unimplemented!() }
}

//@EXTRACT src/blocker.rs :: struct Blocker
//@ SUBST R6*
    std::cell::RefCell<RegexManager>
//@ WITH
    RegexManagerCell
//@ ENDSUBST
//@END

// the directive sets named by the statement, over the matching active csp rules
pub open spec fn enabled_dir(b: Blocker, req: Request, d: Seq<char>) -> bool {
    exists|f: NetworkFilter| lhit(b.csp, req, b.tags_enabled@, f) && !is_exc(f) && is_csp(f)
        && f.modifier_option is Some && f.modifier_option->Some_0@ == d
}
pub open spec fn disabled_dir(b: Blocker, req: Request, d: Seq<char>) -> bool {
    exists|f: NetworkFilter| lhit(b.csp, req, b.tags_enabled@, f) && is_exc(f) && is_csp(f)
        && f.modifier_option is Some && f.modifier_option->Some_0@ == d
}
pub open spec fn blanket_exception(b: Blocker, req: Request) -> bool {
    exists|f: NetworkFilter| lhit(b.csp, req, b.tags_enabled@, f) && is_exc(f) && is_csp(f) && f.modifier_option is None
}

pub open spec fn is_exc(f: NetworkFilter) -> bool { f.mask.has(NetworkFilterMask::IS_EXCEPTION) }
pub open spec fn is_csp(f: NetworkFilter) -> bool { f.mask.has(NetworkFilterMask::IS_CSP) }

pub open spec fn en_upto(fs: Seq<&NetworkFilter>, k: int, d: Seq<char>) -> bool {
    exists|i: int| 0 <= i < k && i < fs.len() && !is_exc(*#[trigger] fs[i]) && is_csp(*fs[i]) && fs[i].modifier_option is Some && fs[i].modifier_option->Some_0@ == d
}
pub open spec fn dis_upto(fs: Seq<&NetworkFilter>, k: int, d: Seq<char>) -> bool {
    exists|i: int| 0 <= i < k && i < fs.len() && is_exc(*#[trigger] fs[i]) && is_csp(*fs[i]) && fs[i].modifier_option is Some && fs[i].modifier_option->Some_0@ == d
}
pub open spec fn blanket_upto(fs: Seq<&NetworkFilter>, k: int) -> bool {
    exists|i: int| 0 <= i < k && i < fs.len() && is_exc(*#[trigger] fs[i]) && is_csp(*fs[i]) && fs[i].modifier_option is None
}
pub open spec fn has_view(s: Set<&str>, d: Seq<char>) -> bool { exists|e: &str| s.contains(e) && e@ == d }

// the directive set of a comma-joined policy string (T: the join loop is lifted)
pub uninterp spec fn policy_dirs(p: Seq<char>) -> Set<Seq<char>>;

// R6: `enabled.difference(&disabled)` joined with ',' — None when nothing remains
#[verifier::external_body]
fn vf_join_difference(enabled: &HashSet<&str>, disabled: &HashSet<&str>) -> (r: Option<String>)
    ensures
        r is None <==> forall|x: Seq<char>| has_view(enabled@, x) ==> has_view(disabled@, x),
        r is Some ==> forall|x: Seq<char>| policy_dirs(r->Some_0@).contains(x) <==> (has_view(enabled@, x) && !has_view(disabled@, x)),
{ unimplemented!() }

impl Blocker {
    #[verifier::external_body]
    fn borrow_regex_manager(&self) -> RegexManager { unimplemented!() }

//@EXTRACT src/blocker.rs :: impl Blocker :: fn get_csp_directives
//@ RET r
//@ SAFETY C15.csp.safety
//@ SPEC
    ensures
        // "for every other request type there is never a policy"
        !(request.request_type is Document) && !(request.request_type is Subdocument) ==> r is None, // OBL C15.csp.only_documents
        // "nothing at all if a matching csp exception carries no directive"
        blanket_exception(*self, *request) ==> r is None, // OBL C15.csp.blanket_exception
        // otherwise: exactly the enabled directives that are not excepted
        r is Some ==> forall|d: Seq<char>| policy_dirs(r->Some_0@).contains(d) <==> (enabled_dir(*self, *request, d) && !disabled_dir(*self, *request, d)), // OBL C15.csp.union_minus_exceptions
        (request.request_type is Document || request.request_type is Subdocument) && !blanket_exception(*self, *request) && r is None
            ==> forall|d: Seq<char>| enabled_dir(*self, *request, d) ==> disabled_dir(*self, *request, d), // OBL C15.csp.none_only_if_all_excepted
//@ ENDSPEC
//@ SUBST R1
    use crate::request::RequestType;
//@ WITH
    use request::RequestType;
//@ ENDSUBST
//@ BEFORE
    if filters.is_empty()
//@ AT
        let ghost fs = filters@;
//@ ENDBEFORE
//@ SUBST R8
    for filter in filters
//@ WITH
    for filter in it: filters
//@ ENDSUBST
//@ LOOP 1
            invariant
                it.seq() == fs,
                forall|x: int| 0 <= x < fs.len() ==> lhit(self.csp, *request, self.tags_enabled@, *#[trigger] fs[x]),
                !blanket_upto(fs, it.index() as int),
                forall|d: Seq<char>| has_view(enabled_directives@, d) <==> en_upto(fs, it.index() as int, d),
                forall|d: Seq<char>| has_view(disabled_directives@, d) <==> dis_upto(fs, it.index() as int, d),
//@ ENDLOOP
//@ LOOPSTART 1
            let ghost k = it.index() as int;
            let ghost en0 = enabled_directives@;
            let ghost dis0 = disabled_directives@;
            proof { assert(filter == fs[k]); }
//@ ENDLOOPSTART
//@ BEFORE#2
    return None;
//@ AT
            proof {
                assert forall|d: Seq<char>| !enabled_dir(*self, *request, d) by {
                    if enabled_dir(*self, *request, d) {
                        let f = choose|f: NetworkFilter| lhit(self.csp, *request, self.tags_enabled@, f) && !is_exc(f) && is_csp(f) && f.modifier_option is Some && f.modifier_option->Some_0@ == d;
                        let x = choose|x: int| 0 <= x < fs.len() && *#[trigger] fs[x] == f;
                    }
                }
                assert(!blanket_exception(*self, *request)) by {
                    if blanket_exception(*self, *request) {
                        let f = choose|f: NetworkFilter| lhit(self.csp, *request, self.tags_enabled@, f) && is_exc(f) && is_csp(f) && f.modifier_option is None;
                        let x = choose|x: int| 0 <= x < fs.len() && *#[trigger] fs[x] == f;
                    }
                }
            }
//@ ENDBEFORE
//@ BEFORE#3
    return None;
//@ AT
                        proof {
                            assert(blanket_exception(*self, *request)) by { // OBL C15.csp.blanket_exception
                                assert(lhit(self.csp, *request, self.tags_enabled@, *fs[k]) && is_exc(*fs[k]) && is_csp(*fs[k]) && fs[k].modifier_option is None);
                            }
                        }
//@ ENDBEFORE
//@ LOOPEND 1
            proof {
                let f = *fs[k];
                let en1 = enabled_directives@;
                let dis1 = disabled_directives@;
                assert(!blanket_upto(fs, k + 1)) by {
                    if blanket_upto(fs, k + 1) {
                        let i = choose|i: int| 0 <= i < k + 1 && i < fs.len() && is_exc(*#[trigger] fs[i]) && is_csp(*fs[i]) && fs[i].modifier_option is None;
                        if i < k { assert(blanket_upto(fs, k)); }
                    }
                }
                assert forall|d: Seq<char>| has_view(en1, d) <==> en_upto(fs, k + 1, d) by {
                    let newd = !is_exc(f) && is_csp(f) && f.modifier_option is Some && f.modifier_option->Some_0@ == d;
                    if has_view(en1, d) {
                        let e = choose|e: &str| en1.contains(e) && e@ == d;
                        if en0.contains(e) { assert(has_view(en0, d)); assert(en_upto(fs, k, d));
                            let i = choose|i: int| 0 <= i < k && i < fs.len() && !is_exc(*#[trigger] fs[i]) && is_csp(*fs[i]) && fs[i].modifier_option is Some && fs[i].modifier_option->Some_0@ == d;
                            assert(0 <= i < k + 1 && !is_exc(*fs[i]));
                        } else { assert(newd); assert(!is_exc(*fs[k])); }
                    }
                    if en_upto(fs, k + 1, d) {
                        let i = choose|i: int| 0 <= i < k + 1 && i < fs.len() && !is_exc(*#[trigger] fs[i]) && is_csp(*fs[i]) && fs[i].modifier_option is Some && fs[i].modifier_option->Some_0@ == d;
                        if i < k { assert(en_upto(fs, k, d)); assert(has_view(en0, d));
                            let e = choose|e: &str| en0.contains(e) && e@ == d; assert(en1.contains(e));
                        } else { assert(newd); }
                    }
                }
                assert forall|d: Seq<char>| has_view(dis1, d) <==> dis_upto(fs, k + 1, d) by {
                    let newd = is_exc(f) && is_csp(f) && f.modifier_option is Some && f.modifier_option->Some_0@ == d;
                    if has_view(dis1, d) {
                        let e = choose|e: &str| dis1.contains(e) && e@ == d;
                        if dis0.contains(e) { assert(has_view(dis0, d)); assert(dis_upto(fs, k, d));
                            let i = choose|i: int| 0 <= i < k && i < fs.len() && is_exc(*#[trigger] fs[i]) && is_csp(*fs[i]) && fs[i].modifier_option is Some && fs[i].modifier_option->Some_0@ == d;
                            assert(0 <= i < k + 1 && is_exc(*fs[i]));
                        } else { assert(newd); assert(is_exc(*fs[k])); }
                    }
                    if dis_upto(fs, k + 1, d) {
                        let i = choose|i: int| 0 <= i < k + 1 && i < fs.len() && is_exc(*#[trigger] fs[i]) && is_csp(*fs[i]) && fs[i].modifier_option is Some && fs[i].modifier_option->Some_0@ == d;
                        if i < k { assert(dis_upto(fs, k, d)); assert(has_view(dis0, d));
                            let e = choose|e: &str| dis0.contains(e) && e@ == d; assert(dis1.contains(e));
                        } else { assert(newd); }
                    }
                }
            }
//@ ENDLOOPEND
//@ BEFORE
    let mut remaining_directives =
//@ AT
        proof {
            let n = fs.len() as int;
            assert forall|d: Seq<char>| enabled_dir(*self, *request, d) <==> en_upto(fs, n, d) by { // OBL C15.csp.union_minus_exceptions
                if enabled_dir(*self, *request, d) {
                    let f = choose|f: NetworkFilter| lhit(self.csp, *request, self.tags_enabled@, f) && !is_exc(f) && is_csp(f) && f.modifier_option is Some && f.modifier_option->Some_0@ == d;
                    let x = choose|x: int| 0 <= x < fs.len() && *#[trigger] fs[x] == f;
                    assert(!is_exc(*fs[x]));
                }
                if en_upto(fs, n, d) {
                    let i = choose|i: int| 0 <= i < n && i < fs.len() && !is_exc(*#[trigger] fs[i]) && is_csp(*fs[i]) && fs[i].modifier_option is Some && fs[i].modifier_option->Some_0@ == d;
                    assert(lhit(self.csp, *request, self.tags_enabled@, *fs[i]));
                }
            }
            assert forall|d: Seq<char>| disabled_dir(*self, *request, d) <==> dis_upto(fs, n, d) by { // OBL C15.csp.union_minus_exceptions
                if disabled_dir(*self, *request, d) {
                    let f = choose|f: NetworkFilter| lhit(self.csp, *request, self.tags_enabled@, f) && is_exc(f) && is_csp(f) && f.modifier_option is Some && f.modifier_option->Some_0@ == d;
                    let x = choose|x: int| 0 <= x < fs.len() && *#[trigger] fs[x] == f;
                    assert(is_exc(*fs[x]));
                }
                if dis_upto(fs, n, d) {
                    let i = choose|i: int| 0 <= i < n && i < fs.len() && is_exc(*#[trigger] fs[i]) && is_csp(*fs[i]) && fs[i].modifier_option is Some && fs[i].modifier_option->Some_0@ == d;
                    assert(lhit(self.csp, *request, self.tags_enabled@, *fs[i]));
                }
            }
            assert(!blanket_exception(*self, *request)) by { // OBL C15.csp.blanket_exception
                if blanket_exception(*self, *request) {
                    let f = choose|f: NetworkFilter| lhit(self.csp, *request, self.tags_enabled@, f) && is_exc(f) && is_csp(f) && f.modifier_option is None;
                    let x = choose|x: int| 0 <= x < fs.len() && *#[trigger] fs[x] == f;
                    assert(blanket_upto(fs, n)) by { assert(is_exc(*fs[x])); }
                }
            }
            assert forall|d: Seq<char>| #[trigger] has_view(enabled_directives@, d) <==> enabled_dir(*self, *request, d) by {
                assert(has_view(enabled_directives@, d) <==> en_upto(fs, n, d));
            }
            assert forall|d: Seq<char>| #[trigger] has_view(disabled_directives@, d) <==> disabled_dir(*self, *request, d) by {
                assert(has_view(disabled_directives@, d) <==> dis_upto(fs, n, d));
            }
            assert forall|d: Seq<char>| has_view(enabled_directives@, d) <==> #[trigger] enabled_dir(*self, *request, d) by {
                assert(has_view(enabled_directives@, d) <==> en_upto(fs, n, d));
            }
            assert forall|d: Seq<char>| has_view(disabled_directives@, d) <==> #[trigger] disabled_dir(*self, *request, d) by {
                assert(has_view(disabled_directives@, d) <==> dis_upto(fs, n, d));
            }
        }
//@ ENDBEFORE
//@ REPLACE R6
        let mut remaining_directives = enabled_directives.difference(&disabled_directives);
//@ UPTO
        Some(merged)
//@ WITH
        vf_join_difference(&enabled_directives, &disabled_directives)
//@ ENDREPLACE
//@END
}

proof fn vf_canary() ensures false {}

} // verus!
fn main() {}
