// Unit c01_tokenizer — C01.1/C01.2: the tokenizer emits exactly the hashes of the maximal runs of
// token characters that the skip rules admit (sound AND complete, up to the buffer limit).
#![feature(pattern)]
use vstd::prelude::*;
use vstd::string::*;
use vstd::slice::*;
use core::str::pattern::Pattern;

verus! {

//@INCLUDE shims/strings.rs

broadcast use {str_len_fits, str_ends_are_boundaries};

//@EXTRACT src/utils.rs :: type Hash
//@ PUB
//@END

// T: seahash — uninterpreted (hash_spec), so nothing can depend on hash values

#[verifier::external_body]
pub fn fast_hash(input: &str) -> (r: Hash)
    ensures r == hash_spec(input.spec_bytes())
{ unimplemented!() }

// T: char::is_alphanumeric (Unicode tables) — the token alphabet (tok_char) is uninterpreted

#[verifier::external_body]
fn is_allowed_filter(ch: char) -> (r: bool)
    ensures r == tok_char(ch)
{ unimplemented!() }

//@EXTRACT src/utils.rs :: const TOKENS_BUFFER_SIZE
//@END
//@EXTRACT src/utils.rs :: const TOKENS_BUFFER_RESERVED
//@END
//@EXTRACT src/utils.rs :: const TOKENS_MAX
//@ PUB
//@END

//@INCLUDE shims/token_spec.rs

#[verifier::external_body]
fn vf_char_indices(s: &str) -> (r: Vec<(usize, char)>)
    ensures r@ == ci_of(s.spec_bytes()), ci_wf(r@, s.spec_bytes())
{ s.char_indices().collect() }


pub proof fn lemma_run_unique(ci: Seq<(usize, char)>, p1: int, p2: int, q: int)
    requires is_run(ci, p1, q), is_run(ci, p2, q)
    ensures p1 == p2
{
    if p1 < p2 { assert(allowed(ci, p2 - 1)); } else if p2 < p1 { assert(allowed(ci, p1 - 1)); }
}

pub proof fn lemma_off_zero(ci: Seq<(usize, char)>, bytes: Seq<u8>, k: int)
    requires ci_wf(ci, bytes), 0 <= k < ci.len(), ci[k].0 == 0
    ensures k == 0
{
    if k > 0 { assert(ci[0].0 < ci[k].0); }
}

pub proof fn lemma_sound_push(buf: Seq<Hash>, lo: int, bytes: Seq<u8>, ci: Seq<(usize, char)>, sf: bool, sl: bool, w: bool, p: int, q: int)
    requires sound_upto(buf, lo, bytes, ci, sf, sl, w), emit_ok(ci, bytes.len() as int, p, q, sf, sl, w), lo <= buf.len()
    ensures sound_upto(buf.push(tok_hash(bytes, ci, p, q)), lo, bytes, ci, sf, sl, w)
{
    let b2 = buf.push(tok_hash(bytes, ci, p, q));
    assert forall|x: int| lo <= x < b2.len() implies exists|p2: int, q2: int| emit_ok(ci, bytes.len() as int, p2, q2, sf, sl, w) && #[trigger] b2[x] == tok_hash(bytes, ci, p2, q2) by {
        if x < buf.len() {
            assert(b2[x] == buf[x]);
            let (p2, q2) = choose|p2: int, q2: int| emit_ok(ci, bytes.len() as int, p2, q2, sf, sl, w) && buf[x] == tok_hash(bytes, ci, p2, q2);
            assert(emit_ok(ci, bytes.len() as int, p2, q2, sf, sl, w) && b2[x] == tok_hash(bytes, ci, p2, q2));
        } else {
            assert(emit_ok(ci, bytes.len() as int, p, q, sf, sl, w) && b2[x] == tok_hash(bytes, ci, p, q));
        }
    }
}

pub proof fn lemma_complete_push(buf: Seq<Hash>, h: Hash, lo: int, bytes: Seq<u8>, ci: Seq<(usize, char)>, sf: bool, sl: bool, w: bool, j: int)
    requires complete_upto(buf, lo, bytes, ci, sf, sl, w, j)
    ensures complete_upto(buf.push(h), lo, bytes, ci, sf, sl, w, j)
{
    let b2 = buf.push(h);
    assert forall|p: int, q: int| #[trigger] emit_ok(ci, bytes.len() as int, p, q, sf, sl, w) && q < j
        implies exists|x: int| lo <= x < b2.len() && b2[x] == tok_hash(bytes, ci, p, q) by {
        let x = choose|x: int| lo <= x < buf.len() && buf[x] == tok_hash(bytes, ci, p, q);
        assert(b2[x] == tok_hash(bytes, ci, p, q));
    }
}

// position j closes no admissible run
pub proof fn lemma_complete_step_none(buf: Seq<Hash>, lo: int, bytes: Seq<u8>, ci: Seq<(usize, char)>, sf: bool, sl: bool, w: bool, j: int)
    requires complete_upto(buf, lo, bytes, ci, sf, sl, w, j), forall|p: int| !emit_ok(ci, bytes.len() as int, p, j, sf, sl, w)
    ensures complete_upto(buf, lo, bytes, ci, sf, sl, w, j + 1)
{
    assert forall|p: int, q: int| #[trigger] emit_ok(ci, bytes.len() as int, p, q, sf, sl, w) && q < j + 1
        implies exists|x: int| lo <= x < buf.len() && buf[x] == tok_hash(bytes, ci, p, q) by {
        if q == j { assert(!emit_ok(ci, bytes.len() as int, p, j, sf, sl, w)); }
    }
}

// position j closes the admissible run [p, j), whose hash has just been appended
pub proof fn lemma_complete_step_push(buf: Seq<Hash>, lo: int, bytes: Seq<u8>, ci: Seq<(usize, char)>, sf: bool, sl: bool, w: bool, j: int, p: int)
    requires complete_upto(buf, lo, bytes, ci, sf, sl, w, j), is_run(ci, p, j), lo <= buf.len()
    ensures complete_upto(buf.push(tok_hash(bytes, ci, p, j)), lo, bytes, ci, sf, sl, w, j + 1)
{
    let b2 = buf.push(tok_hash(bytes, ci, p, j));
    lemma_complete_push(buf, tok_hash(bytes, ci, p, j), lo, bytes, ci, sf, sl, w, j);
    assert forall|p2: int, q: int| #[trigger] emit_ok(ci, bytes.len() as int, p2, q, sf, sl, w) && q < j + 1
        implies exists|x: int| lo <= x < b2.len() && b2[x] == tok_hash(bytes, ci, p2, q) by {
        if q == j {
            lemma_run_unique(ci, p, p2, j);
            assert(b2[buf.len() as int] == tok_hash(bytes, ci, p2, q));
        }
    }
}

//@EXTRACT src/utils.rs :: fn fast_tokenizer_no_regex
//@ SAFETY C01.tok.safety
//@ SUBST R3
    is_allowed_code: &dyn Fn(char) -> bool,
//@ WITH
//@ ENDSUBST
//@ SUBST R3
    is_allowed_code(c)
//@ WITH
    is_allowed_filter(c)
//@ ENDSUBST
//@ SUBST R5
    pattern.char_indices()
//@ WITH
    vf_char_indices(pattern)
//@ ENDSUBST
//@ SPEC
    ensures
        // frame: what was in the buffer stays
        final(tokens_buffer)@.len() >= old(tokens_buffer)@.len()
            && final(tokens_buffer)@.subrange(0, old(tokens_buffer)@.len() as int) =~= old(tokens_buffer)@, // OBL C01.tok.frame
        // every token emitted is an admissible maximal run ("guaranteed to be a whole token")
        sound_upto(final(tokens_buffer)@, old(tokens_buffer)@.len() as int, pattern.spec_bytes(), ci_of(pattern.spec_bytes()),
                   skip_first_token, skip_last_token, skip_around_wildcard), // OBL C01.tok.sound
        // and no admissible run is lost while the buffer has room
        final(tokens_buffer)@.len() < TOKENS_MAX ==>
            complete_upto(final(tokens_buffer)@, old(tokens_buffer)@.len() as int, pattern.spec_bytes(), ci_of(pattern.spec_bytes()),
                          skip_first_token, skip_last_token, skip_around_wildcard, ci_of(pattern.spec_bytes()).len() as int + 1), // OBL C01.tok.complete
//@ ENDSPEC
//@ SUBST R8
    for (i, c) in
//@ WITH
    for (i, c) in it:
//@ ENDSUBST
//@ BEFORE
    let mut inside: bool = false;
//@ AT
    let ghost bytes = pattern.spec_bytes();
    let ghost ci = ci_of(bytes);
    let ghost n = bytes.len() as int;
    let ghost lo = tokens_buffer@.len() as int;
    let ghost buf0 = tokens_buffer@;
    let ghost mut sp: int = 0;
//@ ENDBEFORE
//@ LOOP 1
        invariant
            it.seq() == ci, ci_wf(ci, bytes), bytes == pattern.spec_bytes(), n == bytes.len(), ci == ci_of(bytes),
            lo == old(tokens_buffer)@.len(), buf0 == old(tokens_buffer)@,
            tokens_buffer@.len() >= lo, tokens_buffer@.subrange(0, lo) =~= buf0,
            inside ==> 0 <= sp < it.index() && start == off(ci, n, sp) && (forall|k: int| sp <= k < it.index() ==> allowed(ci, k))
                && (sp == 0 || !allowed(ci, sp - 1)) && preceding_ch == (if sp > 0 { Some(ci[sp - 1].1) } else { None::<char> }),
            !inside ==> (it.index() == 0 || !allowed(ci, it.index() - 1))
                && preceding_ch == (if it.index() > 0 { Some(ci[it.index() - 1].1) } else { None::<char> }),
            sound_upto(tokens_buffer@, lo, bytes, ci, skip_first_token, skip_last_token, skip_around_wildcard),
            complete_upto(tokens_buffer@, lo, bytes, ci, skip_first_token, skip_last_token, skip_around_wildcard, it.index() as int),
//@ ENDLOOP
//@ LOOPSTART 1
        let ghost j = it.index() as int;
        let ghost bufj = tokens_buffer@;
        let ghost sp0 = sp;
        let ghost inside0 = inside;
        let ghost start0 = start;
        let ghost prev0 = preceding_ch;
        proof { assert(ci[j] == (i, c)); assert(off(ci, n, j) == i); }
//@ ENDLOOPSTART
//@ LOOPEND 1
        proof {
            let sf = skip_first_token; let sl = skip_last_token; let w = skip_around_wildcard;
            let bufn = tokens_buffer@;
            assert(bufn.subrange(0, lo) =~= bufj.subrange(0, lo));
            if tok_char(c) {
                // no run ends at j
                assert forall|p: int| !emit_ok(ci, n, p, j, sf, sl, w) by { if is_run(ci, p, j) { assert(!allowed(ci, j)); } }
                lemma_complete_step_none(bufj, lo, bytes, ci, sf, sl, w, j);
            } else if inside0 {
                // the run [sp0, j) ends here
                assert(is_run(ci, sp0, j));
                if start0 == 0 { lemma_off_zero(ci, bytes, sp0); }
                if bufn != bufj {
                    assert(bufn == bufj.push(tok_hash(bytes, ci, sp0, j))); // OBL C01.tok.sound
                    assert(emit_ok(ci, n, sp0, j, sf, sl, w)); // OBL C01.tok.sound
                    lemma_sound_push(bufj, lo, bytes, ci, sf, sl, w, sp0, j);
                    lemma_complete_step_push(bufj, lo, bytes, ci, sf, sl, w, j, sp0);
                } else {
                    assert forall|p: int| !emit_ok(ci, n, p, j, sf, sl, w) by { // OBL C01.tok.complete
                        if is_run(ci, p, j) { lemma_run_unique(ci, p, sp0, j); }
                    }
                    lemma_complete_step_none(bufj, lo, bytes, ci, sf, sl, w, j);
                }
            } else {
                assert forall|p: int| !emit_ok(ci, n, p, j, sf, sl, w) by { if is_run(ci, p, j) { assert(allowed(ci, j - 1)); } }
                lemma_complete_step_none(bufj, lo, bytes, ci, sf, sl, w, j);
            }
        }
//@ ENDLOOPEND
//@ BEFORE
    if !skip_last_token
//@ AT
    let ghost bufm = tokens_buffer@;
    let ghost m = ci.len() as int;
//@ ENDBEFORE
//@ FNEND
    proof {
        let sf = skip_first_token; let sl = skip_last_token; let w = skip_around_wildcard;
        let bufn = tokens_buffer@;
        assert(bufn.subrange(0, lo) =~= bufm.subrange(0, lo));
        if inside {
            assert(is_run(ci, sp, m));
            if start == 0 { lemma_off_zero(ci, bytes, sp); }
            if bufn != bufm {
                assert(bufn == bufm.push(tok_hash(bytes, ci, sp, m))); // OBL C01.tok.sound
                assert(emit_ok(ci, n, sp, m, sf, sl, w)); // OBL C01.tok.sound
                lemma_sound_push(bufm, lo, bytes, ci, sf, sl, w, sp, m);
                lemma_complete_step_push(bufm, lo, bytes, ci, sf, sl, w, m, sp);
            } else {
                assert forall|p: int| !emit_ok(ci, n, p, m, sf, sl, w) by { // OBL C01.tok.complete
                    if is_run(ci, p, m) { lemma_run_unique(ci, p, sp, m); }
                }
                lemma_complete_step_none(bufm, lo, bytes, ci, sf, sl, w, m);
            }
        } else {
            assert forall|p: int| !emit_ok(ci, n, p, m, sf, sl, w) by { if is_run(ci, p, m) { assert(allowed(ci, m - 1)); } }
            lemma_complete_step_none(bufm, lo, bytes, ci, sf, sl, w, m);
        }
    }
//@ ENDFNEND
//@ AFTER
    start = i;
//@ AT
                proof { sp = j; }
//@ ENDAFTER
//@END

//@EXTRACT src/utils.rs :: fn tokenize_pooled
//@ SAFETY C01.tok_pooled.safety
//@ SUBST R3
    &is_allowed_filter,
//@ WITH
//@ ENDSUBST
//@ SPEC
    ensures
        final(tokens_buffer)@.len() >= old(tokens_buffer)@.len()
            && final(tokens_buffer)@.subrange(0, old(tokens_buffer)@.len() as int) =~= old(tokens_buffer)@,
        // request URLs: every maximal run of >= 2 bytes is a token ('*' is a literal character there)
        sound_upto(final(tokens_buffer)@, old(tokens_buffer)@.len() as int, pattern.spec_bytes(), ci_of(pattern.spec_bytes()), false, false, false), // OBL C01.tok_pooled.sound
        final(tokens_buffer)@.len() < TOKENS_MAX ==>
            complete_upto(final(tokens_buffer)@, old(tokens_buffer)@.len() as int, pattern.spec_bytes(), ci_of(pattern.spec_bytes()), false, false, false,
                          ci_of(pattern.spec_bytes()).len() as int + 1), // OBL C01.tok_pooled.complete
//@ ENDSPEC
//@END

//@EXTRACT src/utils.rs :: fn tokenize
//@ RET r
//@ SAFETY C01.tokenize.safety
//@ SUBST R3
    &is_allowed_filter,
//@ WITH
//@ ENDSUBST
//@ SPEC
    ensures
        sound_upto(r@, 0, pattern.spec_bytes(), ci_of(pattern.spec_bytes()), false, false, true), // OBL C01.tokenize.sound
        r@.len() < TOKENS_MAX ==> complete_upto(r@, 0, pattern.spec_bytes(), ci_of(pattern.spec_bytes()), false, false, true, ci_of(pattern.spec_bytes()).len() as int + 1), // OBL C01.tokenize.complete
//@ ENDSPEC
//@END

//@EXTRACT src/utils.rs :: fn tokenize_filter
//@ RET r
//@ SAFETY C01.tokenize_filter.safety
//@ SUBST R3
    &is_allowed_filter,
//@ WITH
//@ ENDSUBST
//@ SPEC
    ensures
        // rule patterns: '*' is a wildcard, first / last token dropped on request
        sound_upto(r@, 0, pattern.spec_bytes(), ci_of(pattern.spec_bytes()), skip_first_token, skip_last_token, true), // OBL C01.tokenize_filter.sound
        r@.len() < TOKENS_MAX ==> complete_upto(r@, 0, pattern.spec_bytes(), ci_of(pattern.spec_bytes()), skip_first_token, skip_last_token, true,
                                                ci_of(pattern.spec_bytes()).len() as int + 1), // OBL C01.tokenize_filter.complete
//@ ENDSPEC
//@END

proof fn vf_canary() ensures false {}

} // verus!
fn main() {}
