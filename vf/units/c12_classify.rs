// Unit c12_classify — C12: "websocket schemes force the websocket type, and only http, https, ws and wss requests are eligible
// for matching" — the classification block of Request::from_detailed_parameters (request.rs), for EVERY scheme text (the Kani
// harness c03_request_classify covers the alias table x 9 schemes and replays on the real crate; this contract is over all
// strings).  R7 block lift: the block's free variables become parameters.
#![feature(pattern)]
#![feature(allocator_api)]
use vstd::prelude::*;
use vstd::string::*;
use vstd::slice::*;
use core::str::pattern::Pattern;

verus! {

//@INCLUDE shims/strings.rs
broadcast use {vf_str::pat_prefix_str, vf_str::pat_suffix_str, vf_str::pat_prefix_ascii_char, vf_str::ascii_text_bytes};

//@EXTRACT src/request.rs :: enum RequestType
//@ ATTR #[derive(Clone, Copy)]
//@END

// the request type named by the caller's type string (cpt_match_type: a table of aliases; Kani harness / unit c03_*)
pub uninterp spec fn cpt_spec(raw_type: Seq<char>) -> RequestType;
#[verifier::external_body]
fn cpt_match_type(raw_type: &str) -> (r: RequestType) ensures r == cpt_spec(raw_type@) { unimplemented!() }

fn vf_classify(raw_type: &str, schema: &str) -> (r: (RequestType, bool, bool, bool))
    ensures
        // a URL without ':' counts as https
        schema@.len() == 0 ==> r == (cpt_spec(raw_type@), false, true, true), // OBL C12.classify.no_scheme
        schema@.len() > 0 ==> r.1 == (schema@ == "http"@), // OBL C12.classify.http
        schema@.len() > 0 ==> r.2 == (schema@ == "https"@), // OBL C12.classify.https
        // only http, https, ws and wss requests are eligible for matching
        schema@.len() > 0 ==> r.3 == (schema@ == "http"@ || schema@ == "https"@ || schema@ == "ws"@ || schema@ == "wss"@), // OBL C12.classify.supported
        // websocket schemes force the websocket type; nothing else does
        schema@.len() > 0 ==> r.0 == (if schema@ == "ws"@ || schema@ == "wss"@ { RequestType::Websocket } else { cpt_spec(raw_type@) }), // OBL C12.classify.websocket_forced
{
    proof { reveal_strlit("http"); reveal_strlit("https"); reveal_strlit("ws"); reveal_strlit("wss"); }
//@EXTRACT src/request.rs :: impl Request :: fn from_detailed_parameters
//@ BODYONLY
//@ SAFETY C12.classify.safety
//@ FROM
        let is_http: bool;
//@ ENDFROM
//@ TO
                request_type = cpt_match_type(raw_type);
            }
        }
//@ ENDTO
//@END
    (request_type, is_http, is_https, is_supported)
}

proof fn vf_canary() ensures false {}

} // verus!
fn main() {}
