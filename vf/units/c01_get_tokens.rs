// Unit c01_get_tokens — C01.3: every token a rule is indexed under is guaranteed to be among the
// probe tokens of every request the rule matches: (a) its single initiator domain, (b) an admissible
// token of its pattern under the anchor-derived skip rules, (c) a token of its hostname, (d) its
// removeparam name, (e) its only scheme; or (f) one group per included domain.
#![feature(pattern)]
#![feature(allocator_api)]
use vstd::prelude::*;
use vstd::string::*;
use vstd::slice::*;
use core::str::pattern::Pattern;

verus! {

//@INCLUDE shims/strings.rs
//@INCLUDE shims/filter_items.rs
//@INCLUDE shims/std_extra.rs
//@INCLUDE shims/token_spec.rs

//@EXTRACT src/filters/network.rs :: const TOKENS_BUFFER_SIZE
//@END

// ---- contracts proved in unit c01_tokenizer --------------------------------------------------------
#[verifier::external_body]
pub fn fast_hash(input: &str) -> (r: Hash) ensures r == hash_spec(input.spec_bytes()) { unimplemented!() }

#[verifier::external_body]
pub fn tokenize(pattern: &str) -> (r: Vec<Hash>)
    ensures sound_upto(r@, 0, pattern.spec_bytes(), ci_of(pattern.spec_bytes()), false, false, true)
{ unimplemented!() }

#[verifier::external_body]
pub fn tokenize_filter(pattern: &str, skip_first_token: bool, skip_last_token: bool) -> (r: Vec<Hash>)
    ensures sound_upto(r@, 0, pattern.spec_bytes(), ci_of(pattern.spec_bytes()), skip_first_token, skip_last_token, true)
{ unimplemented!() }

// R9/R6: `VALID_PARAM.is_match(..)` (Lazy<Regex>) and `to_ascii_lowercase()`
pub uninterp spec fn valid_param_spec(s: Seq<char>) -> bool;
pub uninterp spec fn lower_spec(s: Seq<char>) -> Seq<char>;
#[verifier::external_body]
fn vf_valid_param(s: &String) -> (r: bool) ensures r == valid_param_spec(s@) { unimplemented!() }
#[verifier::external_body]
fn vf_lower(s: &String) -> (r: String) ensures r@ == lower_spec(s@) { unimplemented!() }

// R6: `.iter().map(|&d| vec![d]).collect()` — one singleton group per included domain
#[verifier::external_body]
fn vf_singletons(v: &Vec<Hash>) -> (r: Vec<Vec<Hash>>)
    ensures r@.len() == v@.len(), forall|i: int| 0 <= i < v@.len() ==> (#[trigger] r@[i])@ =~= seq![v@[i]]
{ v.iter().map(|&d| vec![d]).collect() }

pub open spec fn sbs(s: String) -> Seq<u8> { vstd::utf8::encode_utf8(s@) }

// which tokens of a pattern are guaranteed to be whole tokens of any matching URL:
// the first only if the pattern is pinned on the left, the last only if pinned on the right
pub open spec fn sound_token(f: NetworkFilter, t: Hash) -> bool {
    // (a) the only included initiator domain (no exclusions)
    (f.opt_domains is Some && f.opt_not_domains is None && f.opt_domains->Some_0@.len() == 1 && t == f.opt_domains->Some_0@[0])
    // (b) pattern token
    || (f.filter is Simple && !f.mask.has(NetworkFilterMask::IS_COMPLETE_REGEX)
        && tok_in(t, sbs(f.filter->Simple_0), !f.mask.has(NetworkFilterMask::IS_LEFT_ANCHOR), !f.mask.has(NetworkFilterMask::IS_RIGHT_ANCHOR), true))
    // (c) hostname token (not for `||host*` forms)
    || (!f.mask.has(NetworkFilterMask::IS_HOSTNAME_REGEX) && f.hostname is Some && tok_in(t, sbs(f.hostname->Some_0), false, false, true))
    // (d) removeparam name
    || (f.mask.has(NetworkFilterMask::IS_REMOVEPARAM) && f.modifier_option is Some && valid_param_spec(f.modifier_option->Some_0@)
        && tok_in(t, vstd::utf8::encode_utf8(lower_spec(f.modifier_option->Some_0@)), false, false, true))
    // (e) scheme token, when the rule applies to exactly one of http / https
    || (f.mask.has(NetworkFilterMask::FROM_HTTP) && !f.mask.has(NetworkFilterMask::FROM_HTTPS) && t == hash_spec("http".spec_bytes()))
    || (f.mask.has(NetworkFilterMask::FROM_HTTPS) && !f.mask.has(NetworkFilterMask::FROM_HTTP) && t == hash_spec("https".spec_bytes()))
}

pub open spec fn all_sound(f: NetworkFilter, ts: Seq<Hash>) -> bool { forall|x: int| 0 <= x < ts.len() ==> sound_token(f, #[trigger] ts[x]) }

impl NetworkFilter {
//@EXTRACT src/filters/network.rs :: impl NetworkFilter :: fn get_tokens
//@ RET r
//@ SAFETY C01.get_tokens.safety
//@ SPEC
    ensures
        // either one group of sound tokens (empty = the fallback bucket 0, probed by every request) ...
        (r@.len() == 1 && all_sound(*self, r@[0]@)) // OBL C01.get_tokens.sound
        // ... or, when the rule has no token of its own, exactly one singleton group per included domain
        || (self.opt_domains is Some && self.opt_not_domains is None && r@.len() == self.opt_domains->Some_0@.len()
            && forall|i: int| 0 <= i < r@.len() ==> (#[trigger] r@[i])@ =~= seq![self.opt_domains->Some_0@[i]]), // OBL C01.get_tokens.sound
//@ ENDSPEC
//@ BEFORE
    match &self.filter
//@ AT
        proof { assert(all_sound(*self, tokens@)); } // OBL C01.get_tokens.sound
//@ ENDBEFORE
//@ BEFORE
    if !self.mask.contains(NetworkFilterMask::IS_HOSTNAME_REGEX)
//@ AT
        proof { assert(all_sound(*self, tokens@)); } // OBL C01.get_tokens.sound
//@ ENDBEFORE
//@ BEFORE
    if tokens.is_empty() && self.mask.contains(NetworkFilterMask::IS_REMOVEPARAM)
//@ AT
        proof { assert(all_sound(*self, tokens@)); } // OBL C01.get_tokens.sound
//@ ENDBEFORE
//@ BEFORE
    if tokens.is_empty() && self.opt_domains.is_some()
//@ AT
        proof { assert(all_sound(*self, tokens@)); } // OBL C01.get_tokens.sound
//@ ENDBEFORE
//@ SUBST R1
    utils::tokenize_filter(
//@ WITH
    tokenize_filter(
//@ ENDSUBST
//@ SUBST R1*
    utils::tokenize(
//@ WITH
    tokenize(
//@ ENDSUBST
//@ SUBST R1*
    utils::fast_hash(
//@ WITH
    fast_hash(
//@ ENDSUBST
//@ SUBST R8
    .map(|d| d.len())
//@ WITH
    .map(|d: &Vec<Hash>| -> (n: usize) ensures n == d@.len() { d.len() })
//@ ENDSUBST
//@ SUBST R9
    VALID_PARAM.is_match(removeparam)
//@ WITH
    vf_valid_param(removeparam)
//@ ENDSUBST
//@ SUBST R6
    removeparam.to_ascii_lowercase()
//@ WITH
    vf_lower(removeparam)
//@ ENDSUBST
//@ REPLACE R6
            self.opt_domains
                .as_ref()
                .unwrap_or(&vec![])
//@ UPTO
                .collect()
//@ WITH
            vf_singletons(self.opt_domains.as_ref().unwrap())
//@ ENDREPLACE
//@END
}

proof fn vf_canary() ensures false {}

} // verus!
fn main() {}
