// Unit c08_shape — C08.2 / C09.3: wire-shape lemmas computed from the struct text of /repo on every run.
//  * rmp-serde writes a struct as the array of its fields: the Serialize and Deserialize structs must
//    list the same fields in the same order (modulo a leading `_` on unused fields);
//  * every hash container that is serialized goes through an ordered view (stabilize_*).
use vstd::prelude::*;

verus! {

//@FIELDS src/data_format/v0.rs :: struct SerializeFormat AS ser_engine
//@FIELDS src/data_format/v0.rs :: struct DeserializeFormat AS de_engine
//@FIELDS src/data_format/v0.rs :: struct NetworkFilterV0SerializeFmt AS ser_filter
//@FIELDS src/data_format/v0.rs :: struct NetworkFilterV0DeserializeFmt AS de_filter
//@FIELDS src/data_format/v0.rs :: fn serialize_v0_network_filter_list :: struct NetworkFilterListV0SerializeFmt AS ser_list
//@FIELDS src/data_format/v0.rs :: struct NetworkFilterListV0DeserializeFmt AS de_list
//@FIELDS src/data_format/v0.rs :: struct LegacyHostnameRuleDb AS legacy_db
//@FIELDS src/data_format/v0.rs :: struct LegacyRedirectResourceStorage AS legacy_redirects
//@FIELDS src/data_format/v0.rs :: struct LegacyScriptletResourceStorage AS legacy_scriptlets
//@FIELDS src/network_filter_list.rs :: struct NetworkFilterList AS filter_list

pub open spec fn same_names(a: Seq<(Seq<char>, bool, bool)>, b: Seq<(Seq<char>, bool, bool)>) -> bool {
    a.len() == b.len() && forall|i: int| 0 <= i < a.len() ==> (#[trigger] a[i]).0 == b[i].0
}

pub open spec fn all_stabilized(a: Seq<(Seq<char>, bool, bool)>) -> bool {
    forall|i: int| 0 <= i < a.len() ==> ((#[trigger] a[i]).1 ==> a[i].2)
}

proof fn shape_engine() ensures same_names(ser_engine(), de_engine()) // OBL C08.shape.engine
{ }

proof fn shape_filter() ensures same_names(ser_filter(), de_filter()) // OBL C08.shape.filter
{ }

proof fn shape_list() ensures same_names(ser_list(), de_list()) // OBL C08.shape.list
{ }

// the wire form is POSITIONAL (a struct is the array of its fields): a field that may be left out shifts every later field
pub open spec fn none_skipped(a: Seq<bool>) -> bool { forall|i: int| 0 <= i < a.len() ==> !(#[trigger] a[i]) }
proof fn positional() ensures
    none_skipped(ser_engine_skips()) && none_skipped(de_engine_skips()), // OBL C08.shape.engine_positional
    none_skipped(ser_filter_skips()) && none_skipped(de_filter_skips()), // OBL C08.shape.filter_positional
    none_skipped(ser_list_skips()) && none_skipped(de_list_skips()), // OBL C08.shape.list_positional
{ }

proof fn stabilized() ensures
    all_stabilized(ser_engine()), // OBL C09.stabilizer.engine
    all_stabilized(ser_list()), // OBL C09.stabilizer.list
    all_stabilized(legacy_db()) && all_stabilized(legacy_redirects()) && all_stabilized(legacy_scriptlets()), // OBL C09.stabilizer.legacy
    all_stabilized(filter_list()), // OBL C09.stabilizer.filter_list
{ }

proof fn vf_canary() ensures false {}

} // verus!
fn main() {}
