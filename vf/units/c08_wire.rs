// Unit c08_wire — C08.1: one rule through NetworkFilter -> V0SerializeFmt -> (wire) -> V0DeserializeFmt
// -> NetworkFilter keeps every field (for all field values: unbounded).
#![feature(allocator_api)]
#![feature(const_destruct)]
use vstd::prelude::*;

verus! {

//@INCLUDE shims/filter_items.rs
//@INCLUDE shims/std_extra.rs

pub mod crate_paths {}

//@EXTRACT src/data_format/v0.rs :: struct NetworkFilterV0SerializeFmt
//@ PUBFIELDS
//@ PUB
//@ SUBST R1*
    crate::filters::network::
//@ WITH
//@ ENDSUBST
//@ SUBST R1*
    crate::utils::
//@ WITH
//@ ENDSUBST
//@END

//@EXTRACT src/data_format/v0.rs :: struct NetworkFilterV0DeserializeFmt
//@ PUBFIELDS
//@ SUBST R1*
    crate::filters::network::
//@ WITH
//@ ENDSUBST
//@ SUBST R1*
    crate::utils::
//@ WITH
//@ ENDSUBST
//@END

// T (serde + rmp-serde): a struct is written as the array of its fields and read back position by
// position, so field i of the Serialize struct lands in field i of the Deserialize struct
// (the position-wise agreement of the two field lists is obligation C08.shape below)
pub open spec fn wire(s: NetworkFilterV0SerializeFmt) -> NetworkFilterV0DeserializeFmt {
    NetworkFilterV0DeserializeFmt {
        mask: *s.mask, filter: *s.filter, opt_domains: *s.opt_domains, opt_not_domains: *s.opt_not_domains,
        redirect: *s.redirect, hostname: *s.hostname, csp: *s.csp, _bug: s._bug, tag: *s.tag, raw_line: s.raw_line,
        id: *s.id, opt_domains_union: *s.opt_domains_union, opt_not_domains_union: *s.opt_not_domains_union,
    }
}

// R6: `v.raw_line.as_ref().map(|raw| *raw.clone())` — a copy of the boxed debug text
#[verifier::external_body]
fn vf_raw_line_copy(r: &Option<Box<String>>) -> (o: Option<String>)
    ensures o == (match *r { Some(b) => Some(*b), None => None::<String> })
{ r.as_ref().map(|raw| *raw.clone()) }

#[verifier::external_body]
fn vf_box_opt(r: Option<String>) -> (o: Option<Box<String>>)
    ensures o == (match r { Some(s) => Some(Box::new(s)), None => None::<Box<String>> })
{ r.map(Box::new) }

fn vf_ser<'a>(v: &'a NetworkFilter) -> (r: NetworkFilterV0SerializeFmt<'a>)
    ensures
        *r.mask == v.mask && *r.filter == v.filter && *r.opt_domains == v.opt_domains && *r.opt_not_domains == v.opt_not_domains
            && *r.hostname == v.hostname && *r.tag == v.tag && *r.id == v.id
            && *r.opt_domains_union == v.opt_domains_union && *r.opt_not_domains_union == v.opt_not_domains_union
            && r.raw_line == (match v.raw_line { Some(b) => Some(*b), None => None::<String> }), // OBL C08.wire.ser_fields
        v.mask.has(NetworkFilterMask::IS_REDIRECT) ==> *r.redirect == v.modifier_option, // OBL C08.wire.ser_redirect
        v.mask.has(NetworkFilterMask::IS_CSP) ==> *r.csp == v.modifier_option, // OBL C08.wire.ser_csp
        !v.mask.has(NetworkFilterMask::IS_REDIRECT) ==> *r.redirect is None,
        !v.mask.has(NetworkFilterMask::IS_CSP) ==> *r.csp is None,
{
//@EXTRACT src/data_format/v0.rs :: impl<'a, T> From<&'a T> for NetworkFilterV0SerializeFmt<'a> where T: std::borrow::Borrow<NetworkFilter>, :: fn from
//@ BODYONLY
//@ SAFETY C08.wire.ser.safety
//@ SUBST R3
    let v = v.borrow();
//@ WITH
//@ ENDSUBST
//@ SUBST R6
    v.raw_line.as_ref().map(|raw| *raw.clone())
//@ WITH
    vf_raw_line_copy(&v.raw_line)
//@ ENDSUBST
//@END
}

fn vf_de(v: NetworkFilterV0DeserializeFmt) -> (r: NetworkFilter)
    ensures
        r.mask == v.mask && r.filter == v.filter && r.opt_domains == v.opt_domains && r.opt_not_domains == v.opt_not_domains
            && r.hostname == v.hostname && r.tag == v.tag && r.id == v.id
            && r.opt_domains_union == v.opt_domains_union && r.opt_not_domains_union == v.opt_not_domains_union
            && r.raw_line == (match v.raw_line { Some(s) => Some(Box::new(s)), None => None::<Box<String>> }), // OBL C08.wire.de_fields
        r.modifier_option == (if v.redirect is Some { v.redirect } else { v.csp }), // OBL C08.wire.de_modifier
{
//@EXTRACT src/data_format/v0.rs :: impl From<NetworkFilterV0DeserializeFmt> for NetworkFilter :: fn from
//@ BODYONLY
//@ SAFETY C08.wire.de.safety
//@ SUBST R3*
    Self {
//@ WITH
    NetworkFilter {
//@ ENDSUBST
//@ SUBST R6
    v.raw_line.map(Box::new)
//@ WITH
    vf_box_opt(v.raw_line)
//@ ENDSUBST
//@END
}

// rule well-formedness established by the parser: a modifier value belongs to a modifier kind
pub open spec fn modifier_wf(f: NetworkFilter) -> bool {
    f.modifier_option is Some ==> f.mask.has(NetworkFilterMask::IS_REDIRECT) || f.mask.has(NetworkFilterMask::IS_CSP) || f.mask.has(NetworkFilterMask::IS_REMOVEPARAM)
}

// the round trip, as a lemma over the two contracts
fn vf_roundtrip(f: &NetworkFilter) -> (r: NetworkFilter)
    requires modifier_wf(*f)
    ensures
        r.mask == f.mask && r.filter == f.filter && r.opt_domains == f.opt_domains && r.opt_not_domains == f.opt_not_domains
            && r.hostname == f.hostname && r.tag == f.tag && r.id == f.id && r.raw_line == f.raw_line
            && r.opt_domains_union == f.opt_domains_union && r.opt_not_domains_union == f.opt_not_domains_union, // OBL C08.wire.roundtrip_fields
        (f.mask.has(NetworkFilterMask::IS_REDIRECT) || f.mask.has(NetworkFilterMask::IS_CSP)) ==> r.modifier_option == f.modifier_option, // OBL C08.wire.roundtrip_modifier
        r.modifier_option == f.modifier_option, // OBL C08.wire.roundtrip_modifier_removeparam
{
    let s = vf_ser(f);
    let ghost d = wire(s);
    let d_exec = vf_wire_exec(s);
    vf_de(d_exec)
}

#[verifier::external_body]
fn vf_wire_exec(s: NetworkFilterV0SerializeFmt) -> (d: NetworkFilterV0DeserializeFmt)
    ensures d == wire(s)
{ unimplemented!() }

proof fn vf_canary() ensures false {}

} // verus!
fn main() {}
