// Unit c03_option_text — C03: option text -> option AST (abstract_network.rs: parse_filter_options).  The splitting of
// the option list (',' / leading '~' / first '=') and the domain-list closure chain are lifted (uninterpreted); proved is
// the table: which option name (and alias) gives which option with which polarity, which negations are errors, which
// values are required, and that the first error wins.
#![feature(pattern)]
#![feature(allocator_api)]
use vstd::prelude::*;
use vstd::string::*;
use vstd::slice::*;
use core::str::pattern::Pattern;

verus! {

//@INCLUDE shims/strings.rs

broadcast use {vf_str::pat_prefix_ascii_char, vf_str::str_len_fits, vf_names::str_of_view, vf_names::string_ext, vf_names::vec_of_view, vf_names::vec_ext};

pub mod regex { pub struct Error { pub x: u8 } }

//@EXTRACT src/filters/abstract_network.rs :: enum NetworkFilterOption
//@END
//@EXTRACT src/filters/network.rs :: enum NetworkFilterError
//@END

pub mod vf_names {
    use vstd::prelude::*;
    verus!{
    pub uninterp spec fn str_of(v: Seq<char>) -> String;
    pub broadcast axiom fn str_of_view(v: Seq<char>)
        ensures (#[trigger] str_of(v))@ == v;
    pub broadcast axiom fn string_ext(a: String, b: String)
        requires #[trigger] a@ == #[trigger] b@
        ensures a == b;
    // the Vec value with a given content; Vec values are their content (capacity is not observable)
    pub uninterp spec fn vec_of(s: Seq<(bool, String)>) -> Vec<(bool, String)>;
    pub broadcast axiom fn vec_of_view(s: Seq<(bool, String)>)
        ensures (#[trigger] vec_of(s))@ == s;
    pub broadcast axiom fn vec_ext(a: Vec<(bool, String)>, b: Vec<(bool, String)>)
        requires #[trigger] a@ == #[trigger] b@
        ensures a == b;
    }
}
pub use vf_names::*;

// ---- lifted text handling (T) -----------------------------------------------------------------------------------------
pub uninterp spec fn comma_parts(raw: Seq<char>) -> Seq<&'static str>;
// R5: raw_options.split(',')
#[verifier::external_body]
fn vf_split_commas<'a>(raw: &'a str) -> (r: Vec<&'a str>)
    ensures r@.len() == comma_parts(raw@).len(), forall|i: int| 0 <= i < r@.len() ==> (#[trigger] r@[i]) == comma_parts(raw@)[i]
{ raw.split(',').collect() }

// R6: s.trim_start_matches('~')
pub uninterp spec fn untilde(s: &str) -> &'static str;
#[verifier::external_body]
fn vf_trim_tildes<'a>(s: &'a str) -> (r: &'a str) ensures r == untilde(s) { s.trim_start_matches('~') }

// R6: splitn(2, '=') -> (text before the first '=', text after it or "")
pub uninterp spec fn opt_name(s: &str) -> &'static str;
pub uninterp spec fn opt_value(s: &str) -> &'static str;
#[verifier::external_body]
fn vf_split_eq<'a>(s: &'a str) -> (r: (&'a str, &'a str)) ensures r.0 == opt_name(s), r.1 == opt_value(s) { unimplemented!() }

// R5: value.split('|').map(..).filter(..).collect(): the '|'-separated domain list with '~' entries negated and `/regex/` entries dropped
pub uninterp spec fn domain_list(value: &str) -> Seq<(bool, String)>;
#[verifier::external_body]
fn vf_domains(value: &str) -> (r: Vec<(bool, String)>) ensures r@ == domain_list(value) { unimplemented!() }

// R9: VALID_PARAM.is_match(value)
pub uninterp spec fn valid_param(value: &str) -> bool;
#[verifier::external_body]
fn vf_valid_param(value: &str) -> (r: bool) ensures r == valid_param(value) { unimplemented!() }

// String::from(&str): the same text
#[verifier::external_body]
fn vf_string_from(s: &str) -> (r: String) ensures r@ == s@ { String::from(s) }

// ---- the option table of the statement ----------------------------------------------------------------------------------
pub open spec fn typed(t: spec_fn(bool) -> NetworkFilterOption, negated: bool) -> Result<NetworkFilterOption, NetworkFilterError> { Ok(t(!negated)) }
pub open spec fn plain(o: NetworkFilterOption, negated: bool, e: NetworkFilterError) -> Result<NetworkFilterOption, NetworkFilterError> { if negated { Err(e) } else { Ok(o) } }

// what one `[~]name[=value]` item means
pub open spec fn option_of(name: &str, negated: bool, value: &str) -> Result<NetworkFilterOption, NetworkFilterError> {
    if name == "domain" || name == "from" {
        if domain_list(value).len() == 0 { Err(NetworkFilterError::NoSupportedDomains) } else { Ok(NetworkFilterOption::Domain(vec_of(domain_list(value)))) }
    }
    else if name == "badfilter" { plain(NetworkFilterOption::Badfilter, negated, NetworkFilterError::NegatedBadFilter) }
    else if name == "important" { plain(NetworkFilterOption::Important, negated, NetworkFilterError::NegatedImportant) }
    else if name == "match-case" { plain(NetworkFilterOption::MatchCase, negated, NetworkFilterError::NegatedOptionMatchCase) }
    else if name == "third-party" || name == "3p" { Ok(NetworkFilterOption::ThirdParty(!negated)) }
    else if name == "first-party" || name == "1p" { Ok(NetworkFilterOption::FirstParty(!negated)) }
    else if name == "tag" { plain(NetworkFilterOption::Tag(str_of(value@)), negated, NetworkFilterError::NegatedTag) }
    else if name == "redirect" {
        if negated { Err(NetworkFilterError::NegatedRedirection) } else if value@.len() == 0 { Err(NetworkFilterError::EmptyRedirection) } else { Ok(NetworkFilterOption::Redirect(str_of(value@))) }
    }
    else if name == "redirect-rule" {
        if negated { Err(NetworkFilterError::NegatedRedirection) } else if value@.len() == 0 { Err(NetworkFilterError::EmptyRedirection) } else { Ok(NetworkFilterOption::RedirectRule(str_of(value@))) }
    }
    else if name == "csp" { Ok(NetworkFilterOption::Csp(if value@.len() != 0 { Some(str_of(value@)) } else { None })) }
    else if name == "removeparam" {
        if negated { Err(NetworkFilterError::NegatedRemoveparam) } else if value@.len() == 0 { Err(NetworkFilterError::EmptyRemoveparam) }
        else if !valid_param(value) { Err(NetworkFilterError::RemoveparamRegexUnsupported) } else { Ok(NetworkFilterOption::Removeparam(str_of(value@))) }
    }
    else if name == "generichide" || name == "ghide" { plain(NetworkFilterOption::Generichide, negated, NetworkFilterError::NegatedGenericHide) }
    else if name == "document" || name == "doc" { plain(NetworkFilterOption::Document, negated, NetworkFilterError::NegatedDocument) }
    else if name == "image" { Ok(NetworkFilterOption::Image(!negated)) }
    else if name == "media" { Ok(NetworkFilterOption::Media(!negated)) }
    else if name == "object" || name == "object-subrequest" { Ok(NetworkFilterOption::Object(!negated)) }
    else if name == "other" { Ok(NetworkFilterOption::Other(!negated)) }
    else if name == "ping" || name == "beacon" { Ok(NetworkFilterOption::Ping(!negated)) }
    else if name == "script" { Ok(NetworkFilterOption::Script(!negated)) }
    else if name == "stylesheet" || name == "css" { Ok(NetworkFilterOption::Stylesheet(!negated)) }
    else if name == "subdocument" || name == "frame" { Ok(NetworkFilterOption::Subdocument(!negated)) }
    else if name == "xmlhttprequest" || name == "xhr" { Ok(NetworkFilterOption::XmlHttpRequest(!negated)) }
    else if name == "websocket" { Ok(NetworkFilterOption::Websocket(!negated)) }
    else if name == "font" { Ok(NetworkFilterOption::Font(!negated)) }
    else { Err(NetworkFilterError::UnrecognisedOption) }
}

// one comma-separated item
pub open spec fn item_of(raw: &str) -> Result<NetworkFilterOption, NetworkFilterError> {
    option_of(opt_name(untilde(raw)), raw.spec_bytes().len() > 0 && raw.spec_bytes()[0] == 126u8, opt_value(untilde(raw)))
}

// the items before index n are all fine
pub open spec fn all_ok(parts: Seq<&str>, n: int) -> bool { forall|i: int| 0 <= i < n ==> (#[trigger] item_of(parts[i])) is Ok }

//@EXTRACT src/filters/abstract_network.rs :: fn parse_filter_options
//@ RET r
//@ SAFETY C03.option_text.safety
//@ ATTR #[verifier::loop_isolation(false)]
//@ SPEC
    ensures
        // every item means what the table says, in order
        r is Ok ==> all_ok(comma_parts(raw_options@), comma_parts(raw_options@).len() as int) && r->Ok_0@.len() == comma_parts(raw_options@).len()
            && forall|i: int| 0 <= i < r->Ok_0@.len() ==> Ok::<NetworkFilterOption, NetworkFilterError>(#[trigger] r->Ok_0@[i]) == item_of(comma_parts(raw_options@)[i]), // OBL C03.option_text.table
        // the first item that is not fine decides the error
        r is Err ==> exists|i: int| 0 <= i < comma_parts(raw_options@).len() && all_ok(comma_parts(raw_options@), i)
            && #[trigger] item_of(comma_parts(raw_options@)[i]) == Err::<NetworkFilterOption, NetworkFilterError>(r->Err_0), // OBL C03.option_text.first_error
//@ ENDSPEC
//@ SUBST R5
    for raw_option in raw_options.split(',') {
//@ WITH
    for raw_option in it: vf_split_commas(raw_options)
        invariant
            it.seq().len() == parts.len(), forall|q: int| 0 <= q < parts.len() ==> (#[trigger] it.seq()[q]) == parts[q],
            all_ok(parts, it.index() as int), result@.len() == it.index(),
            forall|i: int| 0 <= i < it.index() ==> Ok::<NetworkFilterOption, NetworkFilterError>(#[trigger] result@[i]) == item_of(parts[i]), // OBL C03.option_text.each
    {
//@ ENDSUBST
//@ LOOPSTART @raw_option.starts_with('~')
        proof { assert(raw_option == parts[it.index() as int]); assert(item_of(raw_option) == item_of(parts[it.index() as int])); }
//@ ENDLOOPSTART
//@ AFTER
    let mut result = vec![];
//@ AT
    let ghost parts = comma_parts(raw_options@);
//@ ENDAFTER
//@ SUBST R6
    raw_option.trim_start_matches('~')
//@ WITH
    vf_trim_tildes(raw_option)
//@ ENDSUBST
//@ REPLACE R6
    let mut option_and_values = maybe_negated_option.splitn(2, '=');
//@ UPTO
    option_and_values.next().unwrap_or_default(),
        );
//@ WITH
    let (option, value) = vf_split_eq(maybe_negated_option);
//@ ENDREPLACE
//@ REPLACE R5
    value
                    .split('|')
//@ UPTO
    .collect();
//@ WITH
    vf_domains(value);
//@ ENDREPLACE
//@ SUBST R6*
    String::from(value)
//@ WITH
    vf_string_from(value)
//@ ENDSUBST
//@ SUBST R9
    VALID_PARAM.is_match(value)
//@ WITH
    vf_valid_param(value)
//@ ENDSUBST
//@END

proof fn vf_canary() ensures false {}

} // verus!
fn main() {}
