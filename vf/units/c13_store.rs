// Unit c13_store — C13 / C18: "provided the resource is loaded" — the resource store (resources/resource_storage.rs).
// The store is a map from names to resources plus a map from aliases to names.  Proved for every store and every resource:
//  * add_resource either fails and changes NOTHING, or adds exactly the resource under its name and exactly its aliases,
//    and only when none of those identifiers was taken;
//  * every alias in the store therefore belongs to a loaded resource that lists it (store_wf is an invariant);
//  * from_resources builds the store from the given resources alone (left fold of add_resource over an empty store), and
//    Engine::use_resources REPLACES the engine's store by it: nothing of the previous store survives;
//  * a lookup by name or alias (get_internal_resource) answers with the loaded resource of that name, or the one an alias belongs to.
use vstd::prelude::*;
use vstd::string::*;
use std::collections::HashMap;

verus! {

pub mod vf_axioms {
    use vstd::prelude::*;
    verus!{
    pub broadcast axiom fn string_key_model()
        ensures #[trigger] vstd::std_specs::hash::obeys_key_model::<String>();
    // a String value is its text
    pub broadcast axiom fn string_ext(a: String, b: String)
        requires #[trigger] a@ == #[trigger] b@
        ensures a == b;
    }
}
broadcast use {vf_axioms::string_key_model, vf_axioms::string_ext, vstd::std_specs::hash::group_hash_axioms, vf_names::str_of_view};

//@EXTRACT src/resources/mod.rs :: struct PermissionMask
//@ ATTR #[derive(Clone, Copy)]
//@ PUBFIELDS
//@END
//@EXTRACT src/resources/mod.rs :: enum MimeType
//@END
//@EXTRACT src/resources/mod.rs :: enum ResourceType
//@END
//@EXTRACT src/resources/mod.rs :: struct Resource
//@END
//@EXTRACT src/resources/resource_storage.rs :: enum AddResourceError
//@END
//@EXTRACT src/resources/resource_storage.rs :: struct ResourceStorage
//@ PUBFIELDS
//@END

// R6: the content validation at the head of add_resource (base64 / utf-8 / dependency support): a function of the resource alone;
// it never touches the store
pub uninterp spec fn content_check(r: Resource) -> Option<AddResourceError>;
#[verifier::external_body]
fn vf_check_content(resource: &Resource) -> (r: Result<(), AddResourceError>)
    ensures match r { Ok(_) => content_check(*resource) is None, Err(e) => content_check(*resource) == Some(e) }
{ unimplemented!() }
// R5: `std::iter::once(&resource.name).chain(resource.aliases.iter())`, materialised
#[verifier::external_body]
fn vf_idents(resource: &Resource) -> (r: Vec<&String>)
    ensures r@.len() == 1 + resource.aliases@.len(), *r@[0] == resource.name, forall|j: int| 1 <= j < r@.len() ==> *(#[trigger] r@[j]) == resource.aliases@[j - 1]
{ std::iter::once(&resource.name).chain(resource.aliases.iter()).collect() }

// ---- the statement ---------------------------------------------------------------------------------------------------------
pub open spec fn taken(st: ResourceStorage, ident: String) -> bool { st.resources@.contains_key(ident) || st.aliases@.contains_key(ident) }
pub open spec fn clash(st: ResourceStorage, r: Resource) -> bool {
    taken(st, r.name) || exists|i: int| 0 <= i < r.aliases@.len() && taken(st, #[trigger] r.aliases@[i])
}
// every alias belongs to a loaded resource that lists it
pub open spec fn store_wf(st: ResourceStorage) -> bool {
    forall|a: String| #[trigger] st.aliases@.contains_key(a) ==>
        st.resources@.contains_key(st.aliases@[a]) && st.resources@[st.aliases@[a]].aliases@.contains(a) && st.resources@[st.aliases@[a]].name == st.aliases@[a]
}
pub open spec fn names_wf(st: ResourceStorage) -> bool { forall|n: String| #[trigger] st.resources@.contains_key(n) ==> st.resources@[n].name == n }
// the aliases map after adding the first n aliases of r: each points to r's name, everything else as before
pub open spec fn aliases_upto(old_aliases: Map<String, String>, r: Resource, n: int) -> Map<String, String>
    decreases n
{
    if n <= 0 { old_aliases } else { aliases_upto(old_aliases, r, n - 1).insert(r.aliases@[n - 1], r.name) }
}
pub open spec fn aliases_after(old_aliases: Map<String, String>, r: Resource) -> Map<String, String> { aliases_upto(old_aliases, r, r.aliases@.len() as int) }
proof fn lemma_upto(old_aliases: Map<String, String>, r: Resource, n: int)
    requires 0 <= n <= r.aliases@.len()
    ensures
        forall|a: String| #[trigger] aliases_upto(old_aliases, r, n).contains_key(a) <==> old_aliases.contains_key(a) || r.aliases@.take(n).contains(a),
        forall|a: String| r.aliases@.take(n).contains(a) ==> #[trigger] aliases_upto(old_aliases, r, n)[a] == r.name,
        forall|a: String| !r.aliases@.take(n).contains(a) ==> #[trigger] aliases_upto(old_aliases, r, n)[a] == old_aliases[a],
    decreases n
{
    if n > 0 {
        lemma_upto(old_aliases, r, n - 1);
        let t0 = r.aliases@.take(n - 1); let t1 = r.aliases@.take(n); let x = r.aliases@[n - 1];
        let m0 = aliases_upto(old_aliases, r, n - 1); let m1 = aliases_upto(old_aliases, r, n);
        assert(m1 == m0.insert(x, r.name));
        assert(t1 =~= t0.push(x));
        assert forall|a: String| t1.contains(a) <==> (t0.contains(a) || a == x) by {
            if t1.contains(a) {
                let i = choose|i: int| 0 <= i < t1.len() && #[trigger] t1[i] == a;
                if i < n - 1 { assert(t0[i] == a); }
            }
            if t0.contains(a) {
                let i = choose|i: int| 0 <= i < t0.len() && #[trigger] t0[i] == a;
                assert(t1[i] == a);
            }
            if a == x { assert(t1[n - 1] == a); }
        }
        assert forall|a: String| #[trigger] m1.contains_key(a) <==> old_aliases.contains_key(a) || t1.contains(a) by {
            assert(m1.contains_key(a) <==> (m0.contains_key(a) || a == x));
        }
        assert forall|a: String| t1.contains(a) implies #[trigger] m1[a] == r.name by {
            if a != x { assert(t0.contains(a)); assert(m0[a] == r.name); }
        }
        assert forall|a: String| !t1.contains(a) implies #[trigger] m1[a] == old_aliases[a] by {
            assert(a != x && !t0.contains(a)); assert(m0[a] == old_aliases[a]);
        }
    } else {
        assert(r.aliases@.take(0).len() == 0);
    }
}
// the views of the store after add_resource(r)
pub open spec fn add_spec(res: Map<String, Resource>, al: Map<String, String>, r: Resource) -> (Map<String, Resource>, Map<String, String>) {
    let st_taken = |id: String| res.contains_key(id) || al.contains_key(id);
    if content_check(r) is Some || st_taken(r.name) || (exists|i: int| 0 <= i < r.aliases@.len() && st_taken(#[trigger] r.aliases@[i])) { (res, al) }
    else { (res.insert(r.name, r), aliases_after(al, r)) }
}
// the left fold of add_spec over a sequence of resources
pub open spec fn fold_add(res: Map<String, Resource>, al: Map<String, String>, rs: Seq<Resource>) -> (Map<String, Resource>, Map<String, String>)
    decreases rs.len()
{
    if rs.len() == 0 { (res, al) } else { let p = fold_add(res, al, rs.drop_last()); add_spec(p.0, p.1, rs.last()) }
}

// R5: the caller's collection, materialised
pub uninterp spec fn items_spec<I>(i: I) -> Seq<Resource>;
#[verifier::external_body]
fn vf_collect<I: IntoIterator<Item = Resource>>(i: I) -> (r: Vec<Resource>) ensures r@ == items_spec(i) { i.into_iter().collect() }
// R6: `.unwrap_or_else(|_e| { #[cfg(test)] eprintln!(..) })` on Result<(), _>: the error is dropped
pub trait VfIgnore { fn vf_ignore(self); }
impl VfIgnore for Result<(), AddResourceError> { fn vf_ignore(self) {} }
// R6: HashMap<String, _>::get(&str): lookup by text
pub mod vf_names {
    use vstd::prelude::*;
    verus!{
    pub uninterp spec fn str_of(t: Seq<char>) -> String;
    pub broadcast axiom fn str_of_view(t: Seq<char>) ensures (#[trigger] str_of(t))@ == t;
    }
}
pub use vf_names::str_of;
#[verifier::external_body]
fn vf_get_resource<'a>(map: &'a HashMap<String, Resource>, name: &str) -> (r: Option<&'a Resource>)
    ensures match r { Some(v) => map@.contains_key(str_of(name@)) && *v == map@[str_of(name@)], None => !map@.contains_key(str_of(name@)) }
{ map.get(name) }
#[verifier::external_body]
fn vf_get_alias<'a>(map: &'a HashMap<String, String>, name: &str) -> (r: Option<&'a String>)
    ensures match r { Some(v) => map@.contains_key(str_of(name@)) && *v == map@[str_of(name@)], None => !map@.contains_key(str_of(name@)) }
{ map.get(name) }
pub open spec fn lookup_spec(st: ResourceStorage, ident: String) -> Option<Resource> {
    if st.resources@.contains_key(ident) { Some(st.resources@[ident]) }
    else if st.aliases@.contains_key(ident) && st.resources@.contains_key(st.aliases@[ident]) { Some(st.resources@[st.aliases@[ident]]) }
    else { None }
}

impl Default for ResourceStorage {
    #[verifier::external_body]
    fn default() -> (r: Self) ensures r.resources@ == Map::<String, Resource>::empty() && r.aliases@ == Map::<String, String>::empty() { unimplemented!() }
}

impl ResourceStorage {
//@EXTRACT src/resources/resource_storage.rs :: impl ResourceStorage :: fn add_resource
//@ RET r
//@ SAFETY C13.store.add_resource.safety
//@ SPEC
        ensures
            // a refused resource leaves the store exactly as it was
            r is Err ==> final(self).resources@ == old(self).resources@ && final(self).aliases@ == old(self).aliases@, // OBL C13.store.failed_add_changes_nothing
            // it is refused exactly when its content is invalid or one of its identifiers is taken
            (r is Err) == (content_check(resource) is Some || clash(*old(self), resource)), // OBL C13.store.refused_iff_invalid_or_clash
            // otherwise exactly this resource and exactly its aliases are added
            r is Ok ==> final(self).resources@ == old(self).resources@.insert(resource.name, resource)
                && final(self).aliases@ =~= aliases_after(old(self).aliases@, resource), // OBL C13.store.added_exactly
            (final(self).resources@, final(self).aliases@) == add_spec(old(self).resources@, old(self).aliases@, resource), // OBL C13.store.add_is_add_spec
            store_wf(*old(self)) && names_wf(*old(self)) ==> store_wf(*final(self)) && names_wf(*final(self)), // OBL C13.store.aliases_belong_to_loaded_resources
//@ ENDSPEC
//@ REPLACE R6
    if let ResourceType::Mime(content_type) = &resource.kind {
//@ UPTO
                let _ = String::from_utf8(decoded)?;
            }
        }
//@ WITH
    vf_check_content(&resource)?;
//@ ENDREPLACE
//@ SUBST R5
    for ident in std::iter::once(&resource.name).chain(resource.aliases.iter()) {
//@ WITH
    for ident in it0: vf_idents(&resource)
        invariant
            *self == *old(self),
            it0.seq().len() == 1 + resource.aliases@.len(), *it0.seq()[0] == resource.name,
            forall|j: int| 1 <= j < it0.seq().len() ==> *(#[trigger] it0.seq()[j]) == resource.aliases@[j - 1],
            it0.index() >= 1 ==> !taken(*self, resource.name), // OBL C13.store.refused_iff_invalid_or_clash
            forall|i: int| 0 <= i < it0.index() - 1 ==> !taken(*self, #[trigger] resource.aliases@[i]), // OBL C13.store.refused_iff_invalid_or_clash
    {
//@ ENDSUBST
//@ BEFORE
    return Err(AddResourceError::NameAlreadyAdded);
//@ AT
                proof {
                    assert(taken(*self, *ident));
                    if it0.index() > 0 { assert(*ident == resource.aliases@[it0.index() - 1]); assert(taken(*self, resource.aliases@[it0.index() - 1])); }
                    assert(clash(*self, resource));
                }
//@ ENDBEFORE
//@ AFTER
                return Err(AddResourceError::NameAlreadyAdded);
            }
        }
//@ AT
        proof { assert(!clash(*self, resource)); }
//@ ENDAFTER
//@ FOREACH @it1 resource.aliases.iter().for_each
            invariant
                self.resources@ == old(self).resources@, // OBL C13.store.added_exactly
                self.aliases@ =~= aliases_upto(old(self).aliases@, resource, it1.index() as int), // OBL C13.store.added_exactly
//@ BODYSTART
//@ BODYEND

//@ ENDFOREACH
//@ BEFORE
    self.resources.insert(resource.name.clone(), resource);
//@ AT
        proof { assert(resource.aliases@.take(resource.aliases@.len() as int) =~= resource.aliases@); lemma_upto(old(self).aliases@, resource, resource.aliases@.len() as int); }
//@ ENDBEFORE
//@END

//@EXTRACT src/resources/resource_storage.rs :: impl ResourceStorage :: fn from_resources
//@ RET r
//@ SAFETY C13.store.from_resources.safety
//@ SPEC
        ensures
            // built from the given resources alone: add_resource applied to each in turn, starting from an empty store
            (r.resources@, r.aliases@) == fold_add(Map::<String, Resource>::empty(), Map::<String, String>::empty(), items_spec(resources)), // OBL C13.store.from_resources.fold
            store_wf(r) && names_wf(r), // OBL C13.store.from_resources.wf
//@ ENDSPEC
//@ SUBST R5
    resources.into_iter()
//@ WITH
    vf_collect(resources)
//@ ENDSUBST
//@ FOREACH @it self_.add_resource(resource)
            invariant
                it.seq() == items_spec(resources),
                (self_.resources@, self_.aliases@) == fold_add(Map::<String, Resource>::empty(), Map::<String, String>::empty(), it.seq().take(it.index() as int)), // OBL C13.store.from_resources.fold
                store_wf(self_) && names_wf(self_), // OBL C13.store.from_resources.wf
//@ BODYSTART
//@ BODYEND
            proof {
                let i = it.index() as int;
                assert(it.seq().take(i + 1).drop_last() =~= it.seq().take(i));
                assert(it.seq().take(i + 1).last() == it.seq()[i]);
            }
//@ ENDFOREACH
//@ REPLACE R6
    .unwrap_or_else(|_e| {
//@ UPTO
    })
//@ WITH
    .vf_ignore()
//@ ENDREPLACE
//@ BEFORE#3
    self_
//@ AT
        proof { assert(items_spec(resources).take(items_spec(resources).len() as int) =~= items_spec(resources)); }
//@ ENDBEFORE
//@END

//@EXTRACT src/resources/resource_storage.rs :: impl ResourceStorage :: fn get_internal_resource
//@ RET r
//@ SAFETY C13.store.lookup.safety
//@ SPEC
        ensures
            // by name first, then through the alias
            (match r { Some(x) => Some(*x), None => None::<Resource> }) == lookup_spec(*self, str_of(resource_ident@)), // OBL C13.store.lookup
            // "provided the resource is loaded": with a well-formed store the answer is a loaded resource that has this name or lists this alias
            store_wf(*self) && names_wf(*self) && r is Some ==> self.resources@.contains_key(r->Some_0.name) && self.resources@[r->Some_0.name] == *r->Some_0
                && (r->Some_0.name@ == resource_ident@ || r->Some_0.aliases@.contains(str_of(resource_ident@))), // OBL C13.store.lookup.loaded
//@ ENDSPEC
//@ SUBST R6
    self.resources.get(resource_ident)
//@ WITH
    vf_get_resource(&self.resources, resource_ident)
//@ ENDSUBST
//@ SUBST R6
    self.aliases.get(resource_ident)
//@ WITH
    vf_get_alias(&self.aliases, resource_ident)
//@ ENDSUBST
//@END
}

// ---- the engine's store ------------------------------------------------------------------------------------------------------
pub struct Blocker { pub x: u8 }
pub struct CosmeticFilterCache { pub x: u8 }
//@EXTRACT src/engine.rs :: struct Engine
//@ PUBFIELDS
//@END
impl Engine {
//@EXTRACT src/engine.rs :: impl Engine :: fn use_resources
//@ SAFETY C13.engine.use_resources.safety
//@ SPEC
        ensures
            // "sets this engine's resources to be only the ones provided": nothing of the previous store survives
            (final(self).resources.resources@, final(self).resources.aliases@)
                == fold_add(Map::<String, Resource>::empty(), Map::<String, String>::empty(), items_spec(resources)), // OBL C13.engine.use_resources.replaces
            store_wf(final(self).resources) && names_wf(final(self).resources), // OBL C13.engine.use_resources.wf
            final(self).blocker == old(self).blocker && final(self).cosmetic_cache == old(self).cosmetic_cache, // OBL C13.engine.use_resources.frame
//@ ENDSPEC
//@END

//@EXTRACT src/engine.rs :: impl Engine :: fn add_resource
//@ RET r
//@ SAFETY C13.engine.add_resource.safety
//@ SPEC
        ensures
            (final(self).resources.resources@, final(self).resources.aliases@) == add_spec(old(self).resources.resources@, old(self).resources.aliases@, resource), // OBL C13.engine.add_resource
            (r is Err) == (content_check(resource) is Some || clash(old(self).resources, resource)), // OBL C13.engine.add_resource
            store_wf(old(self).resources) && names_wf(old(self).resources) ==> store_wf(final(self).resources) && names_wf(final(self).resources), // OBL C13.engine.add_resource
            final(self).blocker == old(self).blocker && final(self).cosmetic_cache == old(self).cosmetic_cache, // OBL C13.engine.add_resource
//@ ENDSPEC
//@ SUBST R1
    crate::resources::AddResourceError
//@ WITH
    AddResourceError
//@ ENDSUBST
//@END
}

proof fn vf_canary() ensures false {}

} // verus!
fn main() {}
