// Unit c09_order — C09 (partial): after fusion the rules of a bucket are re-sorted by id, so the
// serialized order does not depend on hash-map iteration order.
use vstd::prelude::*;

verus! {

//@INCLUDE shims/filter_items.rs

//@EXTRACT src/optimizer.rs :: struct SimplePatternGroup
//@END

pub open spec fn sorted_by_id(s: Seq<NetworkFilter>) -> bool { forall|i: int, j: int| 0 <= i < j < s.len() ==> s[i].id <= s[j].id }

// T: regrouping by key through a HashMap (iteration order unspecified): returns (fused, not fused)
pub uninterp spec fn regroup_spec(filters: Seq<NetworkFilter>) -> (Seq<NetworkFilter>, Seq<NetworkFilter>);

#[verifier::external_body]
fn apply_optimisation(optimization: &SimplePatternGroup, filters: Vec<NetworkFilter>) -> (r: (Vec<NetworkFilter>, Vec<NetworkFilter>))
    ensures r.0@.to_multiset() =~= regroup_spec(filters@).0.to_multiset(), r.1@.to_multiset() =~= regroup_spec(filters@).1.to_multiset()
{ unimplemented!() }

// R6: `v.sort_by_key(|f| f.id)` (T: slice::sort_by_key sorts by the key and permutes)
#[verifier::external_body]
fn vf_sort_by_id(v: &mut Vec<NetworkFilter>)
    ensures sorted_by_id(final(v)@), final(v)@.to_multiset() =~= old(v)@.to_multiset()
{ v.sort_by_key(|f| f.id) }

//@EXTRACT src/optimizer.rs :: fn optimize
//@ RET r
//@ SAFETY C09.optimize.safety
//@ SPEC
    ensures
        sorted_by_id(r@), // OBL C09.optimize.sorted
        r@.to_multiset() =~= regroup_spec(filters@).0.to_multiset().add(regroup_spec(filters@).1.to_multiset()), // OBL C09.optimize.same_rules
//@ ENDSPEC
//@ BEFORE
    optimized.append(&mut fused);
//@ AT
    let ghost f0 = fused@;
    let ghost u0 = unfused@;
//@ ENDBEFORE
//@ BEFORE
    optimized.sort_by_key(|f| f.id);
//@ AT
    proof {
        assert(optimized@ =~= f0 + u0);
        vstd::seq_lib::lemma_multiset_commutative(f0, u0);
    }
//@ ENDBEFORE
//@ SUBST R6
    optimized.sort_by_key(|f| f.id)
//@ WITH
    vf_sort_by_id(&mut optimized)
//@ ENDSUBST
//@END

proof fn vf_canary() ensures false {}

} // verus!
fn main() {}
