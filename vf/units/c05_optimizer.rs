// Unit c05_optimizer — C05: which rules may be fused (select + grouping key) and what fusion produces.
use vstd::prelude::*;

macro_rules! vf_format {
    ($f:expr, $a:expr $(,)?) => { vf_format1($f, &$a) };
    ($f:expr, $a:expr, $b:expr $(,)?) => { vf_format2($f, &$a, &$b) };
    ($f:expr, $a:expr, $b:expr, $c:expr $(,)?) => { vf_format3($f, &$a, &$b, &$c) };
    ($f:expr, $a:expr, $b:expr, $c:expr, $d:expr $(,)?) => { vf_format4($f, &$a, &$b, &$c, &$d) };
}

verus! {

//@INCLUDE shims/filter_items.rs
//@INCLUDE shims/iter.rs
//@INCLUDE shims/format.rs

broadcast use vf_fmt_axioms::fmt_injective;

//@EXTRACT src/optimizer.rs :: struct SimplePatternGroup
//@END

// Everything a verdict reads from a rule besides its pattern text: two rules may be fused only if
// they agree on all of it.  (domains / hostname / redirect / csp are excluded by `select`.)
pub open spec fn homogeneous(a: NetworkFilter, b: NetworkFilter) -> bool {
    a.mask == b.mask && a.tag == b.tag
}

pub open spec fn selectable(f: NetworkFilter) -> bool {
    f.opt_domains is None && f.opt_not_domains is None
    && !f.mask.has(NetworkFilterMask::IS_HOSTNAME_ANCHOR)
    && !f.mask.has(NetworkFilterMask::IS_REDIRECT)
    && !f.mask.has(NetworkFilterMask::IS_CSP)
}

impl SimplePatternGroup {
//@EXTRACT src/optimizer.rs :: impl Optimization for SimplePatternGroup :: fn select
//@ RET r
//@ SAFETY C05.select.safety
//@ SPEC
    ensures r ==> selectable(*filter), // OBL C05.select.eligible
//@ ENDSPEC
//@END
}

pub open spec fn parts(p: FilterPart) -> Seq<String> {
    match p {
        FilterPart::Empty => Seq::empty(),
        FilterPart::Simple(s) => seq![s],
        FilterPart::AnyOf(v) => v@,
    }
}

pub open spec fn flat_parts(fs: Seq<NetworkFilter>, upto: int) -> Seq<String>
    decreases upto
{
    if upto <= 0 { Seq::empty() } else { flat_parts(fs, upto - 1) + parts(fs[upto - 1].filter) }
}

pub open spec fn any_empty(fs: Seq<NetworkFilter>) -> bool { exists|i: int| 0 <= i < fs.len() && (#[trigger] fs[i]).filter is Empty }
pub open spec fn any_flag(fs: Seq<NetworkFilter>, flag: NetworkFilterMask) -> bool { exists|i: int| 0 <= i < fs.len() && (#[trigger] fs[i]).mask.has(flag) }

pub open spec fn set_flag(bits: u32, flag: u32, on: bool) -> u32 { if on { bits | flag } else { bits & !flag } }

#[verifier::external_body]
fn vf_join_raw_lines(filters: &[NetworkFilter]) -> (r: String)
{ unimplemented!() }

impl SimplePatternGroup {
//@EXTRACT src/optimizer.rs :: impl Optimization for SimplePatternGroup :: fn fusion
//@ RET r
//@ SAFETY C05.fusion.safety
//@ SPEC
    requires
        filters@.len() > 0,
    ensures
        // everything but the pattern, the two regex bits and the debug text is the first member's
        r.tag == filters@[0].tag && r.opt_domains == filters@[0].opt_domains && r.opt_not_domains == filters@[0].opt_not_domains
            && r.modifier_option == filters@[0].modifier_option && r.hostname == filters@[0].hostname && r.id == filters@[0].id
            && r.opt_domains_union == filters@[0].opt_domains_union && r.opt_not_domains_union == filters@[0].opt_not_domains_union, // OBL C05.fusion.frame
        r.mask.bits == set_flag(set_flag(filters@[0].mask.bits, NetworkFilterMask::IS_REGEX.bits, any_flag(filters@, NetworkFilterMask::IS_REGEX)),
                                NetworkFilterMask::IS_COMPLETE_REGEX.bits, any_flag(filters@, NetworkFilterMask::IS_COMPLETE_REGEX)), // OBL C05.fusion.mask
        // a member that matches everything makes the fused rule match everything
        any_empty(filters@) ==> r.filter is Empty, // OBL C05.fusion.empty_wins
        // otherwise the fused rule carries exactly the members' patterns (any-of)
        !any_empty(filters@) ==> parts(r.filter) =~= flat_parts(filters@, filters@.len() as int), // OBL C05.fusion.patterns
//@ ENDSPEC
//@ SUBST R6*
    filters.iter()
//@ WITH
    vf_iter(filters)
//@ ENDSUBST
//@ CLOSURE? @matches!(f.filter, FilterPart::Empty)
    |f: &NetworkFilter| -> (b: bool) ensures b == (f.filter is Empty)
//@ ENDCLOSURE
//@ SUBST R8
    |f| f.is_complete_regex()
//@ WITH
    |f: &NetworkFilter| -> (b: bool) ensures b == f.mask.has(NetworkFilterMask::IS_COMPLETE_REGEX) { f.is_complete_regex() }
//@ ENDSUBST
//@ SUBST R8
    for f in filters
//@ WITH
    for f in it: filters
//@ ENDSUBST
//@ LOOP 1
                invariant
                    it.seq().len() == filters@.len(),
                    forall|i: int| 0 <= i < filters@.len() ==> *#[trigger] it.seq()[i] == filters@[i],
                    flat_patterns@ =~= flat_parts(filters@, it.index() as int),
//@ ENDLOOP
//@ REPLACE R6
                filters
                    .iter()
                    .flat_map(
//@ UPTO
                    .join(" <+> ")
//@ WITH
                vf_join_raw_lines(filters)
//@ ENDREPLACE
//@END
}

// self-composition of group_by_criteria: its body is extracted twice (the second copy with the
// parameter renamed) so that "equal keys => homogeneous rules" is an assertion over the real text
fn vf_two_keys(filter: &NetworkFilter, filter2: &NetworkFilter)
{
    let k1: String = {
//@EXTRACT src/optimizer.rs :: impl Optimization for SimplePatternGroup :: fn group_by_criteria
//@ BODYONLY
//@ SUBST R6
    format!
//@ WITH
    vf_format!
//@ ENDSUBST
//@END
    };
    let k2: String = {
//@EXTRACT src/optimizer.rs :: impl Optimization for SimplePatternGroup :: fn group_by_criteria
//@ BODYONLY
//@ SUBST R6
    format!
//@ WITH
    vf_format!
//@ ENDSUBST
//@ SUBST R3*
    filter
//@ WITH
    filter2
//@ ENDSUBST
//@END
    };
    assert(k1@ == k2@ ==> homogeneous(*filter, *filter2)); // OBL C05.key.homogeneous
}

proof fn vf_canary() ensures false {}

} // verus!
fn main() {}
