// Unit c17_generic — C17: generic (unscoped) hide selectors: every plain selector is filed in exactly one store
// (simple/complex class, simple/complex id, or the misc store served with the per-site resources), and the class/id
// lookup returns exactly the unexcepted selectors filed under the given names.
// The leading-key extraction itself (three regexes + CSS unescaping) is NOT under contract: key_spec is uninterpreted.
#![feature(pattern)]
#![feature(allocator_api)]
use vstd::prelude::*;
use vstd::string::*;
use vstd::slice::*;
use core::str::pattern::Pattern;
use std::collections::{HashMap, HashSet};

macro_rules! vf_format {
    ($f:expr, $a:expr $(,)?) => { vf_format1($f, &$a) };
}

verus! {

pub mod vf_axioms {
    use vstd::prelude::*;
    verus!{
    pub broadcast axiom fn string_key_model()
        ensures #[trigger] vstd::std_specs::hash::obeys_key_model::<String>();
    }
}
broadcast use {vf_axioms::string_key_model, vstd::std_specs::hash::group_hash_axioms, vf_str::pat_prefix_ascii_char, vf_str::ascii_byte_boundaries, vf_str::str_ends_are_boundaries, vf_str::str_len_fits, vf_str::utf8_encode_injective, vf_str::string_ext, vf_names::str_of_view, vf_names::fmt_dot, vf_names::fmt_hash};

//@INCLUDE shims/strings.rs
//@INCLUDE shims/format.rs


pub type Hash = u64;

//@EXTRACT src/resources/mod.rs :: struct PermissionMask
//@ ATTR #[derive(Clone, Copy)]
//@ PUBFIELDS
//@END
//@EXTRACT src/cosmetic_filter_cache.rs :: struct HostnameFilterBin
//@END
//@EXTRACT src/cosmetic_filter_cache.rs :: struct HostnameRuleDb
//@END
//@EXTRACT src/cosmetic_filter_cache.rs :: struct CosmeticFilterCache
//@ PUBFIELDS
//@END

// ---- trusted neighbours ---------------------------------------------------------------------------------------------
pub struct CosmeticFilter { pub x: u8 }
pub uninterp spec fn plain_sel(rule: CosmeticFilter) -> Option<Seq<u8>>;
impl CosmeticFilter {
    // T (filters/cosmetic.rs): the selector text of a rule that is a single plain CSS selector
    #[verifier::external_body]
    pub fn plain_css_selector(&self) -> (r: Option<&str>)
        ensures match r { Some(s) => plain_sel(*self) == Some(s.spec_bytes()), None => plain_sel(*self) is None }
    { unimplemented!() }
}

pub open spec fn sbytes(s: String) -> Seq<u8> { vstd::utf8::encode_utf8(s@) }

// T (three regexes + CSS unescaping, cosmetic_filter_cache.rs:563-613): the leading `.class` / `#id` token of a selector,
// unescaped; starts with the selector's own first character and names something
pub uninterp spec fn key_spec(selector: Seq<u8>) -> Option<Seq<u8>>;
#[verifier::external_body]
fn key_from_selector(selector: &str) -> (r: Option<String>)
    ensures
        match r { Some(k) => key_spec(selector.spec_bytes()) == Some(sbytes(k)), None => key_spec(selector.spec_bytes()) is None },
        r is Some ==> selector.spec_bytes().len() > 0 && sbytes(r->Some_0).len() > 0 && sbytes(r->Some_0)[0] == selector.spec_bytes()[0],
{ unimplemented!() }

// R6: <str as ToString>::to_string — the same text
#[verifier::external_body]
fn vf_str_to_string(s: &str) -> (r: String)
    ensures r@ == s@
{ s.to_string() }

pub open spec fn bucket_of(m: Map<String, Vec<String>>, k: String) -> Seq<String> { if m.contains_key(k) { m[k]@ } else { Seq::empty() } }

// R7: `if let Some(bucket) = map.get_mut(&k) { bucket.push(v) } else { map.insert(k, vec![v]) }` — append under a key
// (HashMap::get_mut has no vstd specification)
#[verifier::external_body]
fn vf_push_under(map: &mut HashMap<String, Vec<String>>, k: String, v: String)
    ensures appended(old(map)@, final(map)@, k, v)
{ unimplemented!() }

// ---- where the statement says a generic selector lives ---------------------------------------------------------------
pub enum Home { SimpleClass(Seq<u8>), ComplexClass(Seq<u8>), SimpleId(Seq<u8>), ComplexId(Seq<u8>), Misc }

// "whose leading simple class or id selector (after CSS unescaping)": a selector that is nothing but `.name` / `#name` is a
// simple rule under `name`; one that starts with it is a complex rule under `name`; everything else — including a
// selector whose leading token cannot be extracted — must stay reachable through the per-site resources ("never neither")
pub open spec fn home(sel: Seq<u8>) -> Home {
    if sel.len() > 0 && sel[0] == 46u8 {
        match key_spec(sel) { Some(k) => if k == sel { Home::SimpleClass(k.subrange(1, k.len() as int)) } else { Home::ComplexClass(k.subrange(1, k.len() as int)) }, None => Home::Misc }
    } else if sel.len() > 0 && sel[0] == 35u8 {
        match key_spec(sel) { Some(k) => if k == sel { Home::SimpleId(k.subrange(1, k.len() as int)) } else { Home::ComplexId(k.subrange(1, k.len() as int)) }, None => Home::Misc }
    } else { Home::Misc }
}


// the cache after filing `sel` at `h`, and nowhere else
pub open spec fn filed(old: CosmeticFilterCache, new: CosmeticFilterCache, sel: Seq<u8>, h: Home) -> bool {
    &&& new.specific_rules == old.specific_rules
    &&& match h {
        Home::SimpleClass(n) => (exists|x: String| sbytes(x) =~= n && new.simple_class_rules@ == #[trigger] old.simple_class_rules@.insert(x))
            && new.simple_id_rules@ == old.simple_id_rules@ && new.complex_class_rules@ == old.complex_class_rules@ && new.complex_id_rules@ == old.complex_id_rules@ && new.misc_generic_selectors@ == old.misc_generic_selectors@,
        Home::SimpleId(n) => (exists|x: String| sbytes(x) =~= n && new.simple_id_rules@ == #[trigger] old.simple_id_rules@.insert(x))
            && new.simple_class_rules@ == old.simple_class_rules@ && new.complex_class_rules@ == old.complex_class_rules@ && new.complex_id_rules@ == old.complex_id_rules@ && new.misc_generic_selectors@ == old.misc_generic_selectors@,
        Home::ComplexClass(n) => (exists|x: String, v: String| sbytes(x) =~= n && sbytes(v) =~= sel && #[trigger] appended(old.complex_class_rules@, new.complex_class_rules@, x, v))
            && new.simple_class_rules@ == old.simple_class_rules@ && new.simple_id_rules@ == old.simple_id_rules@ && new.complex_id_rules@ == old.complex_id_rules@ && new.misc_generic_selectors@ == old.misc_generic_selectors@,
        Home::ComplexId(n) => (exists|x: String, v: String| sbytes(x) =~= n && sbytes(v) =~= sel && #[trigger] appended(old.complex_id_rules@, new.complex_id_rules@, x, v))
            && new.simple_class_rules@ == old.simple_class_rules@ && new.simple_id_rules@ == old.simple_id_rules@ && new.complex_class_rules@ == old.complex_class_rules@ && new.misc_generic_selectors@ == old.misc_generic_selectors@,
        Home::Misc => (exists|v: String| sbytes(v) =~= sel && new.misc_generic_selectors@ == #[trigger] old.misc_generic_selectors@.insert(v))
            && new.simple_class_rules@ == old.simple_class_rules@ && new.simple_id_rules@ == old.simple_id_rules@ && new.complex_class_rules@ == old.complex_class_rules@ && new.complex_id_rules@ == old.complex_id_rules@,
    }
}
pub open spec fn appended(old: Map<String, Vec<String>>, new: Map<String, Vec<String>>, k: String, v: String) -> bool {
    new.dom() == old.dom().insert(k) && bucket_of(new, k) == bucket_of(old, k).push(v) && forall|k2: String| k2 != k ==> bucket_of(new, k2) == bucket_of(old, k2)
}

impl CosmeticFilterCache {
//@EXTRACT src/cosmetic_filter_cache.rs :: impl CosmeticFilterCache :: fn add_generic_filter
//@ SAFETY C17.add_generic.safety
//@ SPEC
        ensures
            // a rule that is not a plain selector is not generic: nothing changes
            plain_sel(rule) is None ==> *final(self) == *old(self), // OBL C17.add_generic.not_plain
            // "every generic selector is reachable either this way or through the per-site resources, never both and never neither"
            plain_sel(rule) is Some ==> filed(*old(self), *final(self), plain_sel(rule)->Some_0, home(plain_sel(rule)->Some_0)), // OBL C17.add_generic.filed_once
//@ ENDSPEC
//@ REPLACE R7
    if let Some(bucket) = self.complex_class_rules.get_mut(&class) {
//@ UPTO
    self.complex_class_rules.insert(class, vec![selector]);
                    }
//@ WITH
    vf_push_under(&mut self.complex_class_rules, class, selector);
    proof { assert(appended(old(self).complex_class_rules@, self.complex_class_rules@, class, selector)); }
//@ ENDREPLACE
//@ REPLACE R7
    if let Some(bucket) = self.complex_id_rules.get_mut(&id) {
//@ UPTO
    self.complex_id_rules.insert(id, vec![selector]);
                    }
//@ WITH
    vf_push_under(&mut self.complex_id_rules, id, selector);
    proof { assert(appended(old(self).complex_id_rules@, self.complex_id_rules@, id, selector)); }
//@ ENDREPLACE
//@ SUBST R6
    Some(s) => s.to_string(),
//@ WITH
    Some(s) => vf_str_to_string(s),
//@ ENDSUBST
//@ SUBST R6*
    key[1..].to_string()
//@ WITH
    vf_str_to_string(&key.as_str()[1..])
//@ ENDSUBST
//@END
}

// ---- lookup ---------------------------------------------------------------------------------------------------------
pub mod vf_names {
    use vstd::prelude::*;
    use super::vf_fmt_axioms::fmt_spec;
    verus!{
    // the String value with a given text (String values are their text: string_ext)
    pub uninterp spec fn str_of(v: Seq<char>) -> String;
    pub broadcast axiom fn str_of_view(v: Seq<char>)
        ensures (#[trigger] str_of(v))@ == v;
    // T (core::fmt): format!(".{}", s) / format!("#{}", s) is the prefix character followed by s
    pub broadcast axiom fn fmt_dot(c: &str)
        ensures #[trigger] fmt_spec(".{}"@, (c,)) == seq!['.'] + c@;
    pub broadcast axiom fn fmt_hash(c: &str)
        ensures #[trigger] fmt_spec("#{}"@, (c,)) == seq!['#'] + c@;
    }
}
pub use vf_names::*;

// R6: <T as AsRef<str>>::as_ref for the caller's item type
pub uninterp spec fn as_ref_spec<T>(t: T) -> Seq<char>;
#[verifier::external_body]
#[verifier::allow(undeclared_external_trait)]
fn vf_as_ref<T: AsRef<str>>(t: &T) -> (r: &str) ensures r@ == as_ref_spec(*t) { t.as_ref() }

// R5: into_iter() of the caller's collection, materialised
pub uninterp spec fn items_spec<I>(i: I) -> Seq<Seq<char>>;
#[verifier::external_body]
#[verifier::allow(undeclared_external_trait)]
fn vf_collect<T: AsRef<str>, I: IntoIterator<Item = T>>(i: I) -> (r: Vec<T>)
    ensures r@.len() == items_spec(i).len(), forall|j: int| 0 <= j < r@.len() ==> as_ref_spec(#[trigger] r@[j]) == items_spec(i)[j]
{ i.into_iter().collect() }

// R6: HashSet<String>::contains(&str) / HashMap<String, _>::get(&str): lookup by text
#[verifier::external_body]
fn vf_set_has(set: &HashSet<String>, name: &str) -> (r: bool)
    ensures r == set@.contains(str_of(name@))
{ set.contains(name) }
#[verifier::external_body]
fn vf_map_get<'a>(map: &'a HashMap<String, Vec<String>>, name: &str) -> (r: Option<&'a Vec<String>>)
    ensures match r { Some(v) => map@.contains_key(str_of(name@)) && v@ == bucket_of(map@, str_of(name@)), None => !map@.contains_key(str_of(name@)) }
{ map.get(name) }

pub open spec fn unexcepted(b: Seq<String>, exc: Set<String>) -> Seq<String> { b.filter(|s: String| !exc.contains(s)) }

// R5: selectors.extend(bucket.iter().filter(|sel| !exceptions.contains(*sel)).map(|s| s.to_owned()))
#[verifier::external_body]
fn vf_extend_unexcepted(selectors: &mut Vec<String>, bucket: &Vec<String>, exceptions: &HashSet<String>)
    ensures final(selectors)@ == old(selectors)@ + unexcepted(bucket@, exceptions@)
{ selectors.extend(bucket.iter().filter(|sel| !exceptions.contains(*sel)).map(|s| s.to_owned())); }

// what one name seen on the page contributes: the simple rule `.name` unless excepted, then the unexcepted complex
// rules filed under it
pub open spec fn name_part(simple: Set<String>, complex: Map<String, Vec<String>>, exc: Set<String>, prefix: char, name: Seq<char>) -> Seq<String> {
    (if simple.contains(str_of(name)) && !exc.contains(str_of(seq![prefix] + name)) { seq![str_of(seq![prefix] + name)] } else { Seq::<String>::empty() })
    + unexcepted(bucket_of(complex, str_of(name)), exc)
}
pub open spec fn names_part(simple: Set<String>, complex: Map<String, Vec<String>>, exc: Set<String>, prefix: char, names: Seq<Seq<char>>, n: int) -> Seq<String>
    decreases n
{
    if n <= 0 { Seq::empty() } else { names_part(simple, complex, exc, prefix, names, n - 1) + name_part(simple, complex, exc, prefix, names[n - 1]) }
}

impl CosmeticFilterCache {
//@EXTRACT src/cosmetic_filter_cache.rs :: impl CosmeticFilterCache :: fn hidden_class_id_selectors
//@ RET r
//@ SAFETY C17.lookup.safety
//@ ATTR #[verifier::loop_isolation(false)] #[verifier::allow(undeclared_external_trait)]
//@ SPEC
        ensures
            // "exactly the generic hide selectors whose leading simple class or id selector ... is one of the given names, excluding any selector in the exception set"
            r@ == names_part(self.simple_class_rules@, self.complex_class_rules@, exceptions@, '.', items_spec(classes), items_spec(classes).len() as int)
                + names_part(self.simple_id_rules@, self.complex_id_rules@, exceptions@, '#', items_spec(ids), items_spec(ids).len() as int), // OBL C17.lookup.exact
//@ ENDSPEC
//@ SUBST R5
    classes.into_iter()
//@ WITH
    vf_collect(classes)
//@ ENDSUBST
//@ SUBST R5
    ids.into_iter()
//@ WITH
    vf_collect(ids)
//@ ENDSUBST
//@ FOREACH @itc class.as_ref()
            invariant
                itc.seq().len() == items_spec(classes).len(), forall|j: int| 0 <= j < itc.seq().len() ==> as_ref_spec(#[trigger] itc.seq()[j]) == items_spec(classes)[j],
                selectors@ == names_part(self.simple_class_rules@, self.complex_class_rules@, exceptions@, '.', items_spec(classes), itc.index() as int), // OBL C17.lookup.classes
//@ ENDFOREACH
//@ FOREACH @iti id.as_ref()
            invariant
                iti.seq().len() == items_spec(ids).len(), forall|j: int| 0 <= j < iti.seq().len() ==> as_ref_spec(#[trigger] iti.seq()[j]) == items_spec(ids)[j],
                selectors@ == names_part(self.simple_class_rules@, self.complex_class_rules@, exceptions@, '.', items_spec(classes), items_spec(classes).len() as int)
                    + names_part(self.simple_id_rules@, self.complex_id_rules@, exceptions@, '#', items_spec(ids), iti.index() as int), // OBL C17.lookup.ids
//@ ENDFOREACH
//@ SUBST R6
    class.as_ref()
//@ WITH
    vf_as_ref(&class)
//@ ENDSUBST
//@ SUBST R6
    id.as_ref()
//@ WITH
    vf_as_ref(&id)
//@ ENDSUBST
//@ SUBST R6
    self.simple_class_rules.contains(class)
//@ WITH
    vf_set_has(&self.simple_class_rules, class)
//@ ENDSUBST
//@ SUBST R6
    self.simple_id_rules.contains(id)
//@ WITH
    vf_set_has(&self.simple_id_rules, id)
//@ ENDSUBST
//@ SUBST R6
    self.complex_class_rules.get(class)
//@ WITH
    vf_map_get(&self.complex_class_rules, class)
//@ ENDSUBST
//@ SUBST R6
    self.complex_id_rules.get(id)
//@ WITH
    vf_map_get(&self.complex_id_rules, id)
//@ ENDSUBST
//@ SUBST R6*
    format!
//@ WITH
    vf_format!
//@ ENDSUBST
//@ SUBST R5*
    selectors.extend(
                    bucket
                        .iter()
                        .filter(|sel| !exceptions.contains(*sel))
                        .map(|s| s.to_owned()),
                );
//@ WITH
    vf_extend_unexcepted(&mut selectors, bucket, exceptions);
//@ ENDSUBST
//@END
}

proof fn vf_canary() ensures false {}

} // verus!
fn main() {}
