// Unit c11_lists — C11: totality of the metadata cut-off, and the rule-kind / format dispatch of parse_filter.
#![feature(pattern)]
use vstd::prelude::*;
use vstd::string::*;
use vstd::slice::*;
use core::str::pattern::Pattern;

verus! {

//@INCLUDE shims/strings.rs

broadcast use {pat_prefix_ascii_char, pat_suffix_ascii_char, pat_prefix_str, ascii_byte_boundaries, str_len_fits, str_ends_are_boundaries};

// ---- read_list_metadata ------------------------------------------------------------------------------
pub struct FilterListMetadata { pub x: u8 }
impl FilterListMetadata {
    #[verifier::external_body]
    fn try_add(&mut self, line: &str) { unimplemented!() }
}
impl Default for FilterListMetadata { #[verifier::external_body] fn default() -> Self { unimplemented!() } }

// R5: `s.lines()` materialised
#[verifier::external_body]
fn vf_lines(s: &str) -> (r: Vec<&str>) { s.lines().collect() }

//@EXTRACT src/lists.rs :: fn read_list_metadata
//@ SAFETY C11.metadata.safety
//@ R4TAIL
//@ SUBST R5
    list[0..cutoff].lines()
//@ WITH
    vf_lines(&list[0..cutoff])
//@ ENDSUBST
//@ LOOP 1
        invariant cutoff <= list.spec_bytes().len(),
        decreases cutoff,
//@ ENDLOOP
//@END

// ---- parse_filter ---------------------------------------------------------------------------------------
pub struct NetworkFilter { pub x: Ghost<int> }
pub struct CosmeticFilter { pub x: Ghost<int> }
pub struct NetworkFilterError { pub x: u8 }
pub struct CosmeticFilterError { pub x: u8 }
#[derive(Clone, Copy)]
pub struct PermissionMask { pub x: u8 }

//@EXTRACT src/lists.rs :: enum RuleTypes
//@ ATTR #[derive(Clone, Copy)]
//@END
//@EXTRACT src/lists.rs :: enum FilterFormat
//@ ATTR #[derive(Clone, Copy)]
//@END
//@EXTRACT src/lists.rs :: struct ParseOptions
//@ ATTR #[derive(Clone, Copy)]
//@END
//@EXTRACT src/lists.rs :: enum FilterType
//@END
//@EXTRACT src/lists.rs :: enum ParsedFilter
//@END
//@EXTRACT src/lists.rs :: enum FilterParseError
//@END

impl RuleTypes {
//@EXTRACT src/lists.rs :: impl RuleTypes :: fn loads_network_rules
//@ RET r
//@ SAFETY C11.rule_types.network.safety
//@ SPEC
        ensures r == !(self is CosmeticOnly), // OBL C11.rule_types.network
//@ ENDSPEC
//@END
//@EXTRACT src/lists.rs :: impl RuleTypes :: fn loads_cosmetic_rules
//@ RET r
//@ SAFETY C11.rule_types.cosmetic.safety
//@ SPEC
        ensures r == !(self is NetworkOnly), // OBL C11.rule_types.cosmetic
//@ ENDSPEC
//@END
}

// T: the per-kind parsers, kind detection, trimming and whitespace splitting
pub uninterp spec fn detect_spec(s: Seq<char>) -> FilterType;
pub uninterp spec fn net_parse_spec(s: Seq<char>, debug: bool) -> Result<NetworkFilter, NetworkFilterError>;
pub uninterp spec fn hosts_parse_spec(s: Seq<char>, debug: bool) -> Result<NetworkFilter, NetworkFilterError>;
pub uninterp spec fn cos_parse_spec(s: Seq<char>, debug: bool, p: PermissionMask) -> Result<CosmeticFilter, CosmeticFilterError>;
pub uninterp spec fn trim_spec(s: Seq<char>) -> Seq<char>;
pub uninterp spec fn fields_spec(s: Seq<char>) -> Seq<Seq<char>>;

#[verifier::external_body]
fn detect_filter_type(filter: &str) -> (r: FilterType) ensures r == detect_spec(filter@) { unimplemented!() }
#[verifier::external_body]
fn vf_trim(s: &str) -> (r: &str) ensures r@ == trim_spec(s@) { s.trim() }
#[verifier::external_body]
fn find_char(needle: u8, haystack: &[u8]) -> (r: Option<usize>)
    ensures match r {
        Some(i) => i < haystack@.len() && haystack@[i as int] == needle && forall|j: int| 0 <= j < i ==> haystack@[j] != needle,
        None => forall|j: int| 0 <= j < haystack@.len() ==> haystack@[j] != needle,
    }
{ unimplemented!() }

impl NetworkFilter {
    #[verifier::external_body]
    pub fn parse(line: &str, debug: bool, _opts: ParseOptions) -> (r: Result<NetworkFilter, NetworkFilterError>) ensures r == net_parse_spec(line@, debug) { unimplemented!() }
    #[verifier::external_body]
    pub fn parse_hosts_style(hostname: &str, debug: bool) -> (r: Result<NetworkFilter, NetworkFilterError>) ensures r == hosts_parse_spec(hostname@, debug) { unimplemented!() }
}
impl CosmeticFilter {
    #[verifier::external_body]
    pub fn parse(line: &str, debug: bool, p: PermissionMask) -> (r: Result<CosmeticFilter, CosmeticFilterError>) ensures r == cos_parse_spec(line@, debug, p) { unimplemented!() }
}

// R6: `.map(|f| f.into()).map_err(|e| e.into())` — wrap the per-kind result into the common result type
#[verifier::external_body]
fn vf_net(r: Result<NetworkFilter, NetworkFilterError>) -> (o: Result<ParsedFilter, FilterParseError>)
    ensures (o is Ok) == (r is Ok), o is Ok ==> o->Ok_0 == ParsedFilter::Network(r->Ok_0), o is Err ==> o->Err_0 is Network
{ unimplemented!() }
#[verifier::external_body]
fn vf_cos(r: Result<CosmeticFilter, CosmeticFilterError>) -> (o: Result<ParsedFilter, FilterParseError>)
    ensures (o is Ok) == (r is Ok), o is Ok ==> o->Ok_0 == ParsedFilter::Cosmetic(r->Ok_0), o is Err ==> o->Err_0 is Cosmetic
{ unimplemented!() }

// R5: `s.split_whitespace()` as an explicit cursor over its field sequence
pub struct VfFields<'a> { pub rest: Vec<&'a str> }
impl<'a> VfFields<'a> {
    pub open spec fn view(&self) -> Seq<&'a str> { self.rest@ }
    #[verifier::external_body]
    pub fn next(&mut self) -> (r: Option<&'a str>)
        ensures
            old(self)@.len() == 0 ==> r is None && final(self)@ == old(self)@,
            old(self)@.len() > 0 ==> r == Some(old(self)@[0]) && final(self)@ == old(self)@.drop_first(),
    { unimplemented!() }
}
#[verifier::external_body]
fn vf_split_ws<'a>(s: &'a str) -> (r: VfFields<'a>)
    ensures r@.len() == fields_spec(s@).len(), forall|i: int| 0 <= i < r@.len() ==> (#[trigger] r@[i])@ == fields_spec(s@)[i]
{ unimplemented!() }

//@EXTRACT src/lists.rs :: fn parse_filter
//@ RET r
//@ SAFETY C11.parse_filter.safety
//@ SPEC
    ensures
        // "the network-only / cosmetic-only options load no rule of the other kind"
        opts.rule_types is NetworkOnly ==> !(r is Ok && r->Ok_0 is Cosmetic), // OBL C11.parse_filter.network_only
        opts.rule_types is CosmeticOnly ==> !(r is Ok && r->Ok_0 is Network), // OBL C11.parse_filter.cosmetic_only
        // hosts files only ever yield network rules
        opts.format is Hosts ==> !(r is Ok && r->Ok_0 is Cosmetic), // OBL C11.parse_filter.hosts_network
        // standard format: the kind detected decides the parser, and the rule is exactly what that parser returns
        opts.format is Standard && detect_spec(trim_spec(line@)) is Network && !(opts.rule_types is CosmeticOnly) && trim_spec(line@).len() > 0
            ==> (r is Ok) == (net_parse_spec(trim_spec(line@), debug) is Ok) && (r is Ok ==> r->Ok_0 == ParsedFilter::Network(net_parse_spec(trim_spec(line@), debug)->Ok_0)), // OBL C11.parse_filter.standard_network
        opts.format is Standard && detect_spec(trim_spec(line@)) is Cosmetic && !(opts.rule_types is NetworkOnly) && trim_spec(line@).len() > 0
            ==> (r is Ok) == (cos_parse_spec(trim_spec(line@), debug, opts.permissions) is Ok) && (r is Ok ==> r->Ok_0 == ParsedFilter::Cosmetic(cos_parse_spec(trim_spec(line@), debug, opts.permissions)->Ok_0)), // OBL C11.parse_filter.standard_cosmetic
        // "a hosts-format entry behaves exactly like the standard rule ||host^": whatever is accepted is parse_hosts_style of one of the line's fields
        opts.format is Hosts && r is Ok ==> exists|h: Seq<char>| hosts_parse_spec(h, debug) is Ok && r->Ok_0 == ParsedFilter::Network(hosts_parse_spec(h, debug)->Ok_0), // OBL C11.parse_filter.hosts_rule
//@ ENDSPEC
//@ SUBST R6#1
    line.trim()
//@ WITH
    vf_trim(line)
//@ ENDSUBST
//@ SUBST R6
    filter.trim()
//@ WITH
    vf_trim(filter)
//@ ENDSUBST
//@ REPLACE R6
                NetworkFilter::parse(filter, debug, opts)
                    .map(|f| f.into())
//@ UPTO
                    .map_err(|e| e.into())
//@ WITH
                vf_net(NetworkFilter::parse(filter, debug, opts))
//@ ENDREPLACE
//@ REPLACE R6
                CosmeticFilter::parse(filter, debug, opts.permissions)
                    .map(|f| f.into())
//@ UPTO
                    .map_err(|e| e.into())
//@ WITH
                vf_cos(CosmeticFilter::parse(filter, debug, opts.permissions))
//@ ENDREPLACE
//@ REPLACE R6
            NetworkFilter::parse_hosts_style(hostname, debug)
                .map(|f| f.into())
//@ UPTO
                .map_err(|e| e.into())
//@ WITH
            vf_net(NetworkFilter::parse_hosts_style(hostname, debug))
//@ ENDREPLACE
//@ SUBST R5
    filter.split_whitespace()
//@ WITH
    vf_split_ws(filter)
//@ ENDSUBST
//@END

// ---- AbstractNetworkFilter::parse: offset-based slicing of a rule line -----------------------------------
//@EXTRACT src/filters/abstract_network.rs :: enum NetworkFilterLeftAnchor
//@END
//@EXTRACT src/filters/abstract_network.rs :: enum NetworkFilterRightAnchor
//@END
//@EXTRACT src/filters/abstract_network.rs :: struct NetworkFilterPattern
//@ PUBFIELDS
//@END
pub struct NetworkFilterOption { pub x: u8 }
//@EXTRACT src/filters/abstract_network.rs :: struct AbstractNetworkFilter
//@END

// T: option-list parsing (closure/macro based)
pub uninterp spec fn options_spec(s: Seq<u8>) -> Result<Vec<NetworkFilterOption>, NetworkFilterError>;
#[verifier::external_body]
fn parse_filter_options(raw_options: &str) -> (r: Result<Vec<NetworkFilterOption>, NetworkFilterError>)
    ensures r == options_spec(raw_options.spec_bytes())
{ unimplemented!() }

#[verifier::external_body]
fn find_char_reverse(needle: u8, haystack: &[u8]) -> (r: Option<usize>)
    ensures match r {
        Some(i) => i < haystack@.len() && haystack@[i as int] == needle && forall|j: int| i < j < haystack@.len() ==> haystack@[j] != needle,
        None => forall|j: int| 0 <= j < haystack@.len() ==> haystack@[j] != needle,
    }
{ unimplemented!() }

pub open spec fn last_dollar(b: Seq<u8>, i: int) -> bool { 0 <= i < b.len() && b[i] == 36u8 && forall|j: int| i < j < b.len() ==> b[j] != 36u8 }

impl AbstractNetworkFilter {
//@EXTRACT src/filters/abstract_network.rs :: impl AbstractNetworkFilter :: fn parse
//@ RET r
//@ SAFETY C11.abstract_parse.safety
//@ SPEC
    ensures
        // '@@' marks an exception
        r is Ok ==> r->Ok_0.exception == has_prefix(line.spec_bytes(), "@@".spec_bytes()), // OBL C11.abstract_parse.exception
        // the options are the text after the last '$'; a line without '$' has none
        r is Ok ==> (r->Ok_0.options is None <==> forall|j: int| 0 <= j < line.spec_bytes().len() ==> line.spec_bytes()[j] != 36u8), // OBL C11.abstract_parse.options_iff_dollar
        forall|i: int| last_dollar(line.spec_bytes(), i) ==> (r is Err <==> options_spec(line.spec_bytes().subrange(i + 1, line.spec_bytes().len() as int)) is Err), // OBL C11.abstract_parse.err_iff_options_err
//@ ENDSPEC
//@ FNSTART
        proof {
            reveal_strlit("@@"); reveal_strlit("||");
            ascii_text_bytes("@@"); ascii_text_bytes("||");
            assert("@@".spec_bytes() =~= seq![64u8, 64u8]);
            assert("||".spec_bytes() =~= seq![124u8, 124u8]);
        }
//@ ENDFNSTART
//@END
}

proof fn vf_canary() ensures false {}

} // verus!
fn main() {}
