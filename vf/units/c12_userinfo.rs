// Unit c12_userinfo — C12: where the authority's userinfo ends and the host begins (url_parser/parser.rs: Parser::parse_userinfo).
// The character iterator `Input` (a wrapper around str::Chars) is a trusted abstraction: next() yields the characters one by
// one, clone() forks the position, next_utf8() additionally skips tab / newline.  Proved on the real loop: the host text that
// is handed on starts right after the LAST '@' before the first '/', '?' or '#' (or '\' for special schemes), or is the whole
// input if there is none.
use vstd::prelude::*;

verus! {

// ---- the Input abstraction (T) ---------------------------------------------------------------------------------------
pub struct Input<'i> { pub v: Ghost<Seq<char>>, pub p: core::marker::PhantomData<&'i u8> }
pub open spec fn ignorable(c: char) -> bool { c == '\t' || c == '\n' || c == '\r' }
impl<'i> Clone for Input<'i> {
    #[verifier::external_body]
    fn clone(&self) -> (r: Self) ensures r.v@ == self.v@ { unimplemented!() }
}
impl<'i> Input<'i> {
    #[verifier::external_body]
    pub fn next(&mut self) -> (r: Option<char>)
        ensures match r {
            Some(c) => old(self).v@.len() > 0 && c == old(self).v@[0] && final(self).v@ == old(self).v@.subrange(1, old(self).v@.len() as int),
            None => old(self).v@.len() == 0 && final(self).v@ == old(self).v@,
        }
    { unimplemented!() }
    #[verifier::external_body]
    pub fn next_utf8(&mut self) -> (r: Option<(char, &'i str)>)
        ensures match r {
            Some((c, s)) => exists|k: int| 0 <= k < old(self).v@.len() && (forall|j: int| 0 <= j < k ==> ignorable(#[trigger] old(self).v@[j])) && !ignorable(old(self).v@[k])
                && c == old(self).v@[k] && s@ == seq![c] && final(self).v@ == old(self).v@.subrange(k + 1, old(self).v@.len() as int),
            None => forall|j: int| 0 <= j < old(self).v@.len() ==> ignorable(#[trigger] old(self).v@[j]),
        }
    { unimplemented!() }
}

//@EXTRACT src/url_parser/parser.rs :: enum SchemeType
//@ ATTR #[derive(Clone, Copy)]
//@END
impl SchemeType {
//@EXTRACT src/url_parser/parser.rs :: impl SchemeType :: fn is_special
//@ RET r
//@ SAFETY C12.userinfo.is_special.safety
//@ SPEC
        ensures r == !(self is NotSpecial), // OBL C12.userinfo.is_special
//@ ENDSPEC
//@END
}
pub enum ParseError { IdnaError, RelativeUrlWithoutBase, FileUrlNotSupported, ExpectedMoreChars }
pub type ParseResult<T> = Result<T, ParseError>;

//@EXTRACT src/url_parser/parser.rs :: struct Parser
//@END

// R6: String::len / push / extend(utf8_percent_encode(..)) on the serialization buffer (its content is not part of this contract)
#[verifier::external_body]
fn vf_len(s: &String) -> (r: usize) { s.len() }
pub open spec fn is_prefix(p: Seq<char>, t: Seq<char>) -> bool { p.len() <= t.len() && t.take(p.len() as int) =~= p }
#[verifier::external_body]
fn vf_push(s: &mut String, c: char) ensures final(s)@ == old(s)@.push(c) { s.push(c) }
// T: String::extend(percent-encoded pieces) appends
#[verifier::external_body]
fn vf_extend_percent(s: &mut String, utf8_c: &str) ensures is_prefix(old(s)@, final(s)@) { unimplemented!() }
proof fn lemma_prefix_trans(a: Seq<char>, b: Seq<char>, c: Seq<char>)
    requires is_prefix(a, b), is_prefix(b, c)
    ensures is_prefix(a, c)
{
    assert(c.take(a.len() as int) =~= c.take(b.len() as int).take(a.len() as int));
}

// ---- the statement -------------------------------------------------------------------------------------------------------
// the authority ends at the first of these
pub open spec fn ends_authority(c: char, special: bool) -> bool { c == '/' || c == '?' || c == '#' || (special && c == '\\') }
// n is where the authority part of `a` ends
pub open spec fn authority_end(a: Seq<char>, special: bool, n: int) -> bool {
    0 <= n <= a.len() && (forall|j: int| 0 <= j < n ==> !ends_authority(#[trigger] a[j], special)) && (n < a.len() ==> ends_authority(a[n], special))
}
// k is the position of the last '@' of the authority part
pub open spec fn last_at(a: Seq<char>, n: int, k: int) -> bool { 0 <= k < n && a[k] == '@' && forall|j: int| k < j < n ==> #[trigger] a[j] != '@' }

pub open spec fn special(t: SchemeType) -> bool { !(t is NotSpecial) }
// what the scan knows about '@' in a[0..i)
pub open spec fn at_state<'i>(a: Seq<char>, i: int, last_at: Option<(i32, Input<'i>)>) -> bool {
    match last_at {
        None => forall|j: int| 0 <= j < i ==> #[trigger] a[j] != '@',
        Some((k, rem)) => 0 <= k < i && a[k as int] == '@' && (forall|j: int| k < j < i ==> #[trigger] a[j] != '@') && rem.v@ =~= a.subrange(k + 1, a.len() as int),
    }
}

impl Parser {
//@EXTRACT src/url_parser/parser.rs :: impl Parser :: fn parse_userinfo
//@ RET r
//@ SAFETY C12.userinfo.safety
//@ ATTR #[verifier::exec_allows_no_decreases_clause]
//@ SPEC
        requires input.v@.len() < 0x7fff_ffff,
        ensures
            r is Ok ==> exists|n: int| #[trigger] authority_end(input.v@, special(scheme_type), n)
                // no '@' in the authority: the host is the whole authority
                && ((forall|j: int| 0 <= j < n ==> #[trigger] input.v@[j] != '@') ==> r->Ok_0.1.v@ == input.v@)
                // otherwise the host starts right after the LAST '@' of the authority
                && (forall|k: int| #[trigger] last_at(input.v@, n, k) ==> r->Ok_0.1.v@ == input.v@.subrange(k + 1, input.v@.len() as int)), // OBL C12.userinfo.host_after_last_at
            // the normalised URL only grows: what was written before (scheme, "//") stays where it is (unit c12_offsets relies on it)
            r is Ok ==> is_prefix(old(self).serialization@, final(self).serialization@), // OBL C12.userinfo.only_appends
//@ ENDSPEC
//@ FNSTART
        let ghost a = input.v@;
        let ghost s0 = self.serialization@;
        proof { assert(s0.take(s0.len() as int) =~= s0); }
//@ ENDFNSTART
//@ LOOP 1
            invariant_except_break
                remaining.v@ =~= a.subrange(char_count as int, a.len() as int),
            invariant
                0 <= char_count <= a.len(), a.len() < 0x7fff_ffff, input.v@ == a,
                forall|j: int| 0 <= j < char_count ==> !ends_authority(#[trigger] a[j], special(scheme_type)),
                at_state(a, char_count as int, last_at),
            ensures
                0 <= char_count <= a.len(), authority_end(a, special(scheme_type), char_count as int), at_state(a, char_count as int, last_at), input.v@ == a,
//@ ENDLOOP
//@ LOOP 2
            invariant userinfo_char_count >= 0, is_prefix(s0, self.serialization@), // OBL C12.userinfo.only_appends
//@ ENDLOOP
//@ SUBST R6*
    self.serialization.len()
//@ WITH
    vf_len(&self.serialization)
//@ ENDSUBST
//@ SUBST R6
    self.serialization.push(':');
//@ WITH
    vf_push(&mut self.serialization, ':');
//@ ENDSUBST
//@ SUBST R6
    self.serialization.push('@');
//@ WITH
    vf_push(&mut self.serialization, '@');
//@ ENDSUBST
//@ REPLACE R6
    self.serialization
                    .extend(
//@ UPTO
    utf8_percent_encode(utf8_c, USERINFO));
//@ WITH
    vf_extend_percent(&mut self.serialization, utf8_c);
//@ ENDREPLACE
//@END
}

// ---- where the host ends (Parser::parse_host, the scanning loop; R7 block lift) -----------------------------------------------
// R5: input_str.chars(), materialised
#[verifier::external_body]
fn vf_chars(s: &str) -> (r: Vec<char>) ensures r@ == s@ { s.chars().collect() }

// the host ends at the first ':' outside [..], '/', '?', '#' (or '\' for special schemes)
pub open spec fn in_brackets(a: Seq<char>, i: int) -> bool
    decreases i
{
    if i <= 0 { false } else if a[i - 1] == '[' { true } else if a[i - 1] == ']' { false } else { in_brackets(a, i - 1) }
}
pub open spec fn ends_host(a: Seq<char>, i: int, special: bool) -> bool {
    (a[i] == ':' && !in_brackets(a, i)) || (special && a[i] == '\\') || a[i] == '/' || a[i] == '?' || a[i] == '#'
}
pub open spec fn host_end(a: Seq<char>, special: bool, n: int) -> bool {
    0 <= n <= a.len() && (forall|j: int| 0 <= j < n ==> !(#[trigger] ends_host(a, j, special))) && (n < a.len() ==> ends_host(a, n, special))
}

fn vf_host_scan<'i>(input_str: &str, remaining0: Input<'i>, scheme_type: SchemeType) -> (r: (Input<'i>, Ghost<int>))
    requires remaining0.v@ == input_str@, 4 * input_str@.len() <= usize::MAX,   // (assumption: fewer than usize::MAX/4 characters)
    ensures
        host_end(input_str@, special(scheme_type), r.1@), // OBL C12.host.ends_at_first_terminator
        r.0.v@ =~= input_str@.subrange(r.1@, input_str@.len() as int), // OBL C12.host.remaining
{
    let mut remaining = remaining0;
    let ghost a = input_str@;
    let ghost mut n: int = 0;
//@EXTRACT src/url_parser/parser.rs :: impl Parser :: fn parse_host
//@ SAFETY C12.host.scan.safety
//@ FROM
        let mut inside_square_brackets = false;
//@ ENDFROM
//@ TO
            remaining.next();
            bytes += c.len_utf8();
        }
//@ ENDTO
//@ SUBST R5
    for c in input_str.chars() {
//@ WITH
    for c in it: vf_chars(input_str)
        invariant_except_break
            remaining.v@ =~= a.subrange(it.index() as int, a.len() as int),
            inside_square_brackets == in_brackets(a, it.index() as int),
            forall|j: int| 0 <= j < it.index() ==> !(#[trigger] ends_host(a, j, special(scheme_type))),
            n == it.index(),
        invariant
            it.seq() == a, 4 * a.len() <= usize::MAX,
            it.index() <= a.len(), non_ignored_chars <= it.index(), bytes <= 4 * it.index(),
        ensures host_end(a, special(scheme_type), n), remaining.v@ =~= a.subrange(n, a.len() as int),
    {
        proof { n = it.index() as int; }
//@ ENDSUBST
//@ LOOPEND 1
        proof { n = it.index() as int + 1; }
//@ ENDLOOPEND
//@END
    // in parse_host both counters are used as usize (`take(non_ignored_chars)`, `&input_str[..bytes]`)
    let _count: usize = non_ignored_chars;
    let _bytes: usize = bytes;
    (remaining, Ghost(n))
}

proof fn vf_canary() ensures false {}

} // verus!
fn main() {}
