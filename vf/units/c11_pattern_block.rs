// Unit c11_pattern_block — C11 / C02: the pattern / anchor / hostname extraction block of NetworkFilter::parse
// (filters/network.rs, "let (mut filter_index_start, mut filter_index_end) = .." up to the `filter` text; R7 block lift).
// Proved for EVERY pattern string: no slice is taken out of bounds or off a character boundary, no index arithmetic
// overflows; and where the hostname and the pattern body are cut.
#![feature(pattern)]
use vstd::prelude::*;
use vstd::string::*;
use vstd::slice::*;
use core::str::pattern::Pattern;

verus! {

//@INCLUDE shims/strings.rs
//@INCLUDE shims/mask_items.rs

broadcast use {vf_str::pat_prefix_ascii_char, vf_str::pat_suffix_ascii_char, vf_str::pat_prefix_str, vf_str::ascii_byte_boundaries, vf_str::str_ends_are_boundaries, vf_str::str_len_fits, vf_str::utf8_text_of_str};

//@EXTRACT src/filters/abstract_network.rs :: enum NetworkFilterLeftAnchor
//@ PUB
//@END
//@EXTRACT src/filters/abstract_network.rs :: enum NetworkFilterRightAnchor
//@ PUB
//@END

// the part of the parsed rule this block reads (R7: the block's free variables become the wrapper's parameters)
pub struct PatternView { pub left_anchor: Option<NetworkFilterLeftAnchor> }
pub struct ParsedView { pub pattern: PatternView }

// T: memchr::memchr — first occurrence of a byte
#[verifier::external_body]
fn find_char(needle: u8, haystack: &[u8]) -> (r: Option<usize>)
    ensures match r {
        Some(i) => i < haystack@.len() && haystack@[i as int] == needle && forall|j: int| 0 <= j < i ==> haystack@[j] != needle,
        None => forall|j: int| 0 <= j < haystack@.len() ==> haystack@[j] != needle,
    }
{ unimplemented!() }

// the characters that end the host of a `||` rule: '/', '^', '*', and the start of a port, query or fragment ':', '?', '#'
// ("the remainder matching directly after that host": in `||example.com:8080^` the host is example.com - fix 9f00384)
pub open spec fn is_sep(b: u8) -> bool { b == 47u8 || b == 94u8 || b == 42u8 || b == 58u8 || b == 63u8 || b == 35u8 }
pub open spec fn is_plain_sep(b: u8) -> bool { b == 47u8 || b == 58u8 || b == 63u8 || b == 35u8 }
// R9: SEPARATOR.find_at(pattern, start) for the Lazy<Regex> "[/^*:?#]" — the first of these characters at or after `start`
pub struct VfMatch { pub at: usize }
impl VfMatch { pub fn start(&self) -> (r: usize) ensures r == self.at { self.at } }
#[verifier::external_body]
fn vf_first_separator_at(pattern: &str, start: usize) -> (r: Option<VfMatch>)
    requires start <= pattern.spec_bytes().len(), vstd::utf8::is_char_boundary(pattern.spec_bytes(), start as int),
    ensures match r {
        Some(m) => start <= m.at < pattern.spec_bytes().len() && is_sep(pattern.spec_bytes()[m.at as int]) && forall|j: int| start <= j < m.at ==> !is_sep(pattern.spec_bytes()[j]),
        None => forall|j: int| start <= j < pattern.spec_bytes().len() ==> !is_sep(pattern.spec_bytes()[j]),
    }
{ unimplemented!() }
// T (core::str): `pattern[start..].find(['/', ':', '?', '#']).map(|i| i + start)` — the slice needs `start` on a character boundary
#[verifier::external_body]
fn vf_first_plain_separator_at(pattern: &str, start: usize) -> (r: Option<usize>)
    requires start <= pattern.spec_bytes().len(), vstd::utf8::is_char_boundary(pattern.spec_bytes(), start as int),
    ensures match r {
        Some(i) => start <= i < pattern.spec_bytes().len() && is_plain_sep(pattern.spec_bytes()[i as int]) && forall|j: int| start <= j < i ==> !is_plain_sep(pattern.spec_bytes()[j]),
        None => forall|j: int| start <= j < pattern.spec_bytes().len() ==> !is_plain_sep(pattern.spec_bytes()[j]),
    }
{ unimplemented!() }

#[verifier::external_body]
fn vf_string_from(s: &str) -> (r: String) ensures r@ == s@ { String::from(s) }
pub uninterp spec fn lower_spec(s: Seq<char>) -> Seq<char>;
#[verifier::external_body]
fn vf_lower(s: &str) -> (r: String) ensures r@ == lower_spec(s@) { s.to_ascii_lowercase() }

pub open spec fn has_regex_char(b: Seq<u8>) -> bool { exists|j: int| 0 <= j < b.len() && (b[j] == 42u8 || b[j] == 94u8) }

//@EXTRACT src/filters/network.rs :: fn check_is_regex
//@ RET r
//@ SAFETY C11.parse.check_is_regex.safety
//@ SPEC
    ensures r == has_regex_char(filter.spec_bytes()), // OBL C02.parse.check_is_regex
//@ ENDSPEC
//@END

// a bracketed IPv6 literal in front is host text up to its ']' (its colons do not end the host): the search for the end starts at `k`
pub open spec fn literal_skip(b: Seq<u8>, k: int) -> bool {
    if b.len() > 0 && b[0] == 91u8 { (0 <= k < b.len() && b[k] == 93u8 && forall|j: int| 0 <= j < k ==> b[j] != 93u8) || (k == 0 && forall|j: int| 0 <= j < b.len() ==> b[j] != 93u8) }
    else { k == 0 }
}
pub open spec fn no_sep_after_literal(b: Seq<u8>) -> bool {
    exists|k: int| #[trigger] literal_skip(b, k) && 0 < k && forall|j: int| k <= j < b.len() ==> !is_sep(b[j])
}
// where the hostname of a `||` rule ends: at the first character that cannot belong to a host - '/', '^', '*' or the start of a port,
// query or fragment - ('^' and '*' only occur in a wildcard pattern)
pub open spec fn host_cut(b: Seq<u8>, is_regex: bool, c: int) -> bool {
    exists|k: int| #[trigger] literal_skip(b, k) && k <= c <= b.len()
    && (if is_regex { (forall|j: int| k <= j < c ==> !is_sep(b[j])) && (c < b.len() ==> is_sep(b[c])) }
        else { (forall|j: int| k <= j < c ==> !is_plain_sep(b[j])) && (c < b.len() ==> is_plain_sep(b[c])) })
}

// where the pattern body starts once the host part of a `||` rule is taken off: directly at the cut (so a '/' or '^' that ends the host
// belongs to the body), except that a lone '^' after the host is not a body (it becomes "the hostname ends here"), and a `||` rule
// without '/', '^', '*' has no body
pub open spec fn body_after_host(b: Seq<u8>, dp: bool, is_regex: bool, c: int) -> (int, int) {
    let n = b.len() as int;
    if !dp { (0, n) }
    else if is_regex { if c < n && n - c == 1 && b[c] == 94u8 { (n, n) } else if c < n { (c, n) } else { (0, n) } }
    else { if c < n { (c, n) } else { (n, n) } }
}
// "'*' matches any run of characters": a trailing '*' and then a leading '*' of the body add nothing and are dropped
pub open spec fn trimmed(b: Seq<u8>, se: (int, int)) -> (int, int) {
    let (s, e) = se;
    let e2 = if e > s && b.len() > 0 && b[b.len() - 1] == 42u8 { e - 1 } else { e };
    let s2 = if e2 > s && b[s] == 42u8 { s + 1 } else { s };
    (s2, e2)
}
// a left-anchored body that is nothing but a scheme restricts the scheme instead of the text
pub open spec fn is_scheme_only(x: Seq<u8>) -> bool {
    x =~= seq![119u8, 115u8, 58u8, 47u8, 47u8] || x =~= seq![104u8, 116u8, 116u8, 112u8, 58u8, 47u8, 47u8]
    || x =~= seq![104u8, 116u8, 116u8, 112u8, 115u8, 58u8, 47u8, 47u8] || x =~= seq![104u8, 116u8, 116u8, 112u8, 42u8, 58u8, 47u8, 47u8]
}
pub proof fn lemma_scheme_literals()
    ensures
        "ws://".spec_bytes() =~= seq![119u8, 115u8, 58u8, 47u8, 47u8],
        "http://".spec_bytes() =~= seq![104u8, 116u8, 116u8, 112u8, 58u8, 47u8, 47u8],
        "https://".spec_bytes() =~= seq![104u8, 116u8, 116u8, 112u8, 115u8, 58u8, 47u8, 47u8],
        "http*://".spec_bytes() =~= seq![104u8, 116u8, 116u8, 112u8, 42u8, 58u8, 47u8, 47u8],
{
    broadcast use vf_str::ascii_text_bytes;
    reveal_strlit("ws://"); reveal_strlit("http://"); reveal_strlit("https://"); reveal_strlit("http*://");
}

// ---- block A: host part and the range of the body ---------------------------------------------------------------------------
fn vf_pattern_block_a(pattern: &str, parsed: &ParsedView, is_regex: bool, mask0: NetworkFilterMask, hostname0: Option<String>) -> (r: (NetworkFilterMask, Option<String>, usize, usize, Ghost<int>))
    requires is_regex == has_regex_char(pattern.spec_bytes()), hostname0 is None,
    ensures
        // only a `||` rule has a hostname part; it is the pattern text up to the cut
        !(parsed.pattern.left_anchor is Some && parsed.pattern.left_anchor->Some_0 is DoublePipe) ==> r.1 is None, // OBL C02.parse.hostname_only_double_pipe
        // (the one spelling without a host part: a wildcard pattern whose only '*' / '^' sit inside a leading `[...]` - `||[^]` - which
        // keeps its whole text as the body and matches nothing: C10.wf.no_hostname)
        (parsed.pattern.left_anchor is Some && parsed.pattern.left_anchor->Some_0 is DoublePipe) ==>
            (r.1 is Some && host_cut(pattern.spec_bytes(), is_regex, r.4@) && sbytes(r.1->Some_0) == pattern.spec_bytes().subrange(0, r.4@))
            || (r.1 is None && is_regex && r.4@ == 0 && no_sep_after_literal(pattern.spec_bytes())), // OBL C02.parse.hostname_cut
        // where the pattern body lies
        (r.2 as int, r.3 as int) == trimmed(pattern.spec_bytes(), body_after_host(pattern.spec_bytes(),
            parsed.pattern.left_anchor is Some && parsed.pattern.left_anchor->Some_0 is DoublePipe, is_regex, r.4@)), // OBL C02.parse.body.range
        // (what block B relies on)
        r.2 <= r.3 <= pattern.spec_bytes().len()
            && (r.3 > r.2 ==> vstd::utf8::is_char_boundary(pattern.spec_bytes(), r.2 as int) && vstd::utf8::is_char_boundary(pattern.spec_bytes(), r.3 as int)), // OBL C11.parse.block_a.boundaries
{
    let mut mask = mask0;
    let mut hostname = hostname0;
    let ghost mut cut: int = 0;
//@EXTRACT src/filters/network.rs :: impl NetworkFilter :: fn parse
//@ SAFETY C11.parse.pattern_block_a.safety
//@ FROM
        let (mut filter_index_start, mut filter_index_end) = (0, pattern.len());
//@ ENDFROM
//@ TO
            mask.set(NetworkFilterMask::IS_LEFT_ANCHOR, false);
            filter_index_start += 1;
        }
//@ ENDTO
//@ R10MAPORELSE
//@ AFTER
    hostname = Some(String::from(&pattern[..first_separator_start]));
//@ AT
    proof { cut = first_separator_start as int; assert(literal_skip(pattern.spec_bytes(), after_ipv6_literal as int)); }
//@ ENDAFTER
//@ AFTER
    hostname = Some(String::from(&pattern[..i]));
//@ AT
    proof { cut = i as int; assert(literal_skip(pattern.spec_bytes(), after_ipv6_literal as int)); }
//@ ENDAFTER
//@ AFTER
    hostname = Some(String::from(pattern));
//@ AT
    proof { cut = pattern.spec_bytes().len() as int; assert(pattern.spec_bytes().subrange(0, cut) =~= pattern.spec_bytes()); assert(literal_skip(pattern.spec_bytes(), after_ipv6_literal as int)); }
//@ ENDAFTER
//@ BEFORE
    if let Some(first_separator) = SEPARATOR.find_at(pattern, after_ipv6_literal) {
//@ AT
    proof {
        let b = pattern.spec_bytes();
        let k = after_ipv6_literal as int;
        assert(literal_skip(b, k));
        // when nothing is found from k on, k lies behind a leading `[...]`: a wildcard pattern has a '*' or '^' somewhere
        if forall|j: int| k <= j < b.len() ==> !is_sep(b[j]) {
            if k == 0 {
                let j = choose|j: int| 0 <= j < b.len() && (b[j] == 42u8 || b[j] == 94u8);
                assert(is_sep(b[j]));
                assert(false);
            }
            assert(no_sep_after_literal(b));
        }
    }
//@ ENDBEFORE
//@ SUBST R9
    static SEPARATOR: Lazy<Regex> = Lazy::new(|| Regex::new("[/^*:?#]").unwrap());
//@ WITH
//@ ENDSUBST
//@ SUBST R9
    SEPARATOR.find_at(pattern, after_ipv6_literal)
//@ WITH
    vf_first_separator_at(pattern, after_ipv6_literal)
//@ ENDSUBST
//@ SUBST R6
    pattern[after_ipv6_literal..]
                    .find(['/', ':', '?', '#'])
                    .map(|i| i + after_ipv6_literal)
//@ WITH
    vf_first_plain_separator_at(pattern, after_ipv6_literal)
//@ ENDSUBST
//@ SUBST R6*
    String::from(
//@ WITH
    vf_string_from(
//@ ENDSUBST
//@END
    (mask, hostname, filter_index_start, filter_index_end, Ghost(cut))
}

pub proof fn lemma_prefix_exact(b: Seq<u8>, s: int, e: int, lit: Seq<u8>)
    requires 0 <= s <= e <= b.len()
    ensures (e - s == lit.len() && has_prefix(b.subrange(s, b.len() as int), lit)) <==> b.subrange(s, e) =~= lit
{
    let t = b.subrange(s, b.len() as int);
    if e - s == lit.len() {
        assert(t.subrange(0, lit.len() as int) =~= b.subrange(s, e));
    }
}

// ---- block B: scheme-only bodies, and the body text ---------------------------------------------------------------------------
fn vf_pattern_block_b(pattern: &str, mask0: NetworkFilterMask, fs0: usize, fe0: usize) -> (r: (NetworkFilterMask, Option<String>, Ghost<(int, int)>))
    requires
        fs0 <= fe0 <= pattern.spec_bytes().len(),
        fe0 > fs0 ==> vstd::utf8::is_char_boundary(pattern.spec_bytes(), fs0 as int) && vstd::utf8::is_char_boundary(pattern.spec_bytes(), fe0 as int),
    ensures
        // a left-anchored body that is only a scheme is consumed (it restricts the scheme bits instead)
        r.2@ == (if mask0.has(NetworkFilterMask::IS_LEFT_ANCHOR) && is_scheme_only(pattern.spec_bytes().subrange(fs0 as int, fe0 as int)) { (fe0 as int, fe0 as int) } else { (fs0 as int, fe0 as int) }), // OBL C02.parse.body.scheme_only
        // the pattern body kept for matching is that piece of the pattern text: as written for a full regex (its case is handled when it is
        // compiled, lower-casing `\D` would make it `\d`) and under $match-case, lower-cased otherwise
        r.1 is Some <==> r.2@.1 > r.2@.0, // OBL C02.parse.body.present
        r.1 is Some ==> body_is(r.1->Some_0, pattern, r.2@.0, r.2@.1, r.0.has(NetworkFilterMask::MATCH_CASE) || r.0.has(NetworkFilterMask::IS_COMPLETE_REGEX)), // OBL C02.parse.body.text
{
    let mut mask = mask0;
    let mut filter_index_start = fs0;
    let filter_index_end = fe0;
    proof {
        lemma_scheme_literals();
        {
            lemma_prefix_exact(pattern.spec_bytes(), fs0 as int, fe0 as int, "ws://".spec_bytes());
            lemma_prefix_exact(pattern.spec_bytes(), fs0 as int, fe0 as int, "http://".spec_bytes());
            lemma_prefix_exact(pattern.spec_bytes(), fs0 as int, fe0 as int, "https://".spec_bytes());
            lemma_prefix_exact(pattern.spec_bytes(), fs0 as int, fe0 as int, "http*://".spec_bytes());
        }
    }
//@EXTRACT src/filters/network.rs :: impl NetworkFilter :: fn parse
//@ SAFETY C11.parse.pattern_block_b.safety
//@ FROM
        if mask.contains(NetworkFilterMask::IS_LEFT_ANCHOR) {
//@ ENDFROM
//@ TO
            } else {
                Some(filter_str.to_ascii_lowercase())
            }
        } else {
            None
        };
//@ ENDTO
//@ SUBST R6*
    String::from(
//@ WITH
    vf_string_from(
//@ ENDSUBST
//@ SUBST R6
    filter_str.to_ascii_lowercase()
//@ WITH
    vf_lower(filter_str)
//@ ENDSUBST
//@END
    let r = (mask, filter, Ghost((filter_index_start as int, filter_index_end as int)));
    proof {
        if r.1 is Some {
            assert(r.1->Some_0 == filter->Some_0);
            assert(r.0 == mask);
            assert(body_is(r.1->Some_0, pattern, filter_index_start as int, filter_index_end as int, r.0.has(NetworkFilterMask::MATCH_CASE) || r.0.has(NetworkFilterMask::IS_COMPLETE_REGEX))); // OBL C02.parse.body.text
        }
    }
    r
}

pub open spec fn sbytes(s: String) -> Seq<u8> { vstd::utf8::encode_utf8(s@) }
pub open spec fn body_is(t: String, p: &str, s: int, e: int, match_case: bool) -> bool {
    t@ == (if match_case { utf8_text(p.spec_bytes().subrange(s, e)) } else { lower_spec(utf8_text(p.spec_bytes().subrange(s, e))) })
}

// ---- hostname normalisation (the closure body of `hostname.map(|host| { .. }).transpose()`, R7 block lift) ------------------------
pub enum NetworkFilterError { PunycodeError, Other }
pub uninterp spec fn strip_www(s: Seq<char>) -> Seq<char>;          // str::trim_start_matches("www.")
pub uninterp spec fn to_lower(s: Seq<char>) -> Seq<char>;           // str::to_lowercase
pub uninterp spec fn idna_ascii(s: Seq<char>) -> Option<Seq<char>>; // idna::domain_to_ascii
pub open spec fn ascii_text(s: Seq<char>) -> bool { forall|i: int| 0 <= i < s.len() ==> (#[trigger] s[i] as u32) < 128 }
#[verifier::external_body]
fn vf_trim_www(host: &String) -> (r: &str) ensures r@ == strip_www(host@) { host.trim_start_matches("www.") }
#[verifier::external_body]
fn vf_as_str(host: &String) -> (r: &str) ensures r@ == host@ { host }
#[verifier::external_body]
fn vf_to_lowercase(s: &str) -> (r: String) ensures r@ == to_lower(s@) { s.to_lowercase() }
#[verifier::external_body]
fn vf_is_ascii(s: &String) -> (r: bool) ensures r == ascii_text(s@) { s.is_ascii() }
#[verifier::external_body]
fn vf_idna_hostname(s: &str) -> (r: Result<String, NetworkFilterError>)
    ensures match r { Ok(h) => idna_ascii(s@) == Some(h@), Err(e) => idna_ascii(s@) is None && e is PunycodeError }
{ unimplemented!() }

// "'||host' pins the match to the request hostname" — request hostnames are lower-case and punycode, so the rule's host must be
// brought to the same form: lower-cased, then punycode if it is not ASCII; for `||` rules a leading "www." does not count
pub open spec fn host_form(host: Seq<char>, hostname_anchor: bool) -> Option<Seq<char>> {
    // hostnames are case-insensitive: lower case first, so that `WWW.` counts as `www.`
    let l = to_lower(host);
    let n = if hostname_anchor { strip_www(l) } else { l };
    if ascii_text(n) { Some(n) } else { idna_ascii(n) }
}

fn vf_normalise_host(host: String, mask: NetworkFilterMask) -> (r: Result<String, NetworkFilterError>)
    ensures match r {
        Ok(h) => host_form(host@, mask.has(NetworkFilterMask::IS_HOSTNAME_ANCHOR)) == Some(h@),
        Err(e) => host_form(host@, mask.has(NetworkFilterMask::IS_HOSTNAME_ANCHOR)) is None,
    }, // OBL C02.parse.hostname_form
{
//@EXTRACT src/filters/network.rs :: impl NetworkFilter :: fn parse
//@ SAFETY C11.parse.hostname_form.safety
//@ FROMAFTER
        let hostname_decoded = hostname
            .map(|host| {
//@ ENDFROMAFTER
//@ TO
                Ok(hostname)
//@ ENDTO
//@ SUBST R6
    host.to_lowercase()
//@ WITH
    vf_to_lowercase(vf_as_str(&host))
//@ ENDSUBST
//@ SUBST R6
    lowercase.trim_start_matches("www.")
//@ WITH
    vf_trim_www(&lowercase)
//@ ENDSUBST
//@ SUBST R6
    &lowercase
//@ WITH
    vf_as_str(&lowercase)
//@ ENDSUBST
//@ SUBST R6
    hostname_normalised.is_ascii()
//@ WITH
    vf_is_ascii_str(hostname_normalised)
//@ ENDSUBST
//@ SUBST R6
    hostname_normalised.to_owned()
//@ WITH
    vf_string_from(hostname_normalised)
//@ ENDSUBST
//@ REPLACE R6
    idna::domain_to_ascii(hostname_normalised)
//@ UPTO
    .map_err(|_| NetworkFilterError::PunycodeError)?
//@ WITH
    vf_idna_hostname(hostname_normalised)?
//@ ENDREPLACE
//@END
}

// ---- hosts-style entries (NetworkFilter::parse_hosts_style) -------------------------------------------------------------------------
pub struct HostsRule { pub x: u8 }   // stands for NetworkFilter in this function's result
pub struct ParseOpts { pub x: u8 }
impl Default for ParseOpts { #[verifier::external_body] fn default() -> (r: Self) { unimplemented!() } }
pub enum HostsError { FilterParseError, PunycodeError, Other }
pub uninterp spec fn rule_of_line(line: Seq<char>, debug: bool) -> Result<HostsRule, HostsError>;
pub struct NetworkFilter { pub x: u8 }
impl NetworkFilter {
    // NetworkFilter::parse itself: units c11_pattern_block (above) / c03_*; here a function of the line
    #[verifier::external_body]
    pub fn parse(line: &str, debug: bool, opts: ParseOpts) -> (r: Result<HostsRule, HostsError>) ensures r == rule_of_line(line@, debug) { unimplemented!() }
}
pub uninterp spec fn has_invalid_char(s: Seq<char>) -> bool;   // the INVALID_CHARS regex
#[verifier::external_body]
fn vf_invalid_chars(s: &str) -> (r: bool) ensures r == has_invalid_char(s@) { unimplemented!() }
#[verifier::external_body]
fn vf_trim_www_str(s: &String) -> (r: &str) ensures r@ == strip_www(s@) { unimplemented!() }
#[verifier::external_body]
fn vf_is_ascii_str(s: &str) -> (r: bool) ensures r == ascii_text(s@) { unimplemented!() }
#[verifier::external_body]
fn vf_idna_str(s: &str) -> (r: Result<String, HostsError>)
    ensures match r { Ok(h) => idna_ascii(s@) == Some(h@), Err(e) => idna_ascii(s@) is None && e is PunycodeError }
{ unimplemented!() }
#[verifier::external_body]
fn vf_push_str(s: &mut String, t: &str) ensures final(s)@ == old(s)@ + t@ { s.push_str(t) }
#[verifier::external_body]
fn vf_push_char(s: &mut String, c: char) ensures final(s)@ == old(s)@.push(c) { s.push(c) }

pub open spec fn has_dot(b: Seq<u8>, from: int) -> bool { exists|j: int| from <= j < b.len() && b[j] == 46u8 }
// "This shouldn't be used to block an entire TLD, and the hostname shouldn't end with a dot"
pub open spec fn hosts_entry_ok(host: &str) -> bool {
    let b = host.spec_bytes();
    !has_invalid_char(host@) && has_dot(b, 0) && !(b.len() > 0 && b[0] == 46u8 && !has_dot(b, 1)) && !(b.len() > 0 && b[b.len() - 1] == 46u8)
}

impl HostsRule {
//@EXTRACT src/filters/network.rs :: impl NetworkFilter :: fn parse_hosts_style
//@ RET r
//@ SAFETY C11.parse_hosts.safety
//@ SPEC
        ensures
            // entries that are not plain dotted hostnames are refused
            !hosts_entry_ok(hostname) ==> r is Err, // OBL C11.parse_hosts.refused
            // "produces an equivalent filter parsed from the form `||hostname^`": the same normal form as a `||` rule's host (lower case, no leading
            // "www.", punycode) between `||` and `^`
            hosts_entry_ok(hostname) ==> (match host_form(hostname@, true) {
                Some(h) => r == rule_of_line((seq!['|', '|'] + h).push('^'), debug),
                None => r is Err,
            }), // OBL C11.parse_hosts.same_as_double_pipe_rule
//@ ENDSPEC
//@ SUBST R1
    Result<Self, NetworkFilterError>
//@ WITH
    Result<HostsRule, HostsError>
//@ ENDSUBST
//@ SUBST R1*
    NetworkFilterError::FilterParseError
//@ WITH
    HostsError::FilterParseError
//@ ENDSUBST
//@ SUBST R9
    static INVALID_CHARS: Lazy<Regex> =
            Lazy::new(|| Regex::new("[/^*!?$&(){}\\[\\]+=~`\\s|@,'\"><:;]").unwrap());
//@ WITH
//@ ENDSUBST
//@ SUBST R9
    INVALID_CHARS.is_match(hostname)
//@ WITH
    vf_invalid_chars(hostname)
//@ ENDSUBST
//@ SUBST R6
    hostname.to_lowercase()
//@ WITH
    vf_to_lowercase(hostname)
//@ ENDSUBST
//@ SUBST R6
    normalized_host.trim_start_matches("www.")
//@ WITH
    vf_trim_www_str(&normalized_host)
//@ ENDSUBST
//@ SUBST R6
    "||".to_string()
//@ WITH
    vf_string_from("||")
//@ ENDSUBST
//@ SUBST R6
    normalized_host.is_ascii()
//@ WITH
    vf_is_ascii_str(normalized_host)
//@ ENDSUBST
//@ SUBST R6
    hostname.push_str(normalized_host);
//@ WITH
    vf_push_str(&mut hostname, normalized_host);
//@ ENDSUBST
//@ REPLACE R6
    hostname.push_str(
                &idna::domain_to_ascii(normalized_host)
//@ UPTO
    .map_err(|_| NetworkFilterError::PunycodeError)?,
            );
//@ WITH
    vf_push_str(&mut hostname, vf_idna_str(normalized_host)?.as_str());
//@ ENDREPLACE
//@ SUBST R6
    hostname.push('^');
//@ WITH
    vf_push_char(&mut hostname, '^');
//@ ENDSUBST
//@ BEFORE
    NetworkFilter::parse(&hostname, debug, Default::default())
//@ AT
    proof { reveal_strlit("||"); assert("||"@ =~= seq!['|', '|']); }
//@ ENDBEFORE
//@ BEFORE#2
    return Err(NetworkFilterError::FilterParseError);
//@ AT
            proof {
                let b = hostname.spec_bytes();
                if b.len() > 0 && has_dot(b, 1) { let j = choose|j: int| 1 <= j < b.len() && b[j] == 46u8; assert(b.subrange(1, b.len() as int)[j - 1] == 46u8); }
            }
//@ ENDBEFORE
//@END
}

proof fn vf_canary() ensures false {}

} // verus!
fn main() {}
