// Unit c08_legacy — C08: the legacy cosmetic rule db conversion, both ways (data_format/v0.rs:37-176).
// What survives HostnameRuleDb -> LegacyHostnameRuleDb -> HostnameRuleDb, per lookup hash: the hide, unhide and
// scriptlet-exception buckets exactly; of the scriptlet-injection bucket the texts, in order — NOT the permissions
// (the wire form has no slot for them: known finding C08.legacy.inject_permission, witness vf/witness/c08_permissions.rs).
// The two procedural bins are written to / read from dedicated wire fields (unit c08_wiring), not through this conversion.
#![feature(allocator_api)]
use vstd::prelude::*;
use std::collections::{HashMap, HashSet};

verus! {

broadcast use vstd::std_specs::hash::group_hash_axioms;

pub type Hash = u64;

// T: <T as ToOwned>::to_owned is a copy
pub assume_specification<T: Clone>[ <T as std::borrow::ToOwned>::to_owned ](s: &T) -> (r: T)
    ensures r == *s;

//@EXTRACT src/resources/mod.rs :: struct PermissionMask
//@ ATTR #[derive(Clone, Copy)]
//@ PUBFIELDS
//@END
impl Default for PermissionMask { fn default() -> (r: Self) ensures r.0 == 0 { PermissionMask(0) } }

//@EXTRACT src/cosmetic_filter_cache.rs :: struct HostnameFilterBin
//@END
//@EXTRACT src/cosmetic_filter_cache.rs :: struct HostnameRuleDb
//@END
//@EXTRACT src/data_format/v0.rs :: enum LegacySpecificFilterType
//@ PUB
//@END
//@EXTRACT src/data_format/v0.rs :: struct LegacyHostnameRuleDb
//@ PUBFIELDS
//@END

pub open spec fn bucket<T>(bin: HostnameFilterBin<T>, h: Hash) -> Seq<T> {
    if bin.0@.contains_key(h) { bin.0@[h]@ } else { Seq::empty() }
}
pub open spec fn lb(db: Map<Hash, Vec<LegacySpecificFilterType>>, h: Hash) -> Seq<LegacySpecificFilterType> {
    if db.contains_key(h) { db[h]@ } else { Seq::empty() }
}

// ---- trusted neighbours ---------------------------------------------------------------------------------------------
impl<T> Default for HostnameFilterBin<T> {
    #[verifier::external_body]
    fn default() -> (r: Self) ensures forall|h: Hash| bucket(r, h) == Seq::<T>::empty() { unimplemented!() }
}
impl<T> HostnameFilterBin<T> {
    // contract proved in unit c16_store (its body is an R7 lift of the get_mut / insert pair)
    #[verifier::external_body]
    pub fn insert(&mut self, token: &Hash, filter: T)
        ensures forall|h: Hash| bucket(*final(self), h) == (if h == *token { bucket(*old(self), h).push(filter) } else { bucket(*old(self), h) })
    { unimplemented!() }
}
pub struct ProceduralOrActionFilter { pub x: u8 }
impl ProceduralOrActionFilter {
    #[verifier::external_body]
    pub fn from_css(selector: String, style: String) -> (r: Self) { unimplemented!() }
    #[verifier::external_body]
    pub fn as_css(&self) -> (r: Option<(String, String)>) { unimplemented!() }
}
impl HostnameFilterBin<String> {
    // T: serialises the filter to JSON and files it (only used for the two procedural bins, which c08_wiring overwrites)
    #[verifier::external_body]
    pub fn insert_procedural_action_filter(&mut self, token: &Hash, f: &ProceduralOrActionFilter) { unimplemented!() }
}

// ---- projections of a legacy bucket ---------------------------------------------------------------------------------
pub open spec fn proj_hide(s: Seq<LegacySpecificFilterType>) -> Seq<String> decreases s.len() {
    if s.len() == 0 { Seq::empty() } else { proj_hide(s.drop_last()) + (match s.last() { LegacySpecificFilterType::Hide(x) => seq![x], _ => Seq::empty() }) }
}
pub open spec fn proj_unhide(s: Seq<LegacySpecificFilterType>) -> Seq<String> decreases s.len() {
    if s.len() == 0 { Seq::empty() } else { proj_unhide(s.drop_last()) + (match s.last() { LegacySpecificFilterType::Unhide(x) => seq![x], _ => Seq::empty() }) }
}
pub open spec fn proj_inject(s: Seq<LegacySpecificFilterType>) -> Seq<String> decreases s.len() {
    if s.len() == 0 { Seq::empty() } else { proj_inject(s.drop_last()) + (match s.last() { LegacySpecificFilterType::ScriptInject(x) => seq![x], _ => Seq::empty() }) }
}
pub open spec fn proj_uninject(s: Seq<LegacySpecificFilterType>) -> Seq<String> decreases s.len() {
    if s.len() == 0 { Seq::empty() } else { proj_uninject(s.drop_last()) + (match s.last() { LegacySpecificFilterType::UnhideScriptInject(x) => seq![x], _ => Seq::empty() }) }
}
pub open spec fn with_default_permission(s: Seq<String>) -> Seq<(String, PermissionMask)> { s.map_values(|x: String| (x, PermissionMask(0))) }
pub open spec fn names(s: Seq<(String, PermissionMask)>) -> Seq<String> { s.map_values(|x: (String, PermissionMask)| x.0) }

pub mod cosmetic_filter_cache { pub use super::HostnameFilterBin; }

// R5: HashMap::into_iter() (no vstd model): the entries, each key once, in some order
#[verifier::external_body]
fn vf_into_pairs(m: HashMap<Hash, Vec<LegacySpecificFilterType>>) -> (r: Vec<(Hash, Vec<LegacySpecificFilterType>)>)
    ensures
        forall|i: int| 0 <= i < r@.len() ==> m@.contains_key((#[trigger] r@[i]).0) && m@[r@[i].0] == r@[i].1,
        forall|i: int, j: int| 0 <= i < j < r@.len() ==> (#[trigger] r@[i]).0 != (#[trigger] r@[j]).0,
        forall|k: Hash| m@.contains_key(k) ==> exists|i: int| 0 <= i < r@.len() && (#[trigger] r@[i]).0 == k,
{ m.into_iter().collect() }

pub open spec fn seen(pairs: Seq<(Hash, Vec<LegacySpecificFilterType>)>, i: int, h: Hash) -> bool { exists|p: int| 0 <= p < i && (#[trigger] pairs[p]).0 == h }

// one more element of a legacy bucket
pub proof fn lemma_proj_step(s: Seq<LegacySpecificFilterType>, j: int)
    requires 0 <= j < s.len()
    ensures
        proj_hide(s.take(j + 1)) == proj_hide(s.take(j)) + (match s[j] { LegacySpecificFilterType::Hide(x) => seq![x], _ => Seq::empty() }),
        proj_unhide(s.take(j + 1)) == proj_unhide(s.take(j)) + (match s[j] { LegacySpecificFilterType::Unhide(x) => seq![x], _ => Seq::empty() }),
        proj_inject(s.take(j + 1)) == proj_inject(s.take(j)) + (match s[j] { LegacySpecificFilterType::ScriptInject(x) => seq![x], _ => Seq::empty() }),
        proj_uninject(s.take(j + 1)) == proj_uninject(s.take(j)) + (match s[j] { LegacySpecificFilterType::UnhideScriptInject(x) => seq![x], _ => Seq::empty() }),
{
    assert(s.take(j + 1).drop_last() =~= s.take(j));
    assert(s.take(j + 1).last() == s[j]);
}

// state of the four buckets of hash h while pairs[0..i] are done and the first j rules of `cur` (the bucket of hash `hc`) too
pub open spec fn into_state(hide: HostnameFilterBin<String>, unhide: HostnameFilterBin<String>, inject: HostnameFilterBin<(String, PermissionMask)>, uninject: HostnameFilterBin<String>,
                            db0: Map<Hash, Vec<LegacySpecificFilterType>>, pairs: Seq<(Hash, Vec<LegacySpecificFilterType>)>, i: int, hc: Hash, cur: Seq<LegacySpecificFilterType>, j: int) -> bool {
    &&& forall|h: Hash| #[trigger] bucket(hide, h) =~= proj_hide(into_src(db0, pairs, i, hc, cur, j, h))
    &&& forall|h: Hash| #[trigger] bucket(unhide, h) =~= proj_unhide(into_src(db0, pairs, i, hc, cur, j, h))
    &&& forall|h: Hash| #[trigger] bucket(uninject, h) =~= proj_uninject(into_src(db0, pairs, i, hc, cur, j, h))
    &&& forall|h: Hash| #[trigger] bucket(inject, h) =~= with_default_permission(proj_inject(into_src(db0, pairs, i, hc, cur, j, h)))
}
// the part of hash h's legacy bucket that has been distributed so far
pub open spec fn into_src(db0: Map<Hash, Vec<LegacySpecificFilterType>>, pairs: Seq<(Hash, Vec<LegacySpecificFilterType>)>, i: int, hc: Hash, cur: Seq<LegacySpecificFilterType>, j: int, h: Hash) -> Seq<LegacySpecificFilterType> {
    if seen(pairs, i, h) { lb(db0, h) } else if h == hc { cur.take(j) } else { Seq::empty() }
}

pub open spec fn into_hide(l: LegacyHostnameRuleDb, r: HostnameRuleDb) -> bool { forall|h: Hash| #[trigger] bucket(r.hide, h) =~= proj_hide(lb(l.db@, h)) }
pub open spec fn into_unhide(l: LegacyHostnameRuleDb, r: HostnameRuleDb) -> bool { forall|h: Hash| #[trigger] bucket(r.unhide, h) =~= proj_unhide(lb(l.db@, h)) }
pub open spec fn into_uninject(l: LegacyHostnameRuleDb, r: HostnameRuleDb) -> bool { forall|h: Hash| #[trigger] bucket(r.uninject_script, h) =~= proj_uninject(lb(l.db@, h)) }
pub open spec fn into_inject_texts(l: LegacyHostnameRuleDb, r: HostnameRuleDb) -> bool { forall|h: Hash| #[trigger] bucket(r.inject_script, h) =~= with_default_permission(proj_inject(lb(l.db@, h))) }

// R1: the method of `impl Into<HostnameRuleDb> for LegacyHostnameRuleDb` is placed in an inherent impl (vstd attaches an
// uninterpreted `into_spec` obligation to user impls of Into; the body is the same text either way)
impl LegacyHostnameRuleDb {
//@EXTRACT src/data_format/v0.rs :: impl Into<HostnameRuleDb> for LegacyHostnameRuleDb :: fn into
//@ RET r
//@ SAFETY C08.legacy.into.safety
//@ ATTR #[verifier::loop_isolation(false)]
//@ SPEC
        ensures
            into_hide(self, r), // OBL C08.legacy.into.hide
            into_unhide(self, r), // OBL C08.legacy.into.unhide
            into_uninject(self, r), // OBL C08.legacy.into.uninject
            // the texts of the injections survive; every permission is rebuilt as the default (empty) one
            into_inject_texts(self, r), // OBL C08.legacy.into.inject_texts
//@ ENDSPEC
//@ SUBST R1*
    hide
//@ WITH
    r#hide
//@ ENDSUBST
//@ SUBST R5
    self.db.into_iter()
//@ WITH
    vf_into_pairs(self.db)
//@ ENDSUBST
//@ LOOPHEAD @ito ^match rule
//@ LOOPHEAD @iti match rule
//@ LOOP @^match rule
            invariant
                into_state(r#hide, unhide, inject_script, uninject_script, db0, ito.seq(), ito.index() as int, 0, Seq::empty(), 0), // OBL C08.legacy.into.outer
//@ ENDLOOP
//@ LOOP @match rule
                invariant
                    iti.seq() == cur,
                    into_state(r#hide, unhide, inject_script, uninject_script, db0, ito.seq(), ito.index() as int, hash, cur, iti.index() as int), // OBL C08.legacy.into.inner
//@ ENDLOOP
//@ LOOPSTART @^match rule
            let ghost cur = bin@;
            proof {
                assert(!seen(ito.seq(), ito.index() as int, hash)) by { if seen(ito.seq(), ito.index() as int, hash) { let p = choose|p: int| 0 <= p < ito.index() && (#[trigger] ito.seq()[p]).0 == hash; assert(ito.seq()[p].0 != ito.seq()[ito.index() as int].0); } }
                assert(cur.take(0) =~= Seq::empty());
            }
//@ ENDLOOPSTART
//@ LOOPEND @match rule
                proof { lemma_proj_step(cur, iti.index() as int); }
//@ ENDLOOPEND
//@ LOOPEND @^match rule
            proof {
                let i = ito.index() as int;
                assert(cur.take(cur.len() as int) =~= cur);
                assert(cur == lb(db0, hash));
                assert forall|h: Hash| seen(ito.seq(), i + 1, h) == (seen(ito.seq(), i, h) || h == hash) by {
                    if seen(ito.seq(), i + 1, h) && !seen(ito.seq(), i, h) { let p = choose|p: int| 0 <= p < i + 1 && (#[trigger] ito.seq()[p]).0 == h; assert(p == i); }
                    if seen(ito.seq(), i, h) { let p = choose|p: int| 0 <= p < i && (#[trigger] ito.seq()[p]).0 == h; assert(0 <= p < i + 1 && ito.seq()[p].0 == h); }
                    if h == hash { assert(0 <= i < i + 1 && ito.seq()[i].0 == h); }
                }
            }
//@ ENDLOOPEND
//@ BEFORE
    for (hash, bin) in self.db.into_iter() {
//@ AT
        let ghost db0 = self.db@;
//@ ENDBEFORE
//@END
}

// ---- HostnameRuleDb -> LegacyHostnameRuleDb ---------------------------------------------------------------------------
pub enum Kind { Hide, Unhide, Inject, Uninject }
pub open spec fn ord(k: Kind) -> int { match k { Kind::Hide => 0, Kind::Unhide => 1, Kind::Inject => 2, Kind::Uninject => 3 } }
pub open spec fn proj(k: Kind, s: Seq<LegacySpecificFilterType>) -> Seq<String> {
    match k { Kind::Hide => proj_hide(s), Kind::Unhide => proj_unhide(s), Kind::Inject => proj_inject(s), Kind::Uninject => proj_uninject(s) }
}
// the texts a rule db holds for kind k under hash h
pub open spec fn texts(v: HostnameRuleDb, k: Kind, h: Hash) -> Seq<String> {
    match k { Kind::Hide => bucket(v.hide, h), Kind::Unhide => bucket(v.unhide, h), Kind::Inject => names(bucket(v.inject_script, h)), Kind::Uninject => bucket(v.uninject_script, h) }
}
pub open spec fn entry_kind(e: LegacySpecificFilterType) -> Option<(Kind, String)> {
    match e {
        LegacySpecificFilterType::Hide(x) => Some((Kind::Hide, x)), LegacySpecificFilterType::Unhide(x) => Some((Kind::Unhide, x)),
        LegacySpecificFilterType::ScriptInject(x) => Some((Kind::Inject, x)), LegacySpecificFilterType::UnhideScriptInject(x) => Some((Kind::Uninject, x)),
        _ => None,
    }
}

// kinds before `stage` are complete, the kind at `stage` is complete for the hashes already seen and holds the first j
// texts for the hash in progress, later kinds have nothing yet
pub open spec fn from_state(db: Map<Hash, Vec<LegacySpecificFilterType>>, v: HostnameRuleDb, stage: int, seen: spec_fn(Hash) -> bool, hc: Hash, j: int) -> bool {
    forall|k: Kind, h: Hash| #[trigger] proj(k, lb(db, h)) =~= (
        if ord(k) < stage { texts(v, k, h) }
        else if ord(k) == stage { if seen(h) { texts(v, k, h) } else if h == hc { texts(v, k, h).take(j) } else { Seq::empty() } }
        else { Seq::empty() })
}

// R7: db.entry(k).and_modify(|v| v.push(e)).or_insert_with(|| vec![e]) — append under a key
#[verifier::external_body]
fn vf_legacy_push(db: &mut HashMap<Hash, Vec<LegacySpecificFilterType>>, k: Hash, e: LegacySpecificFilterType)
    ensures forall|h: Hash| #[trigger] lb(final(db)@, h) == (if h == k { lb(old(db)@, h).push(e) } else { lb(old(db)@, h) })
{ unimplemented!() }

// R10: db.entry(k).and_modify(|v| v.push(e1)).or_insert_with(|| vec![e2]) with both element expressions as written
#[verifier::external_body]
fn vf_legacy_push2(db: &mut HashMap<Hash, Vec<LegacySpecificFilterType>>, k: Hash, e1: LegacySpecificFilterType, e2: LegacySpecificFilterType)
    ensures forall|h: Hash| #[trigger] lb(final(db)@, h) == (if h == k { if old(db)@.contains_key(k) { lb(old(db)@, h).push(e1) } else { seq![e2] } } else { lb(old(db)@, h) }),
        final(db)@.contains_key(k), forall|h: Hash| h != k ==> (final(db)@.contains_key(h) <==> old(db)@.contains_key(h)),
{ unimplemented!() }

// R7: the Style / UnhideStyle entries derived from a procedural filter's JSON (they are not read back: the procedural bins
// travel in their own wire fields): none of the four projections changes
#[verifier::external_body]
fn vf_legacy_push_style(db: &mut HashMap<Hash, Vec<LegacySpecificFilterType>>, k: Hash, json: &String, exception: bool)
    ensures forall|kk: Kind, h: Hash| #[trigger] proj(kk, lb(final(db)@, h)) == proj(kk, lb(old(db)@, h))
{ unimplemented!() }

pub proof fn lemma_proj_push(s: Seq<LegacySpecificFilterType>, e: LegacySpecificFilterType, k: Kind)
    ensures proj(k, s.push(e)) == proj(k, s) + (match entry_kind(e) { Some((ke, x)) => if ke == k { seq![x] } else { Seq::empty() }, None => Seq::empty() })
{
    assert(s.push(e).drop_last() =~= s);
    assert(s.push(e).last() == e);
}

// one more text of kind `stage` filed under the hash in progress
pub proof fn lemma_from_step(db0: Map<Hash, Vec<LegacySpecificFilterType>>, db1: Map<Hash, Vec<LegacySpecificFilterType>>, v: HostnameRuleDb, stage: int,
                             seen: spec_fn(Hash) -> bool, hc: Hash, j: int, e: LegacySpecificFilterType, kind: Kind, x: String)
    requires
        from_state(db0, v, stage, seen, hc, j), !seen(hc), ord(kind) == stage, entry_kind(e) == Some((kind, x)),
        0 <= j < texts(v, kind, hc).len(), texts(v, kind, hc)[j] == x,
        forall|h: Hash| #[trigger] lb(db1, h) == (if h == hc { lb(db0, h).push(e) } else { lb(db0, h) }),
    ensures from_state(db1, v, stage, seen, hc, j + 1)
{
    assert forall|k: Kind, h: Hash| #[trigger] proj(k, lb(db1, h)) =~= (
        if ord(k) < stage { texts(v, k, h) }
        else if ord(k) == stage { if seen(h) { texts(v, k, h) } else if h == hc { texts(v, k, h).take(j + 1) } else { Seq::empty() } }
        else { Seq::empty() }) by {
        assert(proj(k, lb(db0, h)) =~= (
            if ord(k) < stage { texts(v, k, h) }
            else if ord(k) == stage { if seen(h) { texts(v, k, h) } else if h == hc { texts(v, k, h).take(j) } else { Seq::empty() } }
            else { Seq::empty() }));
        if h == hc {
            lemma_proj_push(lb(db0, h), e, k);
            if k == kind { assert(texts(v, k, h).take(j + 1) =~= texts(v, k, h).take(j) + seq![x]); }
        }
    }
}

// the hash in progress is finished
pub proof fn lemma_from_hash_done(db: Map<Hash, Vec<LegacySpecificFilterType>>, v: HostnameRuleDb, stage: int, seen: spec_fn(Hash) -> bool, seen2: spec_fn(Hash) -> bool, hc: Hash, kind: Kind, n: int)
    requires from_state(db, v, stage, seen, hc, n), ord(kind) == stage, n == texts(v, kind, hc).len(), forall|h: Hash| #[trigger] seen2(h) == (seen(h) || h == hc)
    ensures from_state(db, v, stage, seen2, 0, 0)
{
    assert forall|k: Kind, h: Hash| #[trigger] proj(k, lb(db, h)) =~= (
        if ord(k) < stage { texts(v, k, h) }
        else if ord(k) == stage { if seen2(h) { texts(v, k, h) } else if h == 0 { texts(v, k, h).take(0) } else { Seq::empty() } }
        else { Seq::empty() }) by {
        assert(proj(k, lb(db, h)) =~= (
            if ord(k) < stage { texts(v, k, h) }
            else if ord(k) == stage { if seen(h) { texts(v, k, h) } else if h == hc { texts(v, k, h).take(n) } else { Seq::empty() } }
            else { Seq::empty() }));
        if ord(k) == stage { assert(k == kind); assert(texts(v, k, hc).take(n) =~= texts(v, k, hc)); }
        assert(texts(v, k, h).take(0) =~= Seq::<String>::empty());
    }
}

// every key of the kind's bin has been seen: the kind is complete, the next one starts empty
pub proof fn lemma_from_kind_done(db: Map<Hash, Vec<LegacySpecificFilterType>>, v: HostnameRuleDb, stage: int, seen: spec_fn(Hash) -> bool, kind: Kind)
    requires from_state(db, v, stage, seen, 0, 0), ord(kind) == stage, forall|h: Hash| !(#[trigger] seen(h)) ==> texts(v, kind, h).len() == 0
    ensures from_state(db, v, stage + 1, |h: Hash| false, 0, 0)
{
    assert forall|k: Kind, h: Hash| #[trigger] proj(k, lb(db, h)) =~= (
        if ord(k) < stage + 1 { texts(v, k, h) }
        else if ord(k) == stage + 1 { if false { texts(v, k, h) } else if h == 0 { texts(v, k, h).take(0) } else { Seq::empty() } }
        else { Seq::empty() }) by {
        assert(proj(k, lb(db, h)) =~= (
            if ord(k) < stage { texts(v, k, h) }
            else if ord(k) == stage { if seen(h) { texts(v, k, h) } else if h == 0 { texts(v, k, h).take(0) } else { Seq::empty() } }
            else { Seq::empty() }));
        if ord(k) == stage { assert(k == kind); if !seen(h) { assert(texts(v, k, h) =~= Seq::<String>::empty()); } }
        assert(texts(v, k, h).take(0) =~= Seq::<String>::empty());
    }
}

pub open spec fn from_post(v: HostnameRuleDb, r: LegacyHostnameRuleDb, k: Kind) -> bool { forall|h: Hash| #[trigger] proj(k, lb(r.db@, h)) =~= texts(v, k, h) }

impl LegacyHostnameRuleDb {
// R1: the method of `impl From<&HostnameRuleDb> for LegacyHostnameRuleDb`, placed in an inherent impl (see `into`)
//@EXTRACT src/data_format/v0.rs :: impl From<&HostnameRuleDb> for LegacyHostnameRuleDb :: fn from
//@ RET r
//@ SAFETY C08.legacy.from.safety
//@ ATTR #[verifier::loop_isolation(false)]
//@ SPEC
        ensures
            from_post(*v, r, Kind::Hide), // OBL C08.legacy.from.hide_buckets
            from_post(*v, r, Kind::Unhide), // OBL C08.legacy.from.unhide_buckets
            from_post(*v, r, Kind::Uninject), // OBL C08.legacy.from.uninject_buckets
            // of an injection only the text is written: the permission has no slot in the wire form
            from_post(*v, r, Kind::Inject), // OBL C08.legacy.from.inject_texts
//@ ENDSPEC
//@ BEFORE
    for (hash, bin) in v.hide.0.iter() {
//@ AT
        let ghost mut seen1 = Set::<Hash>::empty();
//@ ENDBEFORE
//@ LOOPHEAD @ito1 ^LegacySpecificFilterType::Hide(
//@ LOOPHEAD @iti1 LegacySpecificFilterType::Hide(
//@ LOOP @^LegacySpecificFilterType::Hide(
            invariant
                forall|p: int| 0 <= p < ito1.index() ==> seen1.contains(*(#[trigger] ito1.seq()[p]).0),
                forall|h: Hash| seen1.contains(h) ==> exists|p: int| 0 <= p < ito1.index() && *(#[trigger] ito1.seq()[p]).0 == h,
                forall|p: int| 0 <= p < ito1.seq().len() ==> v.hide.0@.contains_key(*(#[trigger] ito1.seq()[p]).0) && v.hide.0@[*ito1.seq()[p].0] == *ito1.seq()[p].1,
                forall|key: Hash| v.hide.0@.contains_key(key) ==> exists|p: int| 0 <= p < ito1.seq().len() && *(#[trigger] ito1.seq()[p]).0 == key,
                from_state(db@, *v, 0, |h: Hash| seen1.contains(h), 0, 0), // OBL C08.legacy.from.hide
//@ ENDLOOP
//@ LOOPSTART @^LegacySpecificFilterType::Hide(
            proof {
                let i = ito1.index() as int;
                assert(ito1.seq().no_duplicates());
                assert(!seen1.contains(*hash)) by {
                    if seen1.contains(*hash) {
                        let p = choose|p: int| 0 <= p < i && *(#[trigger] ito1.seq()[p]).0 == *hash;
                        assert(ito1.seq()[p] == ito1.seq()[i]);
                    }
                }
                assert(forall|k: Kind, h: Hash| texts(*v, k, h).take(0) =~= Seq::<String>::empty());
                assert(bin@ == bucket(v.hide, *hash));
            }
//@ ENDLOOPSTART
//@ LOOP @LegacySpecificFilterType::Hide(
                invariant
                    iti1.seq().len() == bin@.len(), forall|q: int| 0 <= q < bin@.len() ==> *(#[trigger] iti1.seq()[q]) == bin@[q],
                    from_state(db@, *v, 0, |h: Hash| seen1.contains(h), *hash, iti1.index() as int), // OBL C08.legacy.from.hide_bucket
//@ ENDLOOP
//@ LOOPSTART @LegacySpecificFilterType::Hide(
                let ghost dbb = db@;
//@ ENDLOOPSTART
//@ LOOPEND @LegacySpecificFilterType::Hide(
                proof {
                    lemma_from_step(dbb, db@, *v, 0, |h: Hash| seen1.contains(h), *hash, iti1.index() as int,
                        LegacySpecificFilterType::Hide(*f), Kind::Hide, *f);
                }
//@ ENDLOOPEND
//@ LOOPEND @^LegacySpecificFilterType::Hide(
            proof {
                let s1 = |h: Hash| seen1.contains(h);
                let s2 = |h: Hash| seen1.insert(*hash).contains(h);
                lemma_from_hash_done(db@, *v, 0, s1, s2, *hash, Kind::Hide, bin@.len() as int);
                seen1 = seen1.insert(*hash);
            }
//@ ENDLOOPEND
//@ BEFORE
    for (hash, bin) in v.unhide.0.iter() {
//@ AT
        proof {
            let s1 = |h: Hash| seen1.contains(h);
            assert forall|h: Hash| !s1(h) implies texts(*v, Kind::Hide, h).len() == 0 by {
                if v.hide.0@.contains_key(h) { assert(s1(h)); }
            }
            lemma_from_kind_done(db@, *v, 0, s1, Kind::Hide);
        }
//@ ENDBEFORE
//@ BEFORE
    for (hash, bin) in v.unhide.0.iter() {
//@ AT
        let ghost mut seen2 = Set::<Hash>::empty();
//@ ENDBEFORE
//@ LOOPHEAD @ito2 ^LegacySpecificFilterType::Unhide(
//@ LOOPHEAD @iti2 LegacySpecificFilterType::Unhide(
//@ LOOP @^LegacySpecificFilterType::Unhide(
            invariant
                forall|p: int| 0 <= p < ito2.index() ==> seen2.contains(*(#[trigger] ito2.seq()[p]).0),
                forall|h: Hash| seen2.contains(h) ==> exists|p: int| 0 <= p < ito2.index() && *(#[trigger] ito2.seq()[p]).0 == h,
                forall|p: int| 0 <= p < ito2.seq().len() ==> v.unhide.0@.contains_key(*(#[trigger] ito2.seq()[p]).0) && v.unhide.0@[*ito2.seq()[p].0] == *ito2.seq()[p].1,
                forall|key: Hash| v.unhide.0@.contains_key(key) ==> exists|p: int| 0 <= p < ito2.seq().len() && *(#[trigger] ito2.seq()[p]).0 == key,
                from_state(db@, *v, 1, |h: Hash| seen2.contains(h), 0, 0), // OBL C08.legacy.from.unhide
//@ ENDLOOP
//@ LOOPSTART @^LegacySpecificFilterType::Unhide(
            proof {
                let i = ito2.index() as int;
                assert(ito2.seq().no_duplicates());
                assert(!seen2.contains(*hash)) by {
                    if seen2.contains(*hash) {
                        let p = choose|p: int| 0 <= p < i && *(#[trigger] ito2.seq()[p]).0 == *hash;
                        assert(ito2.seq()[p] == ito2.seq()[i]);
                    }
                }
                assert(forall|k: Kind, h: Hash| texts(*v, k, h).take(0) =~= Seq::<String>::empty());
                assert(bin@ == bucket(v.unhide, *hash));
            }
//@ ENDLOOPSTART
//@ LOOP @LegacySpecificFilterType::Unhide(
                invariant
                    iti2.seq().len() == bin@.len(), forall|q: int| 0 <= q < bin@.len() ==> *(#[trigger] iti2.seq()[q]) == bin@[q],
                    from_state(db@, *v, 1, |h: Hash| seen2.contains(h), *hash, iti2.index() as int), // OBL C08.legacy.from.unhide_bucket
//@ ENDLOOP
//@ LOOPSTART @LegacySpecificFilterType::Unhide(
                let ghost dbb = db@;
//@ ENDLOOPSTART
//@ LOOPEND @LegacySpecificFilterType::Unhide(
                proof {
                    lemma_from_step(dbb, db@, *v, 1, |h: Hash| seen2.contains(h), *hash, iti2.index() as int,
                        LegacySpecificFilterType::Unhide(*f), Kind::Unhide, *f);
                }
//@ ENDLOOPEND
//@ LOOPEND @^LegacySpecificFilterType::Unhide(
            proof {
                let s1 = |h: Hash| seen2.contains(h);
                let s2 = |h: Hash| seen2.insert(*hash).contains(h);
                lemma_from_hash_done(db@, *v, 1, s1, s2, *hash, Kind::Unhide, bin@.len() as int);
                seen2 = seen2.insert(*hash);
            }
//@ ENDLOOPEND
//@ BEFORE
    for (hash, bin) in v.inject_script.0.iter() {
//@ AT
        proof {
            let s1 = |h: Hash| seen2.contains(h);
            assert forall|h: Hash| !s1(h) implies texts(*v, Kind::Unhide, h).len() == 0 by {
                if v.unhide.0@.contains_key(h) { assert(s1(h)); }
            }
            lemma_from_kind_done(db@, *v, 1, s1, Kind::Unhide);
        }
//@ ENDBEFORE
//@ BEFORE
    for (hash, bin) in v.inject_script.0.iter() {
//@ AT
        let ghost mut seen3 = Set::<Hash>::empty();
//@ ENDBEFORE
//@ LOOPHEAD @ito3 ^LegacySpecificFilterType::ScriptInject(
//@ LOOPHEAD @iti3 LegacySpecificFilterType::ScriptInject(
//@ LOOP @^LegacySpecificFilterType::ScriptInject(
            invariant
                forall|p: int| 0 <= p < ito3.index() ==> seen3.contains(*(#[trigger] ito3.seq()[p]).0),
                forall|h: Hash| seen3.contains(h) ==> exists|p: int| 0 <= p < ito3.index() && *(#[trigger] ito3.seq()[p]).0 == h,
                forall|p: int| 0 <= p < ito3.seq().len() ==> v.inject_script.0@.contains_key(*(#[trigger] ito3.seq()[p]).0) && v.inject_script.0@[*ito3.seq()[p].0] == *ito3.seq()[p].1,
                forall|key: Hash| v.inject_script.0@.contains_key(key) ==> exists|p: int| 0 <= p < ito3.seq().len() && *(#[trigger] ito3.seq()[p]).0 == key,
                from_state(db@, *v, 2, |h: Hash| seen3.contains(h), 0, 0), // OBL C08.legacy.from.inject
//@ ENDLOOP
//@ LOOPSTART @^LegacySpecificFilterType::ScriptInject(
            proof {
                let i = ito3.index() as int;
                assert(ito3.seq().no_duplicates());
                assert(!seen3.contains(*hash)) by {
                    if seen3.contains(*hash) {
                        let p = choose|p: int| 0 <= p < i && *(#[trigger] ito3.seq()[p]).0 == *hash;
                        assert(ito3.seq()[p] == ito3.seq()[i]);
                    }
                }
                assert(forall|k: Kind, h: Hash| texts(*v, k, h).take(0) =~= Seq::<String>::empty());
                assert(bin@ == bucket(v.inject_script, *hash));
            }
//@ ENDLOOPSTART
//@ LOOP @LegacySpecificFilterType::ScriptInject(
                invariant
                    iti3.seq().len() == bin@.len(), forall|q: int| 0 <= q < bin@.len() ==> *(#[trigger] iti3.seq()[q]) == bin@[q],
                    from_state(db@, *v, 2, |h: Hash| seen3.contains(h), *hash, iti3.index() as int), // OBL C08.legacy.from.inject_bucket
//@ ENDLOOP
//@ LOOPSTART @LegacySpecificFilterType::ScriptInject(
                let ghost dbb = db@;
//@ ENDLOOPSTART
//@ LOOPEND @LegacySpecificFilterType::ScriptInject(
                proof {
                    lemma_from_step(dbb, db@, *v, 2, |h: Hash| seen3.contains(h), *hash, iti3.index() as int,
                        LegacySpecificFilterType::ScriptInject(*f), Kind::Inject, *f);
                }
//@ ENDLOOPEND
//@ LOOPEND @^LegacySpecificFilterType::ScriptInject(
            proof {
                let s1 = |h: Hash| seen3.contains(h);
                let s2 = |h: Hash| seen3.insert(*hash).contains(h);
                lemma_from_hash_done(db@, *v, 2, s1, s2, *hash, Kind::Inject, bin@.len() as int);
                seen3 = seen3.insert(*hash);
            }
//@ ENDLOOPEND
//@ BEFORE
    for (hash, bin) in v.uninject_script.0.iter() {
//@ AT
        proof {
            let s1 = |h: Hash| seen3.contains(h);
            assert forall|h: Hash| !s1(h) implies texts(*v, Kind::Inject, h).len() == 0 by {
                if v.inject_script.0@.contains_key(h) { assert(s1(h)); }
            }
            lemma_from_kind_done(db@, *v, 2, s1, Kind::Inject);
        }
//@ ENDBEFORE
//@ BEFORE
    for (hash, bin) in v.uninject_script.0.iter() {
//@ AT
        let ghost mut seen4 = Set::<Hash>::empty();
//@ ENDBEFORE
//@ LOOPHEAD @ito4 ^LegacySpecificFilterType::UnhideScriptInject(
//@ LOOPHEAD @iti4 LegacySpecificFilterType::UnhideScriptInject(
//@ LOOP @^LegacySpecificFilterType::UnhideScriptInject(
            invariant
                forall|p: int| 0 <= p < ito4.index() ==> seen4.contains(*(#[trigger] ito4.seq()[p]).0),
                forall|h: Hash| seen4.contains(h) ==> exists|p: int| 0 <= p < ito4.index() && *(#[trigger] ito4.seq()[p]).0 == h,
                forall|p: int| 0 <= p < ito4.seq().len() ==> v.uninject_script.0@.contains_key(*(#[trigger] ito4.seq()[p]).0) && v.uninject_script.0@[*ito4.seq()[p].0] == *ito4.seq()[p].1,
                forall|key: Hash| v.uninject_script.0@.contains_key(key) ==> exists|p: int| 0 <= p < ito4.seq().len() && *(#[trigger] ito4.seq()[p]).0 == key,
                from_state(db@, *v, 3, |h: Hash| seen4.contains(h), 0, 0), // OBL C08.legacy.from.uninject
//@ ENDLOOP
//@ LOOPSTART @^LegacySpecificFilterType::UnhideScriptInject(
            proof {
                let i = ito4.index() as int;
                assert(ito4.seq().no_duplicates());
                assert(!seen4.contains(*hash)) by {
                    if seen4.contains(*hash) {
                        let p = choose|p: int| 0 <= p < i && *(#[trigger] ito4.seq()[p]).0 == *hash;
                        assert(ito4.seq()[p] == ito4.seq()[i]);
                    }
                }
                assert(forall|k: Kind, h: Hash| texts(*v, k, h).take(0) =~= Seq::<String>::empty());
                assert(bin@ == bucket(v.uninject_script, *hash));
            }
//@ ENDLOOPSTART
//@ LOOP @LegacySpecificFilterType::UnhideScriptInject(
                invariant
                    iti4.seq().len() == bin@.len(), forall|q: int| 0 <= q < bin@.len() ==> *(#[trigger] iti4.seq()[q]) == bin@[q],
                    from_state(db@, *v, 3, |h: Hash| seen4.contains(h), *hash, iti4.index() as int), // OBL C08.legacy.from.uninject_bucket
//@ ENDLOOP
//@ LOOPSTART @LegacySpecificFilterType::UnhideScriptInject(
                let ghost dbb = db@;
//@ ENDLOOPSTART
//@ LOOPEND @LegacySpecificFilterType::UnhideScriptInject(
                proof {
                    lemma_from_step(dbb, db@, *v, 3, |h: Hash| seen4.contains(h), *hash, iti4.index() as int,
                        LegacySpecificFilterType::UnhideScriptInject(*f), Kind::Uninject, *f);
                }
//@ ENDLOOPEND
//@ LOOPEND @^LegacySpecificFilterType::UnhideScriptInject(
            proof {
                let s1 = |h: Hash| seen4.contains(h);
                let s2 = |h: Hash| seen4.insert(*hash).contains(h);
                lemma_from_hash_done(db@, *v, 3, s1, s2, *hash, Kind::Uninject, bin@.len() as int);
                seen4 = seen4.insert(*hash);
            }
//@ ENDLOOPEND
//@ BEFORE
    for (hash, bin) in v.procedural_action.0.iter() {
//@ AT
        proof {
            let s1 = |h: Hash| seen4.contains(h);
            assert forall|h: Hash| !s1(h) implies texts(*v, Kind::Uninject, h).len() == 0 by {
                if v.uninject_script.0@.contains_key(h) { assert(s1(h)); }
            }
            lemma_from_kind_done(db@, *v, 3, s1, Kind::Uninject);
        }
//@ ENDBEFORE
//@ LOOP @^LegacySpecificFilterType::Style(
            invariant from_state(db@, *v, 4, |h: Hash| false, 0, 0), // OBL C08.legacy.from.styles5
//@ ENDLOOP
//@ LOOP @LegacySpecificFilterType::Style(
                invariant from_state(db@, *v, 4, |h: Hash| false, 0, 0),
//@ ENDLOOP
//@ LOOP @^LegacySpecificFilterType::UnhideStyle(
            invariant from_state(db@, *v, 4, |h: Hash| false, 0, 0), // OBL C08.legacy.from.styles6
//@ ENDLOOP
//@ LOOP @LegacySpecificFilterType::UnhideStyle(
                invariant from_state(db@, *v, 4, |h: Hash| false, 0, 0),
//@ ENDLOOP
//@ R10ENTRYPUSH vf_legacy_push2
//@ REPLACE R7#1
    match serde_json::from_str::<ProceduralOrActionFilter>(f) {
//@ UPTO
    _ => (),
                }
//@ WITH
    vf_legacy_push_style(&mut db, *hash, f, false);
//@ ENDREPLACE
//@ REPLACE R7#2
    match serde_json::from_str::<ProceduralOrActionFilter>(f) {
//@ UPTO
    _ => (),
                }
//@ WITH
    vf_legacy_push_style(&mut db, *hash, f, true);
//@ ENDREPLACE
//@END
}

// ---- the round trip, as a lemma over the two contracts ----------------------------------------------------------------------
fn vf_legacy_roundtrip(v: &HostnameRuleDb) -> (r: HostnameRuleDb)
    ensures
        forall|h: Hash| #[trigger] bucket(r.hide, h) =~= bucket(v.hide, h), // OBL C08.legacy.roundtrip.hide
        forall|h: Hash| #[trigger] bucket(r.unhide, h) =~= bucket(v.unhide, h), // OBL C08.legacy.roundtrip.unhide
        forall|h: Hash| #[trigger] bucket(r.uninject_script, h) =~= bucket(v.uninject_script, h), // OBL C08.legacy.roundtrip.uninject
        // injections: same texts in the same order, every permission replaced by the default one
        forall|h: Hash| #[trigger] bucket(r.inject_script, h) =~= with_default_permission(names(bucket(v.inject_script, h))), // OBL C08.legacy.roundtrip.inject_texts
{
    let l = LegacyHostnameRuleDb::from(v);
    proof {
        assert forall|h: Hash| proj_hide(lb(l.db@, h)) =~= bucket(v.hide, h) by { assert(proj(Kind::Hide, lb(l.db@, h)) =~= texts(*v, Kind::Hide, h)); }
        assert forall|h: Hash| proj_unhide(lb(l.db@, h)) =~= bucket(v.unhide, h) by { assert(proj(Kind::Unhide, lb(l.db@, h)) =~= texts(*v, Kind::Unhide, h)); }
        assert forall|h: Hash| proj_uninject(lb(l.db@, h)) =~= bucket(v.uninject_script, h) by { assert(proj(Kind::Uninject, lb(l.db@, h)) =~= texts(*v, Kind::Uninject, h)); }
        assert forall|h: Hash| proj_inject(lb(l.db@, h)) =~= names(bucket(v.inject_script, h)) by { assert(proj(Kind::Inject, lb(l.db@, h)) =~= texts(*v, Kind::Inject, h)); }
    }
    l.into()
}

proof fn vf_canary() ensures false {}

} // verus!
fn main() {}
