// Unit c01_index — C01.6: bucket choice. Every rule is filed, for each of its token groups, under one token of
// that group (the fallback bucket 0 when the group is empty); nothing else in the index changes.
use vstd::prelude::*;
use std::collections::HashMap;
use std::sync::Arc;

verus! {

//@INCLUDE shims/filter_items.rs

// contract of NetworkFilter::get_tokens (unit c01_get_tokens): uninterpreted group list here
pub uninterp spec fn tokens_spec(f: NetworkFilter) -> Seq<Seq<Hash>>;
impl NetworkFilter {
    #[verifier::external_body]
    pub fn get_tokens(&self) -> (r: Vec<Vec<Hash>>)
        ensures r@.len() == tokens_spec(*self).len(), forall|g: int| 0 <= g < r@.len() ==> (#[trigger] r@[g])@ == tokens_spec(*self)[g]
    { unimplemented!() }
    // contract of NetworkFilter::get_id (unit c04_ids): a hash of pattern, options and domains - NOT of the tag; the stored `id` field is the
    // hash of the rule as written (set by the parser)
    #[verifier::external_body]
    pub fn get_id(&self) -> (r: Hash) ensures r == computed_id_spec(*self) { unimplemented!() }
}
pub uninterp spec fn computed_id_spec(f: NetworkFilter) -> Hash;

//@EXTRACT src/network_filter_list.rs :: struct NetworkFilterList
//@END

pub type Index = Map<Hash, Vec<Arc<NetworkFilter>>>;

pub open spec fn bucket_has(m: Index, k: Hash, f: NetworkFilter) -> bool {
    m.contains_key(k) && exists|j: int| 0 <= j < m[k]@.len() && *(#[trigger] m[k]@[j]) == f
}

// T: insert_dup (Entry API + binary_search_by closure: outside the subset). Keeps what is there, adds v under k.
#[verifier::external_body]
fn insert_dup(map: &mut HashMap<Hash, Vec<Arc<NetworkFilter>>>, k: Hash, v: Arc<NetworkFilter>)
    ensures
        bucket_has(final(map)@, k, *v),
        forall|k2: Hash, f: NetworkFilter| bucket_has(old(map)@, k2, f) ==> bucket_has(final(map)@, k2, f),
        forall|k2: Hash, f: NetworkFilter| bucket_has(final(map)@, k2, f) ==> bucket_has(old(map)@, k2, f) || (k2 == k && f == *v),
        forall|k2: Hash| k2 != k ==> final(map)@.contains_key(k2) == old(map)@.contains_key(k2) && (old(map)@.contains_key(k2) ==> final(map)@[k2] == old(map)@[k2]),
{ unimplemented!() }

// T: sum of bucket sizes; no bucket is larger than the total
#[verifier::external_body]
fn vec_hashmap_len(map: &HashMap<Hash, Vec<Arc<NetworkFilter>>>) -> (r: usize)
    ensures r < usize::MAX, forall|k: Hash| map@.contains_key(k) ==> (#[trigger] map@[k])@.len() <= r
{ unimplemented!() }

// the rule is reachable through group g: filed under one of the group's tokens, or in the fallback bucket 0
// (every request probes bucket 0: its token list always ends with 0)
pub open spec fn filed_for_group(m: Index, f: NetworkFilter, g: Seq<Hash>) -> bool {
    bucket_has(m, 0, f) || exists|i: int| 0 <= i < g.len() && bucket_has(m, #[trigger] g[i], f)
}

pub open spec fn own_token(ts: Seq<Seq<Hash>>, upto: int, k: Hash) -> bool {
    k == 0 || exists|g: int| 0 <= g < upto && g < ts.len() && #[trigger] ts[g].contains(k)
}

impl NetworkFilterList {
//@EXTRACT src/network_filter_list.rs :: impl NetworkFilterList :: fn add_filter
//@ SAFETY C01.index.add_filter.safety
//@ SPEC
    ensures
        // no rule that matches is lost by bucketing: every token group gets a bucket entry
        forall|g: int| 0 <= g < tokens_spec(filter).len() ==> filed_for_group(final(self).filter_map@, filter, #[trigger] tokens_spec(filter)[g]), // OBL C01.index.add_filter.filed
        // and nothing is invented: what was indexed stays, the only new entries are this rule under its own tokens (or 0)
        forall|k: Hash, f: NetworkFilter| bucket_has(old(self).filter_map@, k, f) ==> bucket_has(final(self).filter_map@, k, f), // OBL C01.index.add_filter.keeps
        forall|k: Hash, f: NetworkFilter| bucket_has(final(self).filter_map@, k, f) ==> bucket_has(old(self).filter_map@, k, f)
            || (f == filter && own_token(tokens_spec(filter), tokens_spec(filter).len() as int, k)), // OBL C01.index.add_filter.only_own_tokens
//@ ENDSPEC
//@ SUBST R8
    for tokens in
//@ WITH
    for tokens in it1:
//@ ENDSUBST
//@ SUBST R8
    for token in
//@ WITH
    for token in it2:
//@ ENDSUBST
//@ BEFORE
    let filter_tokens = filter.get_tokens();
//@ AT
        let ghost m0 = self.filter_map@;
        let ghost ts = tokens_spec(filter);
//@ ENDBEFORE
//@ LOOP 1
            invariant
                ts == tokens_spec(filter), *filter_pointer == filter, m0 == old(self).filter_map@,
                total_rules < usize::MAX,
                it1.seq().len() == ts.len(),
                forall|g: int| 0 <= g < ts.len() ==> (#[trigger] it1.seq()[g])@ == ts[g],
                forall|k: Hash, f: NetworkFilter| bucket_has(m0, k, f) ==> bucket_has(self.filter_map@, k, f),
                forall|g: int| 0 <= g < it1.index() ==> filed_for_group(self.filter_map@, filter, #[trigger] ts[g]),
                forall|k: Hash, f: NetworkFilter| bucket_has(self.filter_map@, k, f) ==> bucket_has(m0, k, f) || (f == filter && own_token(ts, it1.index() as int, k)),
//@ ENDLOOP
//@ LOOPSTART 1
            let ghost gi = it1.index() as int;
            let ghost m1 = self.filter_map@;
            let ghost grp = tokens@;
            proof { assert(grp == ts[gi]); }
//@ ENDLOOPSTART
//@ LOOP 2
                invariant
                    it2.seq() == grp, self.filter_map@ == m1, total_rules < usize::MAX, min_count <= total_rules + 1,
                    best_token == 0 || exists|i: int| 0 <= i < it2.index() && #[trigger] grp[i] == best_token,
//@ ENDLOOP
//@ LOOPSTART 2
                    proof { assert(token == grp[it2.index() as int]); }
//@ ENDLOOPSTART
//@ LOOPEND 1
            proof {
                let m2 = self.filter_map@;
                let best = best_token;
                assert(bucket_has(m2, best, filter)); // OBL C01.index.add_filter.filed
                assert(best == 0 || ts[gi].contains(best)) by {
                    if best != 0 { let i = choose|i: int| 0 <= i < grp.len() && #[trigger] grp[i] == best; assert(ts[gi][i] == best); }
                }
                assert(filed_for_group(m2, filter, ts[gi])) by { // OBL C01.index.add_filter.filed
                    if best != 0 { let i = choose|i: int| 0 <= i < grp.len() && #[trigger] grp[i] == best; assert(bucket_has(m2, ts[gi][i], filter)); }
                }
                assert forall|g: int| 0 <= g < gi + 1 implies filed_for_group(m2, filter, #[trigger] ts[g]) by {
                    if g < gi {
                        assert(filed_for_group(m1, filter, ts[g]));
                        if !bucket_has(m1, 0, filter) {
                            let i = choose|i: int| 0 <= i < ts[g].len() && bucket_has(m1, #[trigger] ts[g][i], filter);
                            assert(bucket_has(m2, ts[g][i], filter));
                        }
                    }
                }
                assert forall|k: Hash, f: NetworkFilter| bucket_has(m2, k, f) implies bucket_has(m0, k, f) || (f == filter && own_token(ts, gi + 1, k)) by { // OBL C01.index.add_filter.only_own_tokens
                    if bucket_has(m1, k, f) {
                        if !bucket_has(m0, k, f) {
                            assert(own_token(ts, gi, k));
                            if k != 0 { let g = choose|g: int| 0 <= g < gi && g < ts.len() && #[trigger] ts[g].contains(k); assert(0 <= g < gi + 1 && ts[g].contains(k)); }
                        }
                    } else {
                        assert(k == best && f == filter);
                        if k != 0 { assert(0 <= gi < gi + 1 && ts[gi].contains(k)); }
                    }
                }
            }
//@ ENDLOOPEND
//@END
}

// R5: `filter.get_tokens().into_iter().flatten().collect()` - all tokens of all groups
pub open spec fn any_group_has(ts: Seq<Seq<Hash>>, t: Hash) -> bool { exists|g: int| 0 <= g < ts.len() && (#[trigger] ts[g]).contains(t) }
#[verifier::external_body]
fn vf_flat_tokens(filter: &NetworkFilter) -> (r: Vec<Hash>)
    ensures forall|t: Hash| r@.contains(t) <==> any_group_has(tokens_spec(*filter), t)
{ filter.get_tokens().into_iter().flatten().collect() }
// the buckets looked at for a rule: those of its own tokens, or the fallback bucket 0 when it has none
pub open spec fn looked_at(f: NetworkFilter, k: Hash) -> bool {
    any_group_has(tokens_spec(f), k) || (k == 0 && forall|t: Hash| !any_group_has(tokens_spec(f), t))
}
// a rule with the same STORED id (the hash of everything the rule says: pattern, options, domains - and its tag) sits in bucket k
pub open spec fn bucket_has_id(m: Index, k: Hash, id: Hash) -> bool {
    m.contains_key(k) && exists|j: int| 0 <= j < m[k]@.len() && (#[trigger] m[k]@[j]).id == id
}

impl NetworkFilterList {
//@EXTRACT src/network_filter_list.rs :: impl NetworkFilterList :: fn filter_exists
//@ RET r
//@ SAFETY C01.index.filter_exists.safety
//@ SPEC
    ensures
        // "already there" means: a rule with this rule's stored id is filed under one of this rule's own tokens
        r == exists|k: Hash| looked_at(*filter, k) && #[trigger] bucket_has_id(self.filter_map@, k, filter.id), // OBL C01.index.filter_exists
//@ ENDSPEC
//@ SUBST R5
    filter.get_tokens().into_iter().flatten().collect()
//@ WITH
    vf_flat_tokens(filter)
//@ ENDSUBST
//@ BEFORE
    if tokens.is_empty() {
//@ AT
        let ghost t0 = tokens@;
//@ ENDBEFORE
//@ AFTER
            tokens.push(0)
        }
//@ AT
        let ghost toks = tokens@;
        proof {
            assert(t0.len() > 0 ==> t0.contains(t0[0]));
            assert(t0.len() == 0 ==> toks =~= seq![0u64]);
            assert(t0.len() > 0 ==> toks == t0);
            assert forall|k: Hash| looked_at(*filter, k) <==> toks.contains(k) by {
                if t0.len() == 0 {
                    assert(toks[0] == 0u64);
                    assert forall|t: Hash| !any_group_has(tokens_spec(*filter), t) by { assert(!t0.contains(t)); }
                } else {
                    assert(any_group_has(tokens_spec(*filter), t0[0]));
                }
            }
        }
//@ ENDAFTER
//@ SUBST R8
    for token in tokens {
//@ WITH
    for token in it1: tokens
        invariant
            it1.seq() == toks,
            forall|k: Hash| looked_at(*filter, k) <==> toks.contains(k),
            forall|i: int| 0 <= i < it1.index() ==> !bucket_has_id(self.filter_map@, #[trigger] toks[i], filter.id), // OBL C01.index.filter_exists
    {
        proof { assert(toks[it1.index() as int] == token); assert(toks.contains(token)); }
//@ ENDSUBST
//@ SUBST R8
    for saved_filter in filters {
//@ WITH
    for saved_filter in it2: filters
        invariant
            it2.seq().len() == filters@.len(), forall|j: int| 0 <= j < filters@.len() ==> *#[trigger] it2.seq()[j] == filters@[j],
            self.filter_map@.contains_key(token) && *filters == self.filter_map@[token],
            toks.contains(token), forall|k: Hash| looked_at(*filter, k) <==> toks.contains(k),
            forall|j: int| 0 <= j < it2.index() ==> (#[trigger] filters@[j]).id != filter.id, // OBL C01.index.filter_exists
    {
//@ ENDSUBST
//@ BEFORE
    return true;
//@ AT
                        proof {
                            assert(self.filter_map@[token]@[it2.index() as int].id == filter.id);
                            assert(bucket_has_id(self.filter_map@, token, filter.id));
                            assert(looked_at(*filter, token));
                        }
//@ ENDBEFORE
//@END
}


// ---- the same choice in batch construction (R7 block lift out of NetworkFilterList::new) -----------------------
pub open spec fn arc_val(a: Arc<NetworkFilter>) -> NetworkFilter { *a }
pub open spec fn views(gs: Vec<Vec<Hash>>) -> Seq<Seq<Hash>> { gs@.map_values(|v: Vec<Hash>| v@) }

pub open spec fn batch_filed(m: Index, fts: Seq<(Arc<NetworkFilter>, Vec<Vec<Hash>>)>, upto: int) -> bool {
    forall|x: int, g: int| 0 <= x < upto && x < fts.len() && 0 <= g < fts[x].1@.len() ==> filed_for_group(m, *fts[x].0, (#[trigger] fts[x].1@[g])@)
}
pub open spec fn batch_only_own(m: Index, fts: Seq<(Arc<NetworkFilter>, Vec<Vec<Hash>>)>, upto: int) -> bool {
    forall|k: Hash, f: NetworkFilter| #[trigger] bucket_has(m, k, f) ==> exists|x: int| 0 <= x < upto && x < fts.len() && *(#[trigger] fts[x]).0 == f && own_token(views(fts[x].1), fts[x].1@.len() as int, k)
}

fn vf_new_index_block(filter_tokens: Vec<(Arc<NetworkFilter>, Vec<Vec<Hash>>)>, total_number_of_tokens: u32, tokens_histogram: HashMap<Hash, u32>)
    -> (filter_map: HashMap<Hash, Vec<Arc<NetworkFilter>>>)
    requires total_number_of_tokens < u32::MAX,
    ensures
        batch_filed(filter_map@, filter_tokens@, filter_tokens@.len() as int), // OBL C01.index.new.filed
        batch_only_own(filter_map@, filter_tokens@, filter_tokens@.len() as int), // OBL C01.index.new.only_own_tokens
{
    let ghost fts = filter_tokens@;
//@EXTRACT src/network_filter_list.rs :: impl NetworkFilterList :: fn new
//@ SAFETY C01.index.new.safety
//@ FROM
        let mut filter_map = HashMap::with_capacity(filter_tokens.len());
//@ ENDFROM
//@ TOCLOSE
        let mut filter_map = HashMap::with_capacity(filter_tokens.len());
        {
//@ ENDTOCLOSE
//@ SUBST R8
    let mut filter_map = HashMap::with_capacity(filter_tokens.len());
//@ WITH
    let mut filter_map: HashMap<Hash, Vec<Arc<NetworkFilter>>> = HashMap::with_capacity(filter_tokens.len());
//@ ENDSUBST
//@ SUBST R8
    Some(&count) if count < min_count => {
                                min_count = count;
//@ WITH
    Some(count) if *count < min_count => {
                                min_count = *count;
//@ ENDSUBST
//@ SUBST R8
    for (filter_pointer, multi_tokens) in
//@ WITH
    for (filter_pointer, multi_tokens) in it0:
//@ ENDSUBST
//@ SUBST R8
    for tokens in
//@ WITH
    for tokens in it1:
//@ ENDSUBST
//@ SUBST R8
    for token in
//@ WITH
    for token in it2:
//@ ENDSUBST
//@ LOOP 1
            invariant
                it0.seq() == fts, total_number_of_tokens < u32::MAX,
                batch_filed(filter_map@, fts, it0.index() as int),
                batch_only_own(filter_map@, fts, it0.index() as int),
//@ ENDLOOP
//@ LOOPSTART 1
            let ghost xi = it0.index() as int;
            let ghost ma = filter_map@;
            let ghost fcur: NetworkFilter = arc_val(fts[xi].0);
            let ghost gs = views(multi_tokens);
            proof { assert(fts[xi] == (filter_pointer, multi_tokens)); }
//@ ENDLOOPSTART
//@ LOOP 2
                invariant
                    fts[xi].1 == multi_tokens, *filter_pointer == fcur, *fts[xi].0 == fcur, gs == views(multi_tokens), 0 <= xi < fts.len(), total_number_of_tokens < u32::MAX,
                    it1.seq().len() == gs.len(),
                    forall|g: int| 0 <= g < gs.len() ==> (#[trigger] it1.seq()[g])@ == gs[g],
                    forall|k: Hash, f: NetworkFilter| bucket_has(ma, k, f) ==> bucket_has(filter_map@, k, f),
                    forall|g: int| 0 <= g < it1.index() ==> filed_for_group(filter_map@, fcur, #[trigger] gs[g]),
                    forall|k: Hash, f: NetworkFilter| bucket_has(filter_map@, k, f) ==> bucket_has(ma, k, f) || (f == fcur && own_token(gs, it1.index() as int, k)),
//@ ENDLOOP
//@ LOOPSTART 2
                let ghost gi = it1.index() as int;
                let ghost m1 = filter_map@;
                let ghost grp = tokens@;
                proof { assert(grp == gs[gi]); }
//@ ENDLOOPSTART
//@ LOOP 3
                    invariant
                        it2.seq() == grp, filter_map@ == m1, total_number_of_tokens < u32::MAX, min_count <= total_number_of_tokens + 1,
                        best_token == 0 || exists|i: int| 0 <= i < it2.index() && #[trigger] grp[i] == best_token,
//@ ENDLOOP
//@ LOOPSTART 3
                    proof { assert(token == grp[it2.index() as int]); }
//@ ENDLOOPSTART
//@ LOOPEND 2
                proof {
                    let m2 = filter_map@;
                    let best = best_token;
                    assert(bucket_has(m2, best, fcur)); // OBL C01.index.new.filed
                    assert(best == 0 || gs[gi].contains(best)) by {
                        if best != 0 { let i = choose|i: int| 0 <= i < grp.len() && #[trigger] grp[i] == best; assert(gs[gi][i] == best); }
                    }
                    assert(filed_for_group(m2, fcur, gs[gi])) by { // OBL C01.index.new.filed
                        if best != 0 { let i = choose|i: int| 0 <= i < grp.len() && #[trigger] grp[i] == best; assert(bucket_has(m2, gs[gi][i], fcur)); }
                    }
                    assert forall|g: int| 0 <= g < gi + 1 implies filed_for_group(m2, fcur, #[trigger] gs[g]) by {
                        if g < gi {
                            assert(filed_for_group(m1, fcur, gs[g]));
                            if !bucket_has(m1, 0, fcur) {
                                let i = choose|i: int| 0 <= i < gs[g].len() && bucket_has(m1, #[trigger] gs[g][i], fcur);
                                assert(bucket_has(m2, gs[g][i], fcur));
                            }
                        }
                    }
                    assert forall|k: Hash, f: NetworkFilter| bucket_has(m2, k, f) implies bucket_has(ma, k, f) || (f == fcur && own_token(gs, gi + 1, k)) by { // OBL C01.index.new.only_own_tokens
                        if bucket_has(m1, k, f) {
                            if !bucket_has(ma, k, f) {
                                assert(own_token(gs, gi, k));
                                if k != 0 { let g = choose|g: int| 0 <= g < gi && g < gs.len() && #[trigger] gs[g].contains(k); assert(0 <= g < gi + 1 && gs[g].contains(k)); }
                            }
                        } else {
                            assert(k == best && f == fcur);
                            if k != 0 { assert(0 <= gi < gi + 1 && gs[gi].contains(k)); }
                        }
                    }
                }
//@ ENDLOOPEND
//@ LOOPEND 1
            proof {
                let mb = filter_map@;
                assert(batch_filed(mb, fts, xi + 1)) by {
                    assert forall|x: int, g: int| 0 <= x < xi + 1 && x < fts.len() && 0 <= g < fts[x].1@.len() implies filed_for_group(mb, *fts[x].0, (#[trigger] fts[x].1@[g])@) by {
                        if x < xi {
                            assert(filed_for_group(ma, *fts[x].0, fts[x].1@[g]@));
                            let ff = *fts[x].0; let gg = fts[x].1@[g]@;
                            if !bucket_has(ma, 0, ff) {
                                let i = choose|i: int| 0 <= i < gg.len() && bucket_has(ma, #[trigger] gg[i], ff);
                                assert(bucket_has(mb, gg[i], ff));
                            }
                        } else {
                            assert(gs[g] == fts[x].1@[g]@);
                            assert(filed_for_group(mb, fcur, gs[g]));
                        }
                    }
                }
                assert(batch_only_own(mb, fts, xi + 1)) by {
                    assert forall|k: Hash, f: NetworkFilter| #[trigger] bucket_has(mb, k, f) implies exists|x: int| 0 <= x < xi + 1 && x < fts.len() && *(#[trigger] fts[x]).0 == f && own_token(views(fts[x].1), fts[x].1@.len() as int, k) by {
                        if bucket_has(ma, k, f) {
                            let x = choose|x: int| 0 <= x < xi && x < fts.len() && *(#[trigger] fts[x]).0 == f && own_token(views(fts[x].1), fts[x].1@.len() as int, k);
                            assert(0 <= x < xi + 1);
                        } else {
                            assert(f == fcur && own_token(gs, gs.len() as int, k));
                            assert(*fts[xi].0 == f && own_token(views(fts[xi].1), fts[xi].1@.len() as int, k));
                        }
                    }
                }
            }
//@ ENDLOOPEND
//@END
    filter_map
}

proof fn vf_canary() ensures false {}

} // verus!
fn main() {}
