// Unit c12_request — C12 (narrow): party / host / scheme plumbing of Request::new and
// Request::preparsed.  URL scanning, IDN and the public-suffix lookup are trusted (url_parser).
#![feature(pattern)]
use vstd::prelude::*;
use vstd::string::*;
use vstd::slice::*;
use core::str::pattern::Pattern;

verus! {

//@INCLUDE shims/strings.rs

broadcast use {ascii_byte_boundaries, str_len_fits, str_ends_are_boundaries, vstd::string::axiom_str_literal_len};

pub mod utils { use vstd::prelude::*; verus!{ pub type Hash = u64; } }

//@EXTRACT src/request.rs :: enum RequestType
//@END
//@EXTRACT src/request.rs :: enum RequestError
//@END
//@EXTRACT src/request.rs :: struct Request
//@ PUBFIELDS
//@END

// T: memchr::memchr — first occurrence of a byte
pub mod memchr {
    use vstd::prelude::*;
    verus!{
    #[verifier::external_body]
    pub fn memchr(needle: u8, haystack: &[u8]) -> (r: Option<usize>)
        ensures match r {
            Some(i) => i < haystack@.len() && haystack@[i as int] == needle && forall|j: int| 0 <= j < i ==> haystack@[j] != needle,
            None => forall|j: int| 0 <= j < haystack@.len() ==> haystack@[j] != needle,
        }
    { unimplemented!() }
    }
}

// T: url_parser (URL scan, IDN, registrable domain)
pub mod url_parser {
    use vstd::prelude::*;
    verus!{
    pub struct RequestUrl { pub url: String, pub x: u8 }
    pub uninterp spec fn parse_spec(url: Seq<char>) -> Option<RequestUrl>;
    pub uninterp spec fn schema_spec(u: RequestUrl) -> Seq<char>;
    pub uninterp spec fn hostname_spec(u: RequestUrl) -> Seq<char>;
    pub uninterp spec fn domain_spec(u: RequestUrl) -> Seq<char>;
    #[verifier::external_body]
    pub fn parse_url(url: &str) -> (r: Option<RequestUrl>) ensures r == parse_spec(url@) { unimplemented!() }
    impl RequestUrl {
        #[verifier::external_body]
        pub fn schema(&self) -> (r: &str) ensures r@ == schema_spec(*self) { unimplemented!() }
        #[verifier::external_body]
        pub fn hostname(&self) -> (r: &str) ensures r@ == hostname_spec(*self) { unimplemented!() }
        #[verifier::external_body]
        pub fn domain(&self) -> (r: &str) ensures r@ == domain_spec(*self) { unimplemented!() }
    }
    }
}

// classification of (type alias, scheme): proved over the alias/scheme tables by the Kani harness
// c03_request_classify; uninterpreted here
pub uninterp spec fn classify_spec(raw_type: Seq<char>, schema: Seq<char>) -> (RequestType, bool, bool, bool);

impl Request {
    // from_detailed_parameters enters by contract, stated over its parameter NAMES; the signature (names, order, types) is read from
    // the source so that each call site binds its arguments the way the real function takes them
//@EXTRACT src/request.rs :: impl Request :: fn from_detailed_parameters
//@ RET r
//@ SIGONLY
//@ SPEC
        ensures
            r.is_third_party == third_party, r.hostname@ == hostname@, r.url@ == url@, r.original_url@ == original_url@,
            (r.request_type, r.is_http, r.is_https, r.is_supported) == classify_spec(raw_type@, schema@),
            fdp_source(r) == source_hostname@,
//@ ENDSPEC
//@END
}
pub uninterp spec fn fdp_source(r: Request) -> Seq<char>;

pub open spec fn prefix_before_colon(url: Seq<u8>) -> Seq<u8> {
    if exists|i: int| 0 <= i < url.len() && url[i] == 58u8 && forall|j: int| 0 <= j < i ==> url[j] != 58u8 {
        let i = choose|i: int| 0 <= i < url.len() && url[i] == 58u8 && forall|j: int| 0 <= j < i ==> url[j] != 58u8;
        url.subrange(0, i)
    } else { Seq::empty() }
}

impl Request {
//@EXTRACT src/request.rs :: impl Request :: fn new
//@ RET r
//@ SAFETY C12.new.safety
//@ SPEC
    ensures
        url_parser::parse_spec(url@) is None ==> r is Err && r->Err_0 is HostnameParseError, // OBL C12.new.unparseable
        url_parser::parse_spec(url@) is Some ==> r is Ok, // OBL C12.new.parseable
        url_parser::parse_spec(url@) is Some ==> r->Ok_0.hostname@ == url_parser::hostname_spec(url_parser::parse_spec(url@)->Some_0), // OBL C12.new.hostname
        url_parser::parse_spec(url@) is Some ==> r->Ok_0.url@ == url_parser::parse_spec(url@)->Some_0.url@, // OBL C12.new.normalised_url
        // third-party exactly when the registrable domains differ, or the source is absent / unparseable
        url_parser::parse_spec(url@) is Some ==> r->Ok_0.is_third_party == (url_parser::parse_spec(source_url@) is None
            || url_parser::domain_spec(url_parser::parse_spec(source_url@)->Some_0) != url_parser::domain_spec(url_parser::parse_spec(url@)->Some_0)), // OBL C12.new.third_party
        url_parser::parse_spec(url@) is Some ==> (r->Ok_0.request_type, r->Ok_0.is_http, r->Ok_0.is_https, r->Ok_0.is_supported)
            == classify_spec(request_type@, url_parser::schema_spec(url_parser::parse_spec(url@)->Some_0)), // OBL C12.new.classify
        url_parser::parse_spec(url@) is Some && url_parser::parse_spec(source_url@) is Some ==>
            fdp_source(r->Ok_0) == url_parser::hostname_spec(url_parser::parse_spec(source_url@)->Some_0), // OBL C12.new.source_host
        url_parser::parse_spec(url@) is Some && url_parser::parse_spec(source_url@) is None ==> fdp_source(r->Ok_0).len() == 0, // OBL C12.new.no_source
//@ ENDSPEC
//@ BEFORE#2
    Ok(Request::from_detailed_parameters(
//@ AT
                proof { reveal_strlit(""); }
//@ ENDBEFORE
//@END

//@EXTRACT src/request.rs :: impl Request :: fn preparsed
//@ RET r
//@ SAFETY C12.preparsed.safety
//@ SPEC
    ensures
        r.hostname@ == hostname@ && r.url@ == url@ && r.is_third_party == third_party && fdp_source(r) == source_hostname@, // OBL C12.preparsed.passthrough
        // the scheme handed on is the text before the first ':' (empty when there is none)
        exists|schema: &str| schema.spec_bytes() =~= prefix_before_colon(url.spec_bytes())
            && (r.request_type, r.is_http, r.is_https, r.is_supported) == classify_spec(request_type@, schema@), // OBL C12.preparsed.scheme
//@ ENDSPEC
//@END
}

proof fn vf_canary() ensures false {}

} // verus!
fn main() {}
