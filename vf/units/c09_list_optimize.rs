// Unit c09_list_optimize — C05 / C09: the per-bucket rewrite of NetworkFilterList::optimize (network_filter_list.rs:67-98).
// Every bucket keeps its key; its new content is the optimised form of the rules only this bucket holds (untouched if there is at most
// one such rule), followed by exactly the rules it shares with other buckets, in their order — a function of that bucket alone, so
// the result does not depend on the order in which the HashMap hands out its buckets.
#![feature(allocator_api)]
use vstd::prelude::*;
use std::collections::HashMap;
use std::sync::Arc;

verus! {

broadcast use vstd::std_specs::hash::group_hash_axioms;

pub type Hash = u64;
pub struct NetworkFilter { pub x: u64 }

//@EXTRACT src/network_filter_list.rs :: struct NetworkFilterList
//@ PUBFIELDS
//@END

// contract of optimizer::optimize (units c05_grouping / c09_order), abstractly: a function of the rules handed in
pub uninterp spec fn optimize_spec(rules: Seq<NetworkFilter>) -> Seq<NetworkFilter>;
pub mod optimizer {
    use vstd::prelude::*;
    use super::*;
    verus!{
    #[verifier::external_body]
    pub fn optimize(filters: Vec<NetworkFilter>) -> (r: Vec<NetworkFilter>) ensures r@ == optimize_spec(filters@) { unimplemented!() }
    }
}

// T (Arc::try_unwrap): a rule held by this bucket only is taken out; one that other buckets hold too is handed back
pub uninterp spec fn shared(a: Arc<NetworkFilter>) -> bool;
#[verifier::external_body]
fn vf_try_unwrap(a: Arc<NetworkFilter>) -> (r: Result<NetworkFilter, Arc<NetworkFilter>>)
    ensures match r { Ok(f) => !shared(a) && f == *a, Err(b) => shared(a) && b == a }
{ unimplemented!() }
// R5: v.into_iter().map(Arc::new).collect()
#[verifier::external_body]
fn vf_arc_all(v: Vec<NetworkFilter>) -> (r: Vec<Arc<NetworkFilter>>)
    ensures r@.len() == v@.len(), forall|i: int| 0 <= i < v@.len() ==> *(#[trigger] r@[i]) == v@[i]
{ unimplemented!() }
// R5: HashMap::drain(): every entry once, in some order; the map is left empty
#[verifier::external_body]
fn vf_drain(m: &mut HashMap<Hash, Vec<Arc<NetworkFilter>>>) -> (r: Vec<(Hash, Vec<Arc<NetworkFilter>>)>)
    ensures
        final(m)@ == Map::<Hash, Vec<Arc<NetworkFilter>>>::empty(),
        forall|i: int| 0 <= i < r@.len() ==> old(m)@.contains_key((#[trigger] r@[i]).0) && old(m)@[r@[i].0] == r@[i].1,
        forall|i: int, j: int| 0 <= i < j < r@.len() ==> (#[trigger] r@[i]).0 != (#[trigger] r@[j]).0,
        forall|k: Hash| old(m)@.contains_key(k) ==> exists|i: int| 0 <= i < r@.len() && (#[trigger] r@[i]).0 == k,
{ unimplemented!() }
#[verifier::external_body]
fn vf_map_with_capacity(n: usize) -> (r: HashMap<Hash, Vec<Arc<NetworkFilter>>>) ensures r@ == Map::<Hash, Vec<Arc<NetworkFilter>>>::empty() { unimplemented!() }
#[verifier::external_body]
fn vf_map_shrink(m: &mut HashMap<Hash, Vec<Arc<NetworkFilter>>>) ensures final(m)@ == old(m)@ { m.shrink_to_fit() }
pub assume_specification<T, A: std::alloc::Allocator>[ std::vec::Vec::<T, A>::shrink_to_fit ](v: &mut std::vec::Vec<T, A>)
    ensures final(v)@ == old(v)@;

// ---- the statement -----------------------------------------------------------------------------------------------------------
// the rules only this bucket holds, by value, in order; and the shared ones
pub open spec fn own_rules(b: Seq<Arc<NetworkFilter>>, n: int) -> Seq<NetworkFilter>
    decreases n
{
    if n <= 0 { Seq::empty() } else if shared(b[n - 1]) { own_rules(b, n - 1) } else { own_rules(b, n - 1).push(*b[n - 1]) }
}
pub open spec fn shared_rules(b: Seq<Arc<NetworkFilter>>, n: int) -> Seq<Arc<NetworkFilter>>
    decreases n
{
    if n <= 0 { Seq::empty() } else if shared(b[n - 1]) { shared_rules(b, n - 1).push(b[n - 1]) } else { shared_rules(b, n - 1) }
}
pub open spec fn values(b: Seq<Arc<NetworkFilter>>) -> Seq<NetworkFilter> { b.map_values(|a: Arc<NetworkFilter>| *a) }
// what a bucket looks like after optimisation, as a function of the bucket alone
pub open spec fn optimized_bucket(b: Seq<Arc<NetworkFilter>>) -> Seq<NetworkFilter> {
    let own = own_rules(b, b.len() as int);
    (if own.len() > 1 { optimize_spec(own) } else { own }) + values(shared_rules(b, b.len() as int))
}

pub open spec fn bucket_of(m: Map<Hash, Vec<Arc<NetworkFilter>>>, k: Hash) -> Seq<Arc<NetworkFilter>> { if m.contains_key(k) { m[k]@ } else { Seq::empty() } }

impl NetworkFilterList {
//@EXTRACT src/network_filter_list.rs :: impl NetworkFilterList :: fn optimize
//@ SAFETY C09.list_optimize.safety
//@ ATTR #[verifier::loop_isolation(false)]
//@ SPEC
        ensures
            // the same keys
            final(self).filter_map@.dom() =~= old(self).filter_map@.dom(), // OBL C09.list_optimize.same_keys
            // each bucket: a function of that bucket alone (so independent of the order in which the map hands out its buckets)
            forall|k: Hash| old(self).filter_map@.contains_key(k) ==> values(#[trigger] bucket_of(final(self).filter_map@, k)) =~= optimized_bucket(bucket_of(old(self).filter_map@, k)), // OBL C09.list_optimize.bucket
//@ ENDSPEC
//@ SUBST R6
    HashMap::with_capacity(self.filter_map.len())
//@ WITH
    vf_map_with_capacity(self.filter_map.len())
//@ ENDSUBST
//@ SUBST R5
    for (key, filters) in self.filter_map.drain() {
//@ WITH
    let ghost m0 = self.filter_map@;
    let ghost mut seen = Set::<Hash>::empty();
    for (key, filters) in itd: vf_drain(&mut self.filter_map)
        invariant
            forall|p: int| 0 <= p < itd.seq().len() ==> m0.contains_key((#[trigger] itd.seq()[p]).0) && m0[itd.seq()[p].0] == itd.seq()[p].1,
            forall|p: int, q: int| 0 <= p < q < itd.seq().len() ==> (#[trigger] itd.seq()[p]).0 != (#[trigger] itd.seq()[q]).0,
            forall|k: Hash| m0.contains_key(k) ==> exists|p: int| 0 <= p < itd.seq().len() && (#[trigger] itd.seq()[p]).0 == k,
            forall|p: int| 0 <= p < itd.index() ==> seen.contains((#[trigger] itd.seq()[p]).0),
            forall|k: Hash| #[trigger] seen.contains(k) ==> exists|p: int| 0 <= p < itd.index() && (#[trigger] itd.seq()[p]).0 == k,
            optimized_map@.dom() =~= seen,
            forall|k: Hash| #[trigger] seen.contains(k) ==> values(bucket_of(optimized_map@, k)) =~= optimized_bucket(bucket_of(m0, k)), // OBL C09.list_optimize.loop
    {
        let ghost b = filters@;
        proof { assert(b == bucket_of(m0, key)); }
//@ ENDSUBST
//@ SUBST R8
    for f in filters {
//@ WITH
    for f in itf: filters
                invariant
                    itf.seq() == b,
                    unoptimized@ =~= own_rules(b, itf.index() as int),
                    unoptimizable@ =~= shared_rules(b, itf.index() as int),
            {
//@ ENDSUBST
//@ SUBST R6
    Arc::try_unwrap(f)
//@ WITH
    vf_try_unwrap(f)
//@ ENDSUBST
//@ REPLACE R5
    optimizer::optimize(unoptimized)
                    .into_iter()
//@ UPTO
    .collect()
//@ WITH
    vf_arc_all(optimizer::optimize(unoptimized))
//@ ENDREPLACE
//@ SUBST R5
    unoptimized.into_iter().map(Arc::new).collect()
//@ WITH
    vf_arc_all(unoptimized)
//@ ENDSUBST
//@ SUBST R6
    optimized_map.shrink_to_fit();
//@ WITH
    vf_map_shrink(&mut optimized_map);
//@ ENDSUBST
//@ LOOPEND @optimized_map.insert(key, optimized)
        proof {
            let k0 = key;
            assert(!seen.contains(k0)) by {
                if seen.contains(k0) { let p = choose|p: int| 0 <= p < itd.index() && (#[trigger] itd.seq()[p]).0 == k0; assert(itd.seq()[p].0 != itd.seq()[itd.index() as int].0); }
            }
            assert(values(bucket_of(optimized_map@, k0)) =~= optimized_bucket(b));
            seen = seen.insert(k0);
        }
//@ ENDLOOPEND
//@END
}

proof fn vf_canary() ensures false {}

} // verus!
fn main() {}
