// Unit c02_regex — C02 / C05: how a rule's pattern text becomes the regex that is matched (regex_manager.rs: compile_regex,
// make_regexp).  The four text substitutions and the regex crate are NOT under contract (uninterpreted); what is proved is
// the wiring: which substitutions are applied, in which order, where the `^` / `$` anchors of `|` go, that an empty
// pattern matches everything, that one pattern gives a regex and several give a regex SET of exactly those patterns, and
// that both are built with Unicode mode off.
#![feature(pattern)]
use vstd::prelude::*;
use vstd::string::*;
use vstd::slice::*;
use vstd::std_specs::iter::*;
use core::str::pattern::Pattern;

macro_rules! vf_format {
    ($f:expr, $a:expr $(,)?) => { vf_format1($f, &$a) };
    ($f:expr, $a:expr, $b:expr $(,)?) => { vf_format2($f, &$a, &$b) };
    ($f:expr, $a:expr, $b:expr, $c:expr $(,)?) => { vf_format3($f, &$a, &$b, &$c) };
    ($f:expr, $a:expr, $b:expr, $c:expr, $d:expr $(,)?) => { vf_format4($f, &$a, &$b, &$c, &$d) };
}

verus! {

//@INCLUDE shims/strings.rs
//@INCLUDE shims/mask_items.rs
//@INCLUDE shims/format.rs

broadcast use {vf_str::ascii_byte_boundaries, vf_str::str_ends_are_boundaries, vf_str::str_len_fits, vf_rx::fmt_concat3};

// ---- the regex crate, as far as this function uses it ---------------------------------------------------------------
pub mod regex { pub struct Error { pub x: u8 } }
pub struct BytesRegex { pub pat: Ghost<Seq<char>>, pub unicode: Ghost<bool>, pub ci: Ghost<bool> }
pub struct BytesRegexSet { pub pats: Ghost<Seq<Seq<char>>>, pub unicode: Ghost<bool>, pub ci: Ghost<bool> }
// T (regex crate): a builder remembers the pattern text and the flags it was given; Unicode mode is on by default, case-insensitive
// matching (`ci`) off
pub struct BytesRegexBuilder { pub pat: Ghost<Seq<char>>, pub unicode: Ghost<bool>, pub ci: Ghost<bool> }
impl BytesRegexBuilder {
    #[verifier::external_body]
    pub fn new(pattern: &str) -> (r: Self) ensures r.pat@ == pattern@, r.unicode@, !r.ci@ { unimplemented!() }
    #[verifier::external_body]
    pub fn unicode(self, yes: bool) -> (r: Self) ensures r.pat@ == self.pat@, r.unicode@ == yes, r.ci@ == self.ci@ { unimplemented!() }
    #[verifier::external_body]
    pub fn case_insensitive(self, yes: bool) -> (r: Self) ensures r.pat@ == self.pat@, r.unicode@ == self.unicode@, r.ci@ == yes { unimplemented!() }
    #[verifier::external_body]
    pub fn build(self) -> (r: Result<BytesRegex, regex::Error>)
        ensures r is Ok <==> builds(self.pat@, self.unicode@, self.ci@), r is Ok ==> r->Ok_0.pat@ == self.pat@ && r->Ok_0.unicode@ == self.unicode@ && r->Ok_0.ci@ == self.ci@
    { unimplemented!() }
}
// T (regex crate): whether a pattern text compiles is a function of the text and the flags
pub uninterp spec fn builds(pat: Seq<char>, unicode: bool, ci: bool) -> bool;
pub uninterp spec fn builds_set(pats: Seq<Seq<char>>, unicode: bool, ci: bool) -> bool;
// T (regex crate): the plain constructors use the default flags (Unicode mode on)
impl BytesRegex {
    #[verifier::external_body]
    pub fn new(pattern: &str) -> (r: Result<BytesRegex, regex::Error>) ensures r is Ok <==> builds(pattern@, true, false), r is Ok ==> r->Ok_0.pat@ == pattern@ && r->Ok_0.unicode@ && !r->Ok_0.ci@ { unimplemented!() }
}
impl BytesRegexSet {
    #[verifier::external_body]
    pub fn new(patterns: Vec<String>) -> (r: Result<BytesRegexSet, regex::Error>) ensures r is Ok <==> builds_set(views(patterns@), true, false), r is Ok ==> r->Ok_0.pats@ == views(patterns@) && r->Ok_0.unicode@ && !r->Ok_0.ci@ { unimplemented!() }
}
pub struct BytesRegexSetBuilder { pub pats: Ghost<Seq<Seq<char>>>, pub unicode: Ghost<bool>, pub ci: Ghost<bool> }
pub open spec fn views(v: Seq<String>) -> Seq<Seq<char>> { v.map_values(|s: String| s@) }
impl BytesRegexSetBuilder {
    #[verifier::external_body]
    pub fn new(patterns: Vec<String>) -> (r: Self) ensures r.pats@ == views(patterns@), r.unicode@, !r.ci@ { unimplemented!() }
    // the same constructor on a borrowed list (RegexSetBuilder::new is generic over `IntoIterator<Item: AsRef<str>>`)
    #[verifier::external_body]
    pub fn new_ref(patterns: &Vec<String>) -> (r: Self) ensures r.pats@ == views(patterns@), r.unicode@, !r.ci@ { unimplemented!() }
    #[verifier::external_body]
    pub fn unicode(self, yes: bool) -> (r: Self) ensures r.pats@ == self.pats@, r.unicode@ == yes, r.ci@ == self.ci@ { unimplemented!() }
    #[verifier::external_body]
    pub fn case_insensitive(self, yes: bool) -> (r: Self) ensures r.pats@ == self.pats@, r.unicode@ == self.unicode@, r.ci@ == yes { unimplemented!() }
    #[verifier::external_body]
    pub fn build(self) -> (r: Result<BytesRegexSet, regex::Error>)
        ensures r is Ok <==> builds_set(self.pats@, self.unicode@, self.ci@), r is Ok ==> r->Ok_0.pats@ == self.pats@ && r->Ok_0.unicode@ == self.unicode@ && r->Ok_0.ci@ == self.ci@
    { unimplemented!() }
}

//@EXTRACT src/regex_manager.rs :: enum CompiledRegex
//@END

pub mod vf_rx {
    use vstd::prelude::*;
    use super::vf_fmt_axioms::fmt_spec;
    verus!{
    // T (the four Lazy<Regex> substitutions of compile_regex; their pattern texts are pinned by the R9 anchors below)
    pub uninterp spec fn esc_spec(s: Seq<char>) -> Seq<char>;      // SPECIAL_RE.replace_all(s, "\\$1")
    pub uninterp spec fn wild_spec(s: Seq<char>) -> Seq<char>;     // WILDCARD_RE.replace_all(s, ".*")
    pub uninterp spec fn sep_spec(s: Seq<char>) -> Seq<char>;      // ANCHOR_RE.replace_all(s, "(?:[^\\w\\d\\._%-])$1")
    pub uninterp spec fn eol_spec(s: Seq<char>) -> Seq<char>;      // ANCHOR_RE_EOL.replace_all(s, "(?:[^\\w\\d\\._%-]|$)")
    pub uninterp spec fn unescape_spec(s: Seq<u8>) -> Seq<char>; // .replace("\\/", "/").replace("\\:", ":")
    // T (core::fmt): "{}{}{}" of three strings is their concatenation
    pub broadcast axiom fn fmt_concat3(a: &str, b: String, c: &str)
        ensures #[trigger] fmt_spec("{}{}{}"@, (a, b, c)) == a@ + b@ + c@;
    }
}
pub use vf_rx::*;

#[verifier::external_body]
fn vf_re_special(s: &str) -> (r: String) ensures r@ == esc_spec(s@) { unimplemented!() }
#[verifier::external_body]
fn vf_re_wildcard(s: &String) -> (r: String) ensures r@ == wild_spec(s@) { unimplemented!() }
#[verifier::external_body]
fn vf_re_anchor(s: &String) -> (r: String) ensures r@ == sep_spec(s@) { unimplemented!() }
#[verifier::external_body]
fn vf_re_anchor_eol(s: &String) -> (r: String) ensures r@ == eol_spec(s@) { unimplemented!() }
// T (core::str::strip_prefix / strip_suffix on a one-byte character): the text between a leading and a trailing '/', the whole text
// when it does not have both
#[verifier::external_body]
fn vf_strip_slashes(s: &str) -> (r: &str) ensures r.spec_bytes() == inner_of(s.spec_bytes()) { unimplemented!() }
#[verifier::external_body]
fn vf_unescape(s: &str) -> (r: String) ensures r@ == unescape_spec(s.spec_bytes()) { unimplemented!() }

// R5: the caller's pattern iterator, materialised
#[verifier::external_body]
fn vf_collect<'a, I: Iterator<Item = &'a str> + ExactSizeIterator>(i: I) -> (r: Vec<&'a str>)
    ensures r@ == i.remaining()
{ i.collect() }

// ---- the translation the statement describes --------------------------------------------------------------------------
// "'|' pins the start or end of the URL": `^` in front / `$` behind the translated pattern body — the body is translated on its
// own, the anchors are not part of what the separator rules see;  "'*' matches any run", "'^' matches one separator ... or
// the end of the URL when it is last": escape first, then `*`, then `^` before a character, then a final `^`
pub open spec fn translated(f: Seq<char>, right: bool, left: bool) -> Seq<char> {
    (if left { seq!['^'] } else { Seq::<char>::empty() }) + eol_spec(sep_spec(wild_spec(esc_spec(f)))) + (if right { seq!['$'] } else { Seq::<char>::empty() })
}
// "/re/" rules: the text between the slashes, with `\/` and `\:` unescaped.  (The parser only flags a pattern as a full regex when it has
// both slashes; a deserialized engine may flag any text - C10 - and then the text is taken whole: no precondition on the caller.)
pub open spec fn inner_of(b: Seq<u8>) -> Seq<u8> {
    if b.len() >= 2 && b[0] == 47u8 && b[b.len() - 1] == 47u8 { b.subrange(1, b.len() - 1) } else { b }
}
pub open spec fn pattern_of(f: &str, right: bool, left: bool, complete: bool) -> Seq<char> {
    if complete { unescape_spec(inner_of(f.spec_bytes())) } else { translated(f@, right, left) }
}
pub open spec fn patterns_of(fs: Seq<&str>, right: bool, left: bool, complete: bool) -> Seq<Seq<char>> {
    fs.map_values(|f: &str| pattern_of(f, right, left, complete))
}
pub open spec fn some_empty(fs: Seq<&str>) -> bool { exists|i: int| 0 <= i < fs.len() && (#[trigger] fs[i])@.len() == 0 }

// what a compiled regex is, as far as matching goes
pub enum Shape { MatchAll, One(Seq<char>, bool, bool), Set(Seq<Seq<char>>, bool, bool), Error }
pub open spec fn shape(r: CompiledRegex) -> Shape {
    match r {
        CompiledRegex::MatchAll => Shape::MatchAll,
        CompiledRegex::Compiled(x) => Shape::One(x.pat@, x.unicode@, x.ci@),
        CompiledRegex::CompiledSet(x) => Shape::Set(x.pats@, x.unicode@, x.ci@),
        CompiledRegex::RegexParsingError(_) => Shape::Error,
    }
}
// the regex a rule's patterns and flags denote (a function of them: compiling twice gives the same thing)
// the patterns of a fused rule that compile on their own, in order: one that does not compile matches nothing as a rule of its own
// (C05: the fused rule answers like its members), so when the whole set does not build it is left out instead of disabling the others
pub open spec fn valid_upto(pats: Seq<Seq<char>>, n: int, ci: bool) -> Seq<Seq<char>>
    decreases n
{
    if n <= 0 { Seq::empty() }
    else if builds(pats[n - 1], false, ci) { valid_upto(pats, n - 1, ci).push(pats[n - 1]) }
    else { valid_upto(pats, n - 1, ci) }
}
pub open spec fn set_shape(pats: Seq<Seq<char>>, ci: bool) -> Shape {
    if builds_set(pats, false, ci) { Shape::Set(pats, false, ci) }
    else {
        let v = valid_upto(pats, pats.len() as int, ci);
        if v.len() > 0 && builds_set(v, false, ci) { Shape::Set(v, false, ci) } else { Shape::Error }
    }
}
// `ci`: a full regex (kept as written by the parser) is compiled case-insensitively unless the rule says match-case; every other
// pattern was lower-cased by the parser and is tested against the lower-cased URL, so its regex stays case-sensitive
pub open spec fn compile_shape(fs: Seq<&str>, right: bool, left: bool, complete: bool, ci_wanted: bool) -> Shape {
    let ci = complete && ci_wanted;
    if some_empty(fs) || fs.len() == 0 { Shape::MatchAll }
    else if fs.len() == 1 { if builds(pattern_of(fs[0], right, left, complete), false, ci) { Shape::One(pattern_of(fs[0], right, left, complete), false, ci) } else { Shape::Error } }
    else { set_shape(patterns_of(fs, right, left, complete), ci) }
}

//@EXTRACT src/regex_manager.rs :: fn compile_regex
//@ RET r
//@ SAFETY C02.regex.compile.safety
//@ ATTR #[verifier::loop_isolation(false)]
//@ SPEC
    requires
        filters.obeys_prophetic_iter_laws(),
    ensures
        // an empty pattern (a rule that is only options or anchors) matches everything; so does a rule without patterns
        some_empty(filters.remaining()) || filters.remaining().len() == 0 ==> r is MatchAll, // OBL C02.regex.compile.match_all
        // one pattern: the regex of its translation; Unicode mode off (URLs are matched as bytes)
        !some_empty(filters.remaining()) && filters.remaining().len() == 1 ==> (r is RegexParsingError
            || (r is Compiled && r->Compiled_0.pat@ == pattern_of(filters.remaining()[0], is_right_anchor, is_left_anchor, is_complete_regex) && !r->Compiled_0.unicode@
                && r->Compiled_0.ci@ == (is_complete_regex && case_insensitive))), // OBL C02.regex.compile.single
        // several patterns (a fused rule): the set of exactly their translations, in order - or, when that set does not build, of
        // those among them that compile on their own
        !some_empty(filters.remaining()) && filters.remaining().len() >= 2 ==> (r is RegexParsingError
            || (r is CompiledSet && !r->CompiledSet_0.unicode@ && r->CompiledSet_0.ci@ == (is_complete_regex && case_insensitive)
                && ({ let all = patterns_of(filters.remaining(), is_right_anchor, is_left_anchor, is_complete_regex);
                      r->CompiledSet_0.pats@ == (if builds_set(all, false, is_complete_regex && case_insensitive) { all } else { valid_upto(all, all.len() as int, is_complete_regex && case_insensitive) }) }))), // OBL C02.regex.compile.set
        // the same, as a function of the inputs (C06: a recompiled regex is the regex that was discarded)
        shape(r) == compile_shape(filters.remaining(), is_right_anchor, is_left_anchor, is_complete_regex, case_insensitive), // OBL C02.regex.compile.function_of_inputs
//@ ENDSPEC
//@ SUBST R9
    use once_cell::sync::Lazy;
//@ WITH
    /* R9: the four Lazy<Regex> statics are not part of the verified text; their definitions are matched token for token */
//@ ENDSUBST
//@ SUBST R9
    static SPECIAL_RE: Lazy<Regex> =
        Lazy::new(|| Regex::new(r"([\\\|\.\$\+\?\{\}\(\)\[\]])").unwrap());
//@ WITH
//@ ENDSUBST
//@ SUBST R9
    static WILDCARD_RE: Lazy<Regex> = Lazy::new(|| Regex::new(r"\*").unwrap());
//@ WITH
//@ ENDSUBST
//@ SUBST R9
    static ANCHOR_RE: Lazy<Regex> = Lazy::new(|| Regex::new(r"\^(.)").unwrap());
//@ WITH
//@ ENDSUBST
//@ SUBST R9
    static ANCHOR_RE_EOL: Lazy<Regex> = Lazy::new(|| Regex::new(r"\^$").unwrap());
//@ WITH
//@ ENDSUBST
//@ SUBST R9
    SPECIAL_RE.replace_all(&filter_str, "\\$1")
//@ WITH
    vf_re_special(filter_str)
//@ ENDSUBST
//@ SUBST R9
    WILDCARD_RE.replace_all(&repl, ".*")
//@ WITH
    vf_re_wildcard(&repl)
//@ ENDSUBST
//@ SUBST R9
    ANCHOR_RE.replace_all(&repl, "(?:[^\\w\\d\\._%-])$1")
//@ WITH
    vf_re_anchor(&repl)
//@ ENDSUBST
//@ SUBST R9
    ANCHOR_RE_EOL.replace_all(&repl, "(?:[^\\w\\d\\._%-]|$)")
//@ WITH
    vf_re_anchor_eol(&repl)
//@ ENDSUBST
//@ SUBST R6
    filter_str
                .strip_prefix('/')
                .and_then(|inner| inner.strip_suffix('/'))
                .unwrap_or(filter_str)
                .replace("\\/", "/")
                .replace("\\:", ":")
//@ WITH
    vf_unescape(vf_strip_slashes(filter_str))
//@ ENDSUBST
//@ SUBST R6*
    format!
//@ WITH
    vf_format!
//@ ENDSUBST
//@ SUBST R5
    for filter_str in filters {
//@ WITH
    for filter_str in it: vf_collect(filters)
        invariant
            it.seq() == fs,
            forall|q: int| 0 <= q < it.index() ==> (#[trigger] fs[q])@.len() != 0,
            views(escaped_patterns@) =~= patterns_of(fs.take(it.index() as int), is_right_anchor, is_left_anchor, is_complete_regex), // OBL C02.regex.compile.translate_each
    {
//@ ENDSUBST
//@ LOOPSTART @escaped_patterns.push(filter)
        let ghost before = escaped_patterns@;
//@ ENDLOOPSTART
//@ LOOPEND @escaped_patterns.push(filter)
        proof {
            reveal_strlit("^"); reveal_strlit("$"); reveal_strlit("");
            let i = it.index() as int;
            assert(fs.take(i + 1) =~= fs.take(i).push(fs[i]));
            assert(escaped_patterns@[i]@ == pattern_of(fs[i], is_right_anchor, is_left_anchor, is_complete_regex));
            assert(views(escaped_patterns@).len() == i + 1);
            assert forall|q: int| 0 <= q < i + 1 implies views(escaped_patterns@)[q] == patterns_of(fs.take(i + 1), is_right_anchor, is_left_anchor, is_complete_regex)[q] by {
                if q < i {
                    assert(escaped_patterns@[q] == before[q]);
                    assert(views(before)[q] == patterns_of(fs.take(i), is_right_anchor, is_left_anchor, is_complete_regex)[q]);
                    assert(fs.take(i)[q] == fs.take(i + 1)[q]);
                }
            }
            assert(views(escaped_patterns@) =~= patterns_of(fs.take(i + 1), is_right_anchor, is_left_anchor, is_complete_regex));
        }
//@ ENDLOOPEND
//@ AFTER
    escaped_patterns.push(filter);
        }
    }
//@ AT
    proof {
        assert(fs.take(fs.len() as int) =~= fs);
        assert(!some_empty(fs));
        assert(fs.len() == 1 ==> views(escaped_patterns@)[0] == pattern_of(fs[0], is_right_anchor, is_left_anchor, is_complete_regex));
    }
//@ ENDAFTER
//@ SUBST R6
    BytesRegexSetBuilder::new(&escaped_patterns)
//@ WITH
    BytesRegexSetBuilder::new_ref(&escaped_patterns)
//@ ENDSUBST
//@ SUBST R6
    BytesRegexBuilder::new(&pattern)
//@ WITH
    BytesRegexBuilder::new(pattern.as_str())
//@ ENDSUBST
//@ SUBST R5
    for pattern in escaped_patterns {
//@ WITH
    for pattern in it2: escaped_patterns
                    invariant
                        it2.seq() == pats0,
                        views(valid_patterns@) =~= valid_upto(views(pats0), it2.index() as int, case_insensitive), // OBL C02.regex.compile.keep_valid
                {
                    let ghost vbefore = valid_patterns@;
                    proof { assert(views(pats0)[it2.index() as int] == pats0[it2.index() as int]@); }
//@ ENDSUBST
//@ BEFORE
    let mut valid_patterns = Vec::with_capacity(escaped_patterns.len());
//@ AT
    let ghost pats0 = escaped_patterns@;
//@ ENDBEFORE
//@ BEFORE
    let mut escaped_patterns = Vec::with_capacity(filters.len());
//@ AT
    let ghost fs = filters.remaining();
//@ ENDBEFORE
//@END

// the rule's own anchor / regex flags decide the translation
//@EXTRACT src/regex_manager.rs :: fn make_regexp
//@ RET r
//@ SAFETY C02.regex.make.safety
//@ SPEC
    requires
        filters.obeys_prophetic_iter_laws(),
    ensures
        some_empty(filters.remaining()) || filters.remaining().len() == 0 ==> r is MatchAll, // OBL C02.regex.make.match_all
        !some_empty(filters.remaining()) && filters.remaining().len() == 1 ==> (r is RegexParsingError
            || (r is Compiled && !r->Compiled_0.unicode@
                && r->Compiled_0.ci@ == (mask.has(NetworkFilterMask::IS_COMPLETE_REGEX) && !mask.has(NetworkFilterMask::MATCH_CASE))
                && r->Compiled_0.pat@ == pattern_of(filters.remaining()[0],
                    mask.has(NetworkFilterMask::IS_RIGHT_ANCHOR), mask.has(NetworkFilterMask::IS_LEFT_ANCHOR), mask.has(NetworkFilterMask::IS_COMPLETE_REGEX)))), // OBL C02.regex.make.single
        !some_empty(filters.remaining()) && filters.remaining().len() >= 2 ==> (r is RegexParsingError
            || (r is CompiledSet && !r->CompiledSet_0.unicode@
                && r->CompiledSet_0.ci@ == (mask.has(NetworkFilterMask::IS_COMPLETE_REGEX) && !mask.has(NetworkFilterMask::MATCH_CASE))
                && ({ let all = patterns_of(filters.remaining(), mask.has(NetworkFilterMask::IS_RIGHT_ANCHOR), mask.has(NetworkFilterMask::IS_LEFT_ANCHOR), mask.has(NetworkFilterMask::IS_COMPLETE_REGEX));
                      let ci = mask.has(NetworkFilterMask::IS_COMPLETE_REGEX) && !mask.has(NetworkFilterMask::MATCH_CASE);
                      r->CompiledSet_0.pats@ == (if builds_set(all, false, ci) { all } else { valid_upto(all, all.len() as int, ci) }) }))), // OBL C02.regex.make.set
        shape(r) == compile_shape(filters.remaining(), mask.has(NetworkFilterMask::IS_RIGHT_ANCHOR), mask.has(NetworkFilterMask::IS_LEFT_ANCHOR), mask.has(NetworkFilterMask::IS_COMPLETE_REGEX), !mask.has(NetworkFilterMask::MATCH_CASE)), // OBL C02.regex.make.function_of_inputs
//@ ENDSPEC
//@END

// ---- C06: the regex cache (RegexManager::matches) -----------------------------------------------------------------------
// T (regex crate): whether a compiled regex finds a match is a function of what it was compiled from and of the text
pub uninterp spec fn re_match(pat: Seq<char>, unicode: bool, ci: bool, text: Seq<u8>) -> bool;
pub uninterp spec fn re_set_match(pats: Seq<Seq<char>>, unicode: bool, ci: bool, text: Seq<u8>) -> bool;
impl BytesRegex {
    #[verifier::external_body]
    pub fn is_match(&self, text: &[u8]) -> (r: bool) ensures r == re_match(self.pat@, self.unicode@, self.ci@, text@) { unimplemented!() }
}
impl BytesRegexSet {
    #[verifier::external_body]
    pub fn is_match(&self, text: &[u8]) -> (r: bool) ensures r == re_set_match(self.pats@, self.unicode@, self.ci@, text@) { unimplemented!() }
}
pub open spec fn shape_match(s: Shape, text: Seq<u8>) -> bool {
    match s { Shape::MatchAll => true, Shape::Error => false, Shape::One(p, u, c) => re_match(p, u, c, text), Shape::Set(ps, u, c) => re_set_match(ps, u, c, text) }
}
impl CompiledRegex {
//@EXTRACT src/regex_manager.rs :: impl CompiledRegex :: fn is_match
//@ RET r
//@ SAFETY C06.cache.is_match.safety
//@ SPEC
        ensures r == shape_match(shape(*self), pattern.spec_bytes()), // OBL C06.cache.is_match
//@ ENDSPEC
//@END
}

#[derive(Clone, Copy)]
pub struct Instant { pub t: u64 }
//@EXTRACT src/regex_manager.rs :: struct RegexEntry
//@ PUB
//@ PUBFIELDS
//@END
// the part of RegexManager the two arms of `match self.map.entry(key)` touch (R7: the arms' free variables become parameters)
pub struct RegexManagerView { pub now: Instant, pub compiled_regex_count: usize }
// T (hash_map::VacantEntry::insert): stores the value under the key and hands it back
pub struct VfVacant { pub x: u8 }
impl VfVacant {
    #[verifier::external_body]
    pub fn insert(self, v: RegexEntry) -> (r: RegexEntry) ensures r == v { unimplemented!() }
}
pub open spec fn rule_shape(mask: NetworkFilterMask, fs: Seq<&str>) -> Shape {
    compile_shape(fs, mask.has(NetworkFilterMask::IS_RIGHT_ANCHOR), mask.has(NetworkFilterMask::IS_LEFT_ANCHOR), mask.has(NetworkFilterMask::IS_COMPLETE_REGEX), !mask.has(NetworkFilterMask::MATCH_CASE))
}
// cache invariant for the entry of this rule: a regex that is still held was compiled from this rule
pub open spec fn entry_ok(v: RegexEntry, mask: NetworkFilterMask, fs: Seq<&str>) -> bool { v.regex is Some ==> shape(v.regex->Some_0) == rule_shape(mask, fs) }

impl RegexManagerView {
    // the Occupied arm: the key is in the map, `v` is its entry (possibly with the regex discarded by cleanup())
    fn vf_occupied<'a, FiltersIter>(&mut self, v: &mut RegexEntry, mask: NetworkFilterMask, filters: FiltersIter, pattern: &str) -> (r: bool)
        where FiltersIter: Iterator<Item = &'a str> + ExactSizeIterator
        requires
            filters.obeys_prophetic_iter_laws(),
            entry_ok(*old(v), mask, filters.remaining()),
            old(v).usage_count < usize::MAX, old(self).compiled_regex_count < usize::MAX,
        ensures
            // "answers do not depend on history": whether the regex was cached, discarded or never built, the answer is that of the regex
            // this rule denotes
            r == shape_match(rule_shape(mask, filters.remaining()), pattern.spec_bytes()), // OBL C06.cache.occupied.answer
            final(v).regex is Some && entry_ok(*final(v), mask, filters.remaining()), // OBL C06.cache.occupied.invariant
            // a regex that is still held is not rebuilt
            old(v).regex is Some ==> final(v).regex == old(v).regex && final(self).compiled_regex_count == old(self).compiled_regex_count, // OBL C06.cache.occupied.hit
    {
//@EXTRACT src/regex_manager.rs :: impl RegexManager :: fn matches
//@ SAFETY C06.cache.occupied.safety
//@ FROM
                v.usage_count += 1;
//@ ENDFROM
//@ TO
                return v.regex.as_ref().unwrap().is_match(pattern);
//@ ENDTO
//@END
    }

    // the Vacant arm: first use of this rule's regex
    fn vf_vacant<'a, FiltersIter>(&mut self, e: VfVacant, mask: NetworkFilterMask, filters: FiltersIter, pattern: &str) -> (r: bool)
        where FiltersIter: Iterator<Item = &'a str> + ExactSizeIterator
        requires
            filters.obeys_prophetic_iter_laws(),
            old(self).compiled_regex_count < usize::MAX,
        ensures r == shape_match(rule_shape(mask, filters.remaining()), pattern.spec_bytes()), // OBL C06.cache.vacant.answer
    {
//@EXTRACT src/regex_manager.rs :: impl RegexManager :: fn matches
//@ SAFETY C06.cache.vacant.safety
//@ FROMAFTER
            Entry::Vacant(e) => {
//@ ENDFROMAFTER
//@ TO
                    .insert(new_entry)
                    .regex
                    .as_ref()
                    .unwrap()
                    .is_match(pattern);
//@ ENDTO
//@END
    }
}

proof fn vf_canary() ensures false {}

} // verus!
fn main() {}
