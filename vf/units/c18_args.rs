// Unit c18_args — C18: the `+js(...)` argument-list parser (resources/resource_storage.rs: index_next_unescaped_separator,
// normalize_arg, parse_scriptlet_args).  For every argument text: no slice out of bounds or off a character boundary, no
// index overflow, the loops terminate; the separator found is the first one preceded by an even number of backslashes.
#![feature(pattern)]
use vstd::prelude::*;
use vstd::string::*;
use vstd::slice::*;
use core::str::pattern::Pattern;

verus! {

//@INCLUDE shims/strings.rs

broadcast use {vf_str::pat_suffix_ascii_char, vf_str::pat_prefix_ascii_char, vf_str::ascii_byte_boundaries, vf_str::str_ends_are_boundaries, vf_str::str_len_fits};

// T (str::find with a char pattern, for an ASCII char): byte index of the first occurrence
pub open spec fn first_byte(b: Seq<u8>, c: u8, i: int) -> bool { 0 <= i < b.len() && b[i] == c && forall|j: int| 0 <= j < i ==> b[j] != c }
#[verifier::external_body]
fn vf_find_char(s: &str, c: char) -> (r: Option<usize>)
    requires (c as u32) < 128
    ensures match r { Some(i) => first_byte(s.spec_bytes(), c as u8, i as int), None => forall|j: int| 0 <= j < s.spec_bytes().len() ==> s.spec_bytes()[j] != c as u8 }
{ s.find(c) }

// number of backslashes directly before position p
pub open spec fn escapes_before(b: Seq<u8>, p: int) -> nat
    decreases p
{
    if p <= 0 || b[p - 1] != 92u8 { 0 } else { 1 + escapes_before(b, p - 1) }
}
// p holds an unescaped separator: the separator byte preceded by an even number of backslashes
pub open spec fn unescaped_at(b: Seq<u8>, sep: u8, p: int) -> bool { 0 <= p < b.len() && b[p] == sep && escapes_before(b, p) % 2 == 0 }

// counting backslashes backwards from p: `n` of them, then something else (or the start)
pub proof fn lemma_escapes_count(b: Seq<u8>, p: int, n: int)
    requires 0 <= n <= p <= b.len(), forall|j: int| p - n <= j < p ==> b[j] == 92u8, p - n == 0 || b[p - n - 1] != 92u8
    ensures escapes_before(b, p) == n
    decreases n
{
    if n > 0 { lemma_escapes_count(b, p - 1, n - 1); }
}
// the count in a tail that starts right after a non-backslash (or at the start) is the count in the whole text
pub proof fn lemma_escapes_tail(b: Seq<u8>, from: int, i: int)
    requires 0 <= from <= b.len(), 0 <= i <= b.len() - from, from == 0 || b[from - 1] != 92u8
    ensures escapes_before(b.subrange(from, b.len() as int), i) == escapes_before(b, from + i)
    decreases i
{
    let t = b.subrange(from, b.len() as int);
    if i > 0 && t[i - 1] == 92u8 { lemma_escapes_tail(b, from, i - 1); }
}
pub proof fn lemma_found(b: Seq<u8>, sep: u8, from: int, i: int, te: int)
    requires
        0 <= from <= b.len(), from == 0 || b[from - 1] == sep, sep != 92u8,
        first_byte(b.subrange(from, b.len() as int), sep, i), 0 <= te <= i,
        forall|j: int| i - te <= j < i ==> b.subrange(from, b.len() as int)[j] == 92u8,
        te == i || b.subrange(from, b.len() as int)[i - te - 1] != 92u8,
        forall|p: int| 0 <= p < from ==> !(#[trigger] unescaped_at(b, sep, p)),
    ensures
        from + i < b.len(), b[from + i] == sep, escapes_before(b, from + i) == te,
        forall|p: int| 0 <= p < from + i ==> !(#[trigger] unescaped_at(b, sep, p)),
        escaped_sep_before(b, sep, from + i) == escaped_sep_before(b, sep, from),
        te % 2 == 0 ==> unescaped_at(b, sep, from + i),
        te % 2 == 1 ==> escaped_sep_before(b, sep, from + i + 1) && forall|p: int| 0 <= p < from + i + 1 ==> !(#[trigger] unescaped_at(b, sep, p)),
{
    let t = b.subrange(from, b.len() as int);
    lemma_escapes_count(t, i, te);
    lemma_escapes_tail(b, from, i);
    assert(b[from + i] == t[i]);
    assert forall|p: int| 0 <= p < from + i implies !(#[trigger] unescaped_at(b, sep, p)) by { if p >= from { assert(t[p - from] != sep); } }
    assert(escaped_sep_before(b, sep, from + i) == escaped_sep_before(b, sep, from)) by {
        if escaped_sep_before(b, sep, from + i) {
            let p = choose|p: int| 0 <= p < from + i && p < b.len() && b[p] == sep && escapes_before(b, p) % 2 == 1;
            if p >= from { assert(t[p - from] != sep); }
        }
        if escaped_sep_before(b, sep, from) {
            let p = choose|p: int| 0 <= p < from && p < b.len() && b[p] == sep && escapes_before(b, p) % 2 == 1;
            assert(0 <= p < from + i);
        }
    }
    if te % 2 == 1 { assert(0 <= from + i < from + i + 1 && b[from + i] == sep && escapes_before(b, from + i) % 2 == 1); }
}
pub proof fn lemma_none(b: Seq<u8>, sep: u8, from: int)
    requires
        0 <= from <= b.len(), forall|j: int| 0 <= j < b.len() - from ==> b.subrange(from, b.len() as int)[j] != sep,
        forall|p: int| 0 <= p < from ==> !(#[trigger] unescaped_at(b, sep, p)),
    ensures
        forall|p: int| 0 <= p < b.len() ==> !(#[trigger] unescaped_at(b, sep, p)),
        escaped_sep_before(b, sep, b.len() as int) == escaped_sep_before(b, sep, from),
{
    let t = b.subrange(from, b.len() as int);
    assert forall|p: int| 0 <= p < b.len() implies !(#[trigger] unescaped_at(b, sep, p)) by { if p >= from { assert(t[p - from] != sep); } }
    if escaped_sep_before(b, sep, b.len() as int) {
        let p = choose|p: int| 0 <= p < b.len() && p < b.len() && b[p] == sep && escapes_before(b, p) % 2 == 1;
        if p >= from { assert(t[p - from] != sep); }
    }
    if escaped_sep_before(b, sep, from) {
        let p = choose|p: int| 0 <= p < from && p < b.len() && b[p] == sep && escapes_before(b, p) % 2 == 1;
        assert(0 <= p < b.len());
    }
}
pub open spec fn escaped_sep_before(b: Seq<u8>, sep: u8, e: int) -> bool { exists|p: int| 0 <= p < e && p < b.len() && b[p] == sep && escapes_before(b, p) % 2 == 1 }

//@EXTRACT src/resources/resource_storage.rs :: fn index_next_unescaped_separator
//@ RET r
//@ SAFETY C18.args.next_separator.safety
//@ R4TAIL
//@ SPEC
    requires (separator as u32) < 128, separator != '\\',
    ensures
        // the first separator that is not escaped (an even number of backslashes before it); none: no such separator at all
        match r.0 {
            Some(k) => unescaped_at(s.spec_bytes(), separator as u8, k as int) && forall|p: int| 0 <= p < k ==> !(#[trigger] unescaped_at(s.spec_bytes(), separator as u8, p)),
            None => forall|p: int| 0 <= p < s.spec_bytes().len() ==> !(#[trigger] unescaped_at(s.spec_bytes(), separator as u8, p)),
        }, // OBL C18.args.next_separator.first_unescaped
        // the argument needs normalising exactly when an escaped separator lies before that point
        r.1 == escaped_sep_before(s.spec_bytes(), separator as u8, (match r.0 { Some(k) => k as int, None => s.spec_bytes().len() as int })), // OBL C18.args.next_separator.needs_transform
//@ ENDSPEC
//@ FNSTART
    let ghost b = s.spec_bytes();
    let ghost sep = separator as u8;
//@ ENDFNSTART
//@ AFTER
            let mut trailing_escapes = 0;
//@ AT
            proof { assert(rest.spec_bytes()[i as int] < 128); }
//@ ENDAFTER
//@ LOOPEND 2
                proof { assert(rest.spec_bytes()[i - trailing_escapes] < 128); }
//@ ENDLOOPEND
//@ BEFORE
            return (None, needs_transform);
//@ AT
            proof {
                assert(rest.spec_bytes() =~= b.subrange(new_arg_end as int, b.len() as int));
                lemma_none(b, sep, new_arg_end as int);
            }
//@ ENDBEFORE
//@ SUBST R6
    rest.find(separator)
//@ WITH
    vf_find_char(rest, separator)
//@ ENDSUBST
//@ LOOP 1
        invariant_except_break
            forall|p: int| 0 <= p < new_arg_end ==> !(#[trigger] unescaped_at(b, sep, p)),
            needs_transform == escaped_sep_before(b, sep, new_arg_end as int),
            new_arg_end == 0 || b[new_arg_end - 1] == sep,
        invariant
            b == s.spec_bytes(), sep == separator as u8, sep < 128, sep != 92u8, (separator as u32) < 128, separator != '\\',
            new_arg_end <= b.len(),
        ensures
            new_arg_end <= b.len(),
            new_arg_end < b.len() ==> unescaped_at(b, sep, new_arg_end as int),
            forall|p: int| 0 <= p < new_arg_end && p < b.len() ==> !(#[trigger] unescaped_at(b, sep, p)),
            needs_transform == escaped_sep_before(b, sep, new_arg_end as int),
        decreases b.len() - new_arg_end,
//@ ENDLOOP
//@ LOOP 2
                invariant
                    trailing_escapes <= i, i < rest.spec_bytes().len(), rest.spec_bytes()[i as int] == sep, sep < 128,
                    vstd::utf8::is_char_boundary(rest.spec_bytes(), i - trailing_escapes),
                    forall|j: int| i - trailing_escapes <= j < i ==> rest.spec_bytes()[j] == 92u8,
                ensures
                    trailing_escapes <= i, forall|j: int| i - trailing_escapes <= j < i ==> rest.spec_bytes()[j] == 92u8,
                    trailing_escapes == i || rest.spec_bytes()[i - trailing_escapes - 1] != 92u8,
                decreases i - trailing_escapes,
//@ ENDLOOP
//@ AFTER
                trailing_escapes += 1;
            }
//@ AT
            proof {
                assert(rest.spec_bytes() =~= b.subrange(new_arg_end as int, b.len() as int));
                lemma_found(b, sep, new_arg_end as int, i as int, trailing_escapes as int);
            }
//@ ENDAFTER
//@END

// ---- lifted text helpers of parse_scriptlet_args (T) ---------------------------------------------------------------------
// R6: args.trim().is_empty()
#[verifier::external_body]
fn vf_blank(s: &str) -> (r: bool) ensures s.spec_bytes().len() == 0 ==> r { s.trim().is_empty() }
// R6: s.find(|c: char| !c.is_whitespace()) — byte index of the first non-whitespace character
#[verifier::external_body]
fn vf_find_non_ws(s: &str) -> (r: Option<usize>)
    ensures r is Some ==> r->Some_0 < s.spec_bytes().len() && vstd::utf8::is_char_boundary(s.spec_bytes(), r->Some_0 as int)
{ s.find(|c: char| !c.is_whitespace()) }
// R6: s.chars().next() — the first character; an ASCII one is the first byte
#[verifier::external_body]
fn vf_first_char(s: &str) -> (r: Option<char>)
    ensures r is None <==> s.spec_bytes().len() == 0, r is Some && (r->Some_0 as u32) < 128 ==> s.spec_bytes()[0] == r->Some_0 as u8
{ s.chars().next() }
// R6: s.trim_end() / s.to_string()
#[verifier::external_body]
fn vf_trim_end(s: &str) -> (r: &str) { s.trim_end() }
#[verifier::external_body]
fn vf_to_string(s: &str) -> (r: String) ensures r@ == s@ { s.to_string() }
// ---- normalize_arg: a left-to-right pass with one bit of state ("the previous character was an unpaired backslash") ---------------
pub struct NState { pub out: Seq<char>, pub escaped: bool }
pub open spec fn nstep(st: NState, c: char, sep: char) -> NState {
    if c == '\\' {
        // a pair of backslashes is a literal backslash and stays a pair; a single one waits for what follows
        if st.escaped { NState { out: st.out + seq!['\\', '\\'], escaped: false } } else { NState { out: st.out, escaped: true } }
    } else {
        // "replaces escaped instances of `separator` with unescaped characters": the backslash is dropped only in front of the separator
        let o = if st.escaped && c != sep { st.out.push('\\') } else { st.out };
        NState { out: o.push(c), escaped: false }
    }
}
pub open spec fn nfold(a: Seq<char>, n: int, sep: char) -> NState
    decreases n
{
    if n <= 0 { NState { out: Seq::empty(), escaped: false } } else { nstep(nfold(a, n - 1, sep), a[n - 1], sep) }
}
// R5: arg.chars(), materialised;  R6: String += &str / String::push
#[verifier::external_body]
fn vf_chars(s: &str) -> (r: Vec<char>) ensures r@ == s@ { s.chars().collect() }
#[verifier::external_body]
fn vf_push_str(s: &mut String, t: &str) ensures final(s)@ == old(s)@ + t@ { s.push_str(t) }
#[verifier::external_body]
fn vf_push(s: &mut String, c: char) ensures final(s)@ == old(s)@.push(c) { s.push(c) }
#[verifier::external_body]
fn vf_with_capacity(n: usize) -> (r: String) ensures r@ == Seq::<char>::empty() { String::with_capacity(n) }

//@EXTRACT src/resources/resource_storage.rs :: fn normalize_arg
//@ RET r
//@ SAFETY C18.args.normalize.safety
//@ R4
//@ SPEC
    requires separator != '\\',
    ensures r@ == nfold(arg@, arg@.len() as int, separator).out, // OBL C18.args.normalize.fold
//@ ENDSPEC
//@ SUBST R6
    String::with_capacity(arg.len())
//@ WITH
    vf_with_capacity(arg.len())
//@ ENDSUBST
//@ SUBST R5
    for i in arg.chars() {
//@ WITH
    for i in it: vf_chars(arg)
        invariant
            it.seq() == arg@, separator != '\\',
            output@ == nfold(arg@, it.index() as int, separator).out, escaped == nfold(arg@, it.index() as int, separator).escaped,
    {
        proof { reveal_strlit("\\\\"); }
//@ ENDSUBST
//@ SUBST R6
    output += "\\\\";
//@ WITH
    vf_push_str(&mut output, "\\\\");
//@ ENDSUBST
//@ SUBST R6
    output.push('\\');
//@ WITH
    vf_push(&mut output, '\\');
//@ ENDSUBST
//@ SUBST R6
    output.push(i);
//@ WITH
    vf_push(&mut output, i);
//@ ENDSUBST
//@END

//@EXTRACT src/resources/resource_storage.rs :: fn parse_scriptlet_args
//@ RET r
//@ SAFETY C18.args.parse.safety
//@ SPEC
    ensures true,
//@ ENDSPEC
//@ SUBST R6
    args.trim().is_empty()
//@ WITH
    vf_blank(args)
//@ ENDSUBST
//@ SUBST R6*
    args.find(|c: char| !c.is_whitespace())
//@ WITH
    vf_find_non_ws(args)
//@ ENDSUBST
//@ SUBST R6
    args.chars().next()
//@ WITH
    vf_first_char(args)
//@ ENDSUBST
//@ SUBST R6
    args[..i.unwrap_or(args.len())].trim_end()
//@ WITH
    vf_trim_end(&args[..i.unwrap_or(args.len())])
//@ ENDSUBST
//@ SUBST R6
    arg.to_string()
//@ WITH
    vf_to_string(arg)
//@ ENDSUBST
//@ SUBST R6
    (i, needs_transform) = index_next_unescaped_separator(args, qc);
//@ WITH
    let vf_t = index_next_unescaped_separator(args, qc); i = vf_t.0; needs_transform = vf_t.1;
//@ ENDSUBST
//@ SUBST R6
    (i, needs_transform) = index_next_unescaped_separator(args, ',');
//@ WITH
    let vf_t = index_next_unescaped_separator(args, ','); i = vf_t.0; needs_transform = vf_t.1;
//@ ENDSUBST
//@ CLOSURE .map#1
    |i: usize| -> (r: usize) requires i < usize::MAX ensures r == i + 1
//@ ENDCLOSURE
//@ LOOP 1
        invariant true,
        decreases args.spec_bytes().len(),
//@ ENDLOOP
//@END

proof fn vf_canary() ensures false {}

} // verus!
fn main() {}
