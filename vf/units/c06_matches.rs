// Unit c06_matches — C03 / C02 glue (NetworkFilter::matches): a rule applies iff its options are satisfied AND its pattern matches, each
// computed from the rule's own fields.  (Which key the regex cache is given is NOT constrained here: with the cache emptied on every
// rebuild - unit c04_partition - both the object address and a unique rule id are workable keys, so demanding one of them would be
// demanding more than the property states.)
use vstd::prelude::*;

verus! {

//@INCLUDE shims/filter_items.rs

pub struct RegexManager { pub x: u8 }
pub struct FilterPartIterator { pub x: u8 }
pub uninterp spec fn parts_of(p: FilterPart) -> FilterPartIterator;
impl FilterPart {
    #[verifier::external_body]
    pub fn iter(&self) -> (r: FilterPartIterator) ensures r == parts_of(*self) { unimplemented!() }
}

// T: the address of a live filter object; a rebuilt object need not keep it, two live objects never share it
pub uninterp spec fn is_object_identity(key: u64) -> bool;
// R6: `(self as *const NetworkFilter) as u64`
#[verifier::external_body]
fn vf_address_of(f: &NetworkFilter) -> (r: u64) ensures is_object_identity(r) { unimplemented!() }
// R6: Option<Vec<Hash>>::as_deref / Option<String>::as_deref
#[verifier::external_body]
fn vf_as_slice(o: &Option<Vec<Hash>>) -> (r: Option<&[Hash]>) ensures opt_view(r) == opt_slice(*o) { unimplemented!() }
#[verifier::external_body]
fn vf_as_str(o: &Option<String>) -> (r: Option<&str>) ensures opt_text(r) == opt_string(*o) { unimplemented!() }
pub open spec fn opt_slice(o: Option<Vec<Hash>>) -> Option<Seq<Hash>> { match o { Some(v) => Some(v@), None => None } }
pub open spec fn opt_view(o: Option<&[Hash]>) -> Option<Seq<Hash>> { match o { Some(v) => Some(v@), None => None } }
pub open spec fn opt_string(o: Option<String>) -> Option<Seq<char>> { match o { Some(v) => Some(v@), None => None } }
pub open spec fn opt_text(o: Option<&str>) -> Option<Seq<char>> { match o { Some(v) => Some(v@), None => None } }

// contracts of units c03_check_options / c02_dispatch, abstractly
pub uninterp spec fn options_spec(mask: NetworkFilterMask, inc: Option<Seq<Hash>>, inc_u: Option<Hash>, exc: Option<Seq<Hash>>, exc_u: Option<Hash>, request: request::Request) -> bool;
pub uninterp spec fn pattern_spec(mask: NetworkFilterMask, parts: FilterPartIterator, hostname: Option<Seq<char>>, request: request::Request) -> bool;
pub mod filters { pub mod network_matchers {
    use vstd::prelude::*;
    use super::super::*;
    verus!{
    #[verifier::external_body]
    pub fn check_options(mask: NetworkFilterMask, opt_domains: Option<&[Hash]>, opt_domains_union: Option<Hash>, opt_not_domains: Option<&[Hash]>,
                     opt_not_domains_union: Option<Hash>, request: &request::Request) -> (r: bool)
        ensures r == options_spec(mask, opt_view(opt_domains), opt_domains_union, opt_view(opt_not_domains), opt_not_domains_union, *request)
    { unimplemented!() }
    #[verifier::external_body]
    pub fn check_pattern(mask: NetworkFilterMask, filters: FilterPartIterator, hostname: Option<&str>, key: u64, request: &request::Request, regex_manager: &mut RegexManager) -> (r: bool)
        ensures r == pattern_spec(mask, filters, opt_text(hostname), *request)
    { unimplemented!() }
    }
} }

impl NetworkFilter {
// R1: the method of `impl NetworkMatchable for NetworkFilter`, placed in an inherent impl
//@EXTRACT src/filters/network.rs :: impl NetworkMatchable for NetworkFilter :: fn matches
//@ RET r
//@ SAFETY C03.matches.safety
//@ SPEC
        ensures
            // "a rule applies to a request only if every option on it is satisfied ... and it applies whenever they all are and the pattern matches"
            r == (options_spec(self.mask, opt_slice(self.opt_domains), self.opt_domains_union, opt_slice(self.opt_not_domains), self.opt_not_domains_union, *request)
                  && pattern_spec(self.mask, parts_of(self.filter), opt_string(self.hostname), *request)), // OBL C03.matches.options_and_pattern
//@ ENDSPEC
//@ SUBST R6
    use crate::filters::network_matchers::{check_options, check_pattern};
//@ WITH
    use crate::filters::network_matchers::{check_options, check_pattern};
//@ ENDSUBST
//@ SUBST R6
    self.opt_domains.as_deref()
//@ WITH
    vf_as_slice(&self.opt_domains)
//@ ENDSUBST
//@ SUBST R6
    self.opt_not_domains.as_deref()
//@ WITH
    vf_as_slice(&self.opt_not_domains)
//@ ENDSUBST
//@ SUBST R6
    self.hostname.as_deref()
//@ WITH
    vf_as_str(&self.hostname)
//@ ENDSUBST
//@ SUBST R6
    (self as *const NetworkFilter) as u64
//@ WITH
    vf_address_of(self)
//@ ENDSUBST
//@END
}

proof fn vf_canary() ensures false {}

} // verus!
fn main() {}
