// Unit c16_store — C16: which bin a hostname-scoped cosmetic rule is stored in, under which lookup hashes, and where its
// negated locations go (HostnameRuleDb::store_rule / store, SpecificFilterType::negated); the split between scoped and
// generic rules incl. the "hidden generic rule" of a rule that only has negated locations (CosmeticFilterCache::add_filter,
// CosmeticFilter::{has_hostname_constraint, hidden_generic_rule, plain_css_selector}).
#![feature(pattern)]
#![feature(allocator_api)]
use vstd::prelude::*;
use vstd::string::*;
use vstd::slice::*;
use core::str::pattern::Pattern;
use std::collections::{HashMap, HashSet};

verus! {

pub mod vf_axioms {
    use vstd::prelude::*;
    verus!{
    pub broadcast axiom fn string_key_model()
        ensures #[trigger] vstd::std_specs::hash::obeys_key_model::<String>();
    }
}
broadcast use {vf_axioms::string_key_model, vstd::std_specs::hash::group_hash_axioms, vf_names::str_of_view, vf_names::string_ext};

pub type Hash = u64;

//@EXTRACT src/resources/mod.rs :: struct PermissionMask
//@ ATTR #[derive(Clone, Copy)]
//@ PUBFIELDS
//@END

// R2: CosmeticFilterMask (bitflags! type) as a plain struct; `contains` has the bitflags meaning
#[derive(Clone, Copy)]
pub struct CosmeticFilterMask { pub bits: u8 }
impl CosmeticFilterMask {
    pub open spec fn has(self, f: CosmeticFilterMask) -> bool { self.bits & f.bits == f.bits }
    pub fn contains(&self, other: CosmeticFilterMask) -> (r: bool) ensures r == self.has(other) { self.bits & other.bits == other.bits }
}
//@EXTRACT src/filters/cosmetic.rs :: bitflags CosmeticFilterMask
//@END

//@EXTRACT src/filters/cosmetic.rs :: enum CosmeticFilterAction
//@END
//@EXTRACT src/filters/cosmetic.rs :: enum CosmeticFilterOperator
//@END
//@EXTRACT src/filters/cosmetic.rs :: struct CosmeticFilter
//@END

//@EXTRACT src/cosmetic_filter_cache.rs :: struct HostnameFilterBin
//@END
//@EXTRACT src/cosmetic_filter_cache.rs :: struct HostnameRuleDb
//@END
//@EXTRACT src/cosmetic_filter_cache.rs :: enum SpecificFilterType
//@ PUB
//@END

// T: derived Clone = structural copy
impl Clone for SpecificFilterType {
    #[verifier::external_body]
    fn clone(&self) -> (r: Self) ensures r == *self { unimplemented!() }
}

pub open spec fn bucket<T>(bin: HostnameFilterBin<T>, h: Hash) -> Seq<T> {
    if bin.0@.contains_key(h) { bin.0@[h]@ } else { Seq::empty() }
}

// R7: `if let Some(bucket) = map.get_mut(k) { bucket.push(v) } else { map.insert(*k, vec![v]) }` — append under a key
// (HashMap::get_mut has no vstd specification)
#[verifier::external_body]
fn vf_bin_push<T>(map: &mut HashMap<Hash, Vec<T>>, k: &Hash, v: T)
    ensures
        forall|h: Hash| bucket(HostnameFilterBin(*final(map)), h) == (if h == *k { bucket(HostnameFilterBin(*old(map)), h).push(v) } else { bucket(HostnameFilterBin(*old(map)), h) }),
{ unimplemented!() }

impl<T> HostnameFilterBin<T> {
//@EXTRACT src/cosmetic_filter_cache.rs :: impl<T> HostnameFilterBin<T> :: fn insert
//@ SAFETY C16.bin.insert.safety
//@ SPEC
        ensures forall|h: Hash| bucket(*final(self), h) == (if h == *token { bucket(*old(self), h).push(filter) } else { bucket(*old(self), h) }), // OBL C16.bin.insert
//@ ENDSPEC
//@ REPLACE R7
    if let Some(bucket) = self.0.get_mut(token) {
//@ UPTO
    self.0.insert(*token, vec![filter]);
        }
//@ WITH
    vf_bin_push(&mut self.0, token, filter);
//@ ENDREPLACE
//@END
}

// ---- the model: what a stored rule adds to each bin -------------------------------------------------------------------
// "minus everything excepted for that host": a rule's negation is its exception form
pub open spec fn neg(k: SpecificFilterType) -> SpecificFilterType {
    match k {
        SpecificFilterType::Hide(s) => SpecificFilterType::Unhide(s),
        SpecificFilterType::Unhide(s) => SpecificFilterType::Hide(s),
        SpecificFilterType::InjectScript(s) => SpecificFilterType::UninjectScript(s),
        SpecificFilterType::UninjectScript(s) => SpecificFilterType::InjectScript(s),
        SpecificFilterType::ProceduralOrAction(s) => SpecificFilterType::ProceduralOrActionException(s),
        SpecificFilterType::ProceduralOrActionException(s) => SpecificFilterType::ProceduralOrAction(s),
    }
}

pub enum Bin { Hide, Unhide, Uninject, Proc, ProcExc }
// what kind `k` appends to the string bin `b` / to the injection bin
pub open spec fn adds(k: SpecificFilterType, b: Bin) -> Seq<String> {
    match (k, b) {
        (SpecificFilterType::Hide(s), Bin::Hide) => seq![s],
        (SpecificFilterType::Unhide(s), Bin::Unhide) => seq![s],
        (SpecificFilterType::UninjectScript(s), Bin::Uninject) => seq![s.0],
        (SpecificFilterType::ProceduralOrAction(s), Bin::Proc) => seq![s],
        (SpecificFilterType::ProceduralOrActionException(s), Bin::ProcExc) => seq![s],
        _ => Seq::empty(),
    }
}
pub open spec fn adds_inject(k: SpecificFilterType) -> Seq<(String, PermissionMask)> {
    match k { SpecificFilterType::InjectScript(s) => seq![s], _ => Seq::empty() }
}
pub open spec fn bin_of(db: HostnameRuleDb, b: Bin) -> HostnameFilterBin<String> {
    match b { Bin::Hide => db.hide, Bin::Unhide => db.unhide, Bin::Uninject => db.uninject_script, Bin::Proc => db.procedural_action, Bin::ProcExc => db.procedural_action_exception }
}

pub open spec fn rep<T>(s: Seq<T>, c: nat) -> Seq<T> decreases c { if c == 0 { Seq::empty() } else { rep(s, (c - 1) as nat) + s } }
pub open spec fn occ(tokens: Seq<Hash>, n: int, h: Hash) -> nat decreases n { if n <= 0 { 0 } else { occ(tokens, n - 1, h) + (if tokens[n - 1] == h { 1nat } else { 0nat }) } }

// `new` is `old` with `k` stored under tokens[0..n]
pub open spec fn stored(old: HostnameRuleDb, new: HostnameRuleDb, tokens: Seq<Hash>, n: int, k: SpecificFilterType) -> bool {
    &&& forall|b: Bin, h: Hash| #[trigger] bucket(bin_of(new, b), h) =~= bucket(bin_of(old, b), h) + rep(adds(k, b), occ(tokens, n, h))
    &&& forall|h: Hash| #[trigger] bucket(new.inject_script, h) =~= bucket(old.inject_script, h) + rep(adds_inject(k), occ(tokens, n, h))
}

// `new` is `old` with `k` stored under the one hash t
pub open spec fn stored_one(old: HostnameRuleDb, new: HostnameRuleDb, t: Hash, k: SpecificFilterType) -> bool {
    &&& forall|b: Bin, h: Hash| #[trigger] bucket(bin_of(new, b), h) =~= bucket(bin_of(old, b), h) + (if h == t { adds(k, b) } else { Seq::empty() })
    &&& forall|h: Hash| #[trigger] bucket(new.inject_script, h) =~= bucket(old.inject_script, h) + (if h == t { adds_inject(k) } else { Seq::empty() })
}

pub proof fn lemma_stored_step(old: HostnameRuleDb, mid: HostnameRuleDb, new: HostnameRuleDb, tokens: Seq<Hash>, n: int, k: SpecificFilterType)
    requires 0 <= n < tokens.len(), stored(old, mid, tokens, n, k), stored_one(mid, new, tokens[n], k)
    ensures stored(old, new, tokens, n + 1, k)
{
    assert forall|b: Bin, h: Hash| #[trigger] bucket(bin_of(new, b), h) == bucket(bin_of(old, b), h) + rep(adds(k, b), occ(tokens, n + 1, h)) by {
        let a = adds(k, b);
        assert(bucket(bin_of(new, b), h) == bucket(bin_of(mid, b), h) + (if h == tokens[n] { a } else { Seq::empty() }));
        assert(bucket(bin_of(mid, b), h) == bucket(bin_of(old, b), h) + rep(a, occ(tokens, n, h)));
        assert(bucket(bin_of(new, b), h) =~= bucket(bin_of(old, b), h) + rep(a, occ(tokens, n + 1, h)));
    }
    assert forall|h: Hash| #[trigger] bucket(new.inject_script, h) == bucket(old.inject_script, h) + rep(adds_inject(k), occ(tokens, n + 1, h)) by {
        let a = adds_inject(k);
        assert(bucket(new.inject_script, h) == bucket(mid.inject_script, h) + (if h == tokens[n] { a } else { Seq::empty() }));
        assert(bucket(mid.inject_script, h) == bucket(old.inject_script, h) + rep(a, occ(tokens, n, h)));
        assert(bucket(new.inject_script, h) =~= bucket(old.inject_script, h) + rep(a, occ(tokens, n + 1, h)));
    }
}

impl SpecificFilterType {
//@EXTRACT src/cosmetic_filter_cache.rs :: impl SpecificFilterType :: fn negated
//@ RET r
//@ SAFETY C16.kind.negated.safety
//@ SPEC
        ensures r == neg(self), // OBL C16.kind.negated
//@ ENDSPEC
//@END
}

impl HostnameRuleDb {
//@EXTRACT src/cosmetic_filter_cache.rs :: impl HostnameRuleDb :: fn store
//@ SAFETY C16.store.safety
//@ SPEC
        ensures stored_one(*old(self), *final(self), *token, kind), // OBL C16.store.one_bin
//@ ENDSPEC
//@END
}

// ---- which kind a rule is, and under which hashes it goes ---------------------------------------------------------------
pub mod vf_names {
    use vstd::prelude::*;
    verus!{
    // the String value with a given text; String values are their text
    pub uninterp spec fn str_of(v: Seq<char>) -> String;
    pub broadcast axiom fn str_of_view(v: Seq<char>)
        ensures (#[trigger] str_of(v))@ == v;
    pub broadcast axiom fn string_ext(a: String, b: String)
        requires #[trigger] a@ == #[trigger] b@
        ensures a == b;
    }
}
pub use vf_names::*;

// T: derived Clone = structural copy
impl Clone for CosmeticFilter {
    #[verifier::external_body]
    fn clone(&self) -> (r: Self) ensures r == *self { unimplemented!() }
}

// the selector text of a rule that consists of one plain CSS selector
pub open spec fn plain_of(rule: CosmeticFilter) -> Option<Seq<char>> {
    if rule.selector@.len() == 1 && rule.selector@[0] is CssSelector { Some(rule.selector@[0]->CssSelector_0@) } else { None }
}

impl CosmeticFilter {
//@EXTRACT src/filters/cosmetic.rs :: impl CosmeticFilter :: fn plain_css_selector
//@ RET r
//@ SAFETY C16.rule.plain_css_selector.safety
//@ SPEC
        requires self.selector@.len() > 0,
        ensures match r { Some(s) => plain_of(*self) == Some(s@), None => plain_of(*self) is None }, // OBL C16.rule.plain_css_selector
//@ ENDSPEC
//@END

//@EXTRACT src/filters/cosmetic.rs :: impl CosmeticFilter :: fn has_hostname_constraint
//@ RET r
//@ SAFETY C16.rule.has_hostname_constraint.safety
//@ SPEC
        ensures r == (self.hostnames is Some || self.entities is Some || self.not_entities is Some || self.not_hostnames is Some), // OBL C16.rule.has_hostname_constraint
//@ ENDSPEC
//@END

//@EXTRACT src/filters/cosmetic.rs :: impl CosmeticFilter :: fn hidden_generic_rule
//@ RET r
//@ SAFETY C16.rule.hidden_generic_rule.safety
//@ SPEC
        ensures
            // a rule that only has negated locations applies everywhere else: it also exists as a generic rule
            // (not for script injections or rules with actions)
            r is Some <==> (self.hostnames is None && self.entities is None && (self.not_hostnames is Some || self.not_entities is Some)
                            && self.action is None && !self.mask.has(CosmeticFilterMask::SCRIPT_INJECT)), // OBL C16.rule.hidden_generic_rule.when
            r is Some ==> r->Some_0 == (CosmeticFilter { not_hostnames: None, not_entities: None, ..*self }), // OBL C16.rule.hidden_generic_rule.what
//@ ENDSPEC
//@END
}

// R6: Option<&str>::map(|s| s.to_string())
#[verifier::external_body]
fn vf_opt_to_string(o: Option<&str>) -> (r: Option<String>)
    ensures match o { Some(s) => r == Some(str_of(s@)), None => r is None }
{ o.map(|s| s.to_string()) }

// R6: serde_json::to_string(&ProceduralOrActionFilter { selector: sel.map(|s| vec![CssSelector(s)]).unwrap_or(ops), action }).unwrap()
// T: the JSON text is a function of the operator list and the action
pub uninterp spec fn json_of(ops: Seq<CosmeticFilterOperator>, action: Option<CosmeticFilterAction>) -> String;
#[verifier::external_body]
fn vf_json(sel: Option<String>, ops: Vec<CosmeticFilterOperator>, action: Option<CosmeticFilterAction>) -> (r: String)
    ensures r == json_of(match sel { Some(s) => seq![CosmeticFilterOperator::CssSelector(s)], None => ops@ }, action)
{ unimplemented!() }

// R5: std::iter::empty().chain(a).chain(b) — a's elements, then b's
#[verifier::external_body]
fn vf_concat(a: Vec<Hash>, b: Vec<Hash>) -> (r: Vec<Hash>)
    ensures r@ == a@ + b@
{ unimplemented!() }

pub open spec fn opt_seq(o: Option<Vec<Hash>>) -> Seq<Hash> { match o { Some(v) => v@, None => Seq::empty() } }

// the kind a rule is stored as (before the #@# negation): None = not stored at all
pub open spec fn kind_of(rule: CosmeticFilter) -> Option<SpecificFilterType> {
    let inject = rule.mask.has(CosmeticFilterMask::SCRIPT_INJECT);
    if !inject && plain_of(rule) is Some && rule.action is None { Some(SpecificFilterType::Hide(str_of(plain_of(rule)->Some_0))) }
    else if inject && plain_of(rule) is Some && rule.action is None { Some(SpecificFilterType::InjectScript((str_of(plain_of(rule)->Some_0), rule.permission))) }
    else if !inject {
        Some(SpecificFilterType::ProceduralOrAction(json_of(
            match plain_of(rule) { Some(t) => seq![CosmeticFilterOperator::CssSelector(str_of(t))], None => rule.selector@ }, rule.action)))
    } else { None }
}

// `new` is `old` with k1 stored under every hash of `pos` and k2 under every hash of `negs`
pub open spec fn stored2(old: HostnameRuleDb, new: HostnameRuleDb, pos: Seq<Hash>, k1: SpecificFilterType, negs: Seq<Hash>, k2: SpecificFilterType) -> bool {
    &&& forall|b: Bin, h: Hash| #[trigger] bucket(bin_of(new, b), h) =~= bucket(bin_of(old, b), h) + rep(adds(k1, b), occ(pos, pos.len() as int, h)) + rep(adds(k2, b), occ(negs, negs.len() as int, h))
    &&& forall|h: Hash| #[trigger] bucket(new.inject_script, h) =~= bucket(old.inject_script, h) + rep(adds_inject(k1), occ(pos, pos.len() as int, h)) + rep(adds_inject(k2), occ(negs, negs.len() as int, h))
}

impl HostnameRuleDb {
//@EXTRACT src/cosmetic_filter_cache.rs :: impl HostnameRuleDb :: fn store_rule
//@ SAFETY C16.store_rule.safety
//@ ATTR #[verifier::loop_isolation(false)]
//@ SPEC
        requires rule.selector@.len() > 0,
        ensures
            // script injection with an action or without a plain selector: not stored
            kind_of(rule) is None ==> *final(self) == *old(self), // OBL C16.store_rule.not_storable
            // "rules whose domain list covers the page's hostname ... or an entity form": filed under every hostname and entity hash, as
            // the exception form when the rule is an `#@#` rule; "minus everything excepted for that host": the negated locations get the
            // opposite form
            kind_of(rule) is Some ==> stored2(*old(self), *final(self),
                opt_seq(rule.hostnames) + opt_seq(rule.entities), (if rule.mask.has(CosmeticFilterMask::UNHIDE) { neg(kind_of(rule)->Some_0) } else { kind_of(rule)->Some_0 }),
                opt_seq(rule.not_hostnames) + opt_seq(rule.not_entities), (if rule.mask.has(CosmeticFilterMask::UNHIDE) { kind_of(rule)->Some_0 } else { neg(kind_of(rule)->Some_0) })), // OBL C16.store_rule.locations
//@ ENDSPEC
//@ SUBST R6
    rule.plain_css_selector().map(|s| s.to_string())
//@ WITH
    vf_opt_to_string(rule.plain_css_selector())
//@ ENDSUBST
//@ REPLACE R6
    serde_json::to_string(&ProceduralOrActionFilter {
//@ UPTO
    })
                .unwrap()
//@ WITH
    vf_json(selector, rule.selector, action)
//@ ENDREPLACE
//@ SUBST R5
    std::iter::empty()
            .chain(rule.hostnames.unwrap_or(Vec::new()))
            .chain(rule.entities.unwrap_or(Vec::new()))
//@ WITH
    vf_concat(rule.hostnames.unwrap_or(Vec::new()), rule.entities.unwrap_or(Vec::new()))
//@ ENDSUBST
//@ SUBST R5
    std::iter::empty()
            .chain(rule.not_hostnames.unwrap_or(Vec::new()))
            .chain(rule.not_entities.unwrap_or(Vec::new()))
//@ WITH
    vf_concat(rule.not_hostnames.unwrap_or(Vec::new()), rule.not_entities.unwrap_or(Vec::new()))
//@ ENDSUBST
//@ FOREACH @it1 tokens_to_insert.for_each
            invariant
                it1.seq() == ptoks, stored(*old(self), *self, ptoks, it1.index() as int, kind), // OBL C16.store_rule.positive
//@ BODYSTART
            let ghost before = *self;
//@ BODYEND
            proof { lemma_stored_step(*old(self), before, *self, ptoks, it1.index() as int, kind); }
//@ ENDFOREACH
//@ FOREACH @it2 tokens_to_insert_negated.for_each
            invariant
                it2.seq() == ntoks, stored(mid, *self, ntoks, it2.index() as int, negated), // OBL C16.store_rule.negated
//@ BODYSTART
            let ghost before = *self;
//@ BODYEND
            proof { lemma_stored_step(mid, before, *self, ntoks, it2.index() as int, negated); }
//@ ENDFOREACH
//@ AFTER
            .chain(rule.entities.unwrap_or(Vec::new()));
//@ AT
        let ghost ptoks = tokens_to_insert@;
//@ ENDAFTER
//@ AFTER
    let negated = kind.negated();
//@ AT
        let ghost ntoks = tokens_to_insert_negated@;
        let ghost mid = *self;
//@ ENDAFTER
//@END
}

// ---- scoped vs generic ---------------------------------------------------------------------------------------------------
//@EXTRACT src/cosmetic_filter_cache.rs :: struct CosmeticFilterCache
//@ PUBFIELDS
//@END

// contract of add_generic_filter (unit c17_generic): the generic stores gain the rule's selector, the scoped database is untouched
pub uninterp spec fn generic_added(old: CosmeticFilterCache, new: CosmeticFilterCache, rule: CosmeticFilter) -> bool;

pub open spec fn scoped(rule: CosmeticFilter) -> bool { rule.hostnames is Some || rule.entities is Some || rule.not_entities is Some || rule.not_hostnames is Some }
// "a rule that only has negated locations" also acts as a generic rule (not script injections, not rules with actions)
pub open spec fn hidden_generic(rule: CosmeticFilter) -> Option<CosmeticFilter> {
    if rule.hostnames is None && rule.entities is None && (rule.not_hostnames is Some || rule.not_entities is Some) && rule.action is None && !rule.mask.has(CosmeticFilterMask::SCRIPT_INJECT) {
        Some(CosmeticFilter { not_hostnames: None, not_entities: None, ..rule })
    } else { None }
}
pub open spec fn store_rule_post(old: HostnameRuleDb, new: HostnameRuleDb, rule: CosmeticFilter) -> bool {
    &&& kind_of(rule) is None ==> new == old
    &&& kind_of(rule) is Some ==> stored2(old, new,
            opt_seq(rule.hostnames) + opt_seq(rule.entities), (if rule.mask.has(CosmeticFilterMask::UNHIDE) { neg(kind_of(rule)->Some_0) } else { kind_of(rule)->Some_0 }),
            opt_seq(rule.not_hostnames) + opt_seq(rule.not_entities), (if rule.mask.has(CosmeticFilterMask::UNHIDE) { kind_of(rule)->Some_0 } else { neg(kind_of(rule)->Some_0) }))
}

impl CosmeticFilterCache {
    #[verifier::external_body]
    fn add_generic_filter(&mut self, rule: CosmeticFilter)
        ensures generic_added(*old(self), *final(self), rule), final(self).specific_rules == old(self).specific_rules
    { unimplemented!() }

//@EXTRACT src/cosmetic_filter_cache.rs :: impl CosmeticFilterCache :: fn add_filter
//@ SAFETY C16.add_filter.safety
//@ SPEC
        requires rule.selector@.len() > 0,
        ensures
            // "plus unscoped generic selectors": a rule without any location is generic only
            !scoped(rule) ==> generic_added(*old(self), *final(self), rule), // OBL C16.add_filter.generic
            // a scoped rule goes to the scoped database (and nowhere else, except as its hidden generic rule)
            scoped(rule) ==> exists|mid: CosmeticFilterCache|
                (match hidden_generic(rule) { Some(g) => generic_added(*old(self), mid, g) && mid.specific_rules == old(self).specific_rules, None => mid == *old(self) })
                && #[trigger] store_rule_post(mid.specific_rules, final(self).specific_rules, rule)
                && *final(self) == (CosmeticFilterCache { specific_rules: final(self).specific_rules, ..mid }), // OBL C16.add_filter.scoped
//@ ENDSPEC
//@ AFTER
                self.add_generic_filter(generic_rule);
            }
//@ AT
            let ghost mid = *self;
//@ ENDAFTER
//@ AFTER
            self.specific_rules.store_rule(rule);
//@ AT
            proof { assert(store_rule_post(mid.specific_rules, self.specific_rules, rule)); assert(*self == (CosmeticFilterCache { specific_rules: self.specific_rules, ..mid })); }
//@ ENDAFTER
//@END
}

proof fn vf_canary() ensures false {}

} // verus!
fn main() {}
