// Unit c01_lookup — C01.7 / C07.1: NetworkFilterList::check and check_all: the bucket probe returns
// exactly the rules in the probed buckets that match and whose tag is active.
use vstd::prelude::*;
use std::collections::{HashMap, HashSet};
use std::sync::Arc;

verus! {

pub mod vf_axioms {
    use vstd::prelude::*;
    verus!{
    pub broadcast axiom fn string_key_model()
        ensures #[trigger] vstd::std_specs::hash::obeys_key_model::<String>();
    }
}
broadcast use {vf_axioms::string_key_model, vstd::std_specs::hash::group_hash_axioms};

//@INCLUDE shims/filter_items.rs

pub struct RegexManager { pub x: u8 }
pub use request::Request;

// the per-rule matcher is the linear-scan oracle of the property: uninterpreted here
pub uninterp spec fn matches_spec(f: NetworkFilter, req: Request) -> bool;

pub trait NetworkMatchable {
    fn matches(&self, request: &request::Request, regex_manager: &mut RegexManager) -> (r: bool);
}
impl NetworkMatchable for NetworkFilter {
    #[verifier::external_body]
    fn matches(&self, request: &request::Request, regex_manager: &mut RegexManager) -> (r: bool)
        ensures r == matches_spec(*self, *request)
    { unimplemented!() }
}

// "a rule carrying a tag option takes part in matching iff that tag is in the enabled set"
pub open spec fn tag_active(f: NetworkFilter, tags: Set<String>) -> bool {
    f.tag is None || tags.contains(f.tag->Some_0)
}

// probe sequence of a request: source-host hashes, then URL tokens (+ the 0 fallback) — produced by
// Request::get_tokens_for_match (an iterator chain; R5: materialised, element sequence uninterpreted)
pub uninterp spec fn probe_seq(req: Request) -> Seq<Hash>;

#[verifier::external_body]
fn vf_probe_tokens(request: &Request) -> (r: Vec<&Hash>)
    ensures r@.len() == probe_seq(*request).len(), forall|i: int| 0 <= i < r@.len() ==> *#[trigger] r@[i] == probe_seq(*request)[i]
{ request.get_tokens_for_match().collect() }

impl Request {
    #[verifier::external_body]
    pub fn get_tokens_for_match(&self) -> std::vec::IntoIter<&Hash> { unimplemented!() }
}

//@EXTRACT src/network_filter_list.rs :: struct NetworkFilterList
//@END

// f is stored in a bucket that the request probes
pub open spec fn in_probed_bucket(map: Map<Hash, Vec<Arc<NetworkFilter>>>, req: Request, f: NetworkFilter) -> bool {
    exists|i: int, j: int| 0 <= i < probe_seq(req).len() && map.contains_key(probe_seq(req)[i])
        && 0 <= j < map[probe_seq(req)[i]]@.len() && *(#[trigger] map[probe_seq(req)[i]]@[j]) == f
}

pub open spec fn hit(map: Map<Hash, Vec<Arc<NetworkFilter>>>, req: Request, tags: Set<String>, f: NetworkFilter) -> bool {
    in_probed_bucket(map, req, f) && matches_spec(f, req) && tag_active(f, tags)
}

pub open spec fn wants(req: Request, tags: Set<String>, f: NetworkFilter) -> bool { matches_spec(f, req) && tag_active(f, tags) }

pub open spec fn covered(fs: Seq<&NetworkFilter>, f: NetworkFilter) -> bool {
    exists|x: int| 0 <= x < fs.len() && *#[trigger] fs[x] == f
}

pub open spec fn bucket_covered(b: Seq<Arc<NetworkFilter>>, upto: int, req: Request, tags: Set<String>, fs: Seq<&NetworkFilter>) -> bool {
    forall|j: int| 0 <= j < upto && j < b.len() && wants(req, tags, *#[trigger] b[j]) ==> covered(fs, *b[j])
}

pub open spec fn tokens_covered(map: Map<Hash, Vec<Arc<NetworkFilter>>>, req: Request, tags: Set<String>, upto: int, fs: Seq<&NetworkFilter>) -> bool {
    forall|i: int| 0 <= i < upto && i < probe_seq(req).len() && map.contains_key(#[trigger] probe_seq(req)[i])
        ==> bucket_covered(map[probe_seq(req)[i]]@, map[probe_seq(req)[i]]@.len() as int, req, tags, fs)
}

pub open spec fn all_hits(map: Map<Hash, Vec<Arc<NetworkFilter>>>, req: Request, tags: Set<String>, fs: Seq<&NetworkFilter>) -> bool {
    forall|x: int| 0 <= x < fs.len() ==> hit(map, req, tags, *#[trigger] fs[x])
}

pub proof fn lemma_covered_push(fs: Seq<&NetworkFilter>, g: &NetworkFilter, f: NetworkFilter)
    requires covered(fs, f)
    ensures covered(fs.push(g), f)
{
    let x = choose|x: int| 0 <= x < fs.len() && *fs[x] == f;
    assert(*fs.push(g)[x] == f);
}

pub proof fn lemma_all_covered_push(map: Map<Hash, Vec<Arc<NetworkFilter>>>, req: Request, tags: Set<String>, upto: int, b: Seq<Arc<NetworkFilter>>, bupto: int, fs: Seq<&NetworkFilter>, g: &NetworkFilter)
    requires tokens_covered(map, req, tags, upto, fs), bucket_covered(b, bupto, req, tags, fs)
    ensures tokens_covered(map, req, tags, upto, fs.push(g)), bucket_covered(b, bupto, req, tags, fs.push(g))
{
    assert forall|i: int| 0 <= i < upto && i < probe_seq(req).len() && map.contains_key(#[trigger] probe_seq(req)[i])
        implies bucket_covered(map[probe_seq(req)[i]]@, map[probe_seq(req)[i]]@.len() as int, req, tags, fs.push(g)) by {
        let bb = map[probe_seq(req)[i]]@;
        assert forall|j: int| 0 <= j < bb.len() && wants(req, tags, *#[trigger] bb[j]) implies covered(fs.push(g), *bb[j]) by {
            lemma_covered_push(fs, g, *bb[j]);
        }
    }
    assert forall|j: int| 0 <= j < bupto && j < b.len() && wants(req, tags, *#[trigger] b[j]) implies covered(fs.push(g), *b[j]) by {
        lemma_covered_push(fs, g, *b[j]);
    }
}

impl NetworkFilterList {
//@EXTRACT src/network_filter_list.rs :: impl NetworkFilterList :: fn check_all
//@ RET r
//@ SAFETY C01.check_all.safety
//@ SPEC
    ensures
        forall|x: int| 0 <= x < r@.len() ==> hit(self.filter_map@, *request, active_tags@, *#[trigger] r@[x]), // OBL C01.check_all.sound
        forall|f: NetworkFilter| hit(self.filter_map@, *request, active_tags@, f) ==> exists|x: int| 0 <= x < r@.len() && *#[trigger] r@[x] == f, // OBL C01.check_all.complete
//@ ENDSPEC
//@ SUBST R5
    request.get_tokens_for_match()
//@ WITH
    vf_probe_tokens(request)
//@ ENDSUBST
//@ SUBST R8
    |t| active_tags.contains(t)
//@ WITH
    |t: &String| -> (b: bool) ensures b == active_tags@.contains(*t) { active_tags.contains(t) }
//@ ENDSUBST
//@ SUBST R8
    for token in
//@ WITH
    for token in it1:
//@ ENDSUBST
//@ SUBST R8
    for filter in
//@ WITH
    for filter in it2:
//@ ENDSUBST
//@ LOOP 1
            invariant
                it1.seq().len() == probe_seq(*request).len(),
                forall|i: int| 0 <= i < it1.seq().len() ==> *#[trigger] it1.seq()[i] == probe_seq(*request)[i],
                all_hits(self.filter_map@, *request, active_tags@, filters@),
                tokens_covered(self.filter_map@, *request, active_tags@, it1.index() as int, filters@),
//@ ENDLOOP
//@ LOOP 2
                    invariant
                        it1.seq().len() == probe_seq(*request).len(),
                        0 <= it1.index() < it1.seq().len(),
                        *token == probe_seq(*request)[it1.index() as int],
                        self.filter_map@.contains_key(*token),
                        filter_bucket@ == self.filter_map@[*token]@,
                        it2.seq().len() == filter_bucket@.len(),
                        forall|j: int| 0 <= j < it2.seq().len() ==> *#[trigger] it2.seq()[j] == filter_bucket@[j],
                        all_hits(self.filter_map@, *request, active_tags@, filters@),
                        tokens_covered(self.filter_map@, *request, active_tags@, it1.index() as int, filters@),
                        bucket_covered(filter_bucket@, it2.index() as int, *request, active_tags@, filters@),
//@ ENDLOOP
//@ LOOPSTART 2
                    let ghost fs0 = filters@;
                    let ghost j0 = it2.index() as int;
//@ ENDLOOPSTART
//@ LOOPEND 2
                    proof {
                        let f: NetworkFilter = **filter;
                        assert(*filter == filter_bucket@[j0]);
                        if filters@ != fs0 {
                            let g = filters@[filters@.len() - 1];
                            assert(filters@ == fs0.push(g));
                            lemma_all_covered_push(self.filter_map@, *request, active_tags@, it1.index() as int, filter_bucket@, j0, fs0, g);
                            assert(*filters@[fs0.len() as int] == f);
                            assert(covered(filters@, f)); // OBL C01.check_all.complete
                            // the appended rule is a hit
                            assert(hit(self.filter_map@, *request, active_tags@, f)) by { // OBL C01.check_all.sound
                                let i = it1.index() as int;
                                assert(self.filter_map@.contains_key(probe_seq(*request)[i]) && *(self.filter_map@[probe_seq(*request)[i]]@[j0]) == f);
                            }
                        }
                    }
//@ ENDLOOPEND
//@END

//@EXTRACT src/network_filter_list.rs :: impl NetworkFilterList :: fn check
//@ RET r
//@ SAFETY C01.check.safety
//@ SPEC
    ensures
        r is Some ==> hit(self.filter_map@, *request, active_tags@, *r->Some_0), // OBL C01.check.sound
        r is None ==> forall|f: NetworkFilter| !hit(self.filter_map@, *request, active_tags@, f), // OBL C01.check.complete
//@ ENDSPEC
//@ SUBST R5
    request.get_tokens_for_match()
//@ WITH
    vf_probe_tokens(request)
//@ ENDSUBST
//@ SUBST R8
    |t| active_tags.contains(t)
//@ WITH
    |t: &String| -> (b: bool) ensures b == active_tags@.contains(*t) { active_tags.contains(t) }
//@ ENDSUBST
//@ SUBST R8
    for token in
//@ WITH
    for token in it1:
//@ ENDSUBST
//@ SUBST R8
    for filter in
//@ WITH
    for filter in it2:
//@ ENDSUBST
//@ LOOP 1
            invariant
                it1.seq().len() == probe_seq(*request).len(),
                forall|i: int| 0 <= i < it1.seq().len() ==> *#[trigger] it1.seq()[i] == probe_seq(*request)[i],
                tokens_covered(self.filter_map@, *request, active_tags@, it1.index() as int, Seq::<&NetworkFilter>::empty()),
//@ ENDLOOP
//@ LOOP 2
                    invariant
                        it1.seq().len() == probe_seq(*request).len(),
                        0 <= it1.index() < it1.seq().len(),
                        *token == probe_seq(*request)[it1.index() as int],
                        self.filter_map@.contains_key(*token),
                        filter_bucket@ == self.filter_map@[*token]@,
                        it2.seq().len() == filter_bucket@.len(),
                        forall|j: int| 0 <= j < it2.seq().len() ==> *#[trigger] it2.seq()[j] == filter_bucket@[j],
                        tokens_covered(self.filter_map@, *request, active_tags@, it1.index() as int, Seq::<&NetworkFilter>::empty()),
                        bucket_covered(filter_bucket@, it2.index() as int, *request, active_tags@, Seq::<&NetworkFilter>::empty()),
//@ ENDLOOP
//@ LOOPSTART 2
                    let ghost j0 = it2.index() as int;
                    proof { assert(*filter == filter_bucket@[j0]); }
//@ ENDLOOPSTART
//@ BEFORE
    return Some(filter);
//@ AT
                        proof {
                            let i = it1.index() as int;
                            assert(self.filter_map@.contains_key(probe_seq(*request)[i]) && *(self.filter_map@[probe_seq(*request)[i]]@[j0]) == **filter);
                            assert(hit(self.filter_map@, *request, active_tags@, **filter)); // OBL C01.check.sound
                        }
//@ ENDBEFORE
//@ BEFORE#2
    None
//@ AT
        proof {
            assert forall|f: NetworkFilter| !hit(self.filter_map@, *request, active_tags@, f) by {
                if hit(self.filter_map@, *request, active_tags@, f) {
                    let (i, j) = choose|i: int, j: int| 0 <= i < probe_seq(*request).len() && self.filter_map@.contains_key(probe_seq(*request)[i])
                        && 0 <= j < self.filter_map@[probe_seq(*request)[i]]@.len() && *(#[trigger] self.filter_map@[probe_seq(*request)[i]]@[j]) == f;
                    let b = self.filter_map@[probe_seq(*request)[i]]@;
                    assert(bucket_covered(b, b.len() as int, *request, active_tags@, Seq::<&NetworkFilter>::empty()));
                    assert(wants(*request, active_tags@, *b[j]));
                    assert(covered(Seq::<&NetworkFilter>::empty(), *b[j]));
                    assert(false);
                }
            }
        }
//@ ENDBEFORE
//@END
}

proof fn vf_canary() ensures false {}

} // verus!
fn main() {}
