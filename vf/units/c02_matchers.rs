// Unit c02_matchers — C02: the per-shape matcher bodies for literal patterns (plain, |p, p|, |p|, and the four
// ||host shapes), verified as written over any iterator of patterns (vstd's prophetic iterator model gives
// `len()` and `any()` their meaning); closures stay verbatim with an `ensures` annotation (R8).
#![feature(pattern)]
use vstd::prelude::*;
use vstd::string::*;
use vstd::slice::*;
use vstd::std_specs::iter::*;
use core::str::pattern::Pattern;

verus! {

//@INCLUDE shims/strings.rs
//@INCLUDE shims/mask_items.rs

broadcast use {pat_prefix_ascii_char, pat_prefix_str, pat_suffix_str, pat_contains_str, str_len_fits, str_ends_are_boundaries, occurrence_boundaries, utf8_injective_b, lemma_nested_occurrence, lemma_after_first, utf8_ends_are_boundaries};

impl request::Request {
    // get_url: the lower-cased URL unless the rule is case-sensitive (extracted verbatim below)
//@EXTRACT src/request.rs :: impl Request :: fn get_url
//@ RET r
//@ SAFETY C02.get_url.safety
//@ SPEC
        ensures r@ == (if case_sensitive { self.url@ } else { self.url_lower_cased@ }), // OBL C02.get_url
//@ ENDSPEC
//@END
}

pub open spec fn req_url(req: request::Request, m: NetworkFilterMask) -> Seq<u8> {
    if m.has(NetworkFilterMask::MATCH_CASE) { vstd::utf8::encode_utf8(req.url@) } else { vstd::utf8::encode_utf8(req.url_lower_cased@) }
}

pub open spec fn req_url_view(req: request::Request, m: NetworkFilterMask) -> Seq<char> {
    if m.has(NetworkFilterMask::MATCH_CASE) { req.url@ } else { req.url_lower_cased@ }
}

// some pattern of the rule (an any-of set after fusion) satisfies p; a rule without a pattern matches everything
pub open spec fn any_pat(fs: Seq<&str>, p: spec_fn(Seq<u8>) -> bool) -> bool {
    fs.len() == 0 || exists|i: int| 0 <= i < fs.len() && p((#[trigger] fs[i]).spec_bytes())
}

//@EXTRACT src/filters/network_matchers.rs :: fn check_pattern_plain_filter_filter
//@ RET r
//@ SAFETY C02.match.plain.safety
//@ SPEC
    requires filters.obeys_prophetic_iter_laws(),
    ensures
        // "literal text is matched ... as a substring"
        r == (filters.remaining().len() == 0 || exists|i: int| 0 <= i < filters.remaining().len()
            && #[trigger] contains_pat(req_url(*request, mask), filters.remaining()[i].spec_bytes())), // OBL C02.match.plain
//@ ENDSPEC
//@ CLOSURE filters.any
    |f: &str| -> (b: bool) ensures b == contains_pat(req_url(*request, mask), f.spec_bytes())
//@ ENDCLOSURE
//@END

pub open spec fn ends_pat(u: Seq<u8>, f: Seq<u8>) -> bool { has_suffix(u, f) }
pub open spec fn starts_pat(u: Seq<u8>, f: Seq<u8>) -> bool { has_prefix(u, f) }
pub open spec fn same_text(u: Seq<char>, f: Seq<char>) -> bool { u == f }

//@EXTRACT src/filters/network_matchers.rs :: fn check_pattern_right_anchor_filter
//@ RET r
//@ SAFETY C02.match.right.safety
//@ SPEC
    requires filters.obeys_prophetic_iter_laws(),
    ensures
        // "'|' pins the ... end of the URL"
        r == (filters.remaining().len() == 0 || exists|i: int| 0 <= i < filters.remaining().len()
            && #[trigger] ends_pat(req_url(*request, mask), filters.remaining()[i].spec_bytes())), // OBL C02.match.right
//@ ENDSPEC
//@ CLOSURE filters.any
    |f: &str| -> (b: bool) ensures b == ends_pat(req_url(*request, mask), f.spec_bytes())
//@ ENDCLOSURE
//@END

//@EXTRACT src/filters/network_matchers.rs :: fn check_pattern_left_anchor_filter
//@ RET r
//@ SAFETY C02.match.left.safety
//@ SPEC
    requires filters.obeys_prophetic_iter_laws(),
    ensures
        // "'|' pins the start ... of the URL"
        r == (filters.remaining().len() == 0 || exists|i: int| 0 <= i < filters.remaining().len()
            && #[trigger] starts_pat(req_url(*request, mask), filters.remaining()[i].spec_bytes())), // OBL C02.match.left
//@ ENDSPEC
//@ CLOSURE filters.any
    |f: &str| -> (b: bool) ensures b == starts_pat(req_url(*request, mask), f.spec_bytes())
//@ ENDCLOSURE
//@END

//@EXTRACT src/filters/network_matchers.rs :: fn check_pattern_left_right_anchor_filter
//@ RET r
//@ SAFETY C02.match.left_right.safety
//@ SPEC
    requires filters.obeys_prophetic_iter_laws(),
    ensures
        // pinned on both sides: the URL is the pattern
        r == (filters.remaining().len() == 0 || exists|i: int| 0 <= i < filters.remaining().len()
            && #[trigger] same_text(req_url_view(*request, mask), filters.remaining()[i]@)), // OBL C02.match.left_right
//@ ENDSPEC
//@ CLOSURE filters.any
    |f: &str| -> (b: bool) ensures b == same_text(req_url_view(*request, mask), f@)
//@ ENDCLOSURE
//@END

// ---- ||host shapes --------------------------------------------------------------------------------------------
// contract of is_anchored_by_hostname (unit c02_anchor)
pub open spec fn label_aligned(fh: Seq<u8>, h: Seq<u8>, wildcard: bool, i: int) -> bool {
    occurs_at(h, fh, i)
    && (i == 0 || fh[0] == 46u8 || h[i - 1] == 46u8)
    && (i + fh.len() == h.len() || wildcard || fh[fh.len() - 1] == 46u8 || h[i + fh.len()] == 46u8)
}
pub open spec fn anchored_spec(fh: Seq<u8>, h: Seq<u8>, wildcard: bool) -> bool {
    fh.len() == 0 || exists|i: int| label_aligned(fh, h, wildcard, i)
}
#[verifier::external_body]
fn is_anchored_by_hostname(filter_hostname: &str, hostname: &str, wildcard_filter_hostname: bool) -> (r: bool)
    ensures r == anchored_spec(filter_hostname.spec_bytes(), hostname.spec_bytes(), wildcard_filter_hostname)
{ unimplemented!() }

pub mod vf_after {
    use vstd::prelude::*;
    use super::vf_str::*;
    verus!{
pub open spec fn first_occ(u: Seq<u8>, h: Seq<u8>, j: int) -> bool { occurs_at(u, h, j) && forall|k: int| 0 <= k < j ==> !occurs_at(u, h, k) }

// the text directly after the first occurrence of `h` in `u` (nothing if `h` does not occur)
pub open spec fn after_first(u: Seq<u8>, h: Seq<u8>) -> Seq<u8> {
    if exists|j: int| first_occ(u, h, j) { let j = choose|j: int| first_occ(u, h, j); u.subrange(j + h.len(), u.len() as int) } else { Seq::empty() }
}

// well-ordering: if h occurs in u at all, it has a first occurrence
pub proof fn lemma_first_exists(u: Seq<u8>, h: Seq<u8>, j: int)
    requires occurs_at(u, h, j)
    ensures exists|f: int| first_occ(u, h, f)
    decreases j
{
    if forall|k: int| 0 <= k < j ==> !occurs_at(u, h, k) { assert(first_occ(u, h, j)); }
    else { let k = choose|k: int| 0 <= k < j && occurs_at(u, h, k); lemma_first_exists(u, h, k); }
}

pub open spec fn tail_from(u: Seq<u8>, k: int) -> Seq<u8> { u.subrange(k, u.len() as int) }

// an occurrence inside an occurrence
pub broadcast proof fn lemma_nested_occurrence(u: Seq<u8>, rh: Seq<u8>, fh: Seq<u8>, p: int, i: int)
    requires #[trigger] occurs_at(u, rh, p), #[trigger] occurs_at(rh, fh, i)
    ensures occurs_at(u, fh, p + i)
{
    assert(u.subrange(p + i, p + i + fh.len()) =~= u.subrange(p, p + rh.len()).subrange(i, i + fh.len()));
}

// after_first unfolds to the tail after the first occurrence
pub broadcast proof fn lemma_after_first(u: Seq<u8>, h: Seq<u8>)
    ensures #![trigger after_first(u, h)]
        (exists|k: int| first_occ(u, h, k) && after_first(u, h) == tail_from(u, k + h.len()))
        || ((forall|k: int| !occurs_at(u, h, k)) && after_first(u, h) == Seq::<u8>::empty())
{
    if exists|j: int| first_occ(u, h, j) {
        let j = choose|j: int| first_occ(u, h, j);
        assert(first_occ(u, h, j) && after_first(u, h) == tail_from(u, j + h.len()));
    } else {
        assert forall|k: int| !occurs_at(u, h, k) by { if occurs_at(u, h, k) { lemma_first_exists(u, h, k); } }
    }
}

pub open spec fn contains_pat(u: Seq<u8>, f: Seq<u8>) -> bool { exists|k: int| occurs_at(u, f, k) }

// an anchored host text occurs in the URL (the request hostname is a slice of it), so after_first is the tail after its
// first occurrence there
pub proof fn lemma_anchored_occurs(u: Seq<u8>, rh: Seq<u8>, fh: Seq<u8>, p: int)
    requires occurs_at(u, rh, p), fh.len() == 0 || exists|a: int| occurs_at(rh, fh, a)
    ensures exists|k: int| first_occ(u, fh, k) && after_first(u, fh) == tail_from(u, k + fh.len())
{
    if fh.len() == 0 {
        assert(u.subrange(0, 0) =~= fh);
        assert(occurs_at(u, fh, 0));
        lemma_first_exists(u, fh, 0);
    } else {
        let a = choose|a: int| occurs_at(rh, fh, a);
        lemma_nested_occurrence(u, rh, fh, p, a);
        lemma_first_exists(u, fh, p + a);
    }
    lemma_after_first(u, fh);
}

// what is contained in the text after a later occurrence is contained in the text after the first one
pub proof fn lemma_contains_after_any(u: Seq<u8>, fh: Seq<u8>)
    ensures forall|q: int, f: Seq<u8>| occurs_at(u, fh, q) && #[trigger] contains_pat(tail_from(u, q + fh.len()), f) ==> contains_pat(after_first(u, fh), f)
{
    assert forall|q: int, f: Seq<u8>| occurs_at(u, fh, q) && #[trigger] contains_pat(tail_from(u, q + fh.len()), f) implies contains_pat(after_first(u, fh), f) by {
        lemma_first_exists(u, fh, q);
        lemma_after_first(u, fh);
        let j = choose|j: int| first_occ(u, fh, j) && after_first(u, fh) == tail_from(u, j + fh.len());
        assert(j <= q) by { if q < j { assert(!occurs_at(u, fh, q)); } }
        let m = choose|m: int| #[trigger] occurs_at(tail_from(u, q + fh.len()), f, m);
        lemma_occurs_shift(u, f, q + fh.len(), m);
        lemma_occurs_shift(u, f, j + fh.len(), (q - j) + m);
        assert(occurs_at(tail_from(u, j + fh.len()), f, (q - j) + m));
    }
}
    } // verus!
}
pub use vf_after::*;

//@EXTRACT src/filters/network_matchers.rs :: fn get_url_after_hostname
//@ RET r
//@ SAFETY C02.match.after.safety
//@ SPEC
    requires hostname.spec_bytes().len() <= url.spec_bytes().len(),
    ensures r.spec_bytes() =~= after_first(url.spec_bytes(), hostname.spec_bytes()), // OBL C02.match.after
//@ ENDSPEC
//@ AFTER
        memmem::find(url.as_bytes(), hostname.as_bytes()).unwrap_or(url.len() - hostname.len());
//@ AT
    proof {
        let (u, h) = (url.spec_bytes(), hostname.spec_bytes());
        if exists|j: int| first_occ(u, h, j) {
            let j = choose|j: int| first_occ(u, h, j);
            assert(j == start) by { if j < start { assert(!occurs_at(u, h, j)); } else if start < j { assert(!occurs_at(u, h, start as int)); } }
        } else {
            assert(forall|j: int| !occurs_at(u, h, j)) by {
                assert forall|j: int| !occurs_at(u, h, j) by {
                    if occurs_at(u, h, j) { lemma_first_exists(u, h, j); }
                }
            }
        }
    }
//@ ENDAFTER
//@END

// T (request.rs / url_parser): the hostname of a request is a slice of its (normalised, lower-case-host) URL
pub uninterp spec fn host_pos(req: request::Request) -> int;
pub open spec fn req_wf(req: request::Request) -> bool {
    occurs_at(sb(req.url), sb(req.hostname), host_pos(req)) && occurs_at(sb(req.url_lower_cased), sb(req.hostname), host_pos(req))
}
// the host text `h` occurs exactly once in the URL
pub open spec fn once(u: Seq<u8>, h: Seq<u8>) -> bool {
    (exists|k: int| occurs_at(u, h, k)) && forall|j: int, k: int| occurs_at(u, h, j) && occurs_at(u, h, k) ==> j == k
}
//@EXTRACT src/filters/network_matchers.rs :: fn check_pattern_hostname_anchor_filter
//@ RET r
//@ SAFETY C02.match.host.safety
//@ R10MAPTAIL
//@ SPEC
    requires filters.obeys_prophetic_iter_laws(), req_wf(*request),
    ensures
        // "||host…": the host part label-aligned in the request hostname, the rest a substring of what follows it
        // (a) a match needs a hostname, label-aligned anchoring, and the remainder right after an occurrence of the host text
        r ==> hostname is Some
              && anchored_spec(hostname.unwrap().spec_bytes(), sb(request.hostname), mask.has(NetworkFilterMask::IS_HOSTNAME_REGEX))
              && (filters.remaining().len() == 0 || exists|i: int, k: int| #![trigger filters.remaining()[i], occurs_at(req_url(*request, mask), hostname.unwrap().spec_bytes(), k)] 0 <= i < filters.remaining().len()
                  && occurs_at(req_url(*request, mask), hostname.unwrap().spec_bytes(), k)
                  && contains_pat(tail_from(req_url(*request, mask), k + hostname.unwrap().spec_bytes().len()), filters.remaining()[i].spec_bytes())), // OBL C02.match.host.sound
        // (b) where the host text occurs once in the URL the result is exactly the ABP reading
        hostname is Some && once(req_url(*request, mask), hostname.unwrap().spec_bytes()) ==>
            r == (anchored_spec(hostname.unwrap().spec_bytes(), sb(request.hostname), mask.has(NetworkFilterMask::IS_HOSTNAME_REGEX))
                  && (filters.remaining().len() == 0 || exists|i: int| 0 <= i < filters.remaining().len()
                      && contains_pat(after_first(req_url(*request, mask), hostname.unwrap().spec_bytes()), (#[trigger] filters.remaining()[i]).spec_bytes()))), // OBL C02.match.host.exact_unique
        // (c) the property itself: the remainder directly after ANY label-aligned occurrence in the request hostname is a match
        hostname is Some ==> forall|a: int, i: int| label_aligned(hostname.unwrap().spec_bytes(), sb(request.hostname), mask.has(NetworkFilterMask::IS_HOSTNAME_REGEX), a)
            && 0 <= i < filters.remaining().len()
            && contains_pat(tail_from(req_url(*request, mask), host_pos(*request) + a + hostname.unwrap().spec_bytes().len()), filters.remaining()[i].spec_bytes()) ==> r, // OBL C02.match.host.complete
        hostname is Some && filters.remaining().len() == 0
            && anchored_spec(hostname.unwrap().spec_bytes(), sb(request.hostname), mask.has(NetworkFilterMask::IS_HOSTNAME_REGEX)) ==> r, // OBL C02.match.host.complete_bare
//@ ENDSPEC
//@ FNSTART
    proof {
        if hostname is Some {
            let (u, rh, fh) = (req_url(*request, mask), sb(request.hostname), hostname.unwrap().spec_bytes());
            if anchored_spec(fh, rh, mask.has(NetworkFilterMask::IS_HOSTNAME_REGEX)) {
                if fh.len() != 0 { let a = choose|a: int| label_aligned(fh, rh, mask.has(NetworkFilterMask::IS_HOSTNAME_REGEX), a); assert(occurs_at(rh, fh, a)); }
                lemma_anchored_occurs(u, rh, fh, host_pos(*request));
            }
            lemma_contains_after_any(u, fh);
        }
    }
//@ ENDFNSTART
//@ SUBST R6
    &request.hostname,
//@ WITH
    request.hostname.as_str(),
//@ ENDSUBST
//@ CLOSURE filters.any
    |f: &str| -> (b: bool) ensures b == contains_pat(after_first(req_url(*request, mask), hostname.spec_bytes()), f.spec_bytes())
//@ ENDCLOSURE
//@ AFTER
    let request_url = request.get_url(mask.match_case());
//@ AT
    proof { assert(request_url.spec_bytes() == req_url(*request, mask)); }
//@ ENDAFTER
//@END

//@EXTRACT src/filters/network_matchers.rs :: fn check_pattern_hostname_left_anchor_filter
//@ RET r
//@ SAFETY C02.match.host_left.safety
//@ R10MAPTAIL
//@ SPEC
    requires filters.obeys_prophetic_iter_laws(), req_wf(*request),
    ensures
        // "||host/path": the pattern must appear directly after the hostname, nothing in between
        // (a) a match needs a hostname, label-aligned anchoring, and the remainder right after an occurrence of the host text
        r ==> hostname is Some
              && anchored_spec(hostname.unwrap().spec_bytes(), sb(request.hostname), mask.has(NetworkFilterMask::IS_HOSTNAME_REGEX))
              && (filters.remaining().len() == 0 || exists|i: int, k: int| #![trigger filters.remaining()[i], occurs_at(req_url(*request, mask), hostname.unwrap().spec_bytes(), k)] 0 <= i < filters.remaining().len()
                  && occurs_at(req_url(*request, mask), hostname.unwrap().spec_bytes(), k)
                  && starts_pat(tail_from(req_url(*request, mask), k + hostname.unwrap().spec_bytes().len()), filters.remaining()[i].spec_bytes())), // OBL C02.match.host_left.sound
        // (b) where the host text occurs once in the URL the result is exactly the ABP reading
        hostname is Some && once(req_url(*request, mask), hostname.unwrap().spec_bytes()) ==>
            r == (anchored_spec(hostname.unwrap().spec_bytes(), sb(request.hostname), mask.has(NetworkFilterMask::IS_HOSTNAME_REGEX))
                  && (filters.remaining().len() == 0 || exists|i: int| 0 <= i < filters.remaining().len()
                      && starts_pat(after_first(req_url(*request, mask), hostname.unwrap().spec_bytes()), (#[trigger] filters.remaining()[i]).spec_bytes()))), // OBL C02.match.host_left.exact_unique
        // (c) the property's completeness for a host text that occurs more than once in the URL does NOT hold for this matcher:
        //     obligation C02.match.host_left.complete is refuted by the witness input in vf/witness/c02_remainder.rs (known finding)
        hostname is Some && filters.remaining().len() == 0
            && anchored_spec(hostname.unwrap().spec_bytes(), sb(request.hostname), mask.has(NetworkFilterMask::IS_HOSTNAME_REGEX)) ==> r, // OBL C02.match.host_left.complete_bare
//@ ENDSPEC
//@ FNSTART
    proof {
        if hostname is Some {
            let (u, rh, fh) = (req_url(*request, mask), sb(request.hostname), hostname.unwrap().spec_bytes());
            if anchored_spec(fh, rh, mask.has(NetworkFilterMask::IS_HOSTNAME_REGEX)) {
                if fh.len() != 0 { let a = choose|a: int| label_aligned(fh, rh, mask.has(NetworkFilterMask::IS_HOSTNAME_REGEX), a); assert(occurs_at(rh, fh, a)); }
                lemma_anchored_occurs(u, rh, fh, host_pos(*request));
            }
        }
    }
//@ ENDFNSTART
//@ SUBST R6
    &request.hostname,
//@ WITH
    request.hostname.as_str(),
//@ ENDSUBST
//@ CLOSURE filters.any
    |f: &str| -> (b: bool) ensures b == starts_pat(after_first(req_url(*request, mask), hostname.spec_bytes()), f.spec_bytes())
//@ ENDCLOSURE
//@ AFTER
    let request_url = request.get_url(mask.match_case());
//@ AT
    proof { assert(request_url.spec_bytes() == req_url(*request, mask)); }
//@ ENDAFTER
//@END

//@EXTRACT src/filters/network_matchers.rs :: fn check_pattern_hostname_left_right_anchor_filter
//@ RET r
//@ SAFETY C02.match.host_left_right.safety
//@ R10MAPTAIL
//@ SPEC
    requires filters.obeys_prophetic_iter_laws(), req_wf(*request),
    ensures
        // "||host/path|": the pattern is exactly the text after the hostname
        // (a) a match needs a hostname, label-aligned anchoring, and the remainder right after an occurrence of the host text
        r ==> hostname is Some
              && anchored_spec(hostname.unwrap().spec_bytes(), sb(request.hostname), mask.has(NetworkFilterMask::IS_HOSTNAME_REGEX))
              && (filters.remaining().len() == 0 || exists|i: int, k: int| #![trigger filters.remaining()[i], occurs_at(req_url(*request, mask), hostname.unwrap().spec_bytes(), k)] 0 <= i < filters.remaining().len()
                  && occurs_at(req_url(*request, mask), hostname.unwrap().spec_bytes(), k)
                  && (tail_from(req_url(*request, mask), k + hostname.unwrap().spec_bytes().len()) == filters.remaining()[i].spec_bytes())), // OBL C02.match.host_left_right.sound
        // (b) where the host text occurs once in the URL the result is exactly the ABP reading
        hostname is Some && once(req_url(*request, mask), hostname.unwrap().spec_bytes()) ==>
            r == (anchored_spec(hostname.unwrap().spec_bytes(), sb(request.hostname), mask.has(NetworkFilterMask::IS_HOSTNAME_REGEX))
                  && (filters.remaining().len() == 0 || exists|i: int| 0 <= i < filters.remaining().len()
                      && (after_first(req_url(*request, mask), hostname.unwrap().spec_bytes()) == (#[trigger] filters.remaining()[i]).spec_bytes()))), // OBL C02.match.host_left_right.exact_unique
        // (c) the property's completeness for a host text that occurs more than once in the URL does NOT hold for this matcher:
        //     obligation C02.match.host_left_right.complete is refuted by the witness input in vf/witness/c02_remainder.rs (known finding)
        hostname is Some && filters.remaining().len() == 0
            && anchored_spec(hostname.unwrap().spec_bytes(), sb(request.hostname), mask.has(NetworkFilterMask::IS_HOSTNAME_REGEX)) ==> r, // OBL C02.match.host_left_right.complete_bare
//@ ENDSPEC
//@ FNSTART
    proof {
        if hostname is Some {
            let (u, rh, fh) = (req_url(*request, mask), sb(request.hostname), hostname.unwrap().spec_bytes());
            if anchored_spec(fh, rh, mask.has(NetworkFilterMask::IS_HOSTNAME_REGEX)) {
                if fh.len() != 0 { let a = choose|a: int| label_aligned(fh, rh, mask.has(NetworkFilterMask::IS_HOSTNAME_REGEX), a); assert(occurs_at(rh, fh, a)); }
                lemma_anchored_occurs(u, rh, fh, host_pos(*request));
            }
        }
    }
//@ ENDFNSTART
//@ SUBST R6
    &request.hostname,
//@ WITH
    request.hostname.as_str(),
//@ ENDSUBST
//@ CLOSURE filters.any
    |f: &str| -> (b: bool) ensures b == (after_first(req_url(*request, mask), hostname.spec_bytes()) == f.spec_bytes())
//@ ENDCLOSURE
//@ AFTER
    let request_url = request.get_url(mask.match_case());
//@ AT
    proof { assert(request_url.spec_bytes() == req_url(*request, mask)); }
//@ ENDAFTER
//@END

// "the request hostname or one of its subdomains": the request hostname IS the rule's host, or ends with it right after a '.'
pub open spec fn host_tail(h: Seq<u8>, fh: Seq<u8>) -> bool {
    h.len() == fh.len() || (has_suffix(h, fh) && fh.len() < h.len() && ((fh.len() > 0 && fh[0] == 46u8) || h[h.len() - fh.len() - 1] == 46u8))
}

//@EXTRACT src/filters/network_matchers.rs :: fn check_pattern_hostname_right_anchor_filter
//@ RET r
//@ SAFETY C02.match.host_right.safety
//@ R10MAPTAIL
//@ SPEC
    requires filters.obeys_prophetic_iter_laws(),
    ensures
        // "||host…|": host part label-aligned; without a pattern the request hostname must END with the rule's
        // hostname ("||foo.bar|" does not match foo.bar.baz); with one, the URL must end with the pattern
        r == (hostname is Some
              && anchored_spec(hostname.unwrap().spec_bytes(), sb(request.hostname), mask.has(NetworkFilterMask::IS_HOSTNAME_REGEX))
              && (if filters.remaining().len() == 0 {
                      host_tail(sb(request.hostname), hostname.unwrap().spec_bytes())
                  } else {
                      exists|i: int| 0 <= i < filters.remaining().len() && ends_pat(req_url(*request, mask), (#[trigger] filters.remaining()[i]).spec_bytes())
                  })), // OBL C02.match.host_right
//@ ENDSPEC
//@ SUBST R6
    &request.hostname,
//@ WITH
    request.hostname.as_str(),
//@ ENDSUBST
//@ SUBST R6*
    request.hostname.len()
//@ WITH
    request.hostname.as_str().len()
//@ ENDSUBST
//@ SUBST R6
    request.hostname.ends_with(hostname)
//@ WITH
    request.hostname.as_str().ends_with(*hostname)
//@ ENDSUBST
//@ SUBST R6
    hostname.starts_with('.')
//@ WITH
    (*hostname).starts_with('.')
//@ ENDSUBST
//@ SUBST R6
    request.hostname.as_bytes()
//@ WITH
    request.hostname.as_str().as_bytes()
//@ ENDSUBST
//@END

// ---- regex shapes ("*" / "^" patterns and /re/ rules): the compiled regex itself is outside the contracts ---------------
pub struct RegexManager { pub x: u8 }
// T (regex_manager.rs + regex crate): does the regex compiled from (mask, patterns) find a match in `text`
pub uninterp spec fn rx_spec(mask: NetworkFilterMask, patterns: Seq<&str>, text: Seq<u8>) -> bool;
impl RegexManager {
    #[verifier::external_body]
    pub fn matches<'a, FiltersIter>(&mut self, mask: NetworkFilterMask, filters: FiltersIter, key: u64, pattern: &str) -> (r: bool)
        where FiltersIter: Iterator<Item = &'a str> + ExactSizeIterator
        ensures r == rx_spec(mask, filters.remaining(), pattern.spec_bytes())
    { unimplemented!() }
}

//@EXTRACT src/filters/network_matchers.rs :: fn check_pattern_regex_filter_at
//@ RET r
//@ SAFETY C02.match.regex_at.safety
//@ SPEC
    requires start_from <= req_url(*request, mask).len(), vstd::utf8::is_char_boundary(req_url(*request, mask), start_from as int),
    ensures r == rx_spec(mask, filters.remaining(), tail_from(req_url(*request, mask), start_from as int)), // OBL C02.match.regex_at
//@ ENDSPEC
//@ AFTER
    let request_url = request.get_url(mask.match_case());
//@ AT
    proof { assert(request_url.spec_bytes() == req_url(*request, mask)); }
//@ ENDAFTER
//@END

//@EXTRACT src/filters/network_matchers.rs :: fn check_pattern_regex_filter
//@ RET r
//@ SAFETY C02.match.regex.safety
//@ SPEC
    ensures r == rx_spec(mask, filters.remaining(), req_url(*request, mask)), // OBL C02.match.regex
//@ ENDSPEC
//@ FNSTART
    proof { assert(tail_from(req_url(*request, mask), 0) =~= req_url(*request, mask)); assert(vstd::utf8::is_char_boundary(req_url(*request, mask), 0)); }
//@ ENDFNSTART
//@END

//@EXTRACT src/filters/network_matchers.rs :: fn check_pattern_hostname_anchor_regex_filter
//@ RET r
//@ SAFETY C02.match.host_regex.safety
//@ R10MAPTAIL
//@ SPEC
    requires req_wf(*request),
    ensures
        // "||host" + a "*"/"^" pattern: host part label-aligned, the regex applied to the text right after the host
        r ==> hostname is Some
              && anchored_spec(hostname.unwrap().spec_bytes(), sb(request.hostname), mask.has(NetworkFilterMask::IS_HOSTNAME_REGEX))
              && exists|k: int| #[trigger] occurs_at(req_url(*request, mask), hostname.unwrap().spec_bytes(), k)
                  && rx_spec(mask, filters.remaining(), tail_from(req_url(*request, mask), k + hostname.unwrap().spec_bytes().len())), // OBL C02.match.host_regex.sound
        hostname is Some && once(req_url(*request, mask), hostname.unwrap().spec_bytes()) ==>
            r == (anchored_spec(hostname.unwrap().spec_bytes(), sb(request.hostname), mask.has(NetworkFilterMask::IS_HOSTNAME_REGEX))
                  && rx_spec(mask, filters.remaining(), after_first(req_url(*request, mask), hostname.unwrap().spec_bytes()))), // OBL C02.match.host_regex.exact_unique
        // (c) completeness for a host text that occurs more than once in the URL does NOT hold: obligation
        //     C02.match.host_regex.complete is refuted by the witness input in vf/witness/c02_remainder.rs (known finding)
//@ ENDSPEC
//@ FNSTART
    proof {
        if hostname is Some {
            let (u, rh, fh) = (req_url(*request, mask), sb(request.hostname), hostname.unwrap().spec_bytes());
            if anchored_spec(fh, rh, mask.has(NetworkFilterMask::IS_HOSTNAME_REGEX)) {
                if fh.len() != 0 { let a = choose|a: int| label_aligned(fh, rh, mask.has(NetworkFilterMask::IS_HOSTNAME_REGEX), a); assert(occurs_at(rh, fh, a)); }
                lemma_anchored_occurs(u, rh, fh, host_pos(*request));
            }
        }
    }
//@ ENDFNSTART
//@ SUBST R6
    &request.hostname,
//@ WITH
    request.hostname.as_str(),
//@ ENDSUBST
//@ AFTER
    let request_url = request.get_url(mask.match_case());
//@ AT
    proof { assert(request_url.spec_bytes() == req_url(*request, mask)); }
//@ ENDAFTER
//@END

proof fn vf_canary() ensures false {}

} // verus!
fn main() {}
