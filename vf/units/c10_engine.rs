// Unit c10_engine — C10.2 / C06 / C07: Engine::deserialize decodes fully before mutating the engine
// (Err => unchanged), replaces the rule state on success and keeps the caller's enabled tags.
#![feature(allocator_api)]
use vstd::prelude::*;
use std::collections::HashSet;

verus! {

pub mod vf_axioms {
    use vstd::prelude::*;
    verus!{
    pub broadcast axiom fn string_key_model()
        ensures #[trigger] vstd::std_specs::hash::obeys_key_model::<String>();
    }
}
broadcast use {vf_axioms::string_key_model, vstd::std_specs::hash::group_hash_axioms};

//@INCLUDE shims/std_extra.rs

// any collection of tag strings the code may hold (Vec from tags_enabled(), or the set itself)
pub trait VfStrColl { spec fn strs(&self) -> Set<String>; }
impl VfStrColl for Vec<String> { open spec fn strs(&self) -> Set<String> { self@.to_set() } }
impl VfStrColl for HashSet<String> { open spec fn strs(&self) -> Set<String> { self@ } }

// ---- abstract components (their own units carry their contracts) --------------------------------
// `active_for`: the tag set the blocker's list of ACTIVE tagged rules (filters_tagged) was last rebuilt for (tags_with_set, unit
// c04_partition: C07.tags_with_set.active); a decoded blocker carries the list of whatever engine wrote the buffer
pub struct Blocker { pub tags_enabled: HashSet<String>, pub rules: Ghost<int>, pub active_for: Ghost<Set<String>> }
pub struct CosmeticFilterCache { pub rules: Ghost<int> }
pub struct ResourceStorage { pub content: Ghost<int> }

impl Blocker {
    #[verifier::external_body]
    pub fn tags_enabled(&self) -> (r: Vec<String>)
        ensures r@.to_set() =~= self.tags_enabled@
    { unimplemented!() }

    // R6: `self.use_tags(&v.iter().map(|s| &**s).collect::<Vec<_>>())` — use_tags (set assignment, rules
    // untouched: unit c04_partition, tags_with_set) applied to a borrowed view of the same strings
    #[verifier::external_body]
    pub fn vf_use_tags_of<C: VfStrColl>(&mut self, v: &C)
        ensures
            final(self).rules == old(self).rules,
            final(self).tags_enabled@ =~= v.strs(),
            final(self).active_for@ == final(self).tags_enabled@,
    { unimplemented!() }

    // contract of Blocker::use_tags (set assignment; rules untouched) — unit c04_partition (tags_with_set)
    #[verifier::external_body]
    pub fn use_tags(&mut self, tags: &[&str])
        ensures
            final(self).rules == old(self).rules,
            forall|t: String| final(self).tags_enabled@.contains(t) <==> exists|i: int| 0 <= i < tags@.len() && (#[trigger] tags@[i])@ == t@,
            final(self).active_for@ == final(self).tags_enabled@,
    { unimplemented!() }
}

pub mod data_format {
    use vstd::prelude::*;
    verus!{
    pub struct DeserializeFormat { pub blocker_rules: Ghost<int>, pub cosmetic_rules: Ghost<int> }
    pub enum DeserializationError { RmpSerdeError, UnsupportedFormatVersion(u8), NoHeaderFound, LegacyFormatNoLongerSupported }
    pub uninterp spec fn decode_spec(bytes: Seq<u8>) -> Result<DeserializeFormat, DeserializationError>;
    impl DeserializeFormat {
        #[verifier::external_body]
        pub fn deserialize(serialized: &[u8]) -> (r: Result<Self, DeserializationError>)
            ensures r == decode_spec(serialized@)
        { unimplemented!() }
        // a freshly built blocker has no enabled tags
        #[verifier::external_body]
        pub fn build(self) -> (r: (super::Blocker, super::CosmeticFilterCache))
            ensures r.0.rules == self.blocker_rules, r.0.tags_enabled@.len() == 0, r.1.rules == self.cosmetic_rules
        { unimplemented!() }
    }
    }
}

//@EXTRACT src/engine.rs :: struct Engine
//@ PUBFIELDS
//@END

impl Engine {
//@EXTRACT src/engine.rs :: impl Engine :: fn deserialize
//@ RET r
//@ SAFETY C10.engine.safety
//@ SPEC
    ensures
        // "when it returns an error the engine behaves exactly as it did before the call"
        r is Err ==> *final(self) == *old(self), // OBL C10.engine.err_unchanged
        (r is Err) == (data_format::decode_spec(serialized@) is Err), // OBL C10.engine.err_iff_decode_fails
        // success replaces the rule state ...
        r is Ok ==> final(self).blocker.rules == data_format::decode_spec(serialized@)->Ok_0.blocker_rules
            && final(self).cosmetic_cache.rules == data_format::decode_spec(serialized@)->Ok_0.cosmetic_rules
            && final(self).resources == old(self).resources, // OBL C10.engine.ok_replaces_rules
        // ... "and keeps the caller's enabled set"
        r is Ok ==> forall|t: String| final(self).blocker.tags_enabled@.contains(t) <==> old(self).blocker.tags_enabled@.contains(t), // OBL C07.engine.keeps_tags
        // ... and the loaded tagged rules are active for exactly that set, whatever the engine that wrote the buffer had enabled
        r is Ok ==> final(self).blocker.active_for@ == final(self).blocker.tags_enabled@, // OBL C07.engine.active_list_rebuilt
//@ ENDSPEC
//@ SUBST R6
    self.blocker
            .use_tags(&current_tags.iter().map(|s| &**s).collect::<Vec<_>>());
//@ WITH
    self.blocker.vf_use_tags_of(&current_tags);
//@ ENDSUBST
//@ BEFORE
    Ok(())
//@ AT
        proof {
            assert(self.blocker.tags_enabled@ =~= current_tags.strs());
            assert(current_tags.strs() =~= old(self).blocker.tags_enabled@); // OBL C07.engine.keeps_tags
        }
//@ ENDBEFORE
//@END
}

proof fn vf_canary() ensures false {}

} // verus!
fn main() {}
