// Unit c03_check_options — C03: check_options as a whole, for every mask, request and domain lists of any length
// (the unbounded counterpart of the Kani harnesses C03.options.nodomain [complete] and C03.options.domains [bounded]).
#![feature(pattern)]
use vstd::prelude::*;
use vstd::string::*;
use vstd::slice::*;
use core::str::pattern::Pattern;

verus! {

//@INCLUDE shims/strings.rs
//@INCLUDE shims/mask_items.rs
//@INCLUDE shims/iter.rs

pub use utils::Hash;

pub use utils::sorted;

// the recorded union of a domain list is the OR of its hashes: every listed hash is covered by it
pub open spec fn union_covers(domains: Option<&[Hash]>, union: Option<Hash>) -> bool {
    domains is Some && union is Some ==> forall|i: int| 0 <= i < domains->Some_0@.len() ==> (#[trigger] domains->Some_0@[i]) & union->Some_0 == domains->Some_0@[i]
}
pub open spec fn lists_wf(domains: Option<&[Hash]>, union: Option<Hash>) -> bool {
    (domains is Some ==> sorted(domains->Some_0@)) && union_covers(domains, union)
}

// "the initiator-domain list (a listed domain covers its subdomains, '~' entries exclude, exclusions win)": the request carries the
// hashes of its source host and of every parent domain.  "A rule applies to a request only if every option on it is satisfied": a
// request without a known source comes from none of the listed domains (so a positive list is not satisfied - fix for the
// bucketing-dependent verdicts found by the rule-by-rule differential) and from none of the excluded ones
pub open spec fn some_source_in(src: Seq<Hash>, list: Seq<Hash>) -> bool { exists|i: int| 0 <= i < src.len() && list.contains(#[trigger] src[i]) }
pub open spec fn domains_ok(req: request::Request, inc: Option<&[Hash]>, exc: Option<&[Hash]>) -> bool {
    (inc is Some ==> req.source_hostname_hashes is Some && some_source_in(req.source_hostname_hashes->Some_0@, inc->Some_0@))
    && (exc is Some ==> req.source_hostname_hashes is None || !some_source_in(req.source_hostname_hashes->Some_0@, exc->Some_0@))
}
// everything but the domain lists: not a badfilter marker, type allowed, scheme allowed, party allowed
pub open spec fn plain_options_ok(mask: NetworkFilterMask, req: request::Request) -> bool {
    !mask.has(NetworkFilterMask::BAD_FILTER)
    && cpt_allowed_spec(mask, req.request_type)
    && (req.is_https ==> mask.has(NetworkFilterMask::FROM_HTTPS))
    && (req.is_http ==> mask.has(NetworkFilterMask::FROM_HTTP))
    && (if req.is_third_party { mask.has(NetworkFilterMask::THIRD_PARTY) } else { mask.has(NetworkFilterMask::FIRST_PARTY) })
}

//@EXTRACT src/filters/network_matchers.rs :: fn check_options
//@ RET r
//@ SAFETY C03.check_options.safety
//@ SPEC
    requires lists_wf(opt_domains, opt_domains_union), lists_wf(opt_not_domains, opt_not_domains_union),
    ensures r == (plain_options_ok(mask, *request) && domains_ok(*request, opt_domains, opt_not_domains)), // OBL C03.check_options.exact
//@ ENDSPEC
//@ SUBST R6*
    source_hashes
                    .iter()
//@ WITH
    vf_iter(source_hashes)
//@ ENDSUBST
//@ CLOSURE @h & included_domains_union
    |h: &Hash| -> (b: bool) ensures b == (*h & included_domains_union != *h)
//@ ENDCLOSURE
//@ CLOSURE @bin_lookup(included_domains
    |h: &Hash| -> (b: bool) ensures b == !included_domains@.contains(*h)
//@ ENDCLOSURE
//@ CLOSURE @h & excluded_domains_union
    |h: &Hash| -> (b: bool) ensures b == ((*h & excluded_domains_union == *h) && excluded_domains@.contains(*h))
//@ ENDCLOSURE
//@ CLOSURE @|h| utils::bin_lookup(excluded_domains
    |h: &Hash| -> (b: bool) ensures b == excluded_domains@.contains(*h)
//@ ENDCLOSURE
//@ SUBST R6
    h & included_domains_union
//@ WITH
    *h & included_domains_union
//@ ENDSUBST
//@ SUBST R6
    h & excluded_domains_union
//@ WITH
    *h & excluded_domains_union
//@ ENDSUBST
//@END

proof fn vf_canary() ensures false {}

} // verus!
fn main() {}
