// Unit c02_dispatch — C02: pattern dispatch on anchor / regex flags (check_pattern), and
// get_url_after_hostname.  The nine per-shape matchers are uninterpreted here (their bodies are
// closure/iterator based; they are covered by the bounded Kani harnesses of c02_matchers).
#![feature(pattern)]
use vstd::prelude::*;
use vstd::string::*;
use vstd::slice::*;
use core::str::pattern::Pattern;

verus! {

//@INCLUDE shims/strings.rs
//@INCLUDE shims/mask_items.rs

broadcast use {ascii_boundary, str_len_fits};

pub struct RegexManager { pub x: u8 }

pub enum Shape { HostRegex, HostLeftRight, HostRight, HostLeft, Host, Regex, LeftRight, Left, Right, Plain }

pub uninterp spec fn shape_result<F>(s: Shape, mask: NetworkFilterMask, filters: F, hostname: Option<&str>, key: u64, request: &request::Request) -> bool;

macro_rules! shim3 { ($name:ident, $shape:ident) => { verus!{
    #[verifier::external_body]
    fn $name<'a, FiltersIter>(mask: NetworkFilterMask, filters: FiltersIter, request: &request::Request) -> (r: bool)
        where FiltersIter: Iterator<Item = &'a str> + ExactSizeIterator
        ensures r == shape_result(Shape::$shape, mask, filters, None, 0, request)
    { unimplemented!() }
} } }
macro_rules! shim4 { ($name:ident, $shape:ident) => { verus!{
    #[verifier::external_body]
    fn $name<'a, FiltersIter>(mask: NetworkFilterMask, filters: FiltersIter, hostname: Option<&'a str>, request: &request::Request) -> (r: bool)
        where FiltersIter: Iterator<Item = &'a str> + ExactSizeIterator
        ensures r == shape_result(Shape::$shape, mask, filters, hostname, 0, request)
    { unimplemented!() }
} } }
shim3!(check_pattern_plain_filter_filter, Plain);
shim3!(check_pattern_right_anchor_filter, Right);
shim3!(check_pattern_left_anchor_filter, Left);
shim3!(check_pattern_left_right_anchor_filter, LeftRight);
shim4!(check_pattern_hostname_left_right_anchor_filter, HostLeftRight);
shim4!(check_pattern_hostname_right_anchor_filter, HostRight);
shim4!(check_pattern_hostname_left_anchor_filter, HostLeft);
shim4!(check_pattern_hostname_anchor_filter, Host);

#[verifier::external_body]
fn check_pattern_regex_filter<'a, FiltersIter>(mask: NetworkFilterMask, filters: FiltersIter, key: u64, request: &request::Request, regex_manager: &mut RegexManager) -> (r: bool)
    where FiltersIter: Iterator<Item = &'a str> + ExactSizeIterator
    ensures r == shape_result(Shape::Regex, mask, filters, None, key, request)
{ unimplemented!() }

#[verifier::external_body]
fn check_pattern_hostname_anchor_regex_filter<'a, FiltersIter>(mask: NetworkFilterMask, filters: FiltersIter, hostname: Option<&'a str>, key: u64, request: &request::Request, regex_manager: &mut RegexManager) -> (r: bool)
    where FiltersIter: Iterator<Item = &'a str> + ExactSizeIterator
    ensures r == shape_result(Shape::HostRegex, mask, filters, hostname, key, request)
{ unimplemented!() }

// The shape a rule's flags denote, from the statement: `||host` pins to the hostname; '*'/'^' (or a
// full regex) make the body a regex; '|' pins start / end.
pub open spec fn shape_of(m: NetworkFilterMask) -> Shape {
    if m.has(NetworkFilterMask::IS_HOSTNAME_ANCHOR) {
        if m.has(NetworkFilterMask::IS_REGEX) { Shape::HostRegex }
        else if m.has(NetworkFilterMask::IS_RIGHT_ANCHOR) && m.has(NetworkFilterMask::IS_LEFT_ANCHOR) { Shape::HostLeftRight }
        else if m.has(NetworkFilterMask::IS_RIGHT_ANCHOR) { Shape::HostRight }
        else if m.has(NetworkFilterMask::IS_LEFT_ANCHOR) { Shape::HostLeft }
        else { Shape::Host }
    } else if m.has(NetworkFilterMask::IS_REGEX) || m.has(NetworkFilterMask::IS_COMPLETE_REGEX) { Shape::Regex }
    else if m.has(NetworkFilterMask::IS_LEFT_ANCHOR) && m.has(NetworkFilterMask::IS_RIGHT_ANCHOR) { Shape::LeftRight }
    else if m.has(NetworkFilterMask::IS_LEFT_ANCHOR) { Shape::Left }
    else if m.has(NetworkFilterMask::IS_RIGHT_ANCHOR) { Shape::Right }
    else { Shape::Plain }
}

pub open spec fn is_host_shape(s: Shape) -> bool {
    s is HostRegex || s is HostLeftRight || s is HostRight || s is HostLeft || s is Host
}

//@EXTRACT src/filters/network_matchers.rs :: fn check_pattern
//@ RET r
//@ SAFETY C02.dispatch.safety
//@ SPEC
    ensures
        r == shape_result(shape_of(mask), mask, filters,
                          if is_host_shape(shape_of(mask)) { hostname } else { None },
                          if shape_of(mask) is HostRegex || shape_of(mask) is Regex { key } else { 0 },
                          request), // OBL C02.dispatch.shape
//@ ENDSPEC
//@END

//@EXTRACT src/filters/network_matchers.rs :: fn get_url_after_hostname
//@ RET r
//@ SAFETY C02.after.safety
//@ SPEC
    requires
        url.is_ascii(),
        hostname.spec_bytes().len() <= url.spec_bytes().len(),
    ensures
        // the text directly after the FIRST occurrence of `hostname` in `url`
        forall|j: int| occurs_at(url.spec_bytes(), hostname.spec_bytes(), j)
            && (forall|k: int| 0 <= k < j ==> !occurs_at(url.spec_bytes(), hostname.spec_bytes(), k))
            ==> r.spec_bytes() =~= url.spec_bytes().subrange(j + hostname.spec_bytes().len(), url.spec_bytes().len() as int), // OBL C02.after.first
        // and the empty string when `hostname` does not occur
        (forall|j: int| !occurs_at(url.spec_bytes(), hostname.spec_bytes(), j)) ==> r.spec_bytes().len() == 0, // OBL C02.after.none
//@ ENDSPEC
//@END

proof fn vf_canary() ensures false {}

} // verus!
fn main() {}
