// Unit c12_domain — C12 / C16: the registrable-domain range of a hostname (url_parser/mod.rs: DefaultResolver::get_host_domain).
// The public-suffix lookup itself (addr crate) is uninterpreted; proved is what is made of its answer: the eTLD+1 (or the bare
// suffix) as a range at the END of the host, the whole host when the name does not parse, nothing for the empty host.
#![feature(pattern)]
use vstd::prelude::*;
use vstd::string::*;
use vstd::slice::*;
use core::str::pattern::Pattern;

verus! {

//@INCLUDE shims/strings.rs
broadcast use {vf_str::str_len_fits};

//@EXTRACT src/url_parser/mod.rs :: struct DefaultResolver
//@END

// T (addr crate, public suffix list): a parsed name knows its registrable domain (`root`, absent for a bare suffix) and its suffix;
// both are texts at the end of the host
pub struct Name { pub x: u8 }
pub struct NameError { pub x: u8 }
pub uninterp spec fn psl_parse(host: Seq<u8>) -> Option<Name>;
pub uninterp spec fn root_len(n: Name) -> Option<int>;
pub uninterp spec fn suffix_len(n: Name) -> int;
pub uninterp spec fn known_suffix(n: Name) -> bool;
#[verifier::external_body]
fn vf_parse_domain_name(host: &str) -> (r: Result<Name, NameError>)
    ensures match r { Ok(n) => psl_parse(host.spec_bytes()) == Some(n) && 0 <= suffix_len(n) <= host.spec_bytes().len()
                                 && (root_len(n) is Some ==> 0 <= root_len(n)->Some_0 <= host.spec_bytes().len()),
                      Err(_) => psl_parse(host.spec_bytes()) is None }
{ unimplemented!() }
impl Name {
    #[verifier::external_body]
    pub fn root(&self) -> (r: Option<&str>) ensures match r { Some(t) => root_len(*self) == Some(t.spec_bytes().len() as int), None => root_len(*self) is None } { unimplemented!() }
    #[verifier::external_body]
    pub fn suffix(&self) -> (r: &str) ensures r.spec_bytes().len() == suffix_len(*self) { unimplemented!() }
    #[verifier::external_body]
    pub fn has_known_suffix(&self) -> (r: bool) ensures r == known_suffix(*self) { unimplemented!() }
}

// "Return the start and end indices of the domain (eTLD+1) of the given hostname. If there isn't a valid domain, (0, host.len())"
pub open spec fn domain_range(host: Seq<u8>) -> (int, int) {
    let n = host.len() as int;
    if n == 0 { (0, 0) }
    else { match psl_parse(host) {
        None => (0, n),
        Some(name) => (n - (match root_len(name) { Some(l) => l, None => suffix_len(name) }), n),
    } }
}

impl DefaultResolver {
// R1: the method of `impl ResolvesDomain for DefaultResolver`, placed in an inherent impl
//@EXTRACT src/url_parser/mod.rs :: impl ResolvesDomain for DefaultResolver :: fn get_host_domain
//@ RET r
//@ SAFETY C12.domain.safety
//@ SPEC
        ensures (r.0 as int, r.1 as int) == domain_range(host.spec_bytes()), // OBL C12.domain.range
//@ ENDSPEC
//@ SUBST R1
    use addr::parser::DomainName;
//@ WITH
//@ ENDSUBST
//@ SUBST R1
    use addr::psl::List;
//@ WITH
//@ ENDSUBST
//@ SUBST R6
    List.parse_domain_name(host)
//@ WITH
    vf_parse_domain_name(host)
//@ ENDSUBST
//@ SUBST R6
    domain.root().unwrap_or_else(|| domain.suffix())
//@ WITH
    (match domain.root() { Some(root) => root, None => domain.suffix() })
//@ ENDSUBST
//@END
}

proof fn vf_canary() ensures false {}

} // verus!
fn main() {}
