// Unit c10_header — C10.1: header / version dispatch of data_format::DeserializeFormat::deserialize
// over byte slices of ANY length.  The v0 decoder and rmp_serde are shims (trusted).
use vstd::prelude::*;
use vstd::slice::*;

verus! {

// ---- trusted shims ---------------------------------------------------------------------------
pub mod rmp_serde { pub mod decode {
    use vstd::prelude::*;
    verus!{ pub struct Error { pub code: u8 } }
} }

pub mod v0 {
    use vstd::prelude::*;
    verus!{
    pub struct DeserializeFormat { pub payload: Vec<u8> }
    impl DeserializeFormat {
        // T: msgpack decoding (rmp-serde). The two assert!s at the top of the real function are
        // its precondition: the caller must have checked magic and version.
        #[verifier::external_body]
        pub fn deserialize(serialized: &[u8]) -> (r: Result<Self, super::DeserializationError>)
            requires
                serialized@.len() >= 5,
                serialized@.subrange(0, 4) =~= super::ADBLOCK_RUST_DAT_MAGIC@,
                serialized@[4] == 0,
        { unimplemented!() }
    }
    }
}

//@EXTRACT src/data_format/mod.rs :: const ADBLOCK_RUST_DAT_MAGIC
//@ PUB
//@END

//@EXTRACT src/data_format/mod.rs :: enum DeserializeFormat
//@END

//@EXTRACT src/data_format/mod.rs :: enum DeserializationError
//@END

impl vstd::std_specs::convert::FromSpecImpl<rmp_serde::decode::Error> for DeserializationError {
    open spec fn obeys_from_spec() -> bool { true }
    open spec fn from_spec(e: rmp_serde::decode::Error) -> Self { DeserializationError::RmpSerdeError(e) }
}
//@EXTRACT src/data_format/mod.rs :: impl From<rmp_serde::decode::Error> for DeserializationError
//@ SAFETY C10.hdr.from_err
//@END

pub open spec fn has_prefix(s: Seq<u8>, p: Seq<u8>) -> bool {
    s.len() >= p.len() && s.subrange(0, p.len() as int) =~= p
}

pub open spec fn gz_header() -> Seq<u8> { seq![31u8, 139, 8, 0, 0, 0, 0, 0, 0, 255] }

impl DeserializeFormat {
//@EXTRACT src/data_format/mod.rs :: impl DeserializeFormat :: fn deserialize
//@ RET r
//@ SAFETY C10.hdr.safety
//@ SPEC
    ensures
        !has_prefix(serialized@, ADBLOCK_RUST_DAT_MAGIC@) && has_prefix(serialized@, gz_header())
            ==> r is Err && r->Err_0 is LegacyFormatNoLongerSupported, // OBL C10.hdr.gzip
        !has_prefix(serialized@, ADBLOCK_RUST_DAT_MAGIC@) && !has_prefix(serialized@, gz_header())
            ==> r is Err && r->Err_0 is NoHeaderFound, // OBL C10.hdr.nomagic
        has_prefix(serialized@, ADBLOCK_RUST_DAT_MAGIC@) && serialized@.len() == 4
            ==> r is Err, // OBL C10.hdr.short
        has_prefix(serialized@, ADBLOCK_RUST_DAT_MAGIC@) && serialized@.len() > 4 && serialized@[4] != 0
            ==> r is Err && r->Err_0 == DeserializationError::UnsupportedFormatVersion(serialized@[4]), // OBL C10.hdr.version
//@ ENDSPEC
//@END
}

proof fn vf_canary() ensures false {}

} // verus!
fn main() {}
