// Unit c05_grouping — C05: apply_optimisation (optimizer.rs:35-66): which rules end up fused with which, and that no rule
// is lost: rules that `select` rejects stay as they are; selected rules are grouped by the grouping key; a group of one stays
// as it is; a group of several becomes exactly one fused rule built from exactly that group.
// select / group_by_criteria / fusion themselves are unit c05_optimizer (abstract relations here).
#![feature(allocator_api)]
use vstd::prelude::*;
use std::collections::HashMap;

verus! {

pub mod vf_axioms {
    use vstd::prelude::*;
    verus!{
    pub broadcast axiom fn string_key_model()
        ensures #[trigger] vstd::std_specs::hash::obeys_key_model::<String>();
    }
}
broadcast use {vf_axioms::string_key_model, vstd::std_specs::hash::group_hash_axioms};

//@INCLUDE shims/filter_items.rs
//@INCLUDE shims/std_extra.rs

//@EXTRACT src/optimizer.rs :: struct SimplePatternGroup
//@END

// contracts of unit c05_optimizer, abstractly
pub uninterp spec fn select_spec(f: NetworkFilter) -> bool;
pub uninterp spec fn key_spec(f: NetworkFilter) -> String;
pub uninterp spec fn fusion_post(group: Seq<NetworkFilter>, r: NetworkFilter) -> bool;
impl SimplePatternGroup {
    #[verifier::external_body]
    fn select(&self, filter: &NetworkFilter) -> (r: bool) ensures r == select_spec(*filter) { unimplemented!() }
    #[verifier::external_body]
    fn group_by_criteria(&self, filter: &NetworkFilter) -> (r: String) ensures r == key_spec(*filter) { unimplemented!() }
    #[verifier::external_body]
    fn fusion(&self, filters: &[NetworkFilter]) -> (r: NetworkFilter)
        requires filters@.len() > 0
        ensures fusion_post(filters@, r)
    { unimplemented!() }
}

// R5: itertools partition_map with Either::Left for the selected rules — both halves keep the input order
#[verifier::external_body]
fn vf_partition(optimization: &SimplePatternGroup, filters: Vec<NetworkFilter>) -> (r: (Vec<NetworkFilter>, Vec<NetworkFilter>))
    ensures r.0@ == filters@.filter(|f: NetworkFilter| select_spec(f)), r.1@ == filters@.filter(|f: NetworkFilter| !select_spec(f))
{ unimplemented!() }

pub open spec fn group_at(m: Map<String, Vec<NetworkFilter>>, k: String) -> Seq<NetworkFilter> { if m.contains_key(k) { m[k]@ } else { Seq::empty() } }

// T (optimizer.rs:68-73): map.entry(k).or_insert_with(Vec::new).push(v) — append under the key
#[verifier::external_body]
fn insert_dup(map: &mut HashMap<String, Vec<NetworkFilter>>, k: String, v: NetworkFilter)
    ensures
        final(map)@.dom() == old(map)@.dom().insert(k),
        forall|k2: String| #[trigger] group_at(final(map)@, k2) == (if k2 == k { group_at(old(map)@, k2).push(v) } else { group_at(old(map)@, k2) }),
{ unimplemented!() }

// R5: HashMap::into_iter() (no vstd model): the entries, each key once, in some order
#[verifier::external_body]
fn vf_into_groups(m: HashMap<String, Vec<NetworkFilter>>) -> (r: Vec<(String, Vec<NetworkFilter>)>)
    ensures
        forall|i: int| 0 <= i < r@.len() ==> m@.contains_key((#[trigger] r@[i]).0) && m@[r@[i].0] == r@[i].1,
        forall|i: int, j: int| 0 <= i < j < r@.len() ==> (#[trigger] r@[i]).0 != (#[trigger] r@[j]).0,
        forall|k: String| m@.contains_key(k) ==> exists|i: int| 0 <= i < r@.len() && (#[trigger] r@[i]).0 == k,
{ unimplemented!() }

pub open spec fn sel() -> spec_fn(NetworkFilter) -> bool { |f: NetworkFilter| select_spec(f) }
pub open spec fn unsel() -> spec_fn(NetworkFilter) -> bool { |f: NetworkFilter| !select_spec(f) }
pub open spec fn has_key(k: String) -> spec_fn(NetworkFilter) -> bool { |f: NetworkFilter| key_spec(f) == k }
// the first n selected rules that have key k
pub open spec fn grp(p: Seq<NetworkFilter>, n: int, k: String) -> Seq<NetworkFilter> { p.take(n).filter(has_key(k)) }

pub proof fn lemma_grp_step(p: Seq<NetworkFilter>, n: int, k: String)
    requires 0 <= n < p.len()
    ensures grp(p, n + 1, k) == (if key_spec(p[n]) == k { grp(p, n, k).push(p[n]) } else { grp(p, n, k) })
{
    assert(p.take(n + 1) =~= p.take(n).push(p[n]));
    p.take(n).lemma_filter_push(p[n], has_key(k));
}

// membership in a key group
pub proof fn lemma_group_members(filters: Seq<NetworkFilter>, k: String, f: NetworkFilter)
    ensures group_of(filters, k).contains(f) <==> (filters.contains(f) && select_spec(f) && key_spec(f) == k)
{
    let p = filters.filter(sel());
    filters.filter_lemma(sel());
    p.filter_lemma(has_key(k));
    if group_of(filters, k).contains(f) {
        p.lemma_filter_contains_rev(has_key(k), f);
        filters.lemma_filter_contains_rev(sel(), f);
        let j = choose|j: int| 0 <= j < group_of(filters, k).len() && group_of(filters, k)[j] == f;
        assert(has_key(k)(group_of(filters, k)[j]));
        let j2 = choose|j2: int| 0 <= j2 < p.len() && p[j2] == f;
        assert(sel()(p[j2]));
    }
    if filters.contains(f) && select_spec(f) && key_spec(f) == k {
        let j = choose|j: int| 0 <= j < filters.len() && filters[j] == f;
        assert(sel()(filters[j]));
        assert(p.contains(filters[j]));
        let j2 = choose|j2: int| 0 <= j2 < p.len() && p[j2] == f;
        assert(has_key(k)(p[j2]));
        assert(p.filter(has_key(k)).contains(p[j2]));
    }
}

pub open spec fn group_of(filters: Seq<NetworkFilter>, k: String) -> Seq<NetworkFilter> { filters.filter(sel()).filter(has_key(k)) }
pub open spec fn stays(filters: Seq<NetworkFilter>, f: NetworkFilter) -> bool {
    filters.contains(f) && (!select_spec(f) || group_of(filters, key_spec(f)).len() == 1)
}

pub open spec fn group_fused(fs: Seq<NetworkFilter>, k: String, fused: Seq<NetworkFilter>) -> bool { exists|q: int| 0 <= q < fused.len() && fusion_post(group_of(fs, k), #[trigger] fused[q]) }
// f is the only member of an already handled key group
pub open spec fn kept_alone(fs: Seq<NetworkFilter>, seen: Set<String>, f: NetworkFilter) -> bool {
    exists|k: String| #[trigger] seen.contains(k) && group_of(fs, k).len() <= 1 && group_of(fs, k).contains(f)
}
pub open spec fn fused_ok(fs: Seq<NetworkFilter>, x: NetworkFilter) -> bool { exists|k: String| group_of(fs, k).len() > 1 && #[trigger] fusion_post(group_of(fs, k), x) }

//@EXTRACT src/optimizer.rs :: fn apply_optimisation
//@ RET r
//@ SAFETY C05.grouping.safety
//@ ATTR #[verifier::loop_isolation(false)]
//@ SPEC
    ensures
        // every fused rule is the fusion of one whole key group of several selected rules
        forall|q: int| 0 <= q < r.0@.len() ==> fused_ok(filters@, #[trigger] r.0@[q]), // OBL C05.grouping.fused_from_group
        // every key group of several rules is fused
        forall|k: String| (#[trigger] group_of(filters@, k)).len() > 1 ==> group_fused(filters@, k, r.0@), // OBL C05.grouping.every_group_fused
        // the rules returned unfused are exactly the unselected ones and the ones alone in their group: no rule is lost, none is both fused and kept
        forall|f: NetworkFilter| #[trigger] r.1@.contains(f) <==> stays(filters@, f), // OBL C05.grouping.rest_kept
//@ ENDSPEC
//@ SUBST R3
    <T: Optimization>
//@ WITH
//@ ENDSUBST
//@ SUBST R3
    &T
//@ WITH
    &SimplePatternGroup
//@ ENDSUBST
//@ REPLACE R5
    filters.into_iter().partition_map(|f| {
//@ UPTO
    Either::Right(f)
            }
        });
//@ WITH
    vf_partition(optimization, filters);
        let ghost fs = filters@;
        let ghost pos = positive@;
        let ghost neg0 = negative@;
//@ ENDREPLACE
//@ FOREACH @itp insert_dup(&mut to_fuse
            invariant
                itp.seq() == pos,
                forall|k: String| #[trigger] group_at(to_fuse@, k) == grp(pos, itp.index() as int, k), // OBL C05.grouping.groups
//@ BODYSTART
            let ghost before = to_fuse@;
//@ BODYEND
            proof {
                assert forall|k: String| #[trigger] group_at(to_fuse@, k) == grp(pos, itp.index() as int + 1, k) by {
                    lemma_grp_step(pos, itp.index() as int, k);
                    assert(group_at(before, k) == grp(pos, itp.index() as int, k));
                }
            }
//@ ENDFOREACH
//@ SUBST R5
    for (_, group) in to_fuse {
//@ WITH
    proof {
        assert(pos.take(pos.len() as int) =~= pos);
        assert forall|k: String| #[trigger] group_at(to_fuse@, k) == group_of(fs, k) by { assert(group_at(to_fuse@, k) == grp(pos, pos.len() as int, k)); }
    }
    let ghost groups = to_fuse@;
    let ghost mut seen = Set::<String>::empty();
    for (_key, group) in itg: vf_into_groups(to_fuse)
        invariant
            forall|p: int| 0 <= p < itg.seq().len() ==> groups.contains_key((#[trigger] itg.seq()[p]).0) && groups[itg.seq()[p].0] == itg.seq()[p].1,
            forall|k: String| groups.contains_key(k) ==> exists|p: int| 0 <= p < itg.seq().len() && (#[trigger] itg.seq()[p]).0 == k,
            forall|p: int| 0 <= p < itg.index() ==> seen.contains((#[trigger] itg.seq()[p]).0),
            forall|k: String| #[trigger] seen.contains(k) ==> groups.contains_key(k),
            forall|q: int| 0 <= q < fused@.len() ==> fused_ok(fs, #[trigger] fused@[q]), // OBL C05.grouping.loop.fused
            forall|k: String| #[trigger] seen.contains(k) && group_of(fs, k).len() > 1 ==> group_fused(fs, k, fused@), // OBL C05.grouping.loop.groups
            forall|f: NetworkFilter| #[trigger] negative@.contains(f) <==> (neg0.contains(f) || kept_alone(fs, seen, f)), // OBL C05.grouping.loop.rest
    {
        let ghost neg_before = negative@;
        let ghost fused_before = fused@;
        proof { assert(group@ == group_at(groups, _key)); assert(group@ == group_of(fs, _key)); }
//@ ENDSUBST
//@ LOOPEND @fused.push(optimization.fusion(
        proof {
            let k0 = _key;
            let seen2 = seen.insert(k0);
            assert forall|k: String| #[trigger] seen2.contains(k) && group_of(fs, k).len() > 1 implies group_fused(fs, k, fused@) by {
                if k == k0 {
                    assert(fusion_post(group_of(fs, k), fused@[fused@.len() - 1]));
                } else {
                    assert(group_fused(fs, k, fused_before));
                    let q = choose|q: int| 0 <= q < fused_before.len() && fusion_post(group_of(fs, k), #[trigger] fused_before[q]);
                    assert(fused@[q] == fused_before[q]);
                }
            }
            assert forall|q: int| 0 <= q < fused@.len() implies fused_ok(fs, #[trigger] fused@[q]) by {
                if q < fused_before.len() { assert(fused@[q] == fused_before[q]); assert(fused_ok(fs, fused_before[q])); }
                else { assert(group_of(fs, k0).len() > 1 && fusion_post(group_of(fs, k0), fused@[q])); }
            }
            assert forall|f: NetworkFilter| #[trigger] negative@.contains(f) <==> (neg0.contains(f) || kept_alone(fs, seen2, f)) by {
                if kept_alone(fs, seen2, f) {
                    let k = choose|k: String| #[trigger] seen2.contains(k) && group_of(fs, k).len() <= 1 && group_of(fs, k).contains(f);
                    if k != k0 { assert(seen.contains(k)); assert(kept_alone(fs, seen, f)); }
                }
                if kept_alone(fs, seen, f) {
                    let k = choose|k: String| #[trigger] seen.contains(k) && group_of(fs, k).len() <= 1 && group_of(fs, k).contains(f);
                    assert(seen2.contains(k));
                }
                if group@.len() <= 1 && group@.contains(f) { assert(seen2.contains(k0)); }
            }
            seen = seen2;
        }
//@ ENDLOOPEND
//@ BEFORE
    fused.shrink_to_fit();
//@ AT
    proof {
        assert forall|k: String| (#[trigger] group_of(fs, k)).len() > 1 implies group_fused(fs, k, fused@) by {
            assert(group_at(groups, k) == group_of(fs, k));
            assert(groups.contains_key(k));
            assert(seen.contains(k));
            assert(group_fused(fs, k, fused@));
        }
        assert forall|f: NetworkFilter| #[trigger] negative@.contains(f) <==> stays(fs, f) by {
            fs.filter_lemma(unsel());
            if neg0.contains(f) { fs.lemma_filter_contains_rev(unsel(), f); let j = choose|j: int| 0 <= j < neg0.len() && neg0[j] == f; assert(unsel()(neg0[j])); }
            if kept_alone(fs, seen, f) {
                let k = choose|k: String| #[trigger] seen.contains(k) && group_of(fs, k).len() <= 1 && group_of(fs, k).contains(f);
                lemma_group_members(fs, k, f);
            }
            if stays(fs, f) {
                if !select_spec(f) {
                    let j = choose|j: int| 0 <= j < fs.len() && fs[j] == f; assert(unsel()(fs[j])); assert(neg0.contains(fs[j]));
                } else {
                    let k = key_spec(f);
                    lemma_group_members(fs, k, f);
                    assert(group_at(groups, k) == group_of(fs, k));
                    assert(groups.contains_key(k));
                    assert(seen.contains(k));
                    assert(kept_alone(fs, seen, f));
                }
            }
        }
    }
//@ ENDBEFORE
//@ FOREACH @itn negative.push(f)
                invariant
                    itn.seq() == group@,
                    forall|f: NetworkFilter| #[trigger] negative@.contains(f) <==> (neg_before.contains(f) || exists|j: int| 0 <= j < itn.index() && (#[trigger] group@[j]) == f),
//@ BODYSTART
                let ghost nb = negative@;
//@ BODYEND
                proof {
                    assert forall|x: NetworkFilter| #[trigger] negative@.contains(x) <==> (neg_before.contains(x) || exists|j: int| 0 <= j < itn.index() + 1 && (#[trigger] group@[j]) == x) by {
                        assert(negative@ == nb.push(f));
                        if negative@.contains(x) {
                            let j = choose|j: int| 0 <= j < negative@.len() && negative@[j] == x;
                            if j < nb.len() { assert(nb[j] == x); assert(nb.contains(x)); } else { assert(x == f); assert(group@[itn.index() as int] == x); }
                        }
                        if nb.contains(x) { let j = choose|j: int| 0 <= j < nb.len() && nb[j] == x; assert(negative@[j] == x); }
                        if exists|j: int| 0 <= j < itn.index() + 1 && (#[trigger] group@[j]) == x {
                            let j = choose|j: int| 0 <= j < itn.index() + 1 && (#[trigger] group@[j]) == x;
                            if j == itn.index() { assert(negative@[nb.len() as int] == x); }
                        }
                    }
                }
//@ ENDFOREACH
//@END

proof fn vf_canary() ensures false {}

} // verus!
fn main() {}
