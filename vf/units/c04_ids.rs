// Unit c04_ids — C04.2: the rule id used for $badfilter cancellation is a function of exactly the
// pattern and the matching options: (modifier option, mask, included domains, excluded domains,
// pattern text, hostname) — every component feeds the hash, none is dropped.
use vstd::prelude::*;

verus! {

//@INCLUDE shims/filter_items.rs

// the hash chain: h' = h * 33 (wrapping) xor x
pub open spec fn step(h: u64, x: u64) -> u64 { (((h as int) * 33) % 0x1_0000_0000_0000_0000) as u64 ^ x }

pub open spec fn fold_upto(h0: u64, s: Seq<u64>, n: int) -> u64
    decreases n
{
    if n <= 0 { h0 } else { step(fold_upto(h0, s, n - 1), s[n - 1]) }
}

pub open spec fn fold_all(h0: u64, s: Seq<u64>) -> u64 { fold_upto(h0, s, s.len() as int) }

pub open spec fn chars_u64(s: Seq<char>) -> Seq<u64> { s.map_values(|c: char| c as u64) }

pub open spec fn opt_chars(s: Option<&str>) -> Seq<u64> { match s { Some(x) => chars_u64(x@), None => Seq::empty() } }
pub open spec fn opt_hashes(s: Option<&Vec<Hash>>) -> Seq<u64> { match s { Some(x) => x@, None => Seq::empty() } }

// the id: all six components, in this order
pub open spec fn id_spec(modifier_option: Option<&str>, mask_bits: u32, filter: Option<&str>, hostname: Option<&str>,
                         opt_domains: Option<&Vec<Hash>>, opt_not_domains: Option<&Vec<Hash>>) -> u64 {
    let h0 = ((5408u64 * 33) as u64) ^ (mask_bits as u64);
    let h1 = fold_all(h0, opt_chars(modifier_option));
    let h2 = fold_all(h1, opt_hashes(opt_domains));
    let h3 = fold_all(h2, opt_hashes(opt_not_domains));
    let h4 = fold_all(h3, opt_chars(filter));
    fold_all(h4, opt_chars(hostname))
}

// R5: `s.chars()` materialised (no ghost iterator for Chars)
#[verifier::external_body]
fn vf_chars(s: &str) -> (r: Vec<char>)
    ensures r@ == s@
{ s.chars().collect() }

//@EXTRACT src/filters/network.rs :: fn compute_filter_id
//@ RET r
//@ SAFETY C04.id.safety
//@ SPEC
    ensures r == id_spec(modifier_option, mask.bits, filter, hostname, opt_domains, opt_not_domains), // OBL C04.id.all_components
//@ ENDSPEC
//@ SUBST R5*
    s.chars()
//@ WITH
    vf_chars(s)
//@ ENDSUBST
//@ SUBST R8*
    ^ d;
//@ WITH
    ^ *d;
//@ ENDSUBST
//@ SUBST R8#1
    for c in chars
//@ WITH
    for c in it: chars
//@ ENDSUBST
//@ SUBST R8#2
    for c in chars
//@ WITH
    for c in it: chars
//@ ENDSUBST
//@ SUBST R8#3
    for c in chars
//@ WITH
    for c in it: chars
//@ ENDSUBST
//@ SUBST R8#1
    for d in domains
//@ WITH
    for d in it: domains
//@ ENDSUBST
//@ SUBST R8#2
    for d in domains
//@ WITH
    for d in it: domains
//@ ENDSUBST
//@ BEFORE
    if let Some(s) = modifier_option
//@ AT
    let ghost h0 = hash;
//@ ENDBEFORE
//@ LOOP 1
            invariant it.seq() == s@, hash == fold_upto(h0, chars_u64(s@), it.index() as int),
//@ ENDLOOP
//@ BEFORE#1
    if let Some(domains) = opt_domains
//@ AT
    let ghost h1 = hash;
    proof { assert(h1 == fold_all(h0, opt_chars(modifier_option))); }
//@ ENDBEFORE
//@ LOOP 2
            invariant it.seq().len() == domains@.len(), forall|i: int| 0 <= i < domains@.len() ==> *#[trigger] it.seq()[i] == domains@[i],
                hash == fold_upto(h1, domains@, it.index() as int),
//@ ENDLOOP
//@ BEFORE
    if let Some(domains) = opt_not_domains
//@ AT
    let ghost h2 = hash;
    proof { assert(h2 == fold_all(h1, opt_hashes(opt_domains))); }
//@ ENDBEFORE
//@ LOOP 3
            invariant it.seq().len() == domains@.len(), forall|i: int| 0 <= i < domains@.len() ==> *#[trigger] it.seq()[i] == domains@[i],
                hash == fold_upto(h2, domains@, it.index() as int),
//@ ENDLOOP
//@ BEFORE
    if let Some(s) = filter
//@ AT
    let ghost h3 = hash;
    proof { assert(h3 == fold_all(h2, opt_hashes(opt_not_domains))); }
//@ ENDBEFORE
//@ LOOP 4
            invariant it.seq() == s@, hash == fold_upto(h3, chars_u64(s@), it.index() as int),
//@ ENDLOOP
//@ BEFORE
    if let Some(s) = hostname
//@ AT
    let ghost h4 = hash;
    proof { assert(h4 == fold_all(h3, opt_chars(filter))); }
//@ ENDBEFORE
//@ LOOP 5
            invariant it.seq() == s@, hash == fold_upto(h4, chars_u64(s@), it.index() as int),
//@ ENDLOOP
//@END

// ---- the two ids of a rule --------------------------------------------------------------------------------------------------
// R6: Option<String>::as_deref / Option<Vec<_>>::as_ref (borrowed views of the same values)
#[verifier::external_body]
fn vf_as_deref(o: &Option<String>) -> (r: Option<&str>)
    ensures match r { Some(x) => o is Some && x@ == o->Some_0@, None => o is None }
{ o.as_deref() }
// FilterPart::string_view (the pattern text; any-of patterns joined): a function of the pattern
pub open spec fn pattern_text(f: FilterPart) -> Option<String> {
    match f { FilterPart::Empty => None::<String>, FilterPart::Simple(s) => Some(s), FilterPart::AnyOf(v) => Some(joined_spec(v@)) }
}
pub open spec fn deref_view(o: Option<String>) -> Seq<u64> { match o { Some(x) => chars_u64(x@), None => Seq::empty() } }
pub open spec fn hashes_view(o: Option<Vec<Hash>>) -> Seq<u64> { match o { Some(x) => x@, None => Seq::empty() } }
// the id of rule f computed with the given mask bits: "a function of exactly the pattern and the matching options"
pub open spec fn rule_id(f: NetworkFilter, bits: u32) -> u64 {
    let h0 = ((5408u64 * 33) as u64) ^ (bits as u64);
    let h1 = fold_all(h0, deref_view(f.modifier_option));
    let h2 = fold_all(h1, hashes_view(f.opt_domains));
    let h3 = fold_all(h2, hashes_view(f.opt_not_domains));
    let h4 = fold_all(h3, deref_view(pattern_text(f.filter)));
    fold_all(h4, deref_view(f.hostname))
}

impl NetworkFilter {
//@EXTRACT src/filters/network.rs :: impl NetworkFilter :: fn get_id
//@ RET r
//@ SAFETY C04.id.get_id.safety
//@ SPEC
        ensures r == rule_id(*self, self.mask.bits), // OBL C04.id.get_id
//@ ENDSPEC
//@ SUBST R6
    self.modifier_option.as_deref()
//@ WITH
    vf_as_deref(&self.modifier_option)
//@ ENDSUBST
//@ SUBST R6
    self.filter.string_view().as_deref()
//@ WITH
    vf_as_deref(&self.filter.string_view())
//@ ENDSUBST
//@ SUBST R6
    self.hostname.as_deref()
//@ WITH
    vf_as_deref(&self.hostname)
//@ ENDSUBST
//@END

//@EXTRACT src/filters/network.rs :: impl NetworkFilter :: fn get_id_without_badfilter
//@ RET r
//@ SAFETY C04.id.get_id_without_badfilter.safety
//@ SPEC
        ensures r == rule_id(*self, self.mask.bits & !NetworkFilterMask::BAD_FILTER.bits), // OBL C04.id.get_id_without_badfilter
//@ ENDSPEC
//@ SUBST R6
    self.modifier_option.as_deref()
//@ WITH
    vf_as_deref(&self.modifier_option)
//@ ENDSUBST
//@ SUBST R6
    self.filter.string_view().as_deref()
//@ WITH
    vf_as_deref(&self.filter.string_view())
//@ ENDSUBST
//@ SUBST R6
    self.hostname.as_deref()
//@ WITH
    vf_as_deref(&self.hostname)
//@ ENDSUBST
//@END
}

// "a $badfilter rule cancels the rule that is identical to it except for the badfilter option" - over the two contracts
proof fn lemma_badfilter_twin(b: NetworkFilter, t: NetworkFilter)
    requires
        b.mask.bits & NetworkFilterMask::BAD_FILTER.bits == NetworkFilterMask::BAD_FILTER.bits,
        t.mask.bits == b.mask.bits & !NetworkFilterMask::BAD_FILTER.bits,
        t.modifier_option == b.modifier_option, t.opt_domains == b.opt_domains, t.opt_not_domains == b.opt_not_domains, t.filter == b.filter, t.hostname == b.hostname,
    ensures rule_id(b, b.mask.bits & !NetworkFilterMask::BAD_FILTER.bits) == rule_id(t, t.mask.bits), // OBL C04.id.badfilter_twin
{
}

proof fn vf_canary() ensures false {}

} // verus!
fn main() {}
