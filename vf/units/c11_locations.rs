// Unit c11_locations — C11 / C16: the location list of a cosmetic rule (filters/cosmetic.rs:173-279).
//  * the per-entry closure of locations_before_sharp (negation `~`, entity suffix `.*`, AdGuard `/regex/` entries): R7 lift of the
//    closure body; every slice in bounds and on character boundaries for EVERY entry text, and WHICH kind / text comes out;
//  * parse_before_sharp: the four hash lists are the hashes of the entries of the four kinds (nothing dropped, nothing filed under
//    another kind), `None` exactly when a kind has no entry.
#![feature(pattern)]
#![feature(allocator_api)]
use vstd::prelude::*;
use vstd::string::*;
use vstd::slice::*;
use core::str::pattern::Pattern;

verus! {

//@INCLUDE shims/strings.rs
broadcast use {vf_str::pat_prefix_ascii_char, vf_str::pat_suffix_str, vf_str::ascii_byte_boundaries, vf_str::str_ends_are_boundaries, vf_str::str_len_fits};

pub type Hash = u64;

//@EXTRACT src/filters/cosmetic.rs :: enum CosmeticFilterError
//@END
//@EXTRACT src/filters/cosmetic.rs :: enum CosmeticFilterLocationType
//@ PUB
//@END
//@EXTRACT src/filters/cosmetic.rs :: struct CosmeticFilterLocations
//@ PUB
//@ PUBFIELDS
//@END

pub open spec fn tilde(b: Seq<u8>) -> bool { b.len() > 0 && b[0] == 126u8 }
pub open spec fn dot_star(b: Seq<u8>) -> bool { b.len() >= 2 && b[b.len() - 2] == 46u8 && b[b.len() - 1] == 42u8 }
pub open spec fn entry_text(b: Seq<u8>) -> Seq<u8> {
    b.subrange(if tilde(b) { 1int } else { 0int }, if dot_star(b) { b.len() - 2 } else { b.len() as int })
}
pub open spec fn kind_of(neg: bool, ent: bool) -> CosmeticFilterLocationType {
    if neg && ent { CosmeticFilterLocationType::NotEntity } else if neg { CosmeticFilterLocationType::NotHostname }
    else if ent { CosmeticFilterLocationType::Entity } else { CosmeticFilterLocationType::Hostname }
}

proof fn lemma_dot_star_literal()
    ensures ".*".spec_bytes() =~= seq![46u8, 42u8]
{
    broadcast use vf_str::ascii_text_bytes;
    reveal_strlit(".*");
}

// R7: the closure body of `line[0..sharp_index].split(',').filter_map(|part| { .. })` as a function of one entry text
fn vf_location_part<'a>(part: &'a str) -> (r: Option<(CosmeticFilterLocationType, &'a str)>)
    ensures
        part.spec_bytes().len() == 0 ==> r is None, // OBL C16.locations.empty_entry_skipped
        part.spec_bytes().len() > 0 ==> r is Some && ({
            let b = part.spec_bytes();
            let t = entry_text(b);
            if t.len() > 0 && t[0] == 47u8 {
                r->Some_0.0 is Unsupported
            } else {
                r->Some_0.0 == kind_of(tilde(b), dot_star(b)) && r->Some_0.1.spec_bytes() == t
            }
        }), // OBL C16.locations.entry_kind_and_text
{
    proof { lemma_dot_star_literal(); }
//@EXTRACT src/filters/cosmetic.rs :: impl CosmeticFilter :: fn locations_before_sharp
//@ BODYONLY
//@ SAFETY C11.cosmetic.locations.safety
//@ FROM
    if part.is_empty() {
//@ ENDFROM
//@ TO
            Some(match (negation, entity) {
                (true, true) => (CosmeticFilterLocationType::NotEntity, location),
                (true, false) => (CosmeticFilterLocationType::NotHostname, location),
                (false, true) => (CosmeticFilterLocationType::Entity, location),
                (false, false) => (CosmeticFilterLocationType::Hostname, location),
            })
//@ ENDTO
//@END
}


// ---- parse_before_sharp: the four hash lists ----------------------------------------------------------------------------------
pub uninterp spec fn hash_spec(s: Seq<u8>) -> Hash;                 // seahash
pub uninterp spec fn idna_ascii(s: Seq<char>) -> Option<Seq<char>>; // idna::domain_to_ascii
pub open spec fn text_hash(t: Seq<char>) -> Hash { hash_spec(vstd::utf8::encode_utf8(t)) }
pub mod utils {
    use vstd::prelude::*;
    use vstd::string::*;
    verus!{
    // T: seahash — uninterpreted
    #[verifier::external_body]
    pub fn fast_hash(input: &str) -> (r: super::Hash) ensures r == super::text_hash(input@) { unimplemented!() }
    }
}
pub mod idna {
    use vstd::prelude::*;
    use vstd::string::*;
    verus!{
    pub struct Errors { pub e: u8 }
    // T: idna::domain_to_ascii — uninterpreted
    #[verifier::external_body]
    pub fn domain_to_ascii(s: &str) -> (r: Result<String, Errors>)
        ensures match r { Ok(h) => super::idna_ascii(s@) == Some(h@), Err(_) => super::idna_ascii(s@) is None }
    { unimplemented!() }
    }
}
// T (ASCII case folding): str::make_ascii_lowercase
pub uninterp spec fn ascii_lower(s: Seq<char>) -> Seq<char>;
// the hash a location entry is stored under: of its normal form - a hostname is case-insensitive and the page hostname it is compared
// with is in lower case, an IDN in punycode - i.e. of its lower-cased text when ASCII, of its (non-empty) punycode form otherwise (the
// IDNA mapping lower-cases)
pub open spec fn loc_hash(l: &str) -> Option<Hash> {
    if l.is_ascii() { Some(text_hash(ascii_lower(l@))) }
    else if idna_ascii(l@) is Some && idna_ascii(l@)->Some_0.len() > 0 { Some(text_hash(idna_ascii(l@)->Some_0)) }
    else { None }
}
pub type Loc<'a> = (CosmeticFilterLocationType, &'a str);
// the hashes of the entries of one kind, in list order
pub open spec fn kind_hashes(locs: Seq<Loc>, k: CosmeticFilterLocationType) -> Seq<Hash>
    decreases locs.len()
{
    if locs.len() == 0 { Seq::empty() }
    else {
        let rest = kind_hashes(locs.drop_last(), k);
        if locs.last().0 == k { rest.push(loc_hash(locs.last().1)->Some_0) } else { rest }
    }
}
// "None" exactly when the kind has no entry; otherwise the same hashes, each as often as it was listed (the order - the list is
// sorted - is not part of the contract: nothing that reads these lists depends on it)
pub open spec fn holds(o: Option<Vec<Hash>>, s: Seq<Hash>) -> bool {
    if s.len() == 0 { o is None } else { o is Some && o->Some_0@.to_multiset() == s.to_multiset() }
}
pub uninterp spec fn locations_spec(line: &str, sharp_index: usize) -> Seq<Loc>;

// T: <[T]>::sort — a permutation
#[verifier::external_body]
fn vf_sort<T: std::cmp::Ord>(v: &mut Vec<T>)
    ensures final(v)@.to_multiset() == old(v)@.to_multiset()
{ v.sort() }
#[verifier::external_body]
fn vf_string_new() -> (r: String) ensures r@ == Seq::<char>::empty() { String::new() }
#[verifier::external_body]
fn vf_push_str(s: &mut String, t: &str) ensures final(s)@ == old(s)@ + t@ { s.push_str(t) }
#[verifier::external_body]
fn vf_make_ascii_lowercase(s: &mut String) ensures final(s)@ == ascii_lower(old(s)@) { s.make_ascii_lowercase() }
#[verifier::external_body]
fn vf_string_is_empty(s: &String) -> (r: bool) ensures r == (s@.len() == 0) { s.is_empty() }

pub struct CosmeticFilter { pub x: u8 }
impl CosmeticFilter {
    // R5: the entry iterator (split(',').filter_map(closure), closure body: vf_location_part above), materialised
    #[verifier::external_body]
    fn vf_locations<'a>(line: &'a str, sharp_index: usize) -> (r: Vec<Loc<'a>>)
        ensures r@ == locations_spec(line, sharp_index)
    { unimplemented!() }

//@EXTRACT src/filters/cosmetic.rs :: impl CosmeticFilter :: fn parse_before_sharp
//@ RET r
//@ SAFETY C11.cosmetic.parse_before_sharp.safety
//@ SPEC
        ensures
            r is Ok ==> ({
                let locs = locations_spec(line, sharp_index);
                &&& holds(r->Ok_0.entities, kind_hashes(locs, CosmeticFilterLocationType::Entity))
                &&& holds(r->Ok_0.not_entities, kind_hashes(locs, CosmeticFilterLocationType::NotEntity))
                &&& holds(r->Ok_0.hostnames, kind_hashes(locs, CosmeticFilterLocationType::Hostname))
                &&& holds(r->Ok_0.not_hostnames, kind_hashes(locs, CosmeticFilterLocationType::NotHostname))
            }), // OBL C16.locations.lists_by_kind
            // every entry was hashable
            r is Ok ==> forall|j: int| 0 <= j < locations_spec(line, sharp_index).len() ==> loc_hash((#[trigger] locations_spec(line, sharp_index)[j]).1) is Some, // OBL C16.locations.all_hashed
//@ ENDSPEC
//@ SUBST R5
    for (location_type, location) in Self::locations_before_sharp(line, sharp_index) {
//@ WITH
    for (location_type, location) in it: Self::vf_locations(line, sharp_index)
        invariant
            it.seq() == locations_spec(line, sharp_index),
            entities_vec@ == kind_hashes(it.seq().take(it.index() as int), CosmeticFilterLocationType::Entity), // OBL C16.locations.lists_by_kind
            not_entities_vec@ == kind_hashes(it.seq().take(it.index() as int), CosmeticFilterLocationType::NotEntity), // OBL C16.locations.lists_by_kind
            hostnames_vec@ == kind_hashes(it.seq().take(it.index() as int), CosmeticFilterLocationType::Hostname), // OBL C16.locations.lists_by_kind
            not_hostnames_vec@ == kind_hashes(it.seq().take(it.index() as int), CosmeticFilterLocationType::NotHostname), // OBL C16.locations.lists_by_kind
            forall|j: int| 0 <= j < it.index() ==> loc_hash((#[trigger] it.seq()[j]).1) is Some, // OBL C16.locations.all_hashed
    {
//@ ENDSUBST
//@ SUBST R6
    String::new()
//@ WITH
    vf_string_new()
//@ ENDSUBST
//@ SUBST R6
    hostname.push_str(location)
//@ WITH
    vf_push_str(&mut hostname, location)
//@ ENDSUBST
//@ SUBST R6
    hostname.make_ascii_lowercase()
//@ WITH
    vf_make_ascii_lowercase(&mut hostname)
//@ ENDSUBST
//@ SUBST R6
    Ok(x) if !x.is_empty() => hostname.push_str(&x),
//@ WITH
    Ok(x) if !vf_string_is_empty(&x) => vf_push_str(&mut hostname, x.as_str()),
//@ ENDSUBST
//@ SUBST R6
    crate::utils::fast_hash(&hostname)
//@ WITH
    crate::utils::fast_hash(hostname.as_str())
//@ ENDSUBST
//@ SUBST R8
    fn sorted_or_none<T: std::cmp::Ord>(mut vec: Vec<T>) -> Option<Vec<T>> {
//@ WITH
    fn sorted_or_none<T: std::cmp::Ord>(mut vec: Vec<T>) -> (o: Option<Vec<T>>)
        ensures if vec@.len() == 0 { o is None } else { o is Some && o->Some_0@.to_multiset() == vec@.to_multiset() }
    {
//@ ENDSUBST
//@ SUBST R6
    vec.sort();
//@ WITH
    vf_sort(&mut vec);
//@ ENDSUBST
//@ BEFORE
    if any_unsupported
//@ AT
        proof { let ghost locs = locations_spec(line, sharp_index); assert(locs.take(locs.len() as int) =~= locs); }
//@ ENDBEFORE
//@ LOOPEND 1
        proof {
            let i = it.index() as int;
            assert(it.seq().take(i + 1).drop_last() =~= it.seq().take(i));
            assert(it.seq().take(i + 1).last() == it.seq()[i]);
        }
//@ ENDLOOPEND
//@END
}

proof fn vf_canary() ensures false {}

} // verus!
fn main() {}
