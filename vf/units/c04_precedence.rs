// Unit c04_precedence — C04.3 (+ C07.3, C13.4): evaluation order important -> tagged/normal ->
// exceptions in Blocker::check_parameterised, against the contracts of NetworkFilterList::check /
// check_all proved in unit c01_lookup.
use vstd::prelude::*;
use std::collections::HashSet;

verus! {

pub mod vf_axioms {
    use vstd::prelude::*;
    verus!{
    pub broadcast axiom fn string_key_model()
        ensures #[trigger] vstd::std_specs::hash::obeys_key_model::<String>();
    }
}
broadcast use {vf_axioms::string_key_model, vstd::std_specs::hash::group_hash_axioms};

//@INCLUDE shims/filter_items.rs

pub use request::Request;
pub struct RegexManager { pub x: u8 }
pub struct RegexManagerCell { pub x: u8 }
pub struct ResourceStorage { pub x: u8 }

// ---- NetworkFilterList: contract of check / check_all (unit c01_lookup) over an abstract view ----
pub struct NetworkFilterList { pub ghost_filters: Ghost<Seq<NetworkFilter>> }

// f is returned by a probe of list l for this request under this tag set (c01_lookup: `hit`)
pub uninterp spec fn lhit(l: NetworkFilterList, req: Request, tags: Set<String>, f: NetworkFilter) -> bool;

impl NetworkFilterList {
    pub open spec fn filters(&self) -> Seq<NetworkFilter> { self.ghost_filters@ }

    #[verifier::external_body]
    pub fn check(&self, request: &Request, active_tags: &HashSet<String>, regex_manager: &mut RegexManager) -> (r: Option<&NetworkFilter>)
        ensures
            r is Some ==> lhit(*self, *request, active_tags@, *r->Some_0) && self.filters().contains(*r->Some_0),
            r is None ==> forall|f: NetworkFilter| !lhit(*self, *request, active_tags@, f),
    { unimplemented!() }

    #[verifier::external_body]
    pub fn check_all(&self, request: &Request, active_tags: &HashSet<String>, regex_manager: &mut RegexManager) -> (r: Vec<&NetworkFilter>)
        ensures
            forall|x: int| 0 <= x < r@.len() ==> lhit(*self, *request, active_tags@, *#[trigger] r@[x]),
            forall|f: NetworkFilter| lhit(*self, *request, active_tags@, f) ==> exists|x: int| 0 <= x < r@.len() && *#[trigger] r@[x] == f,
    { unimplemented!() }
}

//@EXTRACT src/blocker.rs :: struct BlockerResult
//@END

impl Default for BlockerResult {
//@EXTRACT src/blocker.rs :: impl Default for BlockerResult :: fn default
//@ RET r
//@ SAFETY C04.result_default.safety
//@ SPEC
        ensures !r.matched && !r.important && r.redirect is None && r.rewritten_url is None && r.exception is None && r.filter is None, // OBL C04.result_default
//@ ENDSPEC
//@END
}

//@EXTRACT src/blocker.rs :: struct Blocker
//@ SUBST R6*
    std::cell::RefCell<RegexManager>
//@ WITH
    RegexManagerCell
//@ ENDSUBST
//@END

// R9: the Lazy static NO_TAGS (an empty HashSet)
#[verifier::external_body]
fn vf_no_tags() -> (r: &'static HashSet<String>)
    ensures r@ == Set::<String>::empty()
{ unimplemented!() }

pub uninterp spec fn redirect_resource_spec(redirect_filters: Seq<&NetworkFilter>) -> Option<&'static str>;
pub uninterp spec fn redirect_lookup_spec(resources: ResourceStorage, name: Option<&str>) -> Option<String>;
pub uninterp spec fn removeparam_spec(l: NetworkFilterList, req: Request) -> Option<String>;
pub uninterp spec fn display_spec(f: Option<&NetworkFilter>) -> Option<String>;

// R7: the redirect selection block is its own unit (c13_redirect); here only its result is named
#[verifier::external_body]
fn vf_redirect_resource<'a>(redirect_filters: &Vec<&'a NetworkFilter>) -> (r: Option<&'a str>)
{ unimplemented!() }

#[verifier::external_body]
fn vf_redirect_lookup(resources: &ResourceStorage, redirect_resource: Option<&str>) -> (r: Option<String>)
{ unimplemented!() }

#[verifier::external_body]
fn vf_display(f: Option<&NetworkFilter>) -> (r: Option<String>)
    ensures r is Some == f is Some
{ unimplemented!() }

pub open spec fn some_hit(l: NetworkFilterList, req: Request, tags: Set<String>) -> bool {
    exists|f: NetworkFilter| lhit(l, req, tags, f)
}

// blocker_wf: what Blocker::new / add_filter establish (unit c04_partition) and this function relies on
pub open spec fn blocker_wf(b: Blocker) -> bool {
    (forall|i: int| 0 <= i < b.importants.filters().len() ==> (#[trigger] b.importants.filters()[i]).mask.has(NetworkFilterMask::IS_IMPORTANT))
    && (forall|i: int| 0 <= i < b.filters.filters().len() ==> !(#[trigger] b.filters.filters()[i]).mask.has(NetworkFilterMask::IS_IMPORTANT))
    && (forall|i: int| 0 <= i < b.filters_tagged.filters().len() ==> !(#[trigger] b.filters_tagged.filters()[i]).mask.has(NetworkFilterMask::IS_IMPORTANT))
}

impl Blocker {
    #[verifier::external_body]
    fn borrow_regex_manager(&self) -> RegexManager { unimplemented!() }

    #[verifier::external_body]
    fn apply_removeparam(removeparam_filters: &NetworkFilterList, request: &Request, regex_manager: &mut RegexManager) -> (r: Option<String>)
    { unimplemented!() }

    // R6: `tagged.check(.., tags_enabled, ..).or_else(|| filters.check(.., NO_TAGS, ..))` — the closure
    // captures `&mut regex_manager`; trusted to mean "a tagged hit, else a normal hit"
    #[verifier::external_body]
    fn vf_tagged_or_normal(&self, request: &Request, regex_manager: &mut RegexManager) -> (r: Option<&NetworkFilter>)
        ensures
            r is Some ==> (lhit(self.filters_tagged, *request, self.tags_enabled@, *r->Some_0) && self.filters_tagged.filters().contains(*r->Some_0))
                || (lhit(self.filters, *request, Set::<String>::empty(), *r->Some_0) && self.filters.filters().contains(*r->Some_0)),
            r is None ==> !some_hit(self.filters_tagged, *request, self.tags_enabled@) && !some_hit(self.filters, *request, Set::<String>::empty()),
    { unimplemented!() }

//@EXTRACT src/blocker.rs :: impl Blocker :: fn check_parameterised
//@ RET r
//@ SAFETY C04.check.safety
//@ SPEC
    requires
        blocker_wf(*self),
    ensures
        // "Requests with unsupported schemes are never matched"
        !request.is_supported ==> !r.matched && !r.important && r.redirect is None && r.rewritten_url is None && r.exception is None, // OBL C04.check.unsupported
        // "$important ... tagged rules are active exactly when their tag is enabled": importants probed with the enabled tags
        request.is_supported ==> r.important == some_hit(self.importants, *request, self.tags_enabled@), // OBL C04.check.important
        // "blocked iff an $important blocking rule matches, or some blocking rule matches and no active exception matches"
        request.is_supported ==> r.matched == (
            some_hit(self.importants, *request, self.tags_enabled@)
            || ((matched_rule || some_hit(self.filters_tagged, *request, self.tags_enabled@) || some_hit(self.filters, *request, Set::<String>::empty()))
                && !some_hit(self.exceptions, *request, self.tags_enabled@))), // OBL C04.check.matched
        // an exception is only reported when one matches, never against an important hit
        r.exception is Some ==> some_hit(self.exceptions, *request, self.tags_enabled@) && !r.important, // OBL C04.check.exception
        // no rewrite is reported when the request is blocked by an important rule
        r.important ==> r.rewritten_url is None, // OBL C14.check.no_rewrite_when_important
//@ ENDSPEC
//@ SUBST R9*
    &NO_TAGS
//@ WITH
    vf_no_tags()
//@ ENDSUBST
//@ SUBST R6*
    regex_manager.deref_mut()
//@ WITH
    &mut regex_manager
//@ ENDSUBST
//@ SUBST R6
            self.filters_tagged
                .check(request, &self.tags_enabled, &mut regex_manager)
                .or_else(|| self.filters.check(request, &NO_TAGS, &mut regex_manager))
//@ WITH
            self.vf_tagged_or_normal(request, &mut regex_manager)
//@ ENDSUBST
//@ SUBST R8
    .map(|f| f.is_important())
//@ WITH
    .map(|f: &&NetworkFilter| -> (b: bool) ensures b == f.mask.has(NetworkFilterMask::IS_IMPORTANT) { f.is_important() })
//@ ENDSUBST
//@ SUBST R8
    .unwrap_or_else(|| false)
//@ WITH
    .unwrap_or_else(|| -> (b: bool) ensures !b { false })
//@ ENDSUBST
//@ REPLACE R6
        redirect_resource.and_then(|resource_name| {
//@ UPTO
            })
        });
//@ WITH
        vf_redirect_lookup(resources, redirect_resource);
//@ ENDREPLACE
//@ SUBST R6
    exception.as_ref().map(|f| f.to_string())
//@ WITH
    vf_display(exception)
//@ ENDSUBST
//@ SUBST R6
    filter.as_ref().map(|f| f.to_string())
//@ WITH
    vf_display(filter)
//@ ENDSUBST
//@ REPLACE R7
        let redirect_resource = {
//@ UPTO
            resource_and_priority.map(|(r, _)| r)
        };
//@ WITH
        let redirect_resource = vf_redirect_resource(&redirect_filters);
//@ ENDREPLACE
//@END
}

proof fn vf_canary() ensures false {}

} // verus!
fn main() {}
