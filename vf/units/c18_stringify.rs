// Unit c18_stringify — C18: the escaping core of stringify_arg (write_string_complex + its table): the bytes
// written are, byte for byte, the JSON escape of the argument, and every escape decodes back to its byte.
#![feature(pattern)]
#![feature(allocator_api)]
use vstd::prelude::*;
use vstd::string::*;
use vstd::slice::*;
use core::str::pattern::Pattern;

verus! {

//@INCLUDE shims/strings.rs
//@INCLUDE shims/std_extra.rs

broadcast use {str_len_fits, str_ends_are_boundaries};

//@EXTRACT src/resources/resource_storage.rs :: fn stringify_arg :: const QU
//@ PUB
//@END
//@EXTRACT src/resources/resource_storage.rs :: fn stringify_arg :: const BS
//@ PUB
//@END
//@EXTRACT src/resources/resource_storage.rs :: fn stringify_arg :: const BB
//@ PUB
//@END
//@EXTRACT src/resources/resource_storage.rs :: fn stringify_arg :: const TT
//@ PUB
//@END
//@EXTRACT src/resources/resource_storage.rs :: fn stringify_arg :: const NN
//@ PUB
//@END
//@EXTRACT src/resources/resource_storage.rs :: fn stringify_arg :: const FF
//@ PUB
//@END
//@EXTRACT src/resources/resource_storage.rs :: fn stringify_arg :: const RR
//@ PUB
//@END
//@EXTRACT src/resources/resource_storage.rs :: fn stringify_arg :: const UU
//@ PUB
//@END
//@EXTRACT src/resources/resource_storage.rs :: fn stringify_arg :: const __
//@ PUB
//@END

//@EXTRACT src/resources/resource_storage.rs :: fn stringify_arg :: static ESCAPED
//@ SUBST R1
    static ESCAPED
//@ WITH
    pub const ESCAPED
//@ ENDSUBST
//@END

// ---- specification: JSON string escaping (RFC 8259 section 7) ------------------------------------------------
pub open spec fn hexc(n: u8) -> u8 { if n < 10 { (48 + n) as u8 } else { (87 + n) as u8 } }   // '0'..'9', 'a'..'f'

// the escape of one byte: two-character escapes for quote, backslash, \b \t \n \f \r, \u00XX for the other
// control characters, the byte itself otherwise
pub open spec fn escape_one(c: u8) -> Seq<u8> {
    if c == 34 { seq![92u8, 34u8] } else if c == 92 { seq![92u8, 92u8] }
    else if c == 8 { seq![92u8, 98u8] } else if c == 9 { seq![92u8, 116u8] } else if c == 10 { seq![92u8, 110u8] }
    else if c == 12 { seq![92u8, 102u8] } else if c == 13 { seq![92u8, 114u8] }
    else if c < 32 { seq![92u8, 117u8, 48u8, 48u8, hexc(c / 16), hexc(c % 16)] }
    else { seq![c] }
}

pub open spec fn escape_range(b: Seq<u8>, lo: int, hi: int) -> Seq<u8>
    decreases hi - lo
{
    if lo >= hi { Seq::empty() } else { escape_range(b, lo, hi - 1) + escape_one(b[hi - 1]) }
}

// the decoder of one escape unit: what a JSON parser reads back
pub open spec fn hexv(c: u8) -> int { if 48 <= c <= 57 { c - 48 } else if 97 <= c <= 102 { c - 87 } else { -1 } }
pub open spec fn decode_one(e: Seq<u8>) -> Option<u8> {
    if e.len() == 1 && e[0] != 34 && e[0] != 92 && e[0] >= 32 { Some(e[0]) }
    else if e.len() == 2 && e[0] == 92 {
        if e[1] == 34 { Some(34u8) } else if e[1] == 92 { Some(92u8) } else if e[1] == 98 { Some(8u8) } else if e[1] == 116 { Some(9u8) }
        else if e[1] == 110 { Some(10u8) } else if e[1] == 102 { Some(12u8) } else if e[1] == 114 { Some(13u8) } else { None }
    }
    else if e.len() == 6 && e[0] == 92 && e[1] == 117 && e[2] == 48 && e[3] == 48 && hexv(e[4]) >= 0 && hexv(e[5]) >= 0 { Some((hexv(e[4]) * 16 + hexv(e[5])) as u8) }
    else { None }
}

// "emitted as a string literal that parses back to exactly the original argument": every escape unit decodes
// to its byte, and contains no raw quote / backslash / control byte outside an escape sequence
proof fn lemma_escape_decodes(c: u8)
    ensures decode_one(escape_one(c)) == Some(c), // OBL C18.stringify.escape_decodes
{
    if c < 32 && c != 8 && c != 9 && c != 10 && c != 12 && c != 13 {
        let (h, l) = (c / 16, c % 16);
        assert(h < 2 && l < 16 && h * 16 + l == c);
        assert(hexv(hexc(h)) == h && hexv(hexc(l)) == l);
    }
}

// the table agrees with the escape function
proof fn lemma_table(c: u8)
    ensures
        ESCAPED@[c as int] == 0 <==> escape_one(c) == seq![c], // OBL C18.stringify.table
        ESCAPED@[c as int] == 117 ==> escape_one(c) == seq![92u8, 117u8, 48u8, 48u8, hexc(c / 16), hexc(c % 16)], // OBL C18.stringify.table
        ESCAPED@[c as int] != 0 && ESCAPED@[c as int] != 117 ==> escape_one(c) == seq![92u8, ESCAPED@[c as int]], // OBL C18.stringify.table
{
    assert(seq![c] =~= seq![c]);
    if c == 34 || c == 92 || c < 32 {
        assert(escape_one(c).len() != 1);
        assert(seq![c].len() == 1);
    }
}

proof fn lemma_er_split(b: Seq<u8>, lo: int, mid: int, hi: int)
    requires 0 <= lo <= mid <= hi <= b.len()
    ensures escape_range(b, lo, hi) =~= escape_range(b, lo, mid) + escape_range(b, mid, hi)
    decreases hi - mid
{
    if mid < hi { lemma_er_split(b, lo, mid, hi - 1); }
}

proof fn lemma_er_plain(b: Seq<u8>, lo: int, hi: int)
    requires 0 <= lo <= hi <= b.len(), forall|k: int| lo <= k < hi ==> ESCAPED@[#[trigger] b[k] as int] == 0
    ensures escape_range(b, lo, hi) =~= b.subrange(lo, hi)
    decreases hi - lo
{
    if lo < hi {
        lemma_er_plain(b, lo, hi - 1);
        lemma_table(b[hi - 1]);
        assert(b.subrange(lo, hi) =~= b.subrange(lo, hi - 1) + seq![b[hi - 1]]);
    }
}

// R5: `string.bytes().enumerate().skip(start)` materialised
#[verifier::external_body]
fn vf_bytes_from(string: &str, start: usize) -> (r: Vec<(usize, u8)>)
    requires start <= string.spec_bytes().len()
    ensures r@.len() == string.spec_bytes().len() - start,
        forall|i: int| 0 <= i < r@.len() ==> #[trigger] r@[i] == ((start + i) as usize, string.spec_bytes()[start + i])
{ string.bytes().enumerate().skip(start).collect() }

// R6: `format!(FMT, ch)` for a byte.  T (core::fmt): "{:04x}" is lower-case hex, zero padded to four digits.
// Any other format string is uninterpreted.
pub uninterp spec fn fmt_u8_spec(fmt: Seq<char>, x: u8) -> Seq<char>;
pub broadcast axiom fn fmt_04x(x: u8)
    ensures vstd::utf8::encode_utf8(#[trigger] fmt_u8_spec("{:04x}"@, x)) == seq![48u8, 48u8, hexc(x / 16), hexc(x % 16)];
#[verifier::external_body]
fn vf_fmt1(fmt: &str, x: u8) -> (r: String)
    ensures r@ == fmt_u8_spec(fmt@, x)
{ unimplemented!() }

//@EXTRACT src/resources/resource_storage.rs :: fn stringify_arg :: fn write_string_complex
//@ SAFETY C18.stringify.safety
//@ SPEC
    requires
        start <= string.spec_bytes().len(),
        forall|k: int| 0 <= k < start ==> ESCAPED@[#[trigger] string.spec_bytes()[k] as int] == 0,
    ensures
        // the literal is, byte for byte, the escape of the argument
        final(output)@ =~= old(output)@ + escape_range(string.spec_bytes(), 0, string.spec_bytes().len() as int), // OBL C18.stringify.output_is_escape
//@ ENDSPEC
//@ SUBST R5
    string.bytes().enumerate().skip(start)
//@ WITH
    vf_bytes_from(string, start)
//@ ENDSUBST
//@ SUBST R6
    format!
//@ WITH
    vf_fmt1
//@ ENDSUBST
//@ SUBST R8
    ch).as_bytes()
//@ WITH
    ch).as_str().as_bytes()
//@ ENDSUBST
//@ SUBST R8
    for (index, ch) in
//@ WITH
    for (index, ch) in it:
//@ ENDSUBST
//@ FNSTART
    let ghost b = string.spec_bytes();
    let ghost out0 = output@;
    let ghost n = b.len() as int;
    let ghost start0 = start as int;
    proof { lemma_er_plain(b, 0, start0); }
//@ ENDFNSTART
//@ LOOP 1
        invariant
            b == string.spec_bytes(), n == b.len(), start0 <= n, out0 == old(output)@,
            it.seq().len() == n - start0,
            forall|i: int| 0 <= i < it.seq().len() ==> #[trigger] it.seq()[i] == ((start0 + i) as usize, b[start0 + i]),
            start <= start0 + it.index() <= n,
            forall|k: int| start <= k < start0 + it.index() ==> ESCAPED@[#[trigger] b[k] as int] == 0,
            output@ =~= out0 + escape_range(b, 0, start as int),
//@ ENDLOOP
//@ LOOPSTART 1
        let ghost j = start0 + it.index();
        let ghost s_old = start as int;
        let ghost o_old = output@;
        proof { assert(it.seq()[it.index() as int] == (index, ch)); assert(index == j && ch == b[j]); }
//@ ENDLOOPSTART
//@ LOOPEND 1
        proof {
            broadcast use fmt_04x;
            lemma_table(ch);
            if ESCAPED@[ch as int] > 0 {
                lemma_er_split(b, 0, s_old, j);
                lemma_er_plain(b, s_old, j);
                assert(escape_range(b, 0, j + 1) =~= escape_range(b, 0, j) + escape_one(b[j]));
                assert(output@ =~= o_old + b.subrange(s_old, j) + escape_one(ch)); // OBL C18.stringify.output_is_escape
            }
        }
//@ ENDLOOPEND
//@ FNEND
    proof {
        lemma_er_split(b, 0, start as int, n);
        lemma_er_plain(b, start as int, n);
    }
//@ ENDFNEND
//@END

proof fn vf_canary() ensures false {}

} // verus!
fn main() {}
