// Unit c11_cosmetic_parse — C11 / C16 / C18: CosmeticFilter::parse (filters/cosmetic.rs:357-479), the frame of the cosmetic rule
// parser: markers between the two '#', the `+js(...)` form, generic vs scoped restrictions.  The location list before the first
// '#', the selector / action split after the second and the CSS validation are neighbours (uninterpreted results).
// Proved for EVERY line: no slice out of bounds or off a character boundary, no overflow; and which rules can come out.
#![feature(pattern)]
#![feature(allocator_api)]
use vstd::prelude::*;
use vstd::string::*;
use vstd::slice::*;
use core::str::pattern::Pattern;

verus! {

//@INCLUDE shims/strings.rs
broadcast use {vf_str::pat_prefix_ascii_char, vf_str::pat_suffix_ascii_char, vf_str::pat_prefix_str, vf_str::ascii_byte_boundaries, vf_str::str_ends_are_boundaries, vf_str::str_len_fits};

pub type Hash = u64;

//@EXTRACT src/resources/mod.rs :: struct PermissionMask
//@ ATTR #[derive(Clone, Copy)]
//@ PUBFIELDS
//@END

// R2: CosmeticFilterMask (bitflags! type) as a plain struct; `contains` / `|=` have the bitflags meaning
#[derive(Clone, Copy)]
pub struct CosmeticFilterMask { pub bits: u8 }
impl CosmeticFilterMask {
    pub open spec fn has(self, f: CosmeticFilterMask) -> bool { self.bits & f.bits == f.bits }
    pub fn contains(&self, other: CosmeticFilterMask) -> (r: bool) ensures r == self.has(other) { self.bits & other.bits == other.bits }
}
impl vstd::std_specs::ops::BitOrAssignSpecImpl<CosmeticFilterMask> for CosmeticFilterMask {
    open spec fn obeys_bitor_assign_spec() -> bool { true }
    open spec fn bitor_assign_req(self, rhs: CosmeticFilterMask) -> bool { true }
    open spec fn bitor_assign_spec(self, rhs: CosmeticFilterMask) -> CosmeticFilterMask { CosmeticFilterMask { bits: self.bits | rhs.bits } }
}
impl core::ops::BitOrAssign for CosmeticFilterMask {
    fn bitor_assign(&mut self, rhs: CosmeticFilterMask) { self.bits = self.bits | rhs.bits; }
}
//@EXTRACT src/filters/cosmetic.rs :: bitflags CosmeticFilterMask
//@END

//@EXTRACT src/filters/cosmetic.rs :: enum CosmeticFilterError
//@END
//@EXTRACT src/filters/cosmetic.rs :: enum CosmeticFilterAction
//@END
//@EXTRACT src/filters/cosmetic.rs :: enum CosmeticFilterOperator
//@END
//@EXTRACT src/filters/cosmetic.rs :: struct CosmeticFilterLocations
//@ PUB
//@ PUBFIELDS
//@END
impl Default for CosmeticFilterLocations {
    fn default() -> (r: Self) ensures r.entities is None && r.not_entities is None && r.hostnames is None && r.not_hostnames is None
    { CosmeticFilterLocations { entities: None, not_entities: None, hostnames: None, not_hostnames: None } }
}
//@EXTRACT src/filters/cosmetic.rs :: struct CosmeticFilter
//@END

// T: memchr::memchr — first occurrence of a byte
#[verifier::external_body]
fn find_char(needle: u8, haystack: &[u8]) -> (r: Option<usize>)
    ensures match r {
        Some(i) => i < haystack@.len() && haystack@[i as int] == needle && forall|j: int| 0 <= j < i ==> haystack@[j] != needle,
        None => forall|j: int| 0 <= j < haystack@.len() ==> haystack@[j] != needle,
    }
{ unimplemented!() }

// neighbours (T): the location list, the scriptlet argument check (unit c18_args: total), the selector / action split, CSS validation
pub mod resources {
    use vstd::prelude::*;
    verus!{
    #[verifier::external_body]
    pub fn parse_scriptlet_args(args: &str) -> (r: Option<Vec<String>>) { unimplemented!() }
    }
}
#[verifier::external_body]
fn validate_css_selector(selector: &str, accept_abp_selectors: bool) -> (r: Result<Vec<CosmeticFilterOperator>, CosmeticFilterError>)
    // T: an accepted selector has at least one operator (both cfg variants: `vec![CssSelector(..)]`, or the procedural output,
    // which is only built when a procedural operator was seen).  `plain_css_selector` asserts this.
    ensures r is Ok ==> r->Ok_0@.len() > 0
{ unimplemented!() }
// R6: str::trim / String::from(&str)
#[verifier::external_body]
fn vf_trim(s: &str) -> (r: &str) { s.trim() }
#[verifier::external_body]
fn vf_string_from(s: &str) -> (r: String) ensures r@ == s@ { String::from(s) }
// T: vec![x] is the one-element vector
#[verifier::external_body]
fn vf_vec1(x: CosmeticFilterOperator) -> (r: Vec<CosmeticFilterOperator>) ensures r@ == seq![x] { vec![x] }

proof fn lemma_mask_bits()
    ensures
        0u8 & 1u8 != 1u8, 0u8 & 2u8 != 2u8,
        forall|b: u8| (#[trigger] (b | 1u8)) & 1u8 == 1u8 && (b | 1u8) & 2u8 == b & 2u8,
        forall|b: u8| (#[trigger] (b | 2u8)) & 2u8 == 2u8 && (b | 2u8) & 1u8 == b & 1u8,
{
    assert(0u8 & 1u8 != 1u8 && 0u8 & 2u8 != 2u8) by (bit_vector);
    assert forall|b: u8| (#[trigger] (b | 1u8)) & 1u8 == 1u8 && (b | 1u8) & 2u8 == b & 2u8 by { assert((b | 1u8) & 1u8 == 1u8 && (b | 1u8) & 2u8 == b & 2u8) by (bit_vector); }
    assert forall|b: u8| (#[trigger] (b | 2u8)) & 2u8 == 2u8 && (b | 2u8) & 1u8 == b & 1u8 by { assert((b | 2u8) & 2u8 == 2u8 && (b | 2u8) & 1u8 == b & 1u8) by (bit_vector); }
}

impl CosmeticFilter {
    #[verifier::external_body]
    fn parse_before_sharp(line: &str, sharp_index: usize) -> (r: Result<CosmeticFilterLocations, CosmeticFilterError>)
        requires sharp_index > 0
    { unimplemented!() }
    #[verifier::external_body]
    fn parse_after_sharp_nonscript(after_sharp: &str) -> (r: Result<(&str, Option<CosmeticFilterAction>), CosmeticFilterError>) { unimplemented!() }

    pub open spec fn scoped(&self) -> bool { self.hostnames is Some || self.entities is Some || self.not_entities is Some || self.not_hostnames is Some }
    pub open spec fn plain(&self) -> bool { self.selector@.len() == 1 && self.selector@[0] is CssSelector }

//@EXTRACT src/filters/cosmetic.rs :: impl CosmeticFilter :: fn has_hostname_constraint
//@ RET r
//@ SAFETY C11.cosmetic.has_hostname_constraint.safety
//@ SPEC
        ensures r == self.scoped(),
//@ ENDSPEC
//@END

//@EXTRACT src/filters/cosmetic.rs :: impl CosmeticFilter :: fn plain_css_selector
//@ RET r
//@ SAFETY C11.cosmetic.plain_css_selector.safety
//@ SPEC
        requires self.selector@.len() > 0,
        ensures r is Some <==> self.plain(),
//@ ENDSPEC
//@END

//@EXTRACT src/filters/cosmetic.rs :: impl CosmeticFilter :: fn parse
//@ RET r
//@ SAFETY C11.cosmetic.parse.safety
//@ SPEC
        ensures
            // an exception (`#@#`) never carries negated locations ("double negation")
            r is Ok && r->Ok_0.mask.has(CosmeticFilterMask::UNHIDE) ==> r->Ok_0.not_entities is None && r->Ok_0.not_hostnames is None, // OBL C16.cosmetic.parse.no_double_negation
            // a scriptlet rule is one plain "selector" (the argument text) and has no action
            r is Ok && r->Ok_0.mask.has(CosmeticFilterMask::SCRIPT_INJECT) ==> r->Ok_0.plain() && r->Ok_0.action is None, // OBL C18.cosmetic.parse.script_inject_shape
            // a rule without any location is a plain selector without action
            r is Ok && !r->Ok_0.scoped() ==> r->Ok_0.plain() && r->Ok_0.action is None, // OBL C17.cosmetic.parse.generic_is_plain
            // ... and is a hide rule: not an exception, not a scriptlet (add_filter stores it by its selector text alone)
            r is Ok && !r->Ok_0.scoped() ==> !r->Ok_0.mask.has(CosmeticFilterMask::UNHIDE) && !r->Ok_0.mask.has(CosmeticFilterMask::SCRIPT_INJECT), // OBL C17.cosmetic.parse.generic_is_hide
            r is Ok ==> r->Ok_0.permission == permission, // OBL C18.cosmetic.parse.permission
//@ ENDSPEC
//@ BEFORE
    let args = &line[suffix_start_index + 4..line.len() - 1];
//@ AT
    proof {
        reveal_strlit("+js(");
        vf_str::ascii_text_bytes("+js(");
        vf_str::lemma_occurs_shift(line.spec_bytes(), "+js(".spec_bytes(), suffix_start_index as int, 0);
        vf_str::occurrence_boundaries(line, "+js(", suffix_start_index as int);
    }
//@ ENDBEFORE
//@ SUBST R6
    &line[suffix_start_index..].trim()
//@ WITH
    &vf_trim(&line[suffix_start_index..])
//@ ENDSUBST
//@ BEFORE
    let this = Self {
//@ AT
    proof { lemma_mask_bits(); }
//@ ENDBEFORE
//@ REPLACE R6
    vec![CosmeticFilterOperator::CssSelector(String::from(
//@ UPTO
    ))],
//@ WITH
    vf_vec1(CosmeticFilterOperator::CssSelector(vf_string_from(&line[suffix_start_index + 4..line.len() - 1]))),
//@ ENDREPLACE
//@ SUBST R6
    Some(Box::new(String::from(line)))
//@ WITH
    Some(Box::new(vf_string_from(line)))
//@ ENDSUBST
//@END
}


// ---- parse_after_sharp_nonscript: the two slices around an action token (R7 lifts of single statements) ----------------------
// The function itself (labelled block with deferred initialisation, table of function pointers) is outside the Verus subset.
// What its slices rely on: the token was found at i (memmem::find), the text ends with ')', and every token of the PAIRS table
// starts with ':' and ends with '(' - the last is checked below on the table's own constants.
pub open spec fn token_ok(t: Seq<u8>) -> bool { t.len() > 0 && t[0] == 58u8 && t[t.len() - 1] == 40u8 }

fn vf_action_tokens_ok()
{
//@EXTRACT src/filters/cosmetic.rs :: impl CosmeticFilter :: fn parse_after_sharp_nonscript
//@ BODYONLY
//@ SAFETY C11.cosmetic.action_tokens.safety
//@ FROM
    const STYLE_TOKEN: &[u8] = b":style(";
//@ ENDFROM
//@ TO
    const REMOVE_CLASS_TOKEN: &[u8] = b":remove-class(";
//@ ENDTO
//@ BYTESTR
//@ SUBST R2
    const STYLE_TOKEN
//@ WITH
    let STYLE_TOKEN
//@ ENDSUBST
//@ SUBST R2
    const REMOVE_ATTR_TOKEN
//@ WITH
    let REMOVE_ATTR_TOKEN
//@ ENDSUBST
//@ SUBST R2
    const REMOVE_CLASS_TOKEN
//@ WITH
    let REMOVE_CLASS_TOKEN
//@ ENDSUBST
//@END
    assert(token_ok(STYLE_TOKEN@) && token_ok(REMOVE_ATTR_TOKEN@) && token_ok(REMOVE_CLASS_TOKEN@)); // OBL C11.cosmetic.action_tokens.shape
}

fn vf_action_arg<'a>(after_sharp: &'a str, i: usize, token: &[u8]) -> (arg: &'a str)
    requires
        vf_str::occurs_at(after_sharp.spec_bytes(), token@, i as int), token_ok(token@),
        vf_str::pat_suffix::<char>(')', after_sharp.spec_bytes()),
    ensures arg.spec_bytes() == after_sharp.spec_bytes().subrange(i + token@.len(), after_sharp.spec_bytes().len() - 1), // OBL C16.cosmetic.action_arg
{
    proof { assert(after_sharp.spec_bytes().subrange(i as int, i + token@.len())[token@.len() - 1] == 40u8); }
//@EXTRACT src/filters/cosmetic.rs :: impl CosmeticFilter :: fn parse_after_sharp_nonscript
//@ BODYONLY
//@ SAFETY C11.cosmetic.action_arg.safety
//@ FROM
    let arg = &after_sharp[
//@ ENDFROM
//@ TOSTMT
//@END
    arg
}

fn vf_action_selector<'a>(after_sharp: &'a str, i: usize, token: &[u8]) -> (r: &'a str)
    requires vf_str::occurs_at(after_sharp.spec_bytes(), token@, i as int), token_ok(token@),
    ensures r.spec_bytes() == after_sharp.spec_bytes().subrange(0, i as int), // OBL C16.cosmetic.action_selector
{
    proof { assert(after_sharp.spec_bytes().subrange(i as int, i + token@.len())[0] == 58u8); }
    let selector;
//@EXTRACT src/filters/cosmetic.rs :: impl CosmeticFilter :: fn parse_after_sharp_nonscript
//@ BODYONLY
//@ SAFETY C11.cosmetic.action_selector.safety
//@ FROM
    selector = &after_sharp[
//@ ENDFROM
//@ TOSTMT
//@END
    selector
}

proof fn vf_canary() ensures false {}

} // verus!
fn main() {}
