// Unit c16_labels — C16 (partial): host -> set of lookup hashes (labels, entity forms).
#![feature(pattern)]
use vstd::prelude::*;
use vstd::string::*;
use vstd::slice::*;
use core::str::pattern::Pattern;

verus! {

//@INCLUDE shims/strings.rs

broadcast use {ascii_byte_boundaries, str_len_fits, str_ends_are_boundaries};

pub type Hash = u64;
pub uninterp spec fn hash_spec(s: Seq<u8>) -> Hash;

pub mod utils {
    use vstd::prelude::*;
    use vstd::string::*;
    verus!{
    // T: seahash — uninterpreted
    #[verifier::external_body]
    pub fn fast_hash(input: &str) -> (r: super::Hash) ensures r == super::hash_spec(input.spec_bytes()) { unimplemented!() }
    }
}

// T: memchr::memchr / memrchr — first / last occurrence of a byte
#[verifier::external_body]
fn find_char(needle: u8, haystack: &[u8]) -> (r: Option<usize>)
    ensures match r {
        Some(i) => i < haystack@.len() && haystack@[i as int] == needle && forall|j: int| 0 <= j < i ==> haystack@[j] != needle,
        None => forall|j: int| 0 <= j < haystack@.len() ==> haystack@[j] != needle,
    }
{ unimplemented!() }

#[verifier::external_body]
fn find_char_reverse(needle: u8, haystack: &[u8]) -> (r: Option<usize>)
    ensures match r {
        Some(i) => i < haystack@.len() && haystack@[i as int] == needle && forall|j: int| i < j < haystack@.len() ==> haystack@[j] != needle,
        None => forall|j: int| 0 <= j < haystack@.len() ==> haystack@[j] != needle,
    }
{ unimplemented!() }

// "the hostname or a parent domain": the text after a dot that lies before `sod`, cut at `end`
pub open spec fn is_label_suffix_hash(h: Hash, b: Seq<u8>, end: int, sod: int) -> bool {
    h == hash_spec(b.subrange(0, end))
    || exists|d: int| 0 <= d < sod && d < end && b[d] == 46u8 && h == hash_spec(b.subrange(d + 1, end))
}

//@EXTRACT src/filters/cosmetic.rs :: fn get_hashes_from_labels
//@ RET r
//@ SAFETY C16.labels.safety
//@ SPEC
    requires
        start_of_domain <= end <= hostname.spec_bytes().len(),
        vstd::utf8::is_char_boundary(hostname.spec_bytes(), end as int),
        vstd::utf8::is_char_boundary(hostname.spec_bytes(), start_of_domain as int),
    ensures
        end == 0 ==> r@.len() == 0,
        // every hash is the hostname itself or the part after one of its dots
        forall|x: int| 0 <= x < r@.len() ==> is_label_suffix_hash(#[trigger] r@[x], hostname.spec_bytes(), end as int, start_of_domain as int), // OBL C16.labels.sound
        // and none is missing: the full hostname and every dot-suffix down to the domain
        end > 0 ==> r@.contains(hash_spec(hostname.spec_bytes().subrange(0, end as int))), // OBL C16.labels.complete_full
        end > 0 ==> forall|d: int| 0 <= d < start_of_domain && #[trigger] hostname.spec_bytes()[d] == 46u8
            ==> r@.contains(hash_spec(hostname.spec_bytes().subrange(d + 1, end as int))), // OBL C16.labels.complete_suffixes
//@ ENDSPEC
//@ BEFORE
    let mut dot_ptr = start_of_domain;
//@ AT
    let ghost b = hostname.spec_bytes();
//@ ENDBEFORE
//@ LOOP 1
        invariant
            b == hostname.spec_bytes(), dot_ptr <= start_of_domain <= end <= b.len(), end > 0,
            vstd::utf8::is_char_boundary(b, end as int), vstd::utf8::is_char_boundary(b, dot_ptr as int),
            forall|x: int| 0 <= x < hashes@.len() ==> is_label_suffix_hash(#[trigger] hashes@[x], b, end as int, start_of_domain as int),
            forall|d: int| dot_ptr <= d < start_of_domain && #[trigger] b[d] == 46u8 ==> hashes@.contains(hash_spec(b.subrange(d + 1, end as int))),
        ensures
            forall|j: int| 0 <= j < dot_ptr ==> #[trigger] b.subrange(0, dot_ptr as int)[j] != 46u8,
        decreases dot_ptr,
//@ ENDLOOP
//@ BEFORE
    hashes.push(crate::utils::fast_hash(&hostname[..end]));
//@ AT
    let ghost h1 = hashes@;
    proof {
        assert forall|d: int| 0 <= d < start_of_domain && #[trigger] b[d] == 46u8 implies h1.contains(hash_spec(b.subrange(d + 1, end as int))) by {
            if d < dot_ptr { assert(b.subrange(0, dot_ptr as int)[d] == b[d]); }
        }
    }
//@ ENDBEFORE
//@ AFTER
    hashes.push(crate::utils::fast_hash(&hostname[..end]));
//@ AT
    proof {
        let full = hash_spec(b.subrange(0, end as int));
        assert(hashes@ == h1.push(full));
        assert(hashes@[h1.len() as int] == full);
        assert forall|d: int| 0 <= d < start_of_domain && #[trigger] b[d] == 46u8 implies hashes@.contains(hash_spec(b.subrange(d + 1, end as int))) by {
            let x = choose|x: int| 0 <= x < h1.len() && h1[x] == hash_spec(b.subrange(d + 1, end as int));
            assert(hashes@[x] == h1[x]);
        }
        assert forall|x: int| 0 <= x < hashes@.len() implies is_label_suffix_hash(#[trigger] hashes@[x], b, end as int, start_of_domain as int) by {
            if x < h1.len() { assert(hashes@[x] == h1[x]); }
        }
    }
//@ ENDAFTER
//@ LOOPSTART 1
        let ghost h0 = hashes@;
        let ghost dp0 = dot_ptr as int;
//@ ENDLOOPSTART
//@ LOOPEND 1
        proof {
            let nh = hash_spec(b.subrange(dot_ptr as int + 1, end as int));
            assert(hashes@ == h0.push(nh));
            assert(hashes@[h0.len() as int] == nh);
            assert forall|d: int| dot_ptr <= d < start_of_domain && #[trigger] b[d] == 46u8 implies hashes@.contains(hash_spec(b.subrange(d + 1, end as int))) by {
                if d == dot_ptr { } else {
                    if d < dp0 { assert(b.subrange(0, dp0)[d] == b[d]); }
                    assert(h0.contains(hash_spec(b.subrange(d + 1, end as int))));
                    let x = choose|x: int| 0 <= x < h0.len() && h0[x] == hash_spec(b.subrange(d + 1, end as int));
                    assert(hashes@[x] == h0[x]);
                }
            }
            assert forall|x: int| 0 <= x < hashes@.len() implies is_label_suffix_hash(#[trigger] hashes@[x], b, end as int, start_of_domain as int) by {
                if x < h0.len() { assert(hashes@[x] == h0[x]); }
            }
        }
//@ ENDLOOPEND
//@END

// `domain` (registrable domain or public suffix) is a dot-aligned suffix of `hostname`
pub open spec fn is_host_suffix(h: Seq<u8>, dom: Seq<u8>) -> bool { has_suffix(h, dom) }

//@EXTRACT src/filters/cosmetic.rs :: fn get_hostname_hashes_from_labels
//@ RET r
//@ SAFETY C16.hostname_hashes.safety
//@ SPEC
    requires
        is_host_suffix(hostname.spec_bytes(), domain.spec_bytes()),
        vstd::utf8::is_char_boundary(hostname.spec_bytes(), hostname.spec_bytes().len() - domain.spec_bytes().len()),
    ensures
        // the hostname and every parent domain down to (and including) the registrable domain
        forall|x: int| 0 <= x < r@.len() ==> is_label_suffix_hash(#[trigger] r@[x], hostname.spec_bytes(), hostname.spec_bytes().len() as int,
            hostname.spec_bytes().len() - domain.spec_bytes().len()), // OBL C16.hostname_hashes.sound
        hostname.spec_bytes().len() > 0 ==> r@.contains(hash_spec(hostname.spec_bytes())), // OBL C16.hostname_hashes.complete_full
        hostname.spec_bytes().len() > 0 ==> forall|d: int| 0 <= d < hostname.spec_bytes().len() - domain.spec_bytes().len() && #[trigger] hostname.spec_bytes()[d] == 46u8
            ==> r@.contains(hash_spec(hostname.spec_bytes().subrange(d + 1, hostname.spec_bytes().len() as int))), // OBL C16.hostname_hashes.complete_suffixes
//@ ENDSPEC
//@ FNSTART
    proof { assert(hostname.spec_bytes().subrange(0, hostname.spec_bytes().len() as int) =~= hostname.spec_bytes()); }
//@ ENDFNSTART
//@END

pub proof fn lemma_suffix_tail(h: Seq<u8>, d: Seq<u8>, a: int)
    requires has_suffix(h, d), 0 <= a <= d.len()
    ensures
        h.subrange(h.len() - d.len() + a, h.len() as int) =~= d.subrange(a, d.len() as int),
        a < d.len() ==> h[h.len() - d.len() + a] == d[a],
{
    let off = h.len() - d.len();
    assert(h.subrange(off, h.len() as int) =~= d);
    assert forall|k: int| 0 <= k < d.len() implies #[trigger] h[off + k] == d[k] by {
        assert(h.subrange(off, h.len() as int)[k] == d[k]);
    }
    let t1 = h.subrange(off + a, h.len() as int);
    let t2 = d.subrange(a, d.len() as int);
    assert forall|k: int| 0 <= k < t1.len() implies t1[k] == t2[k] by { assert(h[off + (a + k)] == d[a + k]); }
}

pub open spec fn first_dot(dom: Seq<u8>, i: int) -> bool { 0 <= i < dom.len() && dom[i] == 46u8 && forall|j: int| 0 <= j < i ==> dom[j] != 46u8 }

//@EXTRACT src/filters/cosmetic.rs :: fn get_hostname_without_public_suffix
//@ RET r
//@ SAFETY C16.without_suffix.safety
//@ SPEC
    requires
        is_host_suffix(hostname.spec_bytes(), domain.spec_bytes()),
    ensures
        (r is None) <==> (forall|j: int| 0 <= j < domain.spec_bytes().len() ==> domain.spec_bytes()[j] != 46u8), // OBL C16.without_suffix.none_iff_no_dot
        // cut at the first dot of the domain: (everything before it, the public suffix after it)
        r is Some ==> exists|i: int| first_dot(domain.spec_bytes(), i)
            && r->Some_0.0.spec_bytes() =~= hostname.spec_bytes().subrange(0, hostname.spec_bytes().len() - domain.spec_bytes().len() + i)
            && r->Some_0.1.spec_bytes() =~= domain.spec_bytes().subrange(i + 1, domain.spec_bytes().len() as int), // OBL C16.without_suffix.cut
//@ ENDSPEC
//@ BEFORE
    let public_suffix =
//@ AT
        proof {
            lemma_suffix_tail(hostname.spec_bytes(), domain.spec_bytes(), index_of_dot as int);
            lemma_suffix_tail(hostname.spec_bytes(), domain.spec_bytes(), index_of_dot as int + 1);
            assert(first_dot(domain.spec_bytes(), index_of_dot as int));
        }
//@ ENDBEFORE
//@END

//@EXTRACT src/filters/cosmetic.rs :: fn get_entity_hashes_from_labels
//@ RET r
//@ SAFETY C16.entity_hashes.safety
//@ SPEC
    requires
        is_host_suffix(hostname.spec_bytes(), domain.spec_bytes()),
    ensures
        // no entity form when the domain has no dot (it is a bare public suffix)
        (forall|j: int| 0 <= j < domain.spec_bytes().len() ==> domain.spec_bytes()[j] != 46u8) ==> r@.len() == 0, // OBL C16.entity_hashes.none
        // otherwise: every label-suffix of the hostname with the public suffix removed, plus the public suffix itself
        forall|i: int| first_dot(domain.spec_bytes(), i) ==> ({
            let hb = hostname.spec_bytes();
            let cut = hb.len() - domain.spec_bytes().len() + i;
            let wo = hb.subrange(0, cut);
            &&& r@.contains(hash_spec(domain.spec_bytes().subrange(i + 1, domain.spec_bytes().len() as int))) // OBL C16.entity_hashes.public_suffix
            &&& (cut > 0 ==> r@.contains(hash_spec(wo))) // OBL C16.entity_hashes.full
            &&& (cut > 0 ==> forall|d: int| 0 <= d < cut && #[trigger] hb[d] == 46u8 ==> r@.contains(hash_spec(hb.subrange(d + 1, cut)))) // OBL C16.entity_hashes.suffixes
        }),
//@ ENDSPEC
//@ BEFORE
    hashes.push(crate::utils::fast_hash(public_suffix));
//@ AT
        let ghost h0 = hashes@;
//@ ENDBEFORE
//@ AFTER
    hashes.push(crate::utils::fast_hash(public_suffix));
//@ AT
        proof {
            let hb = hostname.spec_bytes(); let db = domain.spec_bytes();
            let wo = hostname_without_public_suffix.spec_bytes();
            let i0 = choose|i: int| first_dot(db, i) && wo =~= hb.subrange(0, hb.len() - db.len() + i) && public_suffix.spec_bytes() =~= db.subrange(i + 1, db.len() as int);
            assert(hashes@ == h0.push(hash_spec(public_suffix.spec_bytes())));
            assert forall|h: Hash| h0.contains(h) implies hashes@.contains(h) by {
                let x = choose|x: int| 0 <= x < h0.len() && h0[x] == h;
                assert(hashes@[x] == h);
            }
            assert(hashes@[h0.len() as int] == hash_spec(public_suffix.spec_bytes()));
            assert forall|i: int| first_dot(db, i) implies i == i0 by {
                if i < i0 { assert(db[i] != 46u8); } else if i0 < i { assert(db[i0] != 46u8); }
            }
            let cut = hb.len() - db.len() + i0;
            assert(wo.subrange(0, wo.len() as int) =~= wo);
            assert forall|d: int| 0 <= d < cut && #[trigger] hb[d] == 46u8 implies hashes@.contains(hash_spec(hb.subrange(d + 1, cut))) by {
                assert(wo[d] == hb[d]);
                assert(wo.subrange(d + 1, wo.len() as int) =~= hb.subrange(d + 1, cut));
                assert(h0.contains(hash_spec(wo.subrange(d + 1, wo.len() as int))));
            }
            if cut > 0 { assert(h0.contains(hash_spec(wo.subrange(0, wo.len() as int)))); }
        }
//@ ENDAFTER
//@END

proof fn vf_canary() ensures false {}

} // verus!
fn main() {}
