// Unit c08_wiring — C08.3: field-by-field mapping engine <-> wire structs and the reconstruction of the
// blocker and cosmetic cache.  Component conversions (filter lists, legacy cosmetic rule db) are
// abstract (identity on views): the per-rule conversion is unit c08_wire.
use vstd::prelude::*;
use std::collections::{HashMap, HashSet};

verus! {

pub type Hash = u64;

// ---- abstract components: each is characterised by a ghost view ---------------------------------
pub struct NetworkFilterList { pub view: Ghost<int> }
pub struct NetworkFilterListV0DeserializeFmt { pub view: Ghost<int> }
pub struct NetworkFilter { pub view: Ghost<int> }
pub struct NetworkFilterV0DeserializeFmt { pub view: Ghost<int> }
pub struct RegexManagerCell { pub x: u8 }
pub struct LegacyRedirectResourceStorage { pub x: u8 }
pub struct LegacyScriptletResourceStorage { pub x: u8 }
pub struct LegacyHostnameRuleDb { pub view: Ghost<int> }
pub struct HostnameFilterBin<T>(pub HashMap<Hash, Vec<T>>);
pub struct HostnameRuleDb {
    pub core: Ghost<int>,   // what unit c08_legacy proves to survive the legacy db: the hide / unhide / uninject_script buckets and the TEXTS of
                            // inject_script (the permissions do not survive: known finding C08.legacy.inject_permission)
    pub procedural_action: HostnameFilterBin<String>,
    pub procedural_action_exception: HostnameFilterBin<String>,
}

pub uninterp spec fn empty_list_view() -> int;
impl Default for NetworkFilterList {
    #[verifier::external_body]
    fn default() -> (r: Self) ensures r.view@ == empty_list_view() { unimplemented!() }
}
impl Default for LegacyRedirectResourceStorage { #[verifier::external_body] fn default() -> (r: Self) { unimplemented!() } }
impl Default for LegacyScriptletResourceStorage { #[verifier::external_body] fn default() -> (r: Self) { unimplemented!() } }
impl Default for RegexManagerCell { #[verifier::external_body] fn default() -> (r: Self) { unimplemented!() } }

// T: list conversion = per-rule conversion (unit c08_wire) applied to every bucket
impl From<NetworkFilterListV0DeserializeFmt> for NetworkFilterList {
    #[verifier::external_body]
    fn from(v: NetworkFilterListV0DeserializeFmt) -> (r: Self) ensures r.view@ == v.view@ { unimplemented!() }
}
// legacy cosmetic rule db conversion both ways: contract proved on the real code in unit c08_legacy (C08.legacy.roundtrip.*);
// here it is abstracted to "the `core` part of the rule db is preserved"
pub uninterp spec fn legacy_of(core: int) -> int;
pub uninterp spec fn core_of(legacy: int) -> int;
pub broadcast axiom fn legacy_roundtrip(c: int) ensures #[trigger] core_of(legacy_of(c)) == c;
impl<'a> From<&'a HostnameRuleDb> for LegacyHostnameRuleDb {
    #[verifier::external_body]
    fn from(v: &'a HostnameRuleDb) -> (r: Self) ensures r.view@ == legacy_of(v.core@) { unimplemented!() }
}
impl From<LegacyHostnameRuleDb> for HostnameRuleDb {
    #[verifier::external_body]
    fn from(v: LegacyHostnameRuleDb) -> (r: Self) ensures r.core@ == core_of(v.view@) { unimplemented!() }
}

//@EXTRACT src/blocker.rs :: struct Blocker
//@ SUBST R6*
    std::cell::RefCell<RegexManager>
//@ WITH
    RegexManagerCell
//@ ENDSUBST
//@END

//@EXTRACT src/cosmetic_filter_cache.rs :: struct CosmeticFilterCache
//@END

//@EXTRACT src/data_format/v0.rs :: struct SerializeFormat
//@ PUBFIELDS
//@END

//@EXTRACT src/data_format/v0.rs :: struct DeserializeFormat
//@ PUBFIELDS
//@END

// R6: `v.tagged_filters_all.into_iter().map(|f| f.into()).collect()` — per-rule conversion of each element
pub uninterp spec fn rules_view(s: Seq<NetworkFilter>) -> int;
pub uninterp spec fn wire_rules_view(s: Seq<NetworkFilterV0DeserializeFmt>) -> int;
#[verifier::external_body]
fn vf_convert_rules(v: Vec<NetworkFilterV0DeserializeFmt>) -> (r: Vec<NetworkFilter>)
    ensures rules_view(r@) == wire_rules_view(v@)
{ unimplemented!() }

fn vf_to_wire<'a>(v: (&'a Blocker, &'a CosmeticFilterCache)) -> (r: SerializeFormat<'a>)
    ensures
        r.csp == &v.0.csp, // OBL C08.to_wire.csp
        r.exceptions == &v.0.exceptions, // OBL C08.to_wire.exceptions
        r.importants == &v.0.importants, // OBL C08.to_wire.importants
        r.redirects == &v.0.redirects, // OBL C08.to_wire.redirects
        r.filters_tagged == &v.0.filters_tagged, // OBL C08.to_wire.filters_tagged
        r.filters == &v.0.filters, // OBL C08.to_wire.filters
        r.generic_hide == &v.0.generic_hide, // OBL C08.to_wire.generic_hide
        r.tagged_filters_all == &v.0.tagged_filters_all, // OBL C08.to_wire.tagged_filters_all
        r.enable_optimizations == v.0.enable_optimizations, // OBL C08.to_wire.enable_optimizations
        r.simple_class_rules == &v.1.simple_class_rules && r.simple_id_rules == &v.1.simple_id_rules
            && r.complex_class_rules == &v.1.complex_class_rules && r.complex_id_rules == &v.1.complex_id_rules
            && r.misc_generic_selectors == &v.1.misc_generic_selectors, // OBL C08.to_wire.generic_cosmetic
        r.specific_rules.view@ == legacy_of(v.1.specific_rules.core@), // OBL C08.to_wire.specific_rules
        r.procedural_action == &v.1.specific_rules.procedural_action.0
            && r.procedural_action_exception == &v.1.specific_rules.procedural_action_exception.0, // OBL C08.to_wire.procedural
{
//@EXTRACT src/data_format/v0.rs :: impl<'a> From<(&'a Blocker, &'a CosmeticFilterCache)> for SerializeFormat<'a> :: fn from
//@ BODYONLY
//@ SAFETY C08.to_wire.safety
//@ SUBST R3#2
    Self {
//@ WITH
    SerializeFormat {
//@ ENDSUBST
//@END
}

fn vf_from_wire(v: DeserializeFormat) -> (r: (Blocker, CosmeticFilterCache))
    ensures
        r.0.csp.view@ == v.csp.view@, // OBL C08.from_wire.csp
        r.0.exceptions.view@ == v.exceptions.view@, // OBL C08.from_wire.exceptions
        r.0.importants.view@ == v.importants.view@, // OBL C08.from_wire.importants
        r.0.redirects.view@ == v.redirects.view@, // OBL C08.from_wire.redirects
        r.0.filters_tagged.view@ == v.filters_tagged.view@, // OBL C08.from_wire.filters_tagged
        r.0.filters.view@ == v.filters.view@, // OBL C08.from_wire.filters
        r.0.generic_hide.view@ == v.generic_hide.view@, // OBL C08.from_wire.generic_hide
        rules_view(r.0.tagged_filters_all@) == wire_rules_view(v.tagged_filters_all@), // OBL C08.from_wire.tagged_filters_all
        r.0.enable_optimizations == v.enable_optimizations, // OBL C08.from_wire.enable_optimizations
        r.1.simple_class_rules == v.simple_class_rules && r.1.simple_id_rules == v.simple_id_rules
            && r.1.complex_class_rules == v.complex_class_rules && r.1.complex_id_rules == v.complex_id_rules
            && r.1.misc_generic_selectors == v.misc_generic_selectors, // OBL C08.from_wire.generic_cosmetic
        r.1.specific_rules.core@ == core_of(v.specific_rules.view@), // OBL C08.from_wire.specific_rules
        r.1.specific_rules.procedural_action.0 == v.procedural_action
            && r.1.specific_rules.procedural_action_exception.0 == v.procedural_action_exception, // OBL C08.from_wire.procedural
        // the removeparam list is not on the wire: it comes back empty
        r.0.removeparam.view@ == empty_list_view(),
{
//@EXTRACT src/data_format/v0.rs :: impl From<DeserializeFormat> for (Blocker, CosmeticFilterCache) :: fn from
//@ BODYONLY
//@ SAFETY C08.from_wire.safety
//@ SUBST R1
    use crate::cosmetic_filter_cache::HostnameFilterBin;
//@ WITH
//@ ENDSUBST
//@ SUBST R6
    v.tagged_filters_all.into_iter().map(|f| f.into()).collect()
//@ WITH
    vf_convert_rules(v.tagged_filters_all)
//@ ENDSUBST
//@END
}

// T (serde + rmp-serde + the v0 list/rule serializers): the wire step maps field i to field i (names agree:
// C08.shape), lists and rules through their v0 forms (unit c08_wire), plain containers unchanged
#[verifier::external_body]
fn vf_wire_engine(s: SerializeFormat) -> (d: DeserializeFormat)
    ensures
        d.csp.view@ == s.csp.view@, d.exceptions.view@ == s.exceptions.view@, d.importants.view@ == s.importants.view@,
        d.redirects.view@ == s.redirects.view@, d.filters_tagged.view@ == s.filters_tagged.view@, d.filters.view@ == s.filters.view@,
        d.generic_hide.view@ == s.generic_hide.view@, wire_rules_view(d.tagged_filters_all@) == rules_view(s.tagged_filters_all@),
        d.enable_optimizations == s.enable_optimizations,
        d.simple_class_rules == *s.simple_class_rules, d.simple_id_rules == *s.simple_id_rules,
        d.complex_class_rules == *s.complex_class_rules, d.complex_id_rules == *s.complex_id_rules,
        d.specific_rules.view@ == s.specific_rules.view@, d.misc_generic_selectors == *s.misc_generic_selectors,
        d.procedural_action == *s.procedural_action, d.procedural_action_exception == *s.procedural_action_exception,
{ unimplemented!() }

// the engine round trip as a lemma over the three contracts
fn vf_engine_roundtrip(b: &Blocker, c: &CosmeticFilterCache) -> (r: (Blocker, CosmeticFilterCache))
    ensures
        r.0.csp.view@ == b.csp.view@ && r.0.exceptions.view@ == b.exceptions.view@ && r.0.importants.view@ == b.importants.view@
            && r.0.redirects.view@ == b.redirects.view@ && r.0.filters_tagged.view@ == b.filters_tagged.view@
            && r.0.filters.view@ == b.filters.view@ && r.0.generic_hide.view@ == b.generic_hide.view@
            && rules_view(r.0.tagged_filters_all@) == rules_view(b.tagged_filters_all@)
            && r.0.enable_optimizations == b.enable_optimizations, // OBL C08.engine.network_lists
        r.1.simple_class_rules == c.simple_class_rules && r.1.simple_id_rules == c.simple_id_rules
            && r.1.complex_class_rules == c.complex_class_rules && r.1.complex_id_rules == c.complex_id_rules
            && r.1.misc_generic_selectors == c.misc_generic_selectors
            && r.1.specific_rules.core@ == c.specific_rules.core@
            && r.1.specific_rules.procedural_action.0 == c.specific_rules.procedural_action.0
            && r.1.specific_rules.procedural_action_exception.0 == c.specific_rules.procedural_action_exception.0, // OBL C08.engine.cosmetic
        r.0.removeparam.view@ == b.removeparam.view@, // OBL C08.engine.removeparam
{
    broadcast use legacy_roundtrip;
    let s = vf_to_wire((b, c));
    let d = vf_wire_engine(s);
    vf_from_wire(d)
}

proof fn vf_canary() ensures false {}

} // verus!
fn main() {}
