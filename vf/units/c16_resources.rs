// Unit c16_resources — C16 / C18: CosmeticFilterCache::hostname_cosmetic_resources, the per-host merge:
// populate from every lookup hash of the host, THEN prune by every exception of the host; generichide handling;
// per-host union of scriptlet injections with OR-ed permissions, exact removal by identical exception, blanket removal.
#![feature(pattern)]
#![feature(allocator_api)]
use vstd::prelude::*;
use vstd::string::*;
use vstd::slice::*;
use core::str::pattern::Pattern;
use std::collections::{HashMap, HashSet};

verus! {

pub mod vf_axioms {
    use vstd::prelude::*;
    verus!{
    pub broadcast axiom fn string_key_model()
        ensures #[trigger] vstd::std_specs::hash::obeys_key_model::<String>();
    pub broadcast axiom fn str_key_model()
        ensures #[trigger] vstd::std_specs::hash::obeys_key_model::<&str>();
    }
}
broadcast use {vf_axioms::string_key_model, vf_axioms::str_key_model, vstd::std_specs::hash::group_hash_axioms};

//@INCLUDE shims/strings.rs

pub type Hash = u64;

// T: <String as ToOwned>::to_owned is a copy
pub assume_specification<T: Clone>[ <T as std::borrow::ToOwned>::to_owned ](s: &T) -> (r: T)
    ensures r == *s;

//@EXTRACT src/resources/mod.rs :: struct PermissionMask
//@ ATTR #[derive(Clone, Copy)]
//@ PUBFIELDS
//@END

//@EXTRACT src/cosmetic_filter_cache.rs :: struct HostnameFilterBin
//@END

// the rules filed under one lookup hash
pub open spec fn bucket<T>(bin: HostnameFilterBin<T>, h: Hash) -> Seq<T> {
    if bin.0@.contains_key(h) { bin.0@[h]@ } else { Seq::empty() }
}

impl<T> HostnameFilterBin<T> {
//@EXTRACT src/cosmetic_filter_cache.rs :: impl<T> HostnameFilterBin<T> :: fn get
//@ RET r
//@ SAFETY C16.bin.get.safety
//@ SPEC
        ensures match r { Some(v) => self.0@.contains_key(*token) && v@ == bucket(*self, *token), None => bucket(*self, *token) == Seq::<T>::empty() }, // OBL C16.bin.get
//@ ENDSPEC
//@END
}

//@EXTRACT src/cosmetic_filter_cache.rs :: struct HostnameRuleDb
//@END

//@EXTRACT src/cosmetic_filter_cache.rs :: struct CosmeticFilterCache
//@ PUBFIELDS
//@END

//@EXTRACT src/cosmetic_filter_cache.rs :: struct UrlSpecificResources
//@END

// ---- trusted neighbours ---------------------------------------------------------------------------------------------
pub struct ResourceStorage { pub x: u8 }
// T (resource_storage.rs; the gate and the argument encoding inside it are units c18_gate / c18_stringify)
pub uninterp spec fn scriptlets_spec(r: ResourceStorage, injections: Map<&str, PermissionMask>) -> Seq<char>;
impl ResourceStorage {
    #[verifier::external_body]
    pub fn get_scriptlet_resources(&self, script_injections: HashMap<&str, PermissionMask>) -> (r: String)
        ensures r@ == scriptlets_spec(*self, script_injections@)
    { unimplemented!() }
}

pub mod url_parser {
    use vstd::prelude::*;
    use vstd::string::*;
    verus!{
    pub uninterp spec fn host_domain_range(host: Seq<u8>) -> (int, int);
    // T (url_parser / PSL): the registrable domain is a slice of the hostname
    #[verifier::external_body]
    pub fn get_host_domain(host: &str) -> (r: (usize, usize))
        ensures r.0 <= r.1 <= host.spec_bytes().len(), (r.0 as int, r.1 as int) == host_domain_range(host.spec_bytes()),
            vstd::utf8::is_char_boundary(host.spec_bytes(), r.0 as int), vstd::utf8::is_char_boundary(host.spec_bytes(), r.1 as int)
    { unimplemented!() }
    }
}

// the lookup hashes of a host (unit c16_labels proves what they are): entity forms, then hostname forms
pub uninterp spec fn entity_hashes(hostname: Seq<u8>, domain: Seq<u8>) -> Seq<Hash>;
pub uninterp spec fn hostname_hashes(hostname: Seq<u8>, domain: Seq<u8>) -> Seq<Hash>;
#[verifier::external_body]
fn hostname_domain_hashes(hostname: &str, domain: &str) -> (r: (Vec<Hash>, Vec<Hash>))
    ensures r.0@ == entity_hashes(hostname.spec_bytes(), domain.spec_bytes()), r.1@ == hostname_hashes(hostname.spec_bytes(), domain.spec_bytes())
{ unimplemented!() }

pub open spec fn lookup_hashes(hostname: Seq<u8>) -> Seq<Hash> {
    let (s, e) = url_parser::host_domain_range(hostname);
    entity_hashes(hostname, hostname.subrange(s, e)) + hostname_hashes(hostname, hostname.subrange(s, e))
}

// R5: a.iter().chain(b.iter()).collect::<Vec<&Hash>>() — the references to a's elements, then b's
#[verifier::external_body]
fn vf_chain_refs<'a>(a: &'a Vec<Hash>, b: &'a Vec<Hash>) -> (r: Vec<&'a Hash>)
    ensures r@.len() == a@.len() + b@.len(), forall|i: int| 0 <= i < r@.len() ==> *#[trigger] r@[i] == (a@ + b@)[i]
{ a.iter().chain(b.iter()).collect() }

// R5: a.difference(&b).cloned().collect::<HashSet<_>>()
#[verifier::external_body]
fn vf_difference(a: &HashSet<String>, b: &HashSet<String>) -> (r: HashSet<String>)
    ensures r@ == a@.difference(b@)
{ a.difference(b).cloned().collect::<HashSet<_>>() }

// R5: src.into_iter().for_each(|x| { dst.insert(x); })
#[verifier::external_body]
fn vf_insert_all(dst: &mut HashSet<String>, src: HashSet<String>)
    ensures final(dst)@ == old(dst)@.union(src@)
{ src.into_iter().for_each(|sel| { dst.insert(sel); }); }

// R6: map.entry(name).and_modify(|e| *e |= mask).or_insert(mask) — keys compare by content
#[verifier::external_body]
fn vf_merge_injection<'a>(map: &mut HashMap<&'a str, PermissionMask>, name: &'a String, mask: PermissionMask)
    ensures
        forall|k: &str| #[trigger] final(map)@.contains_key(k) <==> (old(map)@.contains_key(k) || k@ == name@),
        forall|k: &str| #[trigger] final(map)@.contains_key(k) ==> final(map)@[k].0 ==
            (if k@ == name@ { (if old(map)@.contains_key(k) { old(map)@[k].0 } else { 0u8 }) | mask.0 } else { old(map)@[k].0 }),
{ unimplemented!() }

// R6: map.remove(name) — keys compare by content
#[verifier::external_body]
fn vf_remove_injection<'a>(map: &mut HashMap<&'a str, PermissionMask>, name: &str)
    ensures
        forall|k: &str| #[trigger] final(map)@.contains_key(k) <==> (old(map)@.contains_key(k) && k@ != name@),
        forall|k: &str| #[trigger] final(map)@.contains_key(k) ==> final(map)@[k] == old(map)@[k],
{
    map.remove(name);
}

// ---- the model of the statement -------------------------------------------------------------------------------------
// every rule text filed under one of the first n lookup hashes
pub open spec fn gathered(bin: HostnameFilterBin<String>, hs: Seq<Hash>, n: int) -> Set<String>
    decreases n
{
    if n <= 0 { Set::empty() } else { gathered(bin, hs, n - 1).union(bucket(bin, hs[n - 1]).to_set()) }
}

// scriptlet injections: a name is requested under one of the first n hashes; the permission it runs with is the union
// (bitwise OR) of the permissions of every rule list that requested it
pub open spec fn requested(bin: HostnameFilterBin<(String, PermissionMask)>, hs: Seq<Hash>, n: int, name: Seq<char>) -> bool {
    exists|i: int, j: int| 0 <= i < n && i < hs.len() && 0 <= j < bucket(bin, hs[i]).len() && (#[trigger] bucket(bin, hs[i])[j]).0@ == name
}
// OR of the masks of the entries named `name` among the first m entries of a bucket
pub open spec fn or_bucket(b: Seq<(String, PermissionMask)>, m: int, name: Seq<char>) -> u8
    decreases m
{
    if m <= 0 { 0u8 } else { or_bucket(b, m - 1, name) | (if b[m - 1].0@ == name { b[m - 1].1.0 } else { 0u8 }) }
}
pub open spec fn or_masks(bin: HostnameFilterBin<(String, PermissionMask)>, hs: Seq<Hash>, n: int, name: Seq<char>) -> u8
    decreases n
{
    if n <= 0 { 0u8 } else { or_masks(bin, hs, n - 1, name) | or_bucket(bucket(bin, hs[n - 1]), bucket(bin, hs[n - 1]).len() as int, name) }
}
pub open spec fn excepted_name(bin: HostnameFilterBin<String>, hs: Seq<Hash>, n: int, name: Seq<char>) -> bool {
    exists|i: int, j: int| 0 <= i < n && i < hs.len() && 0 <= j < bucket(bin, hs[i]).len() && (#[trigger] bucket(bin, hs[i])[j])@ == name
}
// a blanket `#@#+js()` exception
pub open spec fn blanket(bin: HostnameFilterBin<String>, hs: Seq<Hash>, n: int) -> bool {
    exists|i: int, j: int| 0 <= i < n && i < hs.len() && 0 <= j < bucket(bin, hs[i]).len() && (#[trigger] bucket(bin, hs[i])[j])@.len() == 0
}

// the injections that survive: requested, not excepted by an identical exception, and none at all under a blanket one
pub open spec fn injections_ok(m: Map<&str, PermissionMask>, db: HostnameRuleDb, hs: Seq<Hash>) -> bool {
    let n = hs.len() as int;
    (forall|k: &str| #[trigger] m.contains_key(k) <==> (!blanket(db.uninject_script, hs, n) && requested(db.inject_script, hs, n, k@) && !excepted_name(db.uninject_script, hs, n, k@)))
    && (forall|k: &str| #[trigger] m.contains_key(k) ==> m[k].0 == or_masks(db.inject_script, hs, n, k@))
}


// ---- proof vocabulary ----------------------------------------------------------------------------------------------
pub proof fn lemma_or_bucket_zero(b: Seq<(String, PermissionMask)>, m: int, name: Seq<char>)
    requires 0 <= m <= b.len(), forall|j: int| 0 <= j < m ==> (#[trigger] b[j]).0@ != name
    ensures or_bucket(b, m, name) == 0
    decreases m
{
    if m > 0 { lemma_or_bucket_zero(b, m - 1, name); assert(b[m - 1].0@ != name); assert(0u8 | 0u8 == 0u8) by (bit_vector); }
}

pub proof fn lemma_or_masks_zero(bin: HostnameFilterBin<(String, PermissionMask)>, hs: Seq<Hash>, n: int, name: Seq<char>)
    requires 0 <= n <= hs.len(), !requested(bin, hs, n, name)
    ensures or_masks(bin, hs, n, name) == 0
    decreases n
{
    if n > 0 {
        assert(!requested(bin, hs, n - 1, name)) by {
            if requested(bin, hs, n - 1, name) {
                let (i, j) = choose|i: int, j: int| 0 <= i < n - 1 && i < hs.len() && 0 <= j < bucket(bin, hs[i]).len() && (#[trigger] bucket(bin, hs[i])[j]).0@ == name;
                assert(0 <= i < n && bucket(bin, hs[i])[j].0@ == name);
            }
        }
        lemma_or_masks_zero(bin, hs, n - 1, name);
        let b = bucket(bin, hs[n - 1]);
        assert forall|j: int| 0 <= j < b.len() implies (#[trigger] b[j]).0@ != name by {
            if b[j].0@ == name { assert(0 <= n - 1 < n && bucket(bin, hs[n - 1])[j].0@ == name); }
        }
        lemma_or_bucket_zero(b, b.len() as int, name);
        assert(0u8 | 0u8 == 0u8) by (bit_vector);
    }
}

// one more lookup hash: requested / excepted / blanket gain exactly that hash's bucket
pub proof fn lemma_requested_step(bin: HostnameFilterBin<(String, PermissionMask)>, hs: Seq<Hash>, n: int, name: Seq<char>)
    requires 0 <= n < hs.len()
    ensures requested(bin, hs, n + 1, name) == (requested(bin, hs, n, name) || exists|j: int| 0 <= j < bucket(bin, hs[n]).len() && (#[trigger] bucket(bin, hs[n])[j]).0@ == name)
{
    if requested(bin, hs, n + 1, name) {
        let (i, j) = choose|i: int, j: int| 0 <= i < n + 1 && i < hs.len() && 0 <= j < bucket(bin, hs[i]).len() && (#[trigger] bucket(bin, hs[i])[j]).0@ == name;
        if i < n { assert(0 <= i < n && bucket(bin, hs[i])[j].0@ == name); } else { assert(bucket(bin, hs[n])[j].0@ == name); }
    }
    if requested(bin, hs, n, name) {
        let (i, j) = choose|i: int, j: int| 0 <= i < n && i < hs.len() && 0 <= j < bucket(bin, hs[i]).len() && (#[trigger] bucket(bin, hs[i])[j]).0@ == name;
        assert(0 <= i < n + 1 && bucket(bin, hs[i])[j].0@ == name);
    }
    if exists|j: int| 0 <= j < bucket(bin, hs[n]).len() && (#[trigger] bucket(bin, hs[n])[j]).0@ == name {
        let j = choose|j: int| 0 <= j < bucket(bin, hs[n]).len() && (#[trigger] bucket(bin, hs[n])[j]).0@ == name;
        assert(0 <= n < n + 1 && bucket(bin, hs[n])[j].0@ == name);
    }
}

pub proof fn lemma_excepted_step(bin: HostnameFilterBin<String>, hs: Seq<Hash>, n: int, name: Seq<char>)
    requires 0 <= n < hs.len()
    ensures excepted_name(bin, hs, n + 1, name) == (excepted_name(bin, hs, n, name) || exists|j: int| 0 <= j < bucket(bin, hs[n]).len() && (#[trigger] bucket(bin, hs[n])[j])@ == name)
{
    if excepted_name(bin, hs, n + 1, name) {
        let (i, j) = choose|i: int, j: int| 0 <= i < n + 1 && i < hs.len() && 0 <= j < bucket(bin, hs[i]).len() && (#[trigger] bucket(bin, hs[i])[j])@ == name;
        if i < n { assert(0 <= i < n && bucket(bin, hs[i])[j]@ == name); } else { assert(bucket(bin, hs[n])[j]@ == name); }
    }
    if excepted_name(bin, hs, n, name) {
        let (i, j) = choose|i: int, j: int| 0 <= i < n && i < hs.len() && 0 <= j < bucket(bin, hs[i]).len() && (#[trigger] bucket(bin, hs[i])[j])@ == name;
        assert(0 <= i < n + 1 && bucket(bin, hs[i])[j]@ == name);
    }
    if exists|j: int| 0 <= j < bucket(bin, hs[n]).len() && (#[trigger] bucket(bin, hs[n])[j])@ == name {
        let j = choose|j: int| 0 <= j < bucket(bin, hs[n]).len() && (#[trigger] bucket(bin, hs[n])[j])@ == name;
        assert(0 <= n < n + 1 && bucket(bin, hs[n])[j]@ == name);
    }
}

pub proof fn lemma_blanket_step(bin: HostnameFilterBin<String>, hs: Seq<Hash>, n: int)
    requires 0 <= n < hs.len()
    ensures blanket(bin, hs, n + 1) == (blanket(bin, hs, n) || exists|j: int| 0 <= j < bucket(bin, hs[n]).len() && (#[trigger] bucket(bin, hs[n])[j])@.len() == 0)
{
    if blanket(bin, hs, n + 1) {
        let (i, j) = choose|i: int, j: int| 0 <= i < n + 1 && i < hs.len() && 0 <= j < bucket(bin, hs[i]).len() && (#[trigger] bucket(bin, hs[i])[j])@.len() == 0;
        if i < n { assert(0 <= i < n && bucket(bin, hs[i])[j]@.len() == 0); } else { assert(bucket(bin, hs[n])[j]@.len() == 0); }
    }
    if blanket(bin, hs, n) {
        let (i, j) = choose|i: int, j: int| 0 <= i < n && i < hs.len() && 0 <= j < bucket(bin, hs[i]).len() && (#[trigger] bucket(bin, hs[i])[j])@.len() == 0;
        assert(0 <= i < n + 1 && bucket(bin, hs[i])[j]@.len() == 0);
    }
    if exists|j: int| 0 <= j < bucket(bin, hs[n]).len() && (#[trigger] bucket(bin, hs[n])[j])@.len() == 0 {
        let j = choose|j: int| 0 <= j < bucket(bin, hs[n]).len() && (#[trigger] bucket(bin, hs[n])[j])@.len() == 0;
        assert(0 <= n < n + 1 && bucket(bin, hs[n])[j]@.len() == 0);
    }
}

// state of the injection map while the i-th hash's bucket is merged (first j entries done)
pub open spec fn merging(m: Map<&str, PermissionMask>, bin: HostnameFilterBin<(String, PermissionMask)>, hs: Seq<Hash>, i: int, b: Seq<(String, PermissionMask)>, j: int) -> bool {
    (forall|k: &str| #[trigger] m.contains_key(k) <==> (requested(bin, hs, i, k@) || exists|jj: int| 0 <= jj < j && (#[trigger] b[jj]).0@ == k@))
    && (forall|k: &str| #[trigger] m.contains_key(k) ==> m[k].0 == or_masks(bin, hs, i, k@) | or_bucket(b, j, k@))
}
// state of the injection map while the i-th hash's exceptions are applied (first j entries done)
pub open spec fn pruning(m: Map<&str, PermissionMask>, all: bool, db: HostnameRuleDb, hs: Seq<Hash>, i: int, b: Seq<String>, j: int) -> bool {
    let n = hs.len() as int;
    (all == (blanket(db.uninject_script, hs, i) || exists|jj: int| 0 <= jj < j && (#[trigger] b[jj])@.len() == 0))
    && (forall|k: &str| #[trigger] m.contains_key(k) <==> (!all && requested(db.inject_script, hs, n, k@) && !excepted_name(db.uninject_script, hs, i, k@)
            && !exists|jj: int| 0 <= jj < j && (#[trigger] b[jj])@ == k@))
    && (forall|k: &str| #[trigger] m.contains_key(k) ==> m[k].0 == or_masks(db.inject_script, hs, n, k@))
}


pub proof fn lemma_merge_step(m0: Map<&str, PermissionMask>, m1: Map<&str, PermissionMask>, bin: HostnameFilterBin<(String, PermissionMask)>, hs: Seq<Hash>, i: int,
                              b: Seq<(String, PermissionMask)>, j: int)
    requires
        0 <= i <= hs.len(), 0 <= j < b.len(), merging(m0, bin, hs, i, b, j),
        forall|k: &str| #[trigger] m1.contains_key(k) <==> (m0.contains_key(k) || k@ == b[j].0@),
        forall|k: &str| #[trigger] m1.contains_key(k) ==> m1[k].0 ==
            (if k@ == b[j].0@ { (if m0.contains_key(k) { m0[k].0 } else { 0u8 }) | b[j].1.0 } else { m0[k].0 }),
    ensures merging(m1, bin, hs, i, b, j + 1)
{
    assert forall|k: &str| #[trigger] m1.contains_key(k) <==> (requested(bin, hs, i, k@) || exists|jj: int| 0 <= jj < j + 1 && (#[trigger] b[jj]).0@ == k@) by {
        if m1.contains_key(k) {
            if m0.contains_key(k) {
                if !requested(bin, hs, i, k@) { let jj = choose|jj: int| 0 <= jj < j && (#[trigger] b[jj]).0@ == k@; assert(0 <= jj < j + 1 && b[jj].0@ == k@); }
            } else { assert(0 <= j < j + 1 && b[j].0@ == k@); }
        }
        if exists|jj: int| 0 <= jj < j + 1 && (#[trigger] b[jj]).0@ == k@ {
            let jj = choose|jj: int| 0 <= jj < j + 1 && (#[trigger] b[jj]).0@ == k@;
            if jj < j { assert(0 <= jj < j && b[jj].0@ == k@); }
        }
    }
    assert forall|k: &str| #[trigger] m1.contains_key(k) implies m1[k].0 == or_masks(bin, hs, i, k@) | or_bucket(b, j + 1, k@) by {
        let a = or_masks(bin, hs, i, k@);
        let o = or_bucket(b, j, k@);
        let mk = b[j].1.0;
        if k@ == b[j].0@ {
            if m0.contains_key(k) {
                assert((a | o) | mk == a | (o | mk)) by (bit_vector);
            } else {
                lemma_or_masks_zero(bin, hs, i, k@);
                assert forall|jj: int| 0 <= jj < j implies (#[trigger] b[jj]).0@ != k@ by { }
                lemma_or_bucket_zero(b, j, k@);
                assert(0u8 | mk == 0u8 | (0u8 | mk)) by (bit_vector);
            }
        } else {
            assert(a | o == a | (o | 0u8)) by (bit_vector);
        }
    }
}

pub proof fn lemma_merge_done(m: Map<&str, PermissionMask>, bin: HostnameFilterBin<(String, PermissionMask)>, hs: Seq<Hash>, i: int)
    requires 0 <= i < hs.len(), merging(m, bin, hs, i, bucket(bin, hs[i]), bucket(bin, hs[i]).len() as int)
    ensures merging(m, bin, hs, i + 1, Seq::empty(), 0)
{
    let b = bucket(bin, hs[i]);
    assert forall|k: &str| #[trigger] m.contains_key(k) <==> (requested(bin, hs, i + 1, k@) || exists|jj: int| 0 <= jj < 0 && (#[trigger] Seq::<(String, PermissionMask)>::empty()[jj]).0@ == k@) by {
        lemma_requested_step(bin, hs, i, k@);
    }
    assert forall|k: &str| #[trigger] m.contains_key(k) implies m[k].0 == or_masks(bin, hs, i + 1, k@) | or_bucket(Seq::empty(), 0, k@) by {
        let x = or_masks(bin, hs, i + 1, k@);
        assert(x | 0u8 == x) by (bit_vector);
    }
}

pub proof fn lemma_merge_to_prune(m: Map<&str, PermissionMask>, db: HostnameRuleDb, hs: Seq<Hash>)
    requires merging(m, db.inject_script, hs, hs.len() as int, Seq::empty(), 0)
    ensures pruning(m, false, db, hs, 0, Seq::empty(), 0)
{
    assert forall|k: &str| #[trigger] m.contains_key(k) implies m[k].0 == or_masks(db.inject_script, hs, hs.len() as int, k@) by {
        let x = or_masks(db.inject_script, hs, hs.len() as int, k@);
        assert(x | 0u8 == x) by (bit_vector);
    }
}

pub proof fn lemma_prune_step(m0: Map<&str, PermissionMask>, all0: bool, m1: Map<&str, PermissionMask>, all1: bool, db: HostnameRuleDb, hs: Seq<Hash>, i: int, b: Seq<String>, j: int)
    requires
        0 <= j < b.len(), pruning(m0, all0, db, hs, i, b, j),
        b[j]@.len() == 0 ==> all1 && m1 == Map::<&str, PermissionMask>::empty(),
        b[j]@.len() != 0 && all0 ==> all1 && m1 == m0,
        b[j]@.len() != 0 && !all0 ==> !all1
            && (forall|k: &str| #[trigger] m1.contains_key(k) <==> (m0.contains_key(k) && k@ != b[j]@))
            && (forall|k: &str| #[trigger] m1.contains_key(k) ==> m1[k] == m0[k]),
    ensures pruning(m1, all1, db, hs, i, b, j + 1)
{
    let n = hs.len() as int;
    assert(all1 == (blanket(db.uninject_script, hs, i) || exists|jj: int| 0 <= jj < j + 1 && (#[trigger] b[jj])@.len() == 0)) by {
        if all0 && !blanket(db.uninject_script, hs, i) { let jj = choose|jj: int| 0 <= jj < j && (#[trigger] b[jj])@.len() == 0; assert(0 <= jj < j + 1 && b[jj]@.len() == 0); }
        if b[j]@.len() == 0 { assert(0 <= j < j + 1 && b[j]@.len() == 0); }
        if exists|jj: int| 0 <= jj < j + 1 && (#[trigger] b[jj])@.len() == 0 {
            let jj = choose|jj: int| 0 <= jj < j + 1 && (#[trigger] b[jj])@.len() == 0;
            if jj < j { assert(0 <= jj < j && b[jj]@.len() == 0); }
        }
    }
    assert forall|k: &str| #[trigger] m1.contains_key(k) <==> (!all1 && requested(db.inject_script, hs, n, k@) && !excepted_name(db.uninject_script, hs, i, k@)
            && !exists|jj: int| 0 <= jj < j + 1 && (#[trigger] b[jj])@ == k@) by {
        if m1.contains_key(k) {
            if exists|jj: int| 0 <= jj < j + 1 && (#[trigger] b[jj])@ == k@ {
                let jj = choose|jj: int| 0 <= jj < j + 1 && (#[trigger] b[jj])@ == k@;
                if jj < j { assert(0 <= jj < j && b[jj]@ == k@); }
            }
        }
        if !all1 && requested(db.inject_script, hs, n, k@) && !excepted_name(db.uninject_script, hs, i, k@) && !exists|jj: int| 0 <= jj < j + 1 && (#[trigger] b[jj])@ == k@ {
            assert(!exists|jj: int| 0 <= jj < j && (#[trigger] b[jj])@ == k@) by {
                if exists|jj: int| 0 <= jj < j && (#[trigger] b[jj])@ == k@ { let jj = choose|jj: int| 0 <= jj < j && (#[trigger] b[jj])@ == k@; assert(0 <= jj < j + 1 && b[jj]@ == k@); }
            }
            assert(k@ != b[j]@) by { if k@ == b[j]@ { assert(0 <= j < j + 1 && b[j]@ == k@); } }
        }
    }
}

pub proof fn lemma_prune_done(m: Map<&str, PermissionMask>, all: bool, db: HostnameRuleDb, hs: Seq<Hash>, i: int)
    requires 0 <= i < hs.len(), pruning(m, all, db, hs, i, bucket(db.uninject_script, hs[i]), bucket(db.uninject_script, hs[i]).len() as int)
    ensures pruning(m, all, db, hs, i + 1, Seq::empty(), 0)
{
    lemma_blanket_step(db.uninject_script, hs, i);
    assert forall|k: &str| #[trigger] m.contains_key(k) <==> (!all && requested(db.inject_script, hs, hs.len() as int, k@) && !excepted_name(db.uninject_script, hs, i + 1, k@)
            && !exists|jj: int| 0 <= jj < 0 && (#[trigger] Seq::<String>::empty()[jj])@ == k@) by {
        lemma_excepted_step(db.uninject_script, hs, i, k@);
    }
}

impl CosmeticFilterCache {
//@EXTRACT src/cosmetic_filter_cache.rs :: impl CosmeticFilterCache :: fn hostname_cosmetic_resources
//@ RET r
//@ SAFETY C16.resources.safety
//@ SPEC
        ensures
            // "the returned exceptions list every selector unhidden for the host"
            r.exceptions@ == gathered(self.specific_rules.unhide, lookup_hashes(hostname.spec_bytes()), lookup_hashes(hostname.spec_bytes()).len() as int), // OBL C16.resources.exceptions
            // procedural / action filters scoped to the host, "minus everything excepted for that host"
            r.procedural_actions@ == gathered(self.specific_rules.procedural_action, lookup_hashes(hostname.spec_bytes()), lookup_hashes(hostname.spec_bytes()).len() as int)
                .difference(gathered(self.specific_rules.procedural_action_exception, lookup_hashes(hostname.spec_bytes()), lookup_hashes(hostname.spec_bytes()).len() as int)), // OBL C16.resources.procedural
            // hide selectors scoped to the host minus the unhidden ones; "when a generichide exception matches the page no generic selector is returned"
            generichide ==> r.hide_selectors@ == gathered(self.specific_rules.hide, lookup_hashes(hostname.spec_bytes()), lookup_hashes(hostname.spec_bytes()).len() as int)
                .difference(gathered(self.specific_rules.unhide, lookup_hashes(hostname.spec_bytes()), lookup_hashes(hostname.spec_bytes()).len() as int)), // OBL C16.resources.hide_generichide
            // otherwise "plus unscoped generic selectors that cannot be looked up by class or id, minus everything excepted for that host"
            !generichide ==> r.hide_selectors@ == self.misc_generic_selectors@.difference(gathered(self.specific_rules.unhide, lookup_hashes(hostname.spec_bytes()), lookup_hashes(hostname.spec_bytes()).len() as int))
                .union(gathered(self.specific_rules.hide, lookup_hashes(hostname.spec_bytes()), lookup_hashes(hostname.spec_bytes()).len() as int)
                    .difference(gathered(self.specific_rules.unhide, lookup_hashes(hostname.spec_bytes()), lookup_hashes(hostname.spec_bytes()).len() as int))), // OBL C16.resources.hide
            r.generichide == generichide, // OBL C16.resources.generichide_flag
            // C18: "a scriptlet exception removes exactly the identical injection and a blanket exception removes all"; permissions are the union over the requesting lists
            exists|m: Map<&str, PermissionMask>| injections_ok(m, self.specific_rules, lookup_hashes(hostname.spec_bytes())) && r.injected_script@ == scriptlets_spec(*resources, m), // OBL C18.resources.injections
//@ ENDSPEC
//@ SUBST R5
    request_entities
            .iter()
            .chain(request_hostnames.iter())
            .collect()
//@ WITH
    vf_chain_refs(&request_entities, &request_hostnames)
//@ ENDSUBST
//@ AFTER
            .chain(request_hostnames.iter())
            .collect();
//@ AT
        let ghost hs: Seq<Hash> = request_entities@ + request_hostnames@;
        let ghost db = self.specific_rules;
        proof { assert(hs == lookup_hashes(hostname.spec_bytes())); }
//@ ENDAFTER
//@ BEFORE#1
    { if let Some(s) = source_bin.get(hash)
//@ AT
            ensures final(dest_set)@ == old(dest_set)@.union(bucket(*source_bin, *hash).to_set()) // OBL C16.populate_set
//@ ENDBEFORE
//@ FOREACH @it dest_set.insert
                    invariant
                        it.seq().len() == bucket(*source_bin, *hash).len(), forall|j: int| 0 <= j < bucket(*source_bin, *hash).len() ==> *it.seq()[j] == bucket(*source_bin, *hash)[j],
                        forall|x: String| dest_set@.contains(x) <==> (old(dest_set)@.contains(x) || exists|j: int| 0 <= j < it.index() && bucket(*source_bin, *hash)[j] == x),
//@ ENDFOREACH
//@ BEFORE#2
    { if let Some(s) = source_bin.get(hash)
//@ AT
            ensures final(dest_set)@ == old(dest_set)@.difference(bucket(*source_bin, *hash).to_set()) // OBL C16.prune_set
//@ ENDBEFORE
//@ FOREACH @it dest_set.remove
                    invariant
                        it.seq().len() == bucket(*source_bin, *hash).len(), forall|j: int| 0 <= j < bucket(*source_bin, *hash).len() ==> *it.seq()[j] == bucket(*source_bin, *hash)[j],
                        forall|x: String| dest_set@.contains(x) <==> (old(dest_set)@.contains(x) && !exists|j: int| 0 <= j < it.index() && bucket(*source_bin, *hash)[j] == x),
//@ ENDFOREACH
//@ ATTR #[verifier::loop_isolation(false)]
//@ LOOPHEAD @ita populate_set ( hash ,
//@ LOOPHEAD @itb prune_set ( hash ,
//@ LOOPSTART @populate_set ( hash ,
            let ghost gi = ita.index() as int;
//@ ENDLOOPSTART
//@ LOOPSTART @prune_set ( hash ,
            let ghost gi = itb.index() as int;
//@ ENDLOOPSTART
//@ LOOP @populate_set ( hash ,
            invariant
                ita.seq().len() == hs.len(), forall|q: int| 0 <= q < hs.len() ==> **#[trigger] ita.seq()[q] == hs[q],
                specific_hide_selectors@ == gathered(db.hide, hs, ita.index() as int), // OBL C16.resources.populate.hide
                procedural_actions@ == gathered(db.procedural_action, hs, ita.index() as int), // OBL C16.resources.populate.procedural
                exceptions@ == Set::<String>::empty(), !except_all_scripts,
                merging(script_injections@, db.inject_script, hs, ita.index() as int, Seq::empty(), 0), // OBL C18.resources.merge
//@ ENDLOOP
//@ LOOPEND @populate_set ( hash ,
            proof {
                let i = ita.index() as int;
                if db.inject_script.0@.contains_key(hs[i]) { } else { assert(bucket(db.inject_script, hs[i]) =~= Seq::empty()); }
                lemma_merge_done(script_injections@, db.inject_script, hs, i);
            }
//@ ENDLOOPEND
//@ FOREACH @it2 and_modify
                    invariant
                        it2.seq().len() == bucket(db.inject_script, hs[gi]).len(),
                        forall|q: int| 0 <= q < it2.seq().len() ==> *#[trigger] it2.seq()[q] == bucket(db.inject_script, hs[gi])[q],
                        merging(script_injections@, db.inject_script, hs, gi, bucket(db.inject_script, hs[gi]), it2.index() as int),
//@ BODYSTART
                    let ghost m0 = script_injections@;
//@ BODYEND
                    proof { lemma_merge_step(m0, script_injections@, db.inject_script, hs, gi, bucket(db.inject_script, hs[gi]), it2.index() as int); }
//@ ENDFOREACH
//@ SUBST R6
    script_injections
                        .entry(s)
                        .and_modify(|entry| *entry |= *mask)
                        .or_insert(*mask);
//@ WITH
    vf_merge_injection(&mut script_injections, s, *mask);
//@ ENDSUBST
//@ BEFORE
        fn prune_set(
//@ AT
        proof { lemma_merge_to_prune(script_injections@, db, hs); }
//@ ENDBEFORE
//@ LOOP @prune_set ( hash ,
            invariant
                itb.seq().len() == hs.len(), forall|q: int| 0 <= q < hs.len() ==> **#[trigger] itb.seq()[q] == hs[q],
                specific_hide_selectors@ == gathered(db.hide, hs, hs.len() as int).difference(gathered(db.unhide, hs, itb.index() as int)), // OBL C16.resources.prune.hide
                exceptions@ == gathered(db.unhide, hs, itb.index() as int), // OBL C16.resources.prune.exceptions
                procedural_actions@ == gathered(db.procedural_action, hs, hs.len() as int).difference(gathered(db.procedural_action_exception, hs, itb.index() as int)), // OBL C16.resources.prune.procedural
                pruning(script_injections@, except_all_scripts, db, hs, itb.index() as int, Seq::empty(), 0), // OBL C18.resources.prune
//@ ENDLOOP
//@ LOOPEND @prune_set ( hash ,
            proof {
                let i = itb.index() as int;
                let bx = bucket(db.unhide, hs[i]);
                assert(specific_hide_selectors@ =~= gathered(db.hide, hs, hs.len() as int).difference(gathered(db.unhide, hs, i + 1)));
                assert(exceptions@ =~= gathered(db.unhide, hs, i + 1));
                assert(procedural_actions@ =~= gathered(db.procedural_action, hs, hs.len() as int).difference(gathered(db.procedural_action_exception, hs, i + 1)));
                if db.uninject_script.0@.contains_key(hs[i]) { } else { assert(bucket(db.uninject_script, hs[i]) =~= Seq::empty()); }
                lemma_prune_done(script_injections@, except_all_scripts, db, hs, i);
            }
//@ ENDLOOPEND
//@ FOREACH @it4 exceptions.insert
                    invariant
                        it4.seq().len() == bucket(db.unhide, hs[gi]).len(),
                        forall|q: int| 0 <= q < it4.seq().len() ==> *#[trigger] it4.seq()[q] == bucket(db.unhide, hs[gi])[q],
                        forall|x: String| specific_hide_selectors@.contains(x) <==> (gathered(db.hide, hs, hs.len() as int).contains(x) && !gathered(db.unhide, hs, gi).contains(x)
                            && !exists|q: int| 0 <= q < it4.index() && bucket(db.unhide, hs[gi])[q] == x),
                        forall|x: String| exceptions@.contains(x) <==> (gathered(db.unhide, hs, gi).contains(x)
                            || exists|q: int| 0 <= q < it4.index() && bucket(db.unhide, hs[gi])[q] == x),
//@ ENDFOREACH
//@ SUBST R8
    for s in s {
//@ WITH
    for s in it5: s
                    invariant
                        it5.seq().len() == bucket(db.uninject_script, hs[gi]).len(),
                        forall|q: int| 0 <= q < it5.seq().len() ==> *#[trigger] it5.seq()[q] == bucket(db.uninject_script, hs[gi])[q],
                        pruning(script_injections@, except_all_scripts, db, hs, gi, bucket(db.uninject_script, hs[gi]), it5.index() as int),
                {
                    let ghost m0 = script_injections@;
                    let ghost all0 = except_all_scripts;
//@ ENDSUBST
//@ LOOPEND @s.is_empty()
                    proof { lemma_prune_step(m0, all0, script_injections@, except_all_scripts, db, hs, gi, bucket(db.uninject_script, hs[gi]), it5.index() as int); }
//@ ENDLOOPEND
//@ BEFORE
        let injected_script = resources.get_scriptlet_resources(script_injections);
//@ AT
        proof { assert(injections_ok(script_injections@, db, hs)); }
//@ ENDBEFORE
//@ R4
//@ SUBST R6
    script_injections.remove(s.as_str());
//@ WITH
    vf_remove_injection(&mut script_injections, s.as_str());
//@ ENDSUBST
//@ SUBST R5
    self
                .misc_generic_selectors
                .difference(&exceptions)
                .cloned()
                .collect::<HashSet<_>>()
//@ WITH
    vf_difference(&self.misc_generic_selectors, &exceptions)
//@ ENDSUBST
//@ SUBST R5
    specific_hide_selectors.into_iter().for_each(|sel| {
                hide_selectors.insert(sel);
            });
//@ WITH
    vf_insert_all(&mut hide_selectors, specific_hide_selectors);
//@ ENDSUBST
//@END
}

proof fn vf_canary() ensures false {}

} // verus!
fn main() {}
