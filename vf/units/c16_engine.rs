// Unit c16_engine — C16: the generichide lookup for the page (engine.rs: Engine::url_cosmetic_resources; blocker.rs:
// Blocker::check_generic_hide): the page is looked up as a first-party "document" request to itself, against the generichide
// list with no tags, and the answer is handed to the per-site merge together with the page's hostname.
use vstd::prelude::*;
use vstd::string::*;
use std::collections::HashSet;

verus! {

pub mod vf_axioms {
    use vstd::prelude::*;
    verus!{
    pub broadcast axiom fn string_key_model()
        ensures #[trigger] vstd::std_specs::hash::obeys_key_model::<String>();
    }
}
broadcast use {vf_axioms::string_key_model, vstd::std_specs::hash::group_hash_axioms};

// ---- neighbours, by their contracts ---------------------------------------------------------------------------------------------
pub struct Request { pub hostname: String, pub x: u8 }
pub enum RequestError { HostnameParseError, SourceHostnameParseError, UnicodeDecodingError }
// contract of Request::new (unit c12_request): a function of the three texts
pub uninterp spec fn request_of(url: Seq<char>, source_url: Seq<char>, request_type: Seq<char>) -> Result<Request, RequestError>;
impl Request {
    #[verifier::external_body]
    pub fn new(url: &str, source_url: &str, request_type: &str) -> (r: Result<Request, RequestError>)
        ensures r == request_of(url@, source_url@, request_type@)
    { unimplemented!() }
}

pub struct RegexManager { pub x: u8 }
pub struct RegexGuard { pub x: u8 }
pub struct NetworkFilter { pub x: u8 }
pub struct NetworkFilterList { pub x: u8 }
// contract of NetworkFilterList::check (unit c01_lookup): Some iff some rule of the list with an enabled (or no) tag matches
pub uninterp spec fn some_hit(list: NetworkFilterList, request: Request, tags: Set<String>) -> bool;
impl NetworkFilterList {
    #[verifier::external_body]
    pub fn check(&self, request: &Request, active_tags: &HashSet<String>, regex_manager: &mut RegexGuard) -> (r: Option<&NetworkFilter>)
        ensures r is Some <==> some_hit(*self, *request, active_tags@)
    { unimplemented!() }
}

pub struct ResourceStorage { pub x: u8 }
//@EXTRACT src/cosmetic_filter_cache.rs :: struct UrlSpecificResources
//@END
impl UrlSpecificResources {
//@EXTRACT src/cosmetic_filter_cache.rs :: impl UrlSpecificResources :: fn empty
//@ RET r
//@ SAFETY C16.engine.empty.safety
//@ SPEC
        ensures r.hide_selectors@ == Set::<String>::empty() && r.procedural_actions@ == Set::<String>::empty() && r.exceptions@ == Set::<String>::empty()
            && r.injected_script@ == Seq::<char>::empty() && !r.generichide, // OBL C16.engine.empty
//@ ENDSPEC
//@END
}
pub struct CosmeticFilterCache { pub x: u8 }
// contract of hostname_cosmetic_resources (unit c16_resources): a function of the cache, the resources, the host text and the flag
pub uninterp spec fn site_resources(c: CosmeticFilterCache, r: ResourceStorage, hostname: Seq<char>, generichide: bool) -> UrlSpecificResources;
impl CosmeticFilterCache {
    #[verifier::external_body]
    pub fn hostname_cosmetic_resources(&self, resources: &ResourceStorage, hostname: &str, generichide: bool) -> (r: UrlSpecificResources)
        ensures r == site_resources(*self, *resources, hostname@, generichide)
    { unimplemented!() }
}

pub struct Blocker { pub generic_hide: NetworkFilterList, pub x: u8 }
impl Blocker {
    // T: RefCell / Mutex access to the regex manager
    #[verifier::external_body]
    fn borrow_regex_manager(&self) -> (r: RegexGuard) { unimplemented!() }

//@EXTRACT src/blocker.rs :: impl Blocker :: fn check_generic_hide
//@ RET r
//@ SAFETY C16.engine.check_generic_hide.safety
//@ SPEC
        ensures r == some_hit(self.generic_hide, *hostname_request, Set::<String>::empty()), // OBL C16.engine.check_generic_hide
//@ ENDSPEC
//@END
}

//@EXTRACT src/engine.rs :: struct Engine
//@ PUBFIELDS
//@END

pub open spec fn document() -> Seq<char> { "document"@ }

impl Engine {
//@EXTRACT src/engine.rs :: impl Engine :: fn url_cosmetic_resources
//@ RET r
//@ SAFETY C16.engine.url_cosmetic_resources.safety
//@ SPEC
        ensures
            // the page is its own initiator (a first-party document request): that request decides `generichide`; its hostname selects the rules
            match request_of(url@, url@, document()) {
                Ok(page) => r == site_resources(self.cosmetic_cache, self.resources, page.hostname@,
                                                some_hit(self.blocker.generic_hide, page, Set::<String>::empty())),
                Err(_) => r.hide_selectors@ == Set::<String>::empty() && r.procedural_actions@ == Set::<String>::empty() && r.exceptions@ == Set::<String>::empty()
                    && r.injected_script@ == Seq::<char>::empty() && !r.generichide,
            }, // OBL C16.engine.page_request
//@ ENDSPEC
//@ SUBST R6
    &request.hostname,
//@ WITH
    request.hostname.as_str(),
//@ ENDSUBST
//@END
}

proof fn vf_canary() ensures false {}

} // verus!
fn main() {}
