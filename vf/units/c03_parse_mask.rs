// Unit c03_parse_mask — C03.4: the two pure bit-mask blocks of NetworkFilter::parse that turn the positive /
// negated type options into the rule's type bits (R7 block lifts).  The option-text -> (positive, negated)
// step (closure + macro_rules!) is not under contract.
use vstd::prelude::*;

verus! {

//@INCLUDE shims/mask_items.rs

pub open spec fn b(m: NetworkFilterMask) -> u32 { m.bits }
pub open spec fn NET() -> u32 { NetworkFilterMask::FROM_NETWORK_TYPES.bits }
pub open spec fn ALL() -> u32 { NetworkFilterMask::FROM_ALL_TYPES.bits }
pub open spec fn DOC() -> u32 { NetworkFilterMask::FROM_DOCUMENT.bits }
pub open spec fn RP() -> u32 { NetworkFilterMask::IS_REMOVEPARAM.bits }

// block A: apply the positive types and the implicit-all rules
fn vf_types_block_a(mask0: NetworkFilterMask, cpt_mask_positive: NetworkFilterMask, cpt_mask_negative: NetworkFilterMask) -> (r: NetworkFilterMask)
    requires
        b(cpt_mask_positive) & !ALL() == 0, b(cpt_mask_negative) & !ALL() == 0,   // the temporaries only ever hold type bits
    ensures
        // nothing but type bits changes, nothing is removed
        b(r) & !ALL() == b(mask0) & !ALL() && b(mask0) & !b(r) == 0, // OBL C03.parse_mask.a_frame
        // every explicitly requested type is set
        b(cpt_mask_positive) & !b(r) == 0, // OBL C03.parse_mask.a_positive
        // no explicit positive type: all network types (removeparam: document, subdocument, xhr)
        b(cpt_mask_positive) & ALL() == 0 && b(mask0) & RP() == 0 ==> NET() & !b(r) == 0, // OBL C03.parse_mask.a_implicit_all
        // a negated network type implies the other network types (not for removeparam)
        b(cpt_mask_negative) & NET() != 0 && b(mask0) & RP() == 0 ==> NET() & !b(r) == 0, // OBL C03.parse_mask.a_negation_implies_rest
        // explicit positive types and no negated network type: no widening
        b(cpt_mask_positive) & ALL() != 0 && b(cpt_mask_negative) & NET() == 0 ==> b(r) == b(mask0) | b(cpt_mask_positive), // OBL C03.parse_mask.a_no_widening
        // document is never implied by the network-type rules
        b(mask0) & RP() == 0 ==> (b(r) & DOC() != 0 ==> (b(mask0) | b(cpt_mask_positive)) & DOC() != 0), // OBL C03.parse_mask.a_document_not_implied
{
    let mut mask = mask0;
//@EXTRACT src/filters/network.rs :: impl NetworkFilter :: fn parse
//@ SAFETY C03.parse_mask.a_safety
//@ FROM
        mask |= cpt_mask_positive;
//@ ENDFROM
//@ TO
                mask |= NetworkFilterMask::FROM_NETWORK_TYPES;
            }
        }
//@ ENDTO
//@END
    proof {
        let (m0, p, n, m) = (mask0.bits, cpt_mask_positive.bits, cpt_mask_negative.bits, mask.bits);
        let dsx = (DOC() | NetworkFilterMask::FROM_SUBDOCUMENT.bits) | NetworkFilterMask::FROM_XMLHTTPREQUEST.bits;
        assert(dsx == 0x20000280u32) by (bit_vector) requires dsx == (0x20000000u32 | 0x80u32) | 0x200u32;
        let m1 = m0 | p;
        let m2 = if !(m1 & RP() == RP()) && (n & NET()) != 0 { m1 | NET() } else { m1 };
        let m3 = if (p & ALL()) == 0 { if m2 & RP() == RP() { m2 | dsx } else { m2 | NET() } } else { m2 };
        assert(m == m3); // OBL C03.parse_mask.a_structure
        vf_bits_a(m0, p, n, m1, m2, m3);
    }
    mask
}

pub proof fn vf_bits_a(m0: u32, p: u32, n: u32, m1: u32, m2: u32, m: u32)
    requires
        p & !0x200007ffu32 == 0, n & !0x200007ffu32 == 0,
        m1 == m0 | p,
        m2 == (if !(m1 & 0x8000u32 == 0x8000u32) && (n & 0x7ffu32) != 0 { m1 | 0x7ffu32 } else { m1 }),
        m == (if (p & 0x200007ffu32) == 0 { if m2 & 0x8000u32 == 0x8000u32 { m2 | 0x20000280u32 } else { m2 | 0x7ffu32 } } else { m2 }),
    ensures
        m & !0x200007ffu32 == m0 & !0x200007ffu32, m0 & !m == 0, p & !m == 0,
        p & 0x200007ffu32 == 0 && m0 & 0x8000u32 == 0 ==> 0x7ffu32 & !m == 0,
        n & 0x7ffu32 != 0 && m0 & 0x8000u32 == 0 ==> 0x7ffu32 & !m == 0,
        p & 0x200007ffu32 != 0 && n & 0x7ffu32 == 0 ==> m == m0 | p,
        m0 & 0x8000u32 == 0 ==> (m & 0x20000000u32 != 0 ==> (m0 | p) & 0x20000000u32 != 0),
{
    assert(
        (p & !0x200007ffu32 == 0 && n & !0x200007ffu32 == 0 && m1 == m0 | p
        && m2 == (if !(m1 & 0x8000u32 == 0x8000u32) && (n & 0x7ffu32) != 0 { m1 | 0x7ffu32 } else { m1 })
        && m == (if (p & 0x200007ffu32) == 0 { if m2 & 0x8000u32 == 0x8000u32 { m2 | 0x20000280u32 } else { m2 | 0x7ffu32 } } else { m2 }))
        ==> (m & !0x200007ffu32 == m0 & !0x200007ffu32 && m0 & !m == 0 && p & !m == 0
            && (p & 0x200007ffu32 == 0 && m0 & 0x8000u32 == 0 ==> 0x7ffu32 & !m == 0)
            && (n & 0x7ffu32 != 0 && m0 & 0x8000u32 == 0 ==> 0x7ffu32 & !m == 0)
            && (p & 0x200007ffu32 != 0 && n & 0x7ffu32 == 0 ==> m == m0 | p)
            && (m0 & 0x8000u32 == 0 ==> (m & 0x20000000u32 != 0 ==> (m0 | p) & 0x20000000u32 != 0)))
    ) by (bit_vector);
}

// block B: the bare `||hostname^` rule applies to every type incl. document; then the negated types are removed
fn vf_types_block_b(mask1: NetworkFilterMask, cpt_mask_positive: NetworkFilterMask, cpt_mask_negative: NetworkFilterMask, end_url_anchor: bool) -> (r: NetworkFilterMask)
    requires
        b(cpt_mask_positive) & !ALL() == 0, b(cpt_mask_negative) & !ALL() == 0,
    ensures
        // "negated": a negated type never applies
        b(r) & b(cpt_mask_negative) == 0, // OBL C03.parse_mask.b_negated_removed
        // nothing but type bits changes
        b(r) & !ALL() == b(mask1) & !ALL(), // OBL C03.parse_mask.b_frame
        // any explicit type option (positive or negated) forbids the document/all-types widening
        b(cpt_mask_positive) & ALL() != 0 || b(cpt_mask_negative) & ALL() != 0 ==> b(r) == b(mask1) & !b(cpt_mask_negative), // OBL C03.parse_mask.b_no_widening_with_type_options
        // the widening is reserved to rules of the exact shape ||hostname^ (not `|` terminated, not removeparam)
        !(mask1.has(NetworkFilterMask::IS_HOSTNAME_ANCHOR) && mask1.has(NetworkFilterMask::IS_RIGHT_ANCHOR) && !end_url_anchor && !mask1.has(NetworkFilterMask::IS_REMOVEPARAM))
            ==> b(r) == b(mask1) & !b(cpt_mask_negative), // OBL C03.parse_mask.b_widening_only_bare_host
        // and such a rule with no type option applies to every type, document included
        b(cpt_mask_positive) & ALL() == 0 && b(cpt_mask_negative) & ALL() == 0
            && mask1.has(NetworkFilterMask::IS_HOSTNAME_ANCHOR) && mask1.has(NetworkFilterMask::IS_RIGHT_ANCHOR) && !end_url_anchor && !mask1.has(NetworkFilterMask::IS_REMOVEPARAM)
            ==> ALL() & !b(r) == 0, // OBL C03.parse_mask.b_bare_host_all_types
{
    let mut mask = mask1;
//@EXTRACT src/filters/network.rs :: impl NetworkFilter :: fn parse
//@ SAFETY C03.parse_mask.b_safety
//@ FROMAFTER
            return Err(NetworkFilterError::RemoveparamWithException);
        }
//@ ENDFROMAFTER
//@ TO
        mask &= !cpt_mask_negative;
//@ ENDTO
//@END
    proof {
        let (m1, p, n, m) = (mask1.bits, cpt_mask_positive.bits, cpt_mask_negative.bits, mask.bits);
        let widen = (p & ALL()) == 0 && (n & ALL()) == 0 && mask1.has(NetworkFilterMask::IS_HOSTNAME_ANCHOR) && mask1.has(NetworkFilterMask::IS_RIGHT_ANCHOR)
            && !end_url_anchor && !mask1.has(NetworkFilterMask::IS_REMOVEPARAM);
        let m2 = if widen { m1 | ALL() } else { m1 };
        assert(m == m2 & !n); // OBL C03.parse_mask.b_structure
        vf_bits_b(m1, p, n, m2, m, widen);
    }
    mask
}

pub proof fn vf_bits_b(m1: u32, p: u32, n: u32, m2: u32, m: u32, widen: bool)
    requires
        p & !0x200007ffu32 == 0, n & !0x200007ffu32 == 0,
        m2 == (if widen { m1 | 0x200007ffu32 } else { m1 }), m == m2 & !n,
        widen ==> p & 0x200007ffu32 == 0 && n & 0x200007ffu32 == 0,
    ensures
        m & n == 0, m & !0x200007ffu32 == m1 & !0x200007ffu32,
        !widen ==> m == m1 & !n,
        widen ==> 0x200007ffu32 & !m == 0,
{
    assert(
        (p & !0x200007ffu32 == 0 && n & !0x200007ffu32 == 0 && m2 == (if widen { m1 | 0x200007ffu32 } else { m1 }) && m == m2 & !n
         && (widen ==> p & 0x200007ffu32 == 0 && n & 0x200007ffu32 == 0))
        ==> (m & n == 0 && m & !0x200007ffu32 == m1 & !0x200007ffu32 && (!widen ==> m == m1 & !n) && (widen ==> 0x200007ffu32 & !m == 0))
    ) by (bit_vector);
}

proof fn vf_canary() ensures false {}

} // verus!
fn main() {}
