// Unit c13_redirect — C13.3: the redirect selection block of Blocker::check_parameterised (R7 block
// lift): among the matching non-exception redirect rules whose option is not cancelled by a matching
// redirect exception, pick one with the highest priority.
#![feature(pattern)]
#![feature(allocator_api)]
use vstd::prelude::*;
use vstd::string::*;
use vstd::slice::*;
use core::str::pattern::Pattern;

verus! {

//@INCLUDE shims/strings.rs
//@INCLUDE shims/filter_items.rs
//@INCLUDE shims/std_extra.rs

broadcast use {ascii_byte_boundaries, str_len_fits, str_ends_are_boundaries};

// T: memchr::memrchr — last occurrence of a byte
#[verifier::external_body]
fn find_char_reverse(needle: u8, haystack: &[u8]) -> (r: Option<usize>)
    ensures
        match r {
            Some(i) => i < haystack@.len() && haystack@[i as int] == needle && forall|j: int| i < j < haystack@.len() ==> haystack@[j] != needle,
            None => forall|j: int| 0 <= j < haystack@.len() ==> haystack@[j] != needle,
        }
{ unimplemented!() }

// T: <i32 as FromStr>::from_str — uninterpreted (priority suffixes "negative, equal, malformed")
pub uninterp spec fn parse_i32_spec(s: Seq<u8>) -> Option<i32>;

// R6: `priority_str.parse::<i32>()` (FromStr / ParseIntError are not declared to Verus)
#[verifier::external_body]
fn vf_parse_i32(s: &str) -> (r: Result<i32, ()>)
    ensures r is Ok <==> parse_i32_spec(s.spec_bytes()) is Some, r is Ok ==> r->Ok_0 == parse_i32_spec(s.spec_bytes())->Some_0
{ s.parse::<i32>().map_err(|_| ()) }

// R6 (plumbing): `opt.map(|(r, _)| r)` — tuple patterns in closures are outside the Verus subset
fn vf_first<A, B>(o: Option<(A, B)>) -> (r: Option<A>)
    ensures r == (match o { Some(p) => Some(p.0), None => None })
{
    match o { Some(p) => Some(p.0), None => None }
}

// "the resource named by the option": text before the last ':' when the text after it parses as a
// priority, else the whole option with priority 0
pub open spec fn last_colon(s: Seq<u8>, i: int) -> bool {
    0 <= i < s.len() && s[i] == 58u8 && forall|j: int| i < j < s.len() ==> s[j] != 58u8
}
pub open spec fn no_colon(s: Seq<u8>) -> bool { forall|j: int| 0 <= j < s.len() ==> s[j] != 58u8 }

pub open spec fn prio_of(s: Seq<u8>) -> int {
    if exists|i: int| last_colon(s, i) {
        let i = choose|i: int| last_colon(s, i);
        match parse_i32_spec(s.subrange(i + 1, s.len() as int)) { Some(p) => p as int, None => 0 }
    } else { 0 }
}
pub open spec fn res_of(s: Seq<u8>) -> Seq<u8> {
    if exists|i: int| last_colon(s, i) {
        let i = choose|i: int| last_colon(s, i);
        match parse_i32_spec(s.subrange(i + 1, s.len() as int)) { Some(p) => s.subrange(0, i), None => s }
    } else { s }
}

// "not cancelled by a matching redirect exception for the same resource": an exception names a resource (its option text without
// the priority suffix) and cancels every redirection to that resource, whatever its priority
pub open spec fn excepted(fs: Seq<&NetworkFilter>, res: Seq<u8>) -> bool {
    exists|k: int| 0 <= k < fs.len() && (#[trigger] fs[k]).mask.has(NetworkFilterMask::IS_EXCEPTION) && fs[k].modifier_option is Some
        && res_of(sb(fs[k].modifier_option->Some_0)) =~= res
}

pub open spec fn candidate(fs: Seq<&NetworkFilter>, i: int) -> bool {
    0 <= i < fs.len() && !fs[i].mask.has(NetworkFilterMask::IS_EXCEPTION) && fs[i].modifier_option is Some
        && !excepted(fs, res_of(sb(fs[i].modifier_option->Some_0)))
}

pub proof fn lemma_last_colon_unique(s: Seq<u8>, i: int)
    requires last_colon(s, i)
    ensures (exists|k: int| last_colon(s, k)), (choose|k: int| last_colon(s, k)) == i
{
    let k = choose|k: int| last_colon(s, k);
    if k < i { assert(s[i] != 58u8); } else if i < k { assert(s[k] != 58u8); }
}

pub proof fn lemma_no_colon(s: Seq<u8>)
    requires no_colon(s)
    ensures !(exists|k: int| last_colon(s, k))
{
    if exists|k: int| last_colon(s, k) { let k = choose|k: int| last_colon(s, k); assert(s[k] != 58u8); }
}

// R6: <[&str]>::contains(&&str) compares the texts
#[verifier::external_body]
fn vf_contains_text(v: &Vec<&str>, x: &str) -> (r: bool)
    ensures r == exists|i: int| 0 <= i < v@.len() && (#[trigger] v@[i]).spec_bytes() =~= x.spec_bytes()
{ v.contains(&x) }

pub open spec fn opt_of(fs: Seq<&NetworkFilter>, i: int) -> Seq<u8> { sb(fs[i].modifier_option->Some_0) }

// the running maximum over the candidates among fs[..n]
pub open spec fn best_so_far(fs: Seq<&NetworkFilter>, n: int, cur: Option<(&str, i32)>) -> bool {
    (cur is None <==> forall|i: int| 0 <= i < n ==> !candidate(fs, i))
    && (cur is Some ==> exists|i: int| 0 <= i < n && candidate(fs, i)
            && cur->Some_0.0.spec_bytes() =~= res_of(#[trigger] opt_of(fs, i)) && cur->Some_0.1 as int == prio_of(opt_of(fs, i))
            && forall|j: int| 0 <= j < n && candidate(fs, j) ==> prio_of(opt_of(fs, j)) <= prio_of(opt_of(fs, i)))
}

fn vf_redirect_block<'a>(redirect_filters: &Vec<&'a NetworkFilter>) -> (r: Option<&'a str>)
    ensures
        r is None <==> forall|i: int| !candidate(redirect_filters@, i), // OBL C13.select.none_iff_no_candidate
        r is Some ==> exists|i: int| candidate(redirect_filters@, i)
            && r->Some_0.spec_bytes() =~= res_of(sb((#[trigger] redirect_filters@[i]).modifier_option->Some_0))
            && forall|j: int| candidate(redirect_filters@, j) ==> prio_of(sb(redirect_filters@[j].modifier_option->Some_0)) <= prio_of(sb(redirect_filters@[i].modifier_option->Some_0)), // OBL C13.select.max_priority
{
//@EXTRACT src/blocker.rs :: impl Blocker :: fn check_parameterised
//@ SAFETY C13.select.safety
//@ FROM
        let redirect_resource = {
//@ ENDFROM
//@ TO
            resource_and_priority.map(|(r, _)| r)
        };
//@ ENDTO
//@ SUBST R8
    fn parse_redirect(redirect: &str) -> (&str, i32) {
//@ WITH
    fn parse_redirect(redirect: &str) -> (r: (&str, i32))
        ensures r.0.spec_bytes() =~= res_of(redirect.spec_bytes()) && r.1 as int == prio_of(redirect.spec_bytes()), // OBL C13.select.parse_priority
    {
        proof {
            let ob = redirect.spec_bytes();
            assert forall|i: int| last_colon(ob, i) implies (exists|k: int| last_colon(ob, k)) && (choose|k: int| last_colon(ob, k)) == i by { lemma_last_colon_unique(ob, i); }
            if no_colon(ob) { lemma_no_colon(ob); }
        }
//@ ENDSUBST
//@ SUBST R8#1
    for redirect_filter in
//@ WITH
    for redirect_filter in it:
//@ ENDSUBST
//@ SUBST R8#2
    for redirect_filter in
//@ WITH
    for redirect_filter in it:
//@ ENDSUBST
//@ SUBST R8
    let mut exceptions = vec![];
//@ WITH
    let mut exceptions: Vec<&str> = vec![];
//@ ENDSUBST
//@ SUBST R8
    let mut resource_and_priority = None;
//@ WITH
    let mut resource_and_priority: Option<(&str, i32)> = None;
//@ ENDSUBST
//@ SUBST R8*
    parse_redirect(redirect)
//@ WITH
    parse_redirect(redirect.as_str())
//@ ENDSUBST
//@ BEFORE
    let priority_str =
//@ AT
                    proof { assert(last_colon(redirect.spec_bytes(), idx as int)); }
//@ ENDBEFORE
//@ BEFORE
    if let Ok(priority) =
//@ AT
                    proof {
                        assert(priority_str.spec_bytes() =~= redirect.spec_bytes().subrange(idx as int + 1, redirect.spec_bytes().len() as int));
                        assert(resource.spec_bytes() =~= redirect.spec_bytes().subrange(0, idx as int));
                    }
//@ ENDBEFORE
//@ LOOP 1
                invariant
                    it.seq().len() == redirect_filters@.len(),
                    forall|i: int| 0 <= i < redirect_filters@.len() ==> *#[trigger] it.seq()[i] == redirect_filters@[i],
                    forall|x: int| 0 <= x < exceptions@.len() ==> excepted(redirect_filters@, (#[trigger] exceptions@[x]).spec_bytes()),
                    forall|k: int| 0 <= k < it.index() && (#[trigger] redirect_filters@[k]).mask.has(NetworkFilterMask::IS_EXCEPTION) && redirect_filters@[k].modifier_option is Some
                        ==> exists|x: int| 0 <= x < exceptions@.len() && (#[trigger] exceptions@[x]).spec_bytes() =~= res_of(sb(redirect_filters@[k].modifier_option->Some_0)),
//@ ENDLOOP
//@ LOOPSTART 1
                let ghost k0 = it.index() as int;
                let ghost ex0 = exceptions@;
                proof { assert(*redirect_filter == redirect_filters@[k0]); }
//@ ENDLOOPSTART
//@ LOOPEND 1
                proof {
                    assert forall|x: int| 0 <= x < exceptions@.len() implies excepted(redirect_filters@, (#[trigger] exceptions@[x]).spec_bytes()) by {
                        if x < ex0.len() { assert(exceptions@[x] == ex0[x]); } else {
                            assert(redirect_filters@[k0].mask.has(NetworkFilterMask::IS_EXCEPTION) && redirect_filters@[k0].modifier_option is Some);
                            assert(res_of(sb(redirect_filters@[k0].modifier_option->Some_0)) =~= exceptions@[x].spec_bytes());
                        }
                    }
                    assert forall|k: int| 0 <= k < k0 + 1 && (#[trigger] redirect_filters@[k]).mask.has(NetworkFilterMask::IS_EXCEPTION) && redirect_filters@[k].modifier_option is Some
                        implies exists|x: int| 0 <= x < exceptions@.len() && (#[trigger] exceptions@[x]).spec_bytes() =~= res_of(sb(redirect_filters@[k].modifier_option->Some_0)) by {
                        if k < k0 {
                            let x = choose|x: int| 0 <= x < ex0.len() && (#[trigger] ex0[x]).spec_bytes() =~= res_of(sb(redirect_filters@[k].modifier_option->Some_0));
                            assert(exceptions@[x] == ex0[x]);
                        } else {
                            assert(exceptions@[exceptions@.len() - 1].spec_bytes() =~= res_of(sb(redirect_filters@[k].modifier_option->Some_0)));
                        }
                    }
                }
//@ ENDLOOPEND
//@ LOOP 2
                invariant
                    it.seq().len() == redirect_filters@.len(),
                    forall|i: int| 0 <= i < redirect_filters@.len() ==> *#[trigger] it.seq()[i] == redirect_filters@[i],
                    forall|res: Seq<u8>| (exists|x: int| 0 <= x < exceptions@.len() && (#[trigger] exceptions@[x]).spec_bytes() =~= res) <==> excepted(redirect_filters@, res),
                    best_so_far(redirect_filters@, it.index() as int, resource_and_priority),
//@ ENDLOOP
//@ LOOPSTART 2
                let ghost k0 = it.index() as int;
                let ghost cur0 = resource_and_priority;
                proof { assert(*redirect_filter == redirect_filters@[k0]); }
//@ ENDLOOPSTART
//@ BEFORE
    if let Some((_, p1)) = resource_and_priority
//@ AT
                            proof {
                                let ob = opt_of(redirect_filters@, k0);
                                assert(ob == sb(*redirect));
                                assert(resource.spec_bytes() =~= res_of(ob) && priority as int == prio_of(ob));
                                assert(candidate(redirect_filters@, k0));
                            }
//@ ENDBEFORE
//@ LOOPEND 2
                proof {
                    let fs = redirect_filters@;
                    if !candidate(fs, k0) {
                        assert(resource_and_priority == cur0);
                    }
                    assert(best_so_far(fs, k0 + 1, resource_and_priority)); // OBL C13.select.max_priority
                }
//@ ENDLOOPEND
//@ SUBST R6
    exceptions.contains(&resource)
//@ WITH
    vf_contains_text(&exceptions, resource)
//@ ENDSUBST
//@ SUBST R6
    priority_str.parse::<i32>()
//@ WITH
    vf_parse_i32(priority_str)
//@ ENDSUBST
//@ SUBST R6
    resource_and_priority.map(|(r, _)| r)
//@ WITH
    vf_first(resource_and_priority)
//@ ENDSUBST
//@END
    redirect_resource
}

proof fn vf_canary() ensures false {}

} // verus!
fn main() {}
