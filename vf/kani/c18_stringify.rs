#[cfg(any(kani, vf_replay))]
#[allow(dead_code)]
mod vf_kani_c18_stringify {
    use super::*;
    use crate::vf_src::*;

    fn hexval(b: u8) -> Option<u8> {
        match b { b'0'..=b'9' => Some(b - b'0'), b'a'..=b'f' => Some(b - b'a' + 10), b'A'..=b'F' => Some(b - b'A' + 10), _ => None }
    }

    /// independent reader of a JSON string literal (RFC 8259 section 7), restricted to code points < 0x100
    /// in \u escapes (all the encoder ever emits); returns the decoded bytes
    fn json_unquote(lit: &[u8], out: &mut [u8; 8]) -> Option<usize> {
        let n = lit.len();
        if n < 2 || lit[0] != b'"' || lit[n - 1] != b'"' { return None; }
        let mut i = 1;
        let mut o = 0;
        while i < n - 1 {
            let c = lit[i];
            if c == b'"' || c < 0x20 { return None; } // raw quote / control character inside the literal
            if c == b'\\' {
                if i + 1 >= n - 1 { return None; }
                let e = lit[i + 1];
                let d = match e {
                    b'"' => b'"', b'\\' => b'\\', b'/' => b'/', b'b' => 8, b'f' => 12, b'n' => 10, b'r' => 13, b't' => 9,
                    b'u' => {
                        if i + 5 >= n - 1 + 0 && i + 5 > n - 2 { return None; }
                        let (a, b, c2, d2) = (hexval(lit[i + 2])?, hexval(lit[i + 3])?, hexval(lit[i + 4])?, hexval(lit[i + 5])?);
                        if a != 0 || b != 0 { return None; }
                        i += 4;
                        c2 * 16 + d2
                    }
                    _ => return None,
                };
                if o >= 8 { return None; }
                out[o] = d; o += 1; i += 2;
            } else {
                if o >= 8 { return None; }
                out[o] = c; o += 1; i += 1;
            }
        }
        Some(o)
    }

    // C18.stringify.roundtrip [B]: every string of 1..=2 ASCII bytes (every control character, quote,
    // backslash in every neighbouring context): the emitted literal parses back to exactly the argument.
    pub fn c18_stringify_roundtrip_body<G: Src>(g: &mut G) {
        let n = 1 + g.usize_below(2);
        let a = [g.u8() & 0x7f, g.u8() & 0x7f];
        let arg = std::str::from_utf8(&a[..n]).unwrap();
        let lit = stringify_arg::<true>(arg);
        let mut buf = [0u8; 8];
        let got = json_unquote(lit.as_bytes(), &mut buf);
        assert!(got == Some(n) && buf[..n] == a[..n], "C18.stringify: argument bytes {:?} were emitted as {:?}, which does not parse back to the argument", &a[..n], lit);
    }
    #[cfg(kani)]
    #[kani::proof]
    #[kani::unwind(16)]
    fn c18_stringify_roundtrip() {
        c18_stringify_roundtrip_body(&mut Sym)
    }
}
