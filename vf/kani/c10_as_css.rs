#[cfg(any(kani, vf_replay))]
#[allow(dead_code)]
mod vf_kani_c10_as_css {
    use super::*;
    use crate::filters::cosmetic::{CosmeticFilterAction, CosmeticFilterOperator};
    use crate::vf_src::*;

    fn op<G: Src>(g: &mut G) -> CosmeticFilterOperator {
        if g.bool() { CosmeticFilterOperator::CssSelector(String::new()) } else { CosmeticFilterOperator::HasText(String::new()) }
    }

    // C10.as_css.total [B]: "when it returns success the resulting engine answers queries [and serializes] without panicking" — a decoded
    // procedural filter may hold ANY operator list, also an empty one; asking for its CSS view must not panic and is Some only for a
    // single plain selector.  Lists of 0, 1 and 2 operators x {css, other} x {no action, style, remove}.
    pub fn c10_as_css_total_body<G: Src>(g: &mut G) {
        let selector: Vec<CosmeticFilterOperator> = match g.usize_below(3) {
            0 => vec![],
            1 => vec![op(g)],
            _ => vec![op(g), op(g)],
        };
        let action = match g.usize_below(3) {
            0 => None,
            1 => Some(CosmeticFilterAction::Style(String::new())),
            _ => Some(CosmeticFilterAction::Remove),
        };
        let f = ProceduralOrActionFilter { selector, action };
        let r = f.as_css();
        assert!(r.is_none() || (f.selector.len() == 1 && matches!(f.selector[0], CosmeticFilterOperator::CssSelector(_))),
                "C10.as_css.total: a CSS view exists only for a single plain selector");
        #[cfg(kani)]
        {
            kani::cover!(r.is_some());
            kani::cover!(r.is_none());
        }
    }
    #[cfg(kani)]
    #[kani::proof]
    #[kani::unwind(4)]
    fn c10_as_css_total() { c10_as_css_total_body(&mut Sym) }
}
