#[cfg(any(kani, vf_replay))]
#[allow(dead_code)]
mod vf_kani_c04_ids {
    use super::*;
    use crate::vf_src::*;

    fn ascii2<'a, G: Src>(g: &mut G, buf: &'a mut [u8; 2]) -> Option<&'a str> {
        let n = g.usize_below(4); // 3 = None
        buf[0] = g.u8() & 0x7f;
        buf[1] = g.u8() & 0x7f;
        if n == 3 { None } else { Some(std::str::from_utf8(&buf[..n]).unwrap()) }
    }
    fn hashes2<G: Src>(g: &mut G) -> Option<Vec<Hash>> {
        let n = g.usize_below(4); // 3 = None
        let a = g.u64();
        let b = g.u64();
        match n { 0 => Some(vec![]), 1 => Some(vec![a]), 2 => Some(vec![a, b]), _ => None }
    }
    fn feed(mut h: Hash, xs: &[Hash]) -> Hash {
        let mut i = 0;
        while i < xs.len() { h = h.wrapping_mul(33) ^ xs[i]; i += 1; }
        h
    }
    fn feed_str(h: Hash, s: Option<&str>) -> Hash {
        match s {
            None => h,
            Some(s) => { let b = s.as_bytes(); let mut h = h; let mut i = 0; while i < b.len() { h = h.wrapping_mul(33) ^ (b[i] as Hash); i += 1; } h }
        }
    }

    // C04.id.twin [B]: every component (modifier, mask, included domains, excluded domains, pattern,
    // hostname) feeds the id, in the canonical order; strings <= 2 ASCII chars, lists <= 2 hashes.
    pub fn c04_id_twin_body<G: Src>(g: &mut G) {
        let bits = g.u32();
        let (mut b1, mut b2, mut b3) = ([0u8; 2], [0u8; 2], [0u8; 2]);
        let modifier = ascii2(g, &mut b1);
        let filter = ascii2(g, &mut b2);
        let hostname = ascii2(g, &mut b3);
        let dom = hashes2(g);
        let ndom = hashes2(g);
        let got = compute_filter_id(modifier, NetworkFilterMask::from_bits_retain(bits), filter, hostname, dom.as_ref(), ndom.as_ref());
        let mut h: Hash = (5408 * 33) ^ (bits as Hash);
        h = feed_str(h, modifier);
        h = feed(h, dom.as_deref().unwrap_or(&[]));
        h = feed(h, ndom.as_deref().unwrap_or(&[]));
        h = feed_str(h, filter);
        h = feed_str(h, hostname);
        assert!(got == h, "C04.id: modifier={modifier:?} mask={bits:#x} filter={filter:?} hostname={hostname:?} domains={dom:?} not_domains={ndom:?}: id {got:#x}, reference {h:#x}");
    }
    #[cfg(kani)]
    #[kani::proof]
    #[kani::unwind(4)]
    fn c04_id_twin() {
        c04_id_twin_body(&mut Sym)
    }
}
