#[cfg(any(kani, vf_replay))]
#[allow(dead_code)]
mod vf_kani_c03_request {
    use super::*;
    use crate::vf_src::*;

    // the documented request-type aliases (README / webRequest names) and what they denote
    const ALIASES: [(&str, RequestType); 24] = [
        ("beacon", RequestType::Ping), ("csp_report", RequestType::Csp), ("document", RequestType::Document),
        ("main_frame", RequestType::Document), ("font", RequestType::Font), ("image", RequestType::Image),
        ("imageset", RequestType::Image), ("media", RequestType::Media), ("object", RequestType::Object),
        ("object_subrequest", RequestType::Object), ("ping", RequestType::Ping), ("script", RequestType::Script),
        ("stylesheet", RequestType::Stylesheet), ("sub_frame", RequestType::Subdocument),
        ("subdocument", RequestType::Subdocument), ("websocket", RequestType::Websocket), ("xhr", RequestType::Xmlhttprequest),
        ("xmlhttprequest", RequestType::Xmlhttprequest), ("other", RequestType::Other), ("speculative", RequestType::Other),
        ("web_manifest", RequestType::Other), ("xslt", RequestType::Other), ("", RequestType::Other), ("bogus", RequestType::Other),
    ];
    const SCHEMES: [&str; 9] = ["", "http", "https", "ws", "wss", "ftp", "data", "file", "HTTP"];

    // C03.request.classify [C over the tables]: every (alias, scheme, party) combination
    pub fn c03_request_classify_body<G: Src>(g: &mut G) {
        let ai = g.usize_below(24);
        let si = g.usize_below(9);
        let third = g.bool();
        let (alias, ref want_type) = ALIASES[ai];
        let scheme = SCHEMES[si];
        let r = Request::from_detailed_parameters(alias, "", scheme, "", "", third, String::new());
        // reference, from the statement: websocket schemes force the websocket type; only http, https,
        // ws and wss requests are eligible for matching ("" = no scheme found: treated as https)
        let is_ws = scheme == "ws" || scheme == "wss";
        let want_supported = scheme.is_empty() || scheme == "http" || scheme == "https" || is_ws;
        assert!(r.is_supported == want_supported, "C03.request.classify: scheme {scheme:?}: is_supported={}", r.is_supported);
        assert!(r.is_http == (scheme == "http"));
        assert!(r.is_https == (scheme == "https" || scheme.is_empty()));
        if is_ws {
            assert!(r.request_type == RequestType::Websocket, "C03.request.classify: ws scheme must force Websocket");
        } else {
            assert!(r.request_type == *want_type, "C03.request.classify: alias {alias:?} -> {:?}", r.request_type);
        }
        assert!(r.is_third_party == third);
        assert!(r.source_hostname_hashes.is_none());
    }
    #[cfg(kani)]
    #[kani::proof]
    #[kani::unwind(20)]
    fn c03_request_classify() {
        c03_request_classify_body(&mut Sym)
    }
}
