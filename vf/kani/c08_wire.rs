#[cfg(any(kani, vf_replay))]
#[allow(dead_code)]
mod vf_kani_c08_wire {
    use super::*;
    use crate::filters::network::{FilterPart, NetworkFilterMask};
    use crate::vf_src::*;

    fn opt_str<G: Src>(g: &mut G, a: &str, b: &str) -> Option<String> {
        match g.usize_below(3) { 0 => None, 1 => Some(String::from(a)), _ => Some(String::from(b)) }
    }
    fn opt_vec<G: Src>(g: &mut G) -> Option<Vec<Hash>> {
        match g.usize_below(3) { 0 => None, 1 => Some(vec![g.u64()]), _ => Some(vec![g.u64(), g.u64()]) }
    }
    fn opt_u64<G: Src>(g: &mut G) -> Option<Hash> { if g.bool() { Some(g.u64()) } else { None } }

    // the serde / rmp step: a struct is written as the array of its fields and read back position by
    // position (T: rmp-serde); field i of the Serialize struct lands in field i of the Deserialize struct
    fn wire(s: &NetworkFilterV0SerializeFmt) -> NetworkFilterV0DeserializeFmt {
        NetworkFilterV0DeserializeFmt {
            mask: *s.mask,
            filter: s.filter.clone(),
            opt_domains: s.opt_domains.clone(),
            opt_not_domains: s.opt_not_domains.clone(),
            redirect: s.redirect.clone(),
            hostname: s.hostname.clone(),
            csp: s.csp.clone(),
            _bug: s._bug,
            tag: s.tag.clone(),
            raw_line: s.raw_line.clone(),
            id: *s.id,
            opt_domains_union: *s.opt_domains_union,
            opt_not_domains_union: *s.opt_not_domains_union,
        }
    }

    fn same_part(a: &FilterPart, b: &FilterPart) -> bool {
        match (a, b) {
            (FilterPart::Empty, FilterPart::Empty) => true,
            (FilterPart::Simple(x), FilterPart::Simple(y)) => x == y,
            (FilterPart::AnyOf(x), FilterPart::AnyOf(y)) => x == y,
            _ => false,
        }
    }

    fn blank(bits: u32, id: Hash) -> NetworkFilter {
        NetworkFilter {
            mask: NetworkFilterMask::from_bits_retain(bits), filter: FilterPart::Empty, opt_domains: None, opt_not_domains: None,
            modifier_option: None, hostname: None, tag: None, raw_line: None, id, opt_domains_union: None, opt_not_domains_union: None,
        }
    }
    fn roundtrip(f: &NetworkFilter) -> NetworkFilter {
        let s = NetworkFilterV0SerializeFmt::from(f);
        NetworkFilter::from(wire(&s))
    }
    fn check_all_but_modifier(r: &NetworkFilter, f: &NetworkFilter) {
        assert!(r.mask.bits() == f.mask.bits(), "C08.wire: mask");
        assert!(same_part(&r.filter, &f.filter), "C08.wire: pattern");
        assert!(r.opt_domains == f.opt_domains, "C08.wire: opt_domains");
        assert!(r.opt_not_domains == f.opt_not_domains, "C08.wire: opt_not_domains");
        assert!(r.hostname == f.hostname, "C08.wire: hostname");
        assert!(r.tag == f.tag, "C08.wire: tag");
        assert!(r.raw_line == f.raw_line, "C08.wire: raw_line");
        assert!(r.id == f.id, "C08.wire: id");
        assert!(r.opt_domains_union == f.opt_domains_union, "C08.wire: opt_domains_union");
        assert!(r.opt_not_domains_union == f.opt_not_domains_union, "C08.wire: opt_not_domains_union");
    }

    // C08.wire.scalars [C]: mask, id and both domain unions fully symbolic (loop-free)
    pub fn c08_wire_scalars_body<G: Src>(g: &mut G) {
        let mut f = blank(g.u32(), g.u64());
        f.opt_domains_union = opt_u64(g);
        f.opt_not_domains_union = opt_u64(g);
        let r = roundtrip(&f);
        check_all_but_modifier(&r, &f);
        assert!(r.modifier_option.is_none());
    }
    #[cfg(kani)]
    #[kani::proof]
    fn c08_wire_scalars() { c08_wire_scalars_body(&mut Sym) }

    // C08.wire.strings [B]: every optional text field present / absent, pattern in its three shapes,
    // modifier kind bits symbolic; texts are fixed short literals
    pub fn c08_wire_strings_body<G: Src>(g: &mut G) {
        let kind = g.u8() & 7;
        let bits = (if kind & 1 != 0 { 1u32 << 26 } else { 0 }) | (if kind & 2 != 0 { 1 << 23 } else { 0 }) | (if kind & 4 != 0 { 1 << 15 } else { 0 });
        let mut f = blank(bits, 7);
        f.filter = match g.usize_below(3) { 0 => FilterPart::Empty, 1 => FilterPart::Simple(String::from("ab")), _ => FilterPart::AnyOf(vec![String::from("a"), String::from("b")]) };
        if g.bool() { f.modifier_option = Some(String::from("x:5")); }
        if g.bool() { f.hostname = Some(String::from("h.c")); }
        if g.bool() { f.tag = Some(String::from("t")); }
        if g.bool() { f.raw_line = Some(Box::new(String::from("||h"))); }
        // rule well-formedness (what the parser establishes): a modifier value belongs to a modifier kind
        g.assume(f.modifier_option.is_none() || kind != 0);
        let r = roundtrip(&f);
        check_all_but_modifier(&r, &f);
        if kind & 3 != 0 {
            assert!(r.modifier_option == f.modifier_option, "C08.wire: modifier_option of a redirect / csp rule");
        }
    }
    #[cfg(kani)]
    #[kani::proof]
    #[kani::unwind(8)]
    fn c08_wire_strings() { c08_wire_strings_body(&mut Sym) }

    // C08.wire.domains [B]: domain lists absent / 1 / 2 entries
    pub fn c08_wire_domains_body<G: Src>(g: &mut G) {
        let mut f = blank(0, 9);
        f.opt_domains = opt_vec(g);
        f.opt_not_domains = opt_vec(g);
        let r = roundtrip(&f);
        check_all_but_modifier(&r, &f);
    }
    #[cfg(kani)]
    #[kani::proof]
    #[kani::unwind(8)]
    fn c08_wire_domains() { c08_wire_domains_body(&mut Sym) }

    // C08.wire.removeparam: the modifier value of a removeparam rule survives the round trip
    pub fn c08_wire_removeparam_body<G: Src>(g: &mut G) {
        let bits = g.u32() | (1 << 15);
        g.assume(bits & ((1 << 26) | (1 << 23)) == 0);
        let f = NetworkFilter {
            mask: NetworkFilterMask::from_bits_retain(bits),
            filter: FilterPart::Empty,
            opt_domains: None, opt_not_domains: None,
            modifier_option: Some(String::from("utm")),
            hostname: None, tag: None, raw_line: None, id: g.u64(), opt_domains_union: None, opt_not_domains_union: None,
        };
        let s = NetworkFilterV0SerializeFmt::from(&f);
        let r = NetworkFilter::from(wire(&s));
        assert!(r.modifier_option == f.modifier_option, "C08.wire: modifier_option of a removeparam rule is lost");
    }
    #[cfg(kani)]
    #[kani::proof]
    #[kani::unwind(12)]
    fn c08_wire_removeparam() {
        c08_wire_removeparam_body(&mut Sym)
    }
}
